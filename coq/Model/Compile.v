(** Model of core/spec.go (as repaired by the D9 fix: every pattern is parsed
    exactly once, by ParsePatterns, which then records the native form in
    PatternSyntax) and of core/util.go Canonicalize, core/actions.go
    ActionSource.Compile.  One definition per Go function:

      DefaultPatternParser   [default_pattern_parser]
      Canonicalize           [canonicalize]
      Spec.ParsePatterns     [parse_patterns]
      ActionSource.Compile   [compile_source]
      Spec.Compile           [compile]

    A Go [*core.Spec] is at the same time the *document* that was loaded
    (sources, pattern texts, settings) and the *machine* Step/Walk run
    (compiled actions, native patterns): Compile rewrites it in place.  The
    model therefore has one type [adoc] for the Spec value, [compile] maps an
    [adoc] to the rewritten [adoc], and [spec_of] is the projection on what
    core/step.go reads (the [spec] type of Model/Step.v).

    A branch pattern is a Go [interface{}]: [JNull] is the nil interface (no
    pattern), [JStr s] is a Go string - under [patternSyntax: json] every Go
    string *is* the JSON text of the pattern.  Decoding a JSON or YAML
    document into the Spec structure is outside the model (trusted, validated
    by the harness); the model starts from the decoded value. *)
From Sheens Require Export Model.Action Model.JsonText.

(** * Canonicalize: json.Marshal followed by json.Unmarshal.  On plain data
    the only visible effect in the model is on the *representation* of
    objects: a Go map has no order and unique keys, which the model renders
    as a key-sorted list in which the last of several equal keys wins. *)
Fixpoint canonicalize (j : json) : json :=
  match j with
  | JArr l => JArr (map canonicalize l)
  | JObj kvs => JObj (of_list (map (fun kv => (fst kv, canonicalize (snd kv))) kvs))
  | _ => j
  end.

(** * Sources and interpreters *)

(** the source of an action or guard: a program of the action language
    (rendered as ECMAScript text by the harness) or text that the
    interpreter cannot compile *)
Inductive src : Type := SProg (p : prog) | SBad.

Record asource : Type := mk_asource { as_interp : string; as_src : src }.

(** Interpreters.Find, then Interpreter.Compile *)
Definition interps := string -> option (src -> option act).

Inductive cerr : Type :=
| CPattern          (* the pattern parser or Canonicalize failed (unknown syntax, bad text) *)
| CInterp           (* InterpreterNotFound *)
| CSource           (* the interpreter rejected the source *)
| CBranchType       (* unknown branching type *)
| CNullBranch.      (* a null branch (D5) *)

Definition cres (A : Type) : Type := (cerr + A)%type.
Definition cbind {A B : Type} (x : cres A) (f : A -> cres B) : cres B :=
  match x with inl e => inl e | inr a => f a end.

Fixpoint mapM {A B : Type} (f : A -> cres B) (l : list A) : cres (list B) :=
  match l with
  | [] => inr []
  | x :: r =>
      match f x with
      | inl e => inl e
      | inr y => match mapM f r with inl e => inl e | inr ys => inr (y :: ys) end
      end
  end.

(** * The Spec value *)
Record dbranch : Type := mk_dbranch {
  db_pattern : json;                  (* Pattern (interface{}): JNull = nil *)
  db_guard : option act;              (* Guard: compiled, never serialised *)
  db_guard_src : option asource;      (* GuardSource *)
  db_target : string
}.
Record dbranching : Type := mk_dbranching {
  dg_type : string;
  dg_branches : list (option dbranch) (* None = a null branch *)
}.
Record dnode : Type := mk_dnode {
  dn_action : option act;             (* Action: compiled, never serialised *)
  dn_source : option asource;         (* ActionSource *)
  dn_branching : option dbranching
}.
Record adoc : Type := mk_adoc {
  ad_nodes : list (string * option dnode);   (* None = a null node *)
  ad_syntax : string;                 (* PatternSyntax *)
  ad_error_node : string;             (* ErrorNode *)
  ad_no_auto_error : bool;            (* NoAutoErrorNode *)
  ad_err_branches : bool;             (* ActionErrorBranches *)
  ad_action_err_node : string;        (* ActionErrorNode *)
  ad_boot : option act;
  ad_boot_src : option asource;
  ad_toob : option act;
  ad_toob_src : option asource;
  ad_compiled : bool                  (* the unexported flag Step tests *)
}.

Definition empty_node : dnode := mk_dnode None None None.

(** * DefaultPatternParser *)
Definition default_pattern_parser (syntax : string) (p : json) : option json :=
  if String.eqb syntax "none" || String.eqb syntax "" then Some p
  else if String.eqb syntax "json" then
         match p with
         | JStr s => parse s
         | _ => Some p
         end
       else None.

(** one pattern: the parser, then Canonicalize *)
Definition parse_pattern (syntax : string) (p : json) : cres json :=
  match default_pattern_parser syntax p with
  | Some x => inr (canonicalize x)
  | None => inl CPattern
  end.

(** * Traversals of the patterns of a Spec value *)
Section Patterns.
  Variable f : json -> cres json.
  Definition tr_branch (ob : option dbranch) : cres (option dbranch) :=
    match ob with
    | None => inr None                                  (* null branches are skipped here *)
    | Some b =>
        cbind (f (db_pattern b)) (fun p =>
        inr (Some (mk_dbranch p (db_guard b) (db_guard_src b) (db_target b))))
    end.
  Definition tr_node (kn : string * option dnode) : cres (string * option dnode) :=
    match snd kn with
    | Some n =>
        match dn_branching n with
        | Some bg =>
            cbind (mapM tr_branch (dg_branches bg)) (fun brs =>
            inr (fst kn, Some (mk_dnode (dn_action n) (dn_source n)
                                        (Some (mk_dbranching (dg_type bg) brs)))))
        | None => inr kn
        end
    | None => inr kn
    end.
  Definition tr_nodes (ns : list (string * option dnode)) : cres (list (string * option dnode)) :=
    mapM tr_node ns.
End Patterns.

Definition set_nodes (a : adoc) (ns : list (string * option dnode)) : adoc :=
  mk_adoc ns (ad_syntax a) (ad_error_node a) (ad_no_auto_error a) (ad_err_branches a)
          (ad_action_err_node a) (ad_boot a) (ad_boot_src a) (ad_toob a) (ad_toob_src a)
          (ad_compiled a).
Definition with_syntax (s : string) (a : adoc) : adoc :=
  mk_adoc (ad_nodes a) s (ad_error_node a) (ad_no_auto_error a) (ad_err_branches a)
          (ad_action_err_node a) (ad_boot a) (ad_boot_src a) (ad_toob a) (ad_toob_src a)
          (ad_compiled a).

(** * Spec.ParsePatterns: all patterns or nothing; afterwards the patterns
    are in native form and PatternSyntax says so *)
Definition parse_patterns (a : adoc) : cres adoc :=
  cbind (tr_nodes (parse_pattern (ad_syntax a)) (ad_nodes a)) (fun ns =>
  inr (with_syntax (if String.eqb (ad_syntax a) "" then "" else "none") (set_nodes a ns))).

(** * ActionSource.Compile *)
Definition compile_source (I : interps) (s : asource) : cres act :=
  match I (as_interp s) with
  | None => inl CInterp
  | Some c => match c (as_src s) with None => inl CSource | Some a => inr a end
  end.

Definition is_none {A : Type} (o : option A) : bool := match o with None => true | Some _ => false end.
Definition is_some {A : Type} (o : option A) : bool := negb (is_none o).

(** "if X.Source != nil && (force || X == nil) { X = compile(X.Source) }" *)
Definition compile_opt (I : interps) (force : bool) (s : option asource) (cur : option act)
  : cres (option act) :=
  match s with
  | Some so =>
      if force || is_none cur then cbind (compile_source I so) (fun a => inr (Some a))
      else inr cur
  | None => inr cur
  end.

(** * Spec.Compile *)
Definition known_branch_type (t : string) : cres string :=
  if String.eqb t "" then inr default_branch_type
  else if String.eqb t "message" || String.eqb t "bindings" then inr t
  else inl CBranchType.

Definition compile_branch (I : interps) (force : bool) (ob : option dbranch) : cres (option dbranch) :=
  match ob with
  | None => inl CNullBranch
  | Some b =>
      cbind (compile_opt I force (db_guard_src b) (db_guard b)) (fun g =>
      inr (Some (mk_dbranch (db_pattern b) g (db_guard_src b) (db_target b))))
  end.

Definition compile_node (I : interps) (force : bool) (kn : string * option dnode)
  : cres (string * option dnode) :=
  let n := match snd kn with Some n => n | None => empty_node end in
  cbind (compile_opt I force (dn_source n) (dn_action n)) (fun action =>
  match dn_branching n with
  | None => inr (fst kn, Some (mk_dnode action (dn_source n) None))
  | Some bg =>
      cbind (known_branch_type (dg_type bg)) (fun typ =>
      cbind (mapM (compile_branch I force) (dg_branches bg)) (fun brs =>
      inr (fst kn, Some (mk_dnode action (dn_source n) (Some (mk_dbranching typ brs))))))
  end).

Fixpoint has_node (name : string) (ns : list (string * option dnode)) : bool :=
  match ns with
  | [] => false
  | (k, _) :: r => String.eqb name k || has_node name r
  end.

(** a Go map has no order: the model keeps the nodes sorted by name *)
Fixpoint insert_node (name : string) (n : option dnode) (ns : list (string * option dnode))
  : list (string * option dnode) :=
  match ns with
  | [] => [(name, n)]
  | (k, m) :: r =>
      match String.compare name k with
      | Eq => (name, n) :: r
      | Lt => (name, n) :: ns
      | Gt => (k, m) :: insert_node name n r
      end
  end.

Definition compile (I : interps) (force : bool) (a : adoc) : cres adoc :=
  cbind (parse_patterns a) (fun a1 =>
  cbind (compile_opt I force (ad_boot_src a1) (ad_boot a1)) (fun boot =>
  cbind (compile_opt I force (ad_toob_src a1) (ad_toob a1)) (fun toob =>
  let en := if String.eqb (ad_error_node a1) "" then default_error_node else ad_error_node a1 in
  let ns := if has_node en (ad_nodes a1) || ad_no_auto_error a1 then ad_nodes a1
            else insert_node en (Some empty_node) (ad_nodes a1) in
  cbind (mapM (compile_node I force) ns) (fun ns' =>
  inr (mk_adoc ns' (ad_syntax a1) en (ad_no_auto_error a1) (ad_err_branches a1)
               (ad_action_err_node a1) boot (ad_boot_src a1) toob (ad_toob_src a1) true))))).

(** * What Step and Walk read *)
Definition pattern_of (p : json) : option json :=
  match p with JNull => None | _ => Some p end.
Definition branch_of (ob : option dbranch) : list (branch act) :=
  match ob with
  | Some b => [mk_branch (pattern_of (db_pattern b)) (db_guard b) (db_target b)]
  | None => []
  end.
Definition branching_of (bg : dbranching) : branching act :=
  mk_branching (dg_type bg) (flat_map branch_of (dg_branches bg)).
Definition node_of (kn : string * option dnode) : string * node act :=
  (fst kn,
   match snd kn with
   | Some n => mk_node (dn_action n) (is_some (dn_source n) && is_none (dn_action n))
                       (option_map branching_of (dn_branching n))
   | None => mk_node None false None
   end).
Definition spec_of (a : adoc) : aspec :=
  mk_spec (map node_of (ad_nodes a)) (ad_err_branches a) (ad_action_err_node a) (ad_compiled a).

(** * Representations of one specification *)

(** every pattern rewritten by [g] *)
Definition map_patterns (g : json -> json) (a : adoc) : adoc :=
  match tr_nodes (fun p => inr (g p)) (ad_nodes a) with
  | inr ns => set_nodes a ns
  | inl _ => a                       (* never: the traversal cannot fail *)
  end.

(** a pattern written as JSON text when [sel] says so (a Go string pattern
    has no other way of being written under the json syntax) *)
Definition textify (sel : json -> bool) (p : json) : json :=
  if sel p then JStr (print p) else p.
Definition with_text (sel : json -> bool) (a : adoc) : adoc :=
  with_syntax "json" (map_patterns (textify sel) a).
Definition with_inline (a : adoc) : adoc := with_syntax "none" a.

(** what json.Marshal / yaml.Marshal keep of a Spec value: everything but
    the compiled actions and the compiled flag *)
Definition strip_branch (ob : option dbranch) : option dbranch :=
  option_map (fun b => mk_dbranch (db_pattern b) None (db_guard_src b) (db_target b)) ob.
Definition strip_node (kn : string * option dnode) : string * option dnode :=
  (fst kn,
   option_map (fun n => mk_dnode None (dn_source n)
                          (option_map (fun bg => mk_dbranching (dg_type bg) (map strip_branch (dg_branches bg)))
                                      (dn_branching n)))
              (snd kn)).
Definition reload (a : adoc) : adoc :=
  mk_adoc (map strip_node (ad_nodes a)) (ad_syntax a) (ad_error_node a) (ad_no_auto_error a)
          (ad_err_branches a) (ad_action_err_node a) None (ad_boot_src a) None (ad_toob_src a) false.

(** * The interpreters of a host: the names it knows, all bound to the
    ECMAScript interpreter *)
Definition ecma (s : src) : option act :=
  match s with SProg p => Some (Js p) | SBad => None end.
Definition host_interps (known : list string) : interps :=
  fun name => if existsb (String.eqb name) known then Some ecma else None.

(** * The behaviour of a Spec value *)
Definition doc_walk (a : adoc) (bp : state -> bool) (limit : nat) (st : state) (msgs : list json)
  : walked * bool :=
  awalk (spec_of a) bp limit st msgs.
Definition doc_step (a : adoc) (st : state) (pending : option json) : step_out :=
  astep (spec_of a) st pending.

(** * The definition before the D9 repair: Compile parsed every pattern a
    second time in its node loop, and nothing recorded that the patterns
    were already native.  Kept for the regression witnesses. *)
Definition parse_patterns_prefix (a : adoc) : cres adoc :=
  cbind (tr_nodes (parse_pattern (ad_syntax a)) (ad_nodes a)) (fun ns => inr (set_nodes a ns)).
Definition compile_prefix (I : interps) (force : bool) (a : adoc) : cres adoc :=
  cbind (parse_patterns_prefix a) (fun a0 =>
  cbind (parse_patterns_prefix a0) (fun a1 =>
  cbind (compile_opt I force (ad_boot_src a1) (ad_boot a1)) (fun boot =>
  cbind (compile_opt I force (ad_toob_src a1) (ad_toob a1)) (fun toob =>
  let en := if String.eqb (ad_error_node a1) "" then default_error_node else ad_error_node a1 in
  let ns := if has_node en (ad_nodes a1) || ad_no_auto_error a1 then ad_nodes a1
            else insert_node en (Some empty_node) (ad_nodes a1) in
  cbind (mapM (compile_node I force) ns) (fun ns' =>
  inr (mk_adoc ns' (ad_syntax a1) en (ad_no_auto_error a1) (ad_err_branches a1)
               (ad_action_err_node a1) boot (ad_boot_src a1) toob (ad_toob_src a1) true)))))).
