(** JSON values as the matcher sees them (canonical Go representation:
    nil, bool, float64, string, []interface{}, map[string]interface{}).
    A number [JNum z] stands for the float64 z/4 (exact in binary). *)
From Coq Require Export List String Ascii ZArith Bool Arith.
Export ListNotations.
From Sheens Require Export Gen.Consts.
Open Scope string_scope.
Open Scope list_scope.

Inductive json : Type :=
| JNull
| JBool (b : bool)
| JNum (z : Z)
| JStr (s : string)
| JArr (l : list json)
| JObj (kvs : list (string * json)).

Fixpoint json_eqb (a b : json) {struct a} : bool :=
  match a, b with
  | JNull, JNull => true
  | JBool x, JBool y => Bool.eqb x y
  | JNum x, JNum y => Z.eqb x y
  | JStr x, JStr y => String.eqb x y
  | JArr l, JArr m =>
      (fix go (l m : list json) {struct l} : bool :=
         match l, m with
         | [], [] => true
         | x :: l', y :: m' => json_eqb x y && go l' m'
         | _, _ => false
         end) l m
  | JObj l, JObj m =>
      (fix go (l m : list (string * json)) {struct l} : bool :=
         match l, m with
         | [], [] => true
         | (k, x) :: l', (k', y) :: m' => String.eqb k k' && json_eqb x y && go l' m'
         | _, _ => false
         end) l m
  | _, _ => false
  end.

Definition is_scalar (j : json) : bool :=
  match j with JArr _ | JObj _ => false | _ => true end.

(** Variable syntax (sigils come from the generated constants). *)
Definition is_var (s : string) : bool := String.prefix var_sigil s.
Definition is_optional (s : string) : bool := String.prefix opt_sigil s.
Definition is_anon (s : string) : bool := String.eqb s anon_var.
Definition is_optional_json (j : json) : bool :=
  match j with JStr s => is_optional s | _ => false end.

(** Association lookup in an object's entry list (first match; Go maps have
    unique keys, see [wf_json]). *)
Fixpoint assoc (k : string) (kvs : list (string * json)) : option json :=
  match kvs with
  | [] => None
  | (k', v) :: r => if String.eqb k k' then Some v else assoc k r
  end.

Fixpoint json_depth (j : json) : nat :=
  match j with
  | JArr l => S (fold_right (fun x acc => Nat.max (json_depth x) acc) 0 l)
  | JObj kvs => S (fold_right (fun kv acc => Nat.max (json_depth (snd kv)) acc) 0 kvs)
  | _ => 1
  end.

(** No string anywhere inside the value (keys included) is a variable. *)
Fixpoint var_free (j : json) : bool :=
  match j with
  | JStr s => negb (is_var s)
  | JArr l => forallb var_free l
  | JObj kvs => forallb (fun kv => negb (is_var (fst kv)) && var_free (snd kv)) kvs
  | _ => true
  end.

Fixpoint nodup_keys (ks : list string) : bool :=
  match ks with
  | [] => true
  | k :: r => negb (existsb (String.eqb k) r) && nodup_keys r
  end.

(** Well-formed: every object has unique keys (true of every Go map). *)
Fixpoint wf_json (j : json) : bool :=
  match j with
  | JArr l => forallb wf_json l
  | JObj kvs => nodup_keys (map fst kvs) && forallb (fun kv => wf_json (snd kv)) kvs
  | _ => true
  end.
