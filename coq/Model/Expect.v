(** Model of tools/expect/expect.go, [Session.Run]: the verdict (nil error =
    [Pass], any error = [Fail]) as a function of the session's expected
    outputs and of the lines the subprocess writes to its stdout.

    What is modelled, and from which lines of expect.go (line numbers of
    the file after the repairs D18, D19, D30):

    - the IO steps run one after the other (206); a step is over when its
      reader goroutine *and* its writer goroutine are "happy" (366-391);
      any error of either, or the step's timer firing first (221-225),
      ends the whole run with that error;
    - the reader (228-327) counts the non-inverted outputs ([need], 231-236)
      and then, line by line (238-315): a line that is not JSON is ignored
      (249-252, [None] here); otherwise every output that has not been
      remembered as matched (253-259) is tried in list order: pattern match
      against empty bindings (273; an error ends the run; an empty result is
      no match, 277), optional guard on the *first* binding set (283-301; an
      error ends the run, no bindings = rejected, 293), and if it matched
      (303): remember it (304), an inverted output ends the run ("undesired
      output", 305-307), otherwise [need--] (308); after the line's pass
      over the outputs the step is complete iff [need = 0] (311-313);
    - all steps share one buffered reader over the subprocess's stdout
      (174): a line is consumed by exactly one step; lines that arrive while
      a step runs but after its reader completed are read by the next step.

    The stream is given as [chunks]: [nth k chunks] are the lines that reach
    the reader while step [k] is running, after whatever earlier steps left
    unread.  Running out of lines in a step stands for "nothing more arrives
    before the step's timeout" (or the subprocess closing its stdout): the
    run fails.  Not modelled: the race between the timer and a line arriving
    at the last moment, the writer's errors, the subprocess's exit status
    (397), an [Output] that already carries [Bindingss] before the run,
    a step without any timeout (it would block instead of failing).

    A quirk kept faithfully: the reader checks [need = 0] only after a JSON
    line, so a step without expected outputs still waits for one line. *)
From Sheens Require Export Model.Match.

(** * Guards: a small deterministic language, rendered as ECMAScript by the
    harness (the interpreter wraps the source in a function) *)
Inductive guard : Type :=
| GNone                          (* no Guard / GuardSource *)
| GAccept                        (* return _.bindings; *)
| GEmpty                         (* return {};   (bindings, although empty) *)
| GReject                        (* return null; *)
| GUndef                         (* var b = _.bindings;   (returns undefined) *)
| GHas (k : string)              (* return (_.bindings[k] !== undefined) ? _.bindings : null; *)
| GIs (k : string) (v : json)    (* return (_.bindings[k] === v) ? _.bindings : null;  v scalar *)
| GThrow.                        (* throw "boom"; *)

Inductive gres : Type :=
| GuardOk                        (* Exec returned bindings (exe.Bs != nil) *)
| GuardNo                        (* Exec returned no bindings *)
| GuardErr.                      (* Exec returned an error *)

Definition guard_exec (g : guard) (bs : bindings) : gres :=
  match g with
  | GNone => GuardOk
  | GAccept => GuardOk
  | GEmpty => GuardOk
  | GReject => GuardNo
  | GUndef => GuardNo
  | GHas k => match lookup k bs with Some _ => GuardOk | None => GuardNo end
  | GIs k v => match lookup k bs with
               | Some w => if json_eqb w v then GuardOk else GuardNo
               | None => GuardNo
               end
  | GThrow => GuardErr
  end.

(** * Sessions *)
Record output : Type := mk_output {
  o_pat : json;                  (* Output.Pattern (parsed) *)
  o_guard : guard;               (* Output.Guard / GuardSource *)
  o_inv : bool                   (* Output.Inverted *)
}.

(** a line of the subprocess's stdout: [Some m] parses as JSON, [None] does not *)
Definition line : Type := option json.

Inductive why : Type :=
| WTimeout                       (* no more lines before the timeout / EOF *)
| WUndesired                     (* an inverted output matched *)
| WMatchError                    (* match.Match returned an error *)
| WGuardError                    (* the guard returned an error *)
| WFuel.                         (* the model's recursion fuel ran out (never a normal result) *)

Inductive verdict : Type :=
| Pass
| Fail (w : why).

(** one output against one message (expect.go 273-302) *)
Inductive ores : Type :=
| ONo
| OYes
| OFail (w : why).

Definition try_output (o : output) (m : json) : ores :=
  match Match (o_pat o) m [] with
  | Err => OFail WMatchError
  | Fuel => OFail WFuel
  | Ok [] => ONo
  | Ok (b :: _) =>
      match guard_exec (o_guard o) b with
      | GuardOk => OYes
      | GuardNo => ONo
      | GuardErr => OFail WGuardError
      end
  end.

(** the reader's state: every output of the step with its "remembered as
    matched" flag ([Bindingss != nil]), and the counter [need] (a Go int) *)
Definition ostate : Type := (output * bool)%type.

Inductive lres : Type :=
| LFail (w : why)
| LOk (os : list ostate) (need : Z).

(** one JSON line: the loop over the output set (253-310) *)
Fixpoint line_outputs (m : json) (os : list ostate) (need : Z) : lres :=
  match os with
  | [] => LOk [] need
  | (o, true) :: r =>
      match line_outputs m r need with
      | LOk r' n' => LOk ((o, true) :: r') n'
      | LFail w => LFail w
      end
  | (o, false) :: r =>
      match try_output o m with
      | OFail w => LFail w
      | ONo =>
          match line_outputs m r need with
          | LOk r' n' => LOk ((o, false) :: r') n'
          | LFail w => LFail w
          end
      | OYes =>
          if o_inv o then LFail WUndesired
          else
            match line_outputs m r (need - 1) with
            | LOk r' n' => LOk ((o, true) :: r') n'
            | LFail w => LFail w
            end
      end
  end.

Inductive sres : Type :=
| SDone (rest : list line)       (* reader happy; the unread lines *)
| SFail (w : why).

(** the reader's loop over the lines available to the step (238-315) *)
Fixpoint read_loop (os : list ostate) (need : Z) (ls : list line) : sres :=
  match ls with
  | [] => SFail WTimeout
  | None :: r => read_loop os need r
  | Some m :: r =>
      match line_outputs m os need with
      | LFail w => SFail w
      | LOk os' need' => if Z.eqb need' 0 then SDone r else read_loop os' need' r
      end
  end.

Definition init_state (outs : list output) : list ostate := map (fun o => (o, false)) outs.
Definition init_need (outs : list output) : Z :=
  Z.of_nat (List.length (filter (fun o => negb (o_inv o)) outs)).

Definition read_step (outs : list output) (avail : list line) : sres :=
  read_loop (init_state outs) (init_need outs) avail.

(** the steps in sequence; [pending] = lines left unread by earlier steps *)
Fixpoint run_steps (steps : list (list output)) (chunks : list (list line))
         (pending : list line) : verdict :=
  match steps with
  | [] => Pass
  | outs :: more =>
      match read_step outs (pending ++ hd [] chunks) with
      | SDone rest => run_steps more (tl chunks) rest
      | SFail w => Fail w
      end
  end.

(** Session.Run *)
Definition expect_run (steps : list (list output)) (chunks : list (list line)) : verdict :=
  run_steps steps chunks [].

(** the same over one finite list of lines, all available from the start *)
Definition expect_run_flat (steps : list (list output)) (ls : list line) : verdict :=
  expect_run steps [ls].
