(** Model of tools/analysis.go (Analyze), tools/dot.go (Dot) and
    tools/mermaid.go (Mermaid), function by function.

    A specification is seen as its node graph: [Spec.Nodes] is a Go map from
    names to node pointers (possibly nil in a spec that has not been
    compiled; Compile and - after D33 - the three tools read a nil node as
    an empty node).  Of a node only what the tools' control flow looks at is
    kept: whether [Action] is set (native or compiled), whether
    [ActionSource] is set and with which interpreter, and the branches
    ([Branches] nil or a list) with target, [Guard] set, [GuardSource] set
    and with which interpreter, and the pattern (never inspected: it only
    ends up inside labels).

    The renderers are modelled at the level of the *statements* they write:
    [DNode]/[DEdge] for Graphviz, [MNode]/[MEdge] (with the generated node
    ids n1, n2, ...) for Mermaid.  Label texts, colours and shapes are not
    modelled.  Places where the Go code dereferences a pointer that may be
    nil are written with [deref], whose failure is the outcome [Panic]. *)
From Sheens Require Export Model.Json.

Record branch : Type := mk_branch {
  b_target : string;
  b_guard : bool;                 (* Guard != nil *)
  b_gsource : option string;      (* GuardSource != nil: its Interpreter *)
  b_pattern : option json         (* Pattern; only ever rendered into a label *)
}.

Record node : Type := mk_node {
  n_action : bool;                (* Action != nil (native, or compiled from source) *)
  n_source : option string;       (* ActionSource != nil: its Interpreter *)
  n_branches : option (list branch)   (* Branches (nil pointer = None) *)
}.

(** Spec.Nodes; keys are unique (a Go map), [None] is a nil *Node *)
Definition gspec := list (string * option node).

Definition empty_node : node := mk_node false None None.
Definition node_of (o : option node) : node :=
  match o with Some n => n | None => empty_node end.
Definition branches_of_node (n : node) : list branch :=
  match n_branches n with Some l => l | None => [] end.
Definition names (g : gspec) : list string := map fst g.

Definition is_some {A : Type} (o : option A) : bool :=
  match o with Some _ => true | None => false end.
Definition is_nil {A : Type} (l : list A) : bool :=
  match l with [] => true | _ => false end.

(** core.IsBranchTargetVariable: non-empty and starting with the sigil *)
Definition is_tvar (s : string) : bool :=
  String.prefix target_sigil s && negb (String.eqb s "").

(** * String sets (Go: map[string]bool) and sort.Strings *)
Fixpoint smem (x : string) (l : list string) : bool :=
  match l with
  | [] => false
  | y :: r => String.eqb x y || smem x r
  end.
Definition sadd (x : string) (l : list string) : list string :=
  if smem x l then l else x :: l.

Fixpoint sinsert (x : string) (l : list string) : list string :=
  match l with
  | [] => [x]
  | y :: r => if String.leb x y then x :: l else y :: sinsert x r
  end.
Definition ssort (l : list string) : list string := fold_right sinsert [] l.

(** keysToStringSlice: the keys, sorted; the default when there are none *)
Definition keys_to_slice (m : list string) (dflt : option string) : list string :=
  match ssort m, dflt with
  | [], Some d => [d]
  | l, _ => l
  end.
(** diffKeys *)
Definition diff_keys (all : list string) (used : list string) : list string :=
  filter (fun k => negb (smem k used)) all.

(** * Analyze (tools/analysis.go) *)
Record analysis : Type := mk_analysis {
  a_nodecount : nat;
  a_branches : nat;
  a_actions : nat;
  a_guards : nat;
  a_terminal : list string;
  a_orphans : list string;
  a_empty : list string;
  a_missing : list string;
  a_tvars : list string;
  a_interpreters : list string
}.

(** the local variables of the single pass *)
Record acc : Type := mk_acc {
  c_branches : nat;
  c_actions : nat;
  c_guards : nat;
  s_terminal : list string;
  s_targeted : list string;
  s_interp : list string;
  s_empty : list string;
  s_missing : list string;
  s_tvars : list string
}.
Definition acc0 : acc := mk_acc 0 0 0 [] [] [] [] [] [].

(** body of the inner loop, for branch [b] of node [name] *)
Definition an_branch (g : gspec) (name : string) (a : acc) (b : branch) : acc :=
  let t := b_target b in
  let guarded := b_guard b || is_some (b_gsource b) in
  mk_acc
    (S (c_branches a))
    (c_actions a)
    (if guarded then S (c_guards a) else c_guards a)
    (s_terminal a)
    (sadd t (s_targeted a))
    (if guarded then match b_gsource b with Some i => sadd i (s_interp a) | None => s_interp a end
     else s_interp a)
    (if String.eqb t "" then sadd name (s_empty a) else s_empty a)
    (if is_tvar t then s_missing a
     else if smem t (names g) then s_missing a else sadd t (s_missing a))
    (if is_tvar t then sadd t (s_tvars a) else s_tvars a).

(** body of the outer loop: the statements before the inner loop ... *)
Definition an_pre (a : acc) (p : string * option node) : acc :=
  let name := fst p in
  let n := node_of (snd p) in           (* D33: a nil node is an empty node *)
  let acted := n_action n || is_some (n_source n) in
  mk_acc
    (c_branches a)
    (if acted then S (c_actions a) else c_actions a)
    (c_guards a)
    (if is_nil (branches_of_node n) then s_terminal a ++ [name] else s_terminal a)
    (s_targeted a)
    (if acted then match n_source n with Some i => sadd i (s_interp a) | None => s_interp a end
     else s_interp a)
    (s_empty a) (s_missing a) (s_tvars a).

(** ... and the inner loop, under [n.Branches != nil] *)
Definition an_node (g : gspec) (a : acc) (p : string * option node) : acc :=
  match n_branches (node_of (snd p)) with
  | None => an_pre a p
  | Some bs => fold_left (an_branch g (fst p)) bs (an_pre a p)
  end.

Definition default_interpreter : string := "default".

Definition analyze (g : gspec) : analysis :=
  let a := fold_left (an_node g) g acc0 in
  mk_analysis
    (List.length g)
    (c_branches a) (c_actions a) (c_guards a)
    (s_terminal a)
    (keys_to_slice (diff_keys (names g) (s_targeted a)) None)
    (keys_to_slice (s_empty a) None)
    (keys_to_slice (s_missing a) None)
    (keys_to_slice (s_tvars a) None)
    (keys_to_slice (s_interp a) (Some default_interpreter)).

(** * Outcomes: a nil dereference is a panic *)
Inductive outcome (A : Type) : Type :=
| Done (a : A)
| Panic.
Arguments Done {A} a.
Arguments Panic {A}.

Definition obind {A B : Type} (o : outcome A) (f : A -> outcome B) : outcome B :=
  match o with Done a => f a | Panic => Panic end.
Definition deref {A : Type} (p : option A) : outcome A :=
  match p with Some a => Done a | None => Panic end.
Fixpoint ofold {A B : Type} (f : A -> B -> outcome A) (l : list B) (a : A) : outcome A :=
  match l with
  | [] => Done a
  | x :: r => obind (f a x) (ofold f r)
  end.

(** the copy of Spec.Nodes both renderers start with; D33: nil -> &Node{} *)
Definition normalize (g : gspec) : gspec :=
  map (fun p => (fst p, Some (node_of (snd p)))) g.

(** nodes[x]: the nil pointer when [x] is not a key *)
Fixpoint nodes_get (x : string) (g : gspec) : option node :=
  match g with
  | [] => None
  | (y, o) :: r => if String.eqb x y then o else nodes_get x r
  end.
Fixpoint has_key (x : string) (g : gspec) : bool :=
  match g with
  | [] => false
  | (y, _) :: r => String.eqb x y || has_key x r
  end.

Definition start_name : string := "start".

(** * Dot (tools/dot.go, after D20, D21, D31) *)
Inductive dstmt : Type :=
| DNode (name : string) (placeholder : bool)
| DEdge (from to : string).

Record dstate : Type := mk_dstate { d_seen : list string; d_out : list dstmt }.

(** closure [node]: one statement per name, the first time it is met *)
Definition dot_node (name : string) (n : option node) (st : dstate) : outcome dstate :=
  if smem name (d_seen st) then Done st else
  let seen' := name :: d_seen st in
  match n with
  | None =>
      (* D21: not a node of the spec: placeholder *)
      Done (mk_dstate seen' (d_out st ++ [DNode name true]))
  | Some nd =>
      (* label: n.Doc, n.Branches, n.Action; D20: n.ActionSource.Source
         only under n.ActionSource != nil *)
      obind (match n_source nd with
             | Some _ => obind (deref (n_source nd)) (fun _ => Done tt)
             | None => Done tt
             end)
            (fun _ => Done (mk_dstate seen' (d_out st ++ [DNode name false])))
  end.

Definition dot_branch (nodes : gspec) (name : string) (st : dstate) (b : branch) : outcome dstate :=
  obind (dot_node (b_target b) (nodes_get (b_target b) nodes) st)
        (fun st' => Done (mk_dstate (d_seen st') (d_out st' ++ [DEdge name (b_target b)]))).

(** closure [process] *)
Definition dot_process (nodes : gspec) (name : string) (n : option node) (st : dstate) : outcome dstate :=
  obind (dot_node name n st) (fun st1 =>
  obind (deref n) (fun nd =>                          (* n.Branches *)
  match n_branches nd with
  | None => Done st1
  | Some bs => ofold (dot_branch nodes name) bs st1
  end)).

Definition dot (g : gspec) : outcome (list dstmt) :=
  let nodes := normalize g in
  let st0 := mk_dstate [] [] in
  obind (if has_key start_name nodes
         then dot_process nodes start_name (nodes_get start_name nodes) st0
         else Done st0) (fun st1 =>
  obind (ofold (fun st p => if String.eqb (fst p) start_name then Done st
                            else dot_process nodes (fst p) (snd p) st) nodes st1) (fun st2 =>
  Done (d_out st2))).

(** * Mermaid (tools/mermaid.go, after D33) *)
Inductive mstmt : Type :=
| MNode (nid : nat) (name : string) (boxed : bool)
| MEdge (from to : nat).

Record mstate : Type := mk_mstate {
  m_nids : list (string * nat);      (* the map nids *)
  m_num : nat;                       (* the counter num *)
  m_out : list mstmt
}.

Fixpoint nid_get (x : string) (nids : list (string * nat)) : option nat :=
  match nids with
  | [] => None
  | (y, i) :: r => if String.eqb x y then Some i else nid_get x r
  end.

(** closure [node]: returns the node id, declaring the node the first time *)
Definition mer_node (name : string) (n : option node) (st : mstate) : nat * mstate :=
  match nid_get name (m_nids st) with
  | Some nid => (nid, st)
  | None =>
      let num := S (m_num st) in
      (* n != nil && n.Action == nil : round; otherwise a box *)
      let boxed := match n with Some nd => n_action nd | None => true end in
      (num, mk_mstate ((name, num) :: m_nids st) num (m_out st ++ [MNode num name boxed]))
  end.

Definition mer_branch (nodes : gspec) (nid : nat) (st : mstate) (b : branch) : mstate :=
  let '(to, st') := mer_node (b_target b) (nodes_get (b_target b) nodes) st in
  mk_mstate (m_nids st') (m_num st') (m_out st' ++ [MEdge nid to]).

(** closure [process] (the pattern of a branch is JSON data, so that its
    rendering into the label cannot fail) *)
Definition mer_process (nodes : gspec) (name : string) (n : option node) (st : mstate) : outcome mstate :=
  let '(nid, st1) := mer_node name n st in
  obind (deref n) (fun nd =>                          (* n.Branches *)
  match n_branches nd with
  | None => Done st1
  | Some bs => Done (fold_left (mer_branch nodes nid) bs st1)
  end).

Definition mermaid (g : gspec) : outcome (list mstmt) :=
  let nodes := normalize g in
  let st0 := mk_mstate [] 0 [] in
  obind (if has_key start_name nodes
         then mer_process nodes start_name (nodes_get start_name nodes) st0
         else Done st0) (fun st1 =>
  obind (ofold (fun st p => if String.eqb (fst p) start_name then Done st
                            else mer_process nodes (fst p) (snd p) st) nodes st1) (fun st2 =>
  Done (m_out st2))).

(** * The code before the repairs (kept for the refutation lemmas)

    [dot_old]: D20 - the action label reads n.ActionSource.Source whenever
    n.Action != nil || n.ActionSource != nil; D21 - [node] fails on a nil
    node and [process] returns at the first failure; D33 - the nodes are not
    normalised, a nil node of the map makes [node] fail (nothing rendered
    for it). *)
Definition dot_node_old (name : string) (n : option node) (st : dstate) : outcome (dstate * bool) :=
  match n with
  | None => Done (st, false)                           (* "unknown node" *)
  | Some nd =>
      if smem name (d_seen st) then Done (st, true) else
      obind (if n_action nd || is_some (n_source nd)
             then obind (deref (n_source nd)) (fun _ => Done tt)
             else Done tt)
            (fun _ => Done (mk_dstate (name :: d_seen st) (d_out st ++ [DNode name false]), true))
  end.

Fixpoint dot_branches_old (nodes : gspec) (name : string) (bs : list branch) (st : dstate) : outcome dstate :=
  match bs with
  | [] => Done st
  | b :: r =>
      obind (dot_node_old (b_target b) (nodes_get (b_target b) nodes) st) (fun res =>
      let '(st', ok) := res in
      if ok then dot_branches_old nodes name r
                   (mk_dstate (d_seen st') (d_out st' ++ [DEdge name (b_target b)]))
      else Done st')                                   (* return err *)
  end.

Definition dot_process_old (nodes : gspec) (name : string) (n : option node) (st : dstate) : outcome dstate :=
  obind (dot_node_old name n st) (fun res =>
  let '(st1, ok) := res in
  if negb ok then Done st1 else
  obind (deref n) (fun nd =>
  match n_branches nd with
  | None => Done st1
  | Some bs => dot_branches_old nodes name bs st1
  end)).

Definition dot_old (g : gspec) : outcome (list dstmt) :=
  let nodes := g in
  let st0 := mk_dstate [] [] in
  obind (if has_key start_name nodes
         then dot_process_old nodes start_name (nodes_get start_name nodes) st0
         else Done st0) (fun st1 =>
  obind (ofold (fun st p => if String.eqb (fst p) start_name then Done st
                            else dot_process_old nodes (fst p) (snd p) st) nodes st1) (fun st2 =>
  Done (d_out st2))).

(** Analyze and Mermaid before D33: n.Action / n.Branches on a nil node *)
Definition analyze_old (g : gspec) : outcome analysis :=
  obind (ofold (fun (_ : unit) (p : string * option node) => obind (deref (snd p)) (fun _ => Done tt)) g tt)
        (fun _ => Done (analyze g)).
