(** C19 - The expectation tool's verdict is sound.
    Only statements, [exact], Print Assumptions, and Examples.

    [expect_run steps chunks] (Model/Expect.v) is the model of
    tools/expect's Session.Run: [steps] are the output sets of the
    session's IO steps (pattern, guard, inverted flag), [nth k chunks] the
    lines the subprocess emits while step [k] runs ([None] = a line that
    is not JSON); the result is [Pass] (Run returns nil) or [Fail why].
    [accepts o m] (Spec/ExpectSpec.v): pattern [o] matches message [m]
    (the model of match.Match, empty bindings) and [o]'s guard accepts the
    bindings.  [step_ok outs seg]: every expected (non-inverted) output of
    [outs] accepts some line of [seg], no inverted output accepts any line
    of [seg].  [causal segs chunks]: the segments are consecutive pieces of
    the emitted stream, each line in at most one, and the first [k] of them
    lie within what the first [k] steps emitted. *)
From Sheens Require Import Spec.ExpectSpec Proofs.ExpectProofs Proofs.ExpectHistory Proofs.ExpectNonVacuous.

(** a pass is explained step by step by the emitted lines *)
Theorem C19_sound :
  forall steps chunks,
    expect_run steps chunks = Pass ->
    exists segs, causal segs chunks /\ Forall2 step_ok steps segs.
Proof. exact expect_run_sound. Qed.
Print Assumptions C19_sound.

(** moreover the segment of a step ends exactly where the step completes:
    with a JSON line, before which (at every earlier JSON line) some expected
    output of the step was still unmet - so nothing after the completion
    point is attributed to the step (or checked against its forbidden
    outputs), and the segmentation is determined by the stream *)
Theorem C19_segments_end_at_completion :
  forall steps chunks,
    expect_run steps chunks = Pass ->
    exists segs, causal segs chunks /\
                 Forall2 (fun outs seg => step_ok outs seg /\ step_minimal outs seg) steps segs.
Proof. exact expect_run_sound_minimal. Qed.
Print Assumptions C19_segments_end_at_completion.

(** an expected output of step [k] that nothing emitted by the end of step
    [k] satisfies - the message never arrives before the timeout, however
    much else arrives and whatever arrives later - makes the run fail *)
Theorem C19_timeout_fails :
  forall steps chunks,
    (exists k outs o,
        nth_error steps k = Some outs /\ In o outs /\ o_inv o = false /\
        forall m, In (Some m) (List.concat (firstn (S k) chunks)) -> ~ accepts o m) ->
    exists w, expect_run steps chunks = Fail w.
Proof. exact expect_run_never_arrives_fails. Qed.
Print Assumptions C19_timeout_fails.

(** an expected output that no line of the stream satisfies makes the run
    fail whatever else the stream contains and however often: a repeated
    message never stands in for a missing one *)
Theorem C19_no_stand_in :
  forall steps chunks,
    (exists outs o,
        In outs steps /\ In o outs /\ o_inv o = false /\
        forall m, In (Some m) (List.concat chunks) -> ~ accepts o m) ->
    exists w, expect_run steps chunks = Fail w.
Proof. exact expect_run_no_stand_in. Qed.
Print Assumptions C19_no_stand_in.

(** the boolean oracle that the check evaluates on the implementation's
    verdicts decides exactly the conclusion of [C19_sound] *)
Theorem C19_oracle_decides_soundness :
  forall steps chunks,
    session_sound_b steps chunks = true <->
    exists segs, causal segs chunks /\ Forall2 step_ok steps segs.
Proof. exact session_sound_b_iff. Qed.
Print Assumptions C19_oracle_decides_soundness.

(** no step is vacuous: the segmentation that explains a pass gives every
    step - also one whose outputs are all forbidden - at least one JSON line,
    so a forbidden message that is the next thing the step can see is never
    skipped; the oracle evaluated on the implementation decides exactly this
    stronger statement (and it implies the plain one) *)
Theorem C19_sound_no_vacuous_step :
  forall steps chunks,
    expect_run steps chunks = Pass ->
    exists segs, causal segs chunks /\
                 Forall2 (fun outs seg => step_ok outs seg /\ has_json seg = true) steps segs.
Proof. exact expect_run_sound_nonvacuous. Qed.
Print Assumptions C19_sound_no_vacuous_step.

Theorem C19_oracle_decides_nonvacuous_soundness :
  forall steps chunks,
    session_sound_nv_b steps chunks = true <-> session_sound_nv steps chunks.
Proof. exact session_sound_nv_b_iff. Qed.
Print Assumptions C19_oracle_decides_nonvacuous_soundness.

Example C19_forbidden_only_step_is_checked :
  let o := mk_output (JObj [("bad", JStr "?x")]) Expect.GNone true in
  session_sound_b [[o]] [[Some (JObj [("bad", JNum 4)])]] = true /\
  session_sound_nv_b [[o]] [[Some (JObj [("bad", JNum 4)])]] = false.
Proof. exact forbidden_only_step_is_checked. Qed.

(** converse (partial: a sufficient condition): the model does pass when,
    during every step, a JSON line and a line for every expected output of
    the step are emitted, and nothing in the stream errs or is forbidden *)
Theorem C19_pass_when_met :
  forall steps chunks,
    Forall2 step_met steps chunks ->
    no_errors steps (List.concat chunks) ->
    nothing_forbidden steps (List.concat chunks) ->
    expect_run steps chunks = Pass.
Proof. exact expect_run_pass_when_met. Qed.
Print Assumptions C19_pass_when_met.

(** the code as it was before the repairs D18 (matches not remembered),
    D19 (rejecting guard counted) and D30 (empty match result counted) passed
    unsound sessions: soundness is false of the old definition *)
Theorem C19_refuted_prefix :
  ~ (forall steps chunks, expect_passes_old steps chunks = true -> session_sound steps chunks).
Proof. exact old_verdict_unsound. Qed.
Print Assumptions C19_refuted_prefix.

Theorem C19_refuted_prefix_witnesses :
  (expect_passes_old d18_steps d18_chunks = true /\ ~ session_sound d18_steps d18_chunks) /\
  (expect_passes_old d19_steps d19_chunks = true /\ ~ session_sound d19_steps d19_chunks) /\
  (expect_passes_old d30_steps d30_chunks = true /\ ~ session_sound d30_steps d30_chunks).
Proof. exact (conj old_passes_d18 (conj old_passes_d19 old_passes_d30)). Qed.
Print Assumptions C19_refuted_prefix_witnesses.

(** * Non-vacuity *)

(** a two-step session with a value-dependent guard, a forbidden output,
    noise, a line that is rejected by the guard, and a line left over from
    step 1 that step 2 needs: it passes, and the segmentation is the one
    the theorem promises *)
Definition ex_steps : list (list output) :=
  [ [ mk_output (JObj [("a", JStr "?x")]) (GIs "?x" (JNum 4)) false;
      mk_output (JObj [("err", JStr "?e")]) GNone true ];
    [ mk_output (JObj [("b", JStr "?y")]) (GHas "?y") false;
      mk_output (JObj [("c", JArr [JStr "?z"])]) GNone false ] ].
Definition ex_chunks : list (list line) :=
  [ [ None; Some (JObj [("a", JNum 8)]); Some (JObj [("a", JNum 4)]); Some (JObj [("b", JNum 4)]) ];
    [ Some (JObj [("c", JArr [JNum 4])]); Some (JObj [("err", JStr "late")]) ] ].

Example C19_sound_nonvacuous :
  expect_run ex_steps ex_chunks = Pass /\ session_sound_b ex_steps ex_chunks = true.
Proof. vm_compute. split; reflexivity. Qed.

(** the forbidden line inside step 2's segment instead: fail *)
Example C19_sound_forbidden :
  expect_run ex_steps
    [ [ Some (JObj [("a", JNum 4)]) ];
      [ Some (JObj [("b", JNum 4)]); Some (JObj [("err", JStr "x")]); Some (JObj [("c", JArr [JNum 4])]) ] ]
  = Pass /\
  expect_run [ [ mk_output (JObj [("a", JNum 4)]) GNone false ];
               [ mk_output (JObj [("b", JNum 4)]) GNone false;
                 mk_output (JObj [("err", JStr "?e")]) GNone true ] ]
    [ [ Some (JObj [("a", JNum 4)]) ];
      [ Some (JObj [("err", JStr "x")]); Some (JObj [("b", JNum 4)]) ] ]
  = Fail WUndesired.
Proof. vm_compute. split; reflexivity. Qed.

(** the hypotheses of [C19_timeout_fails] and [C19_no_stand_in] hold of the
    D18 witness ({"a":1} twice where {"a":1} and {"b":1} are expected) *)
Example C19_timeout_fails_nonvacuous :
  never_arrives d18_steps d18_chunks /\ expect_run d18_steps d18_chunks = Fail WTimeout.
Proof.
  split; [apply never_arrives_b_sound; vm_compute; reflexivity | vm_compute; reflexivity].
Qed.

Example C19_no_stand_in_nonvacuous :
  unmet_anywhere d18_steps d18_chunks /\ expect_run d18_steps d18_chunks = Fail WTimeout.
Proof.
  split; [apply unmet_anywhere_b_iff; vm_compute; reflexivity | vm_compute; reflexivity].
Qed.

(** the message arrives, but only during the next step: too late *)
Example C19_timeout_fails_late :
  let steps := [ [ mk_output (JObj [("b", JNum 4)]) GNone false ]; [] ] in
  let chunks := [ [ Some (JObj [("a", JNum 4)]) ]; [ Some (JObj [("b", JNum 4)]) ] ] in
  never_arrives steps chunks /\ unmet_anywhere_b steps chunks = false /\
  expect_run steps chunks = Fail WTimeout.
Proof.
  split; [apply never_arrives_b_sound; vm_compute; reflexivity | vm_compute; split; reflexivity].
Qed.

(** the hypotheses of [C19_pass_when_met] are satisfiable *)
Example C19_pass_when_met_nonvacuous :
  let steps := [ [ mk_output (JObj [("a", JStr "?x")]) GAccept false ] ] in
  let chunks := [ [ None; Some (JObj [("a", JNum 4)]) ] ] in
  Forall2 step_met steps chunks /\ no_errors steps (List.concat chunks) /\
  nothing_forbidden steps (List.concat chunks).
Proof.
  simpl. split; [| split].
  - constructor; [| constructor]. split.
    + exists (JObj [("a", JNum 4)]). right. left. reflexivity.
    + intros o [Ho | []] _. subst o. exists (JObj [("a", JNum 4)]).
      split; [right; left; reflexivity |]. apply accepts_b_iff. vm_compute. reflexivity.
  - intros outs o m w [Ho | []] Hin Hm. subst outs. destruct Hin as [Ho | []]. subst o.
    destruct Hm as [Hm | [Hm | []]]; [discriminate |]. inversion Hm; subst m.
    vm_compute. discriminate.
  - intros outs o m [Ho | []] Hin Hinv. subst outs. destruct Hin as [Ho | []]. subst o.
    discriminate.
Qed.
