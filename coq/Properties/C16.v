(** C16 - mcrew: memory advances only with a successful write; requests are
    serialised.  Only statements, [exact], Print Assumptions and Examples.

    Vocabulary (Model/MCrew.v, Model/Conc.v, Spec/MCrewSpec.v):
    [svc] = { mem : id -> machine ; sto : id -> record ; up : bool };
    [svc_step spec_ok wk services q s] is the model of one request of the Go
    service (AddMachine, RemMachine, Process, GetCrewOp after the D15
    repair; [RFault u] is the environment taking the store down or up): one
    atomic step, read off the c.Lock()/c.Unlock() pairs of service.go.
    [spec_ok] (does GetSpec succeed) and [wk] (what Spec.Walk returns for a
    machine and a message) are universally quantified: the theorems hold for
    every behaviour of the machines.  Clients are lists of requests; a fault
    injecting client is just a client issuing [RFault].  [run sched s pool]
    executes the schedule [sched] (any list of client indexes); [reachable]
    = the state after any schedule.  [msorted] = ids strictly ascending (true
    of the empty crew and kept by every step).  [hist_step] is the
    specification automaton written from the property text.

    [all_serialisable ch]: json.Marshal succeeds for every end state of the
    batch [ch] (Model/MCrew.v: no value inside the bindings is the marker
    that stands for a float64 NaN).

    Partial (named): which Go regions are atomic is read off the lock
    structure by hand, and bolt's all-or-nothing transaction is assumed;
    both are what the concurrent correspondence run (8 clients, a fault
    injector, -race, linearisation search) tests.  That a batch of any size
    goes into one transaction is what the volume histories of the sequential
    run test (130 / 200 machines, one end state that cannot be serialised). *)
From Sheens Require Import Spec.MCrewSpec Proofs.ConcFacts Proofs.MCrewFacts.

(** in every state reachable by any interleaving of any clients under any
    fault schedule, memory equals the store *)
Theorem C16_mem_eq_store :
  forall spec_ok wk services (clients : list (list req)) s0 s,
    mem s0 = sto s0 -> msorted (mem s0) ->
    reachable s0 (progs_of (svc_sem spec_ok wk services) clients) s ->
    mem s = sto s.
Proof. exact mem_eq_store_reachable. Qed.
Print Assumptions C16_mem_eq_store.

(** an operation that reports failure (failed write, exists, GetSpec error)
    - and every read - leaves memory and store exactly as they were *)
Theorem C16_failed_op_is_noop :
  forall spec_ok wk services q s,
    must_not_change (snd (svc_step spec_ok wk services q s)) = true ->
    mem (fst (svc_step spec_ok wk services q s)) = mem s
    /\ sto (fst (svc_step spec_ok wk services q s)) = sto s.
Proof. exact failed_is_noop. Qed.
Print Assumptions C16_failed_op_is_noop.

(** while the store is down no request changes anything *)
Theorem C16_store_down_is_noop :
  forall spec_ok wk services q s,
    up s = false ->
    mem (fst (svc_step spec_ok wk services q s)) = mem s
    /\ sto (fst (svc_step spec_ok wk services q s)) = sto s.
Proof. exact store_down_is_noop. Qed.
Print Assumptions C16_store_down_is_noop.

(** memory advances only together with a successful write: if a request
    changed memory, the store was up, the response is a success, and the
    store holds exactly the new memory *)
Theorem C16_advance_needs_write :
  forall spec_ok wk services q s,
    mem (fst (svc_step spec_ok wk services q s)) <> mem s ->
    up s = true
    /\ must_not_change (snd (svc_step spec_ok wk services q s)) = false
    /\ (mem s = sto s ->
        sto (fst (svc_step spec_ok wk services q s)) = mem (fst (svc_step spec_ok wk services q s))).
Proof. exact advance_needs_write. Qed.
Print Assumptions C16_advance_needs_write.

(** a batch is written entirely or not at all, whatever its size: when one
    end state of the batch cannot be serialised ([all_serialisable] false: a
    machine's bindings after the walk hold a value encoding/json refuses),
    Process changes neither memory nor the store - for any of the walked
    machines - although the store may be up, and reports the walks together
    with the error.  [do_process_to] is Process once the recipients are chosen
    ([svc_step (RProcess msg)] = [do_process_to (recipients …)]); [specs_ok]
    = GetSpec succeeded for every recipient. *)
Theorem C16_batch_all_or_nothing :
  forall spec_ok wk (mids : list string) msg s,
    specs_ok spec_ok (mem s) mids = true ->
    all_serialisable (changes (walks wk (mem s) mids msg)) = false ->
    do_process_to spec_ok wk mids msg s = (s, PProcessed true (walks wk (mem s) mids msg)).
Proof. exact batch_unserialisable_is_noop. Qed.
Print Assumptions C16_batch_all_or_nothing.

(** ... and conversely: a Process call that moved some machine and reports no
    error found the store up, every end state serialisable, and memory and
    store both took the whole batch *)
Theorem C16_batch_written_whole :
  forall spec_ok wk (mids : list string) msg s s' ws,
    do_process_to spec_ok wk mids msg s = (s', PProcessed false ws) ->
    changes ws <> [] ->
    up s = true /\ all_serialisable (changes ws) = true
    /\ mem s' = set_states (changes ws) (mem s)
    /\ sto s' = write_states (mem s) (changes ws) (sto s).
Proof. exact batch_written_whole. Qed.
Print Assumptions C16_batch_written_whole.

(** every response is the response of the sequential crew in the state the
    request found: in particular every walk Process reports starts from the
    machine's current state (no update is lost) *)
Theorem C16_responses_chain :
  forall spec_ok wk services q s,
    mem s = sto s -> msorted (mem s) ->
    hist_step (hst_of s) q (snd (svc_step spec_ok wk services q s))
    = Some (hst_of (fst (svc_step spec_ok wk services q s))).
Proof. exact hist_accepts_step. Qed.
Print Assumptions C16_responses_chain.

(** concurrent requests are serialised: under every schedule the final state
    and the responses are those of the sequential execution of the requests
    in the order of their atomic steps; that order keeps each client's own
    order; the responses form a history the specification automaton accepts
    from start to end (per-machine From/To chains continuous); and memory
    equals the store at the end *)
Theorem C16_serialisable :
  forall spec_ok wk services (clients : list (list req)) sched s0,
    mem s0 = sto s0 -> msorted (mem s0) ->
    let sem := svc_sem spec_ok wk services in
    let ord := fst (order sched clients) in
    let final := run_state sched s0 (progs_of sem clients) in
    let events := run_events sched s0 (progs_of sem clients) in
    final = fst (seq_run sem ord s0)
    /\ events = snd (seq_run sem ord s0)
    /\ (forall i, of_client i ord ++ nth i (snd (order sched clients)) [] = nth i clients [])
    /\ hist_run (hst_of s0) (map snd events) = Some (hst_of final)
    /\ mem final = sto final.
Proof. exact serialisable. Qed.
Print Assumptions C16_serialisable.

(** the code before the D15 repair (memory changed under the lock, the write
    in a second step): with a healthy store the schedule add(memory) ;
    process ; add(late write) ends with the processed state in memory and
    the initial state in the store - an outcome of neither sequential order *)
Theorem C16_refuted_prefix :
  let s := run_state [0; 1; 0] svc0 prefix_race_pool in
  mem s = [("m0", rec_after [JStr "a"])] /\ sto s = [("m0", rec_after [])]
  /\ run_state [0; 0; 1] svc0 prefix_race_pool <> s
  /\ run_state [1; 0; 0] svc0 prefix_race_pool <> s.
Proof. exact prefix_lost_write. Qed.
Print Assumptions C16_refuted_prefix.

(** ... and with the store down during AddMachine the machine is in memory,
    nothing is stored, and the caller is told the add failed *)
Theorem C16_refuted_prefix_store_down :
  let s := run_state [0; 0; 0] svc0 prefix_down_pool in
  mhas "m0" (mem s) = true /\ sto s = []
  /\ run_events [0; 0; 0] svc0 prefix_down_pool = [(0, PFault); (0, PErr)].
Proof. exact prefix_store_down. Qed.
Print Assumptions C16_refuted_prefix_store_down.

(** ---- the hypotheses are satisfiable on a non-trivial instance --------------------

    Three clients on the concrete machines of Model/MCrew.v: one adds two
    machines and processes a broadcast, one takes the store down and up, one
    processes and removes.  The schedule interleaves them so that one write
    fails. *)
Definition ex_clients : list (list req) :=
  [ [RAdd "rec" "m0" "" [] false; RAdd "flip" "m1" "" [] false;
     RProcess (JObj [("fwd", JArr []); ("id", JStr "b")])];
    [RFault false; RFault true];
    [RProcess (leaf "a" "m0"); RRem "m1"; RGet] ].
Definition ex_sched : list nat := [0; 0; 1; 2; 2; 1; 0; 2].
Definition ex_sem := svc_sem spec_ok_m wk_m mcrew_services.

Example C16_example_run :
  let final := run_state ex_sched svc0 (progs_of ex_sem ex_clients) in
  (* the hypotheses of the theorems hold of the start state *)
  mem svc0 = sto svc0 /\ msorted (mem svc0)
  (* a write failed (Process with the store down), a remove failed, and the
     later broadcast advanced m0 and m1 *)
  /\ map (fun e : nat * (req * resp) => must_not_change (snd (snd e)))
         (run_events ex_sched svc0 (progs_of ex_sem ex_clients))
     = [false; false; true; true; true; true; false; true]
  /\ mem final = [("m0", rec_after [JStr "b"]);
                  ("m1", mk_mrec "flip" "alt" [("log", JArr [JStr "b"])])]
  /\ sto final = mem final.
Proof. vm_compute. repeat split; reflexivity. Qed.

Example C16_example_failed_write :
  let s := fst (svc_step_m (RFault false) (fst (svc_step_m (RAdd "rec" "m0" "" [] false) svc0))) in
  snd (svc_step_m (RProcess (leaf "a" "m0")) s)
  = PProcessed true [("m0", mk_wobs ("start", []) (Some ("start", [("log", JArr [JStr "a"])])) [])]
  /\ must_not_change (snd (svc_step_m (RProcess (leaf "a" "m0")) s)) = true
  /\ up s = false.
Proof. vm_compute. repeat split; reflexivity. Qed.


(** [C16_batch_all_or_nothing] is not vacuous: a crew of 70 recorder machines
    (m000 … m069, alternately rec and flip) and one machine of specification
    "nan", the store up; a broadcast whose "poison" is a NaN moves all 71,
    the end state of the nan machine cannot be serialised, and nothing
    changes.  Without the nan machine the same broadcast moves all 70. *)
Definition ex_digit (n : nat) : string :=
  String (Ascii.ascii_of_nat (48 + n)) EmptyString.
Definition ex_id (n : nat) : string :=
  ("m" ++ ex_digit (Nat.div n 100) ++ ex_digit (Nat.modulo (Nat.div n 10) 10) ++ ex_digit (Nat.modulo n 10))%string.
Definition ex_big_crew : mmap :=
  map (fun n => (ex_id n, mk_mrec (if Nat.even n then "rec" else "flip") "start" [])) (seq 0 70).
Definition ex_poison : json :=
  JObj [("fwd", JArr []); ("id", JStr "a"); ("poison", nan_marker)].
Definition ex_big_svc (with_nan : bool) : svc :=
  let crew := if with_nan then ex_big_crew ++ [("n", mk_mrec "nan" "start" [])] else ex_big_crew in
  mk_svc crew crew true.

Example C16_example_big_batch :
  let s := ex_big_svc true in
  let mids := map fst (mem s) in
  (* the hypotheses of the theorem *)
  msorted (mem s) /\ up s = true
  /\ specs_ok spec_ok_m (mem s) mids = true
  /\ List.length (changes (walks wk_m (mem s) mids ex_poison)) = 71
  /\ all_serialisable (changes (walks wk_m (mem s) mids ex_poison)) = false
  (* the one unserialisable end state *)
  /\ filter (fun c : string * (string * bindings) => negb (bs_serialisable (snd (snd c))))
            (changes (walks wk_m (mem s) mids ex_poison))
     = [("n", ("start", [("?fwd", JArr []); ("?id", JStr "a"); ("?p", nan_marker)]))]
  (* the service's own step: nothing changed, failure reported *)
  /\ fst (svc_step_m (RProcess ex_poison) s) = s
  /\ must_not_change (snd (svc_step_m (RProcess ex_poison) s)) = true
  (* without the nan machine the whole batch is written *)
  /\ (let s0 := ex_big_svc false in
      let s1 := fst (svc_step_m (RProcess ex_poison) s0) in
      must_not_change (snd (svc_step_m (RProcess ex_poison) s0)) = false
      /\ mem s1 = sto s1
      /\ forallb (fun e : string * mrec =>
                    bindings_eqb (r_bs (snd e)) [("log", JArr [JStr "a"])]) (mem s1) = true
      /\ List.length (mem s1) = 70).
Proof. vm_compute. repeat split; reflexivity. Qed.
