(** C04 - A step follows the documented transition rule (action, ordered
    branches, guards).  Only statements, [exact], and Print Assumptions.

    [StepRule] (Spec/StepRule.v) is the documented rule written as
    relations over the specification's data: a branch fires when its
    pattern matches and its guard returns bindings for a candidate;
    branches are tried in listed order, the first that does not decline
    decides; message branching consumes the pending message whether or not a
    branch is taken and does nothing without one; bindings branching never
    consumes; the node's action runs first and its bindings replace the
    current ones; an action failure is routed by the error settings.
    [step] is the model of core.Spec.Step (Model/Step.v), for ANY action
    type and ANY behaviour [run] of actions and guards, any specification,
    state (unknown nodes and absent bindings included) and pending message.
    The correspondence run compares [step] with Spec.Step on every generated
    (spec, state, message); since rule and model determine each other, a
    disagreement there is a violation of the rule by the implementation. *)
From Sheens Require Import Model.Step Spec.StepRule Proofs.StepFacts Proofs.StepRuleProofs.

Section C04.
Variable action : Type.
Variable run : action -> option bindings -> exec_raw.

(** the step obeys the rule *)
Theorem C04_step_follows_rule :
  forall s st pending,
  StepRule action run s st pending (outcome_of (step action run s st pending)).
Proof. exact (step_rule action run). Qed.

(** and the rule admits no other outcome: it is a complete description *)
Theorem C04_rule_determines_step :
  forall s st pending o,
  StepRule action run s st pending o -> outcome_of (step action run s st pending) = o.
Proof. exact (rule_step action run). Qed.

Theorem C04_rule_functional :
  forall s st pending o1 o2,
  StepRule action run s st pending o1 -> StepRule action run s st pending o2 -> o1 = o2.
Proof. exact (step_rule_functional action run). Qed.

(** ordered branches: what [first_branch] returns is what the in-order rule selects *)
Theorem C04_branches_in_order :
  forall brs bs against o,
  SelectRule action run bs against brs o <->
  of_try (fst (first_branch action run brs bs against)) = o.
Proof.
  intros brs bs against o. split;
    [exact (rule_first_branch action run brs bs against o)
    | intros <-; exact (first_branch_rule action run brs bs against)].
Qed.

(** guards: a guarded branch goes where the first accepted candidate says *)
Theorem C04_branch_and_guard :
  forall b bs against o,
  BranchRule action run b bs against o <->
  of_try (fst (try_branch action run b bs against)) = o.
Proof.
  intros b bs against o. split;
    [exact (rule_try_branch action run b bs against o)
    | intros <-; exact (try_branch_rule action run b bs against)].
Qed.

(** consumption: a stride consumed either nothing or exactly the pending message *)
Theorem C04_consumes_only_pending :
  forall s st pending sd,
  so_stride (step action run s st pending) = Some sd ->
  sd_consumed sd = None \/ sd_consumed sd = pending.
Proof. exact (step_consumed action run). Qed.
End C04.

Print Assumptions C04_step_follows_rule.
Print Assumptions C04_rule_determines_step.
Print Assumptions C04_rule_functional.
Print Assumptions C04_branches_in_order.
Print Assumptions C04_branch_and_guard.
Print Assumptions C04_consumes_only_pending.

(** non-vacuity: a node with an action that sets a binding, then two
    bindings branches of which the second fires *)
From Sheens Require Import Model.Action.
Definition ex_spec : aspec :=
  mk_spec
    [("start", mk_node (Some (Js (mk_prog [ASet "n" (JNum 8); AEmit (JStr "hi")] TRetBindings))) false
        (Some (mk_branching "bindings"
                 [mk_branch (Some (JObj [("n", JNum 4)])) None "one";
                  mk_branch (Some (JObj [("n", JStr "?v")])) None "two"])))]
    false "" true.
Example C04_nonvacuous :
  outcome_of (astep ex_spec (mk_state "start" (Some [])) None)
  = (Some (mk_stride (mk_state "start" (Some []))
                     (Some (mk_state "two" (Some [("?v", JNum 8); ("n", JNum 8)])))
                     None [JStr "hi"]), None).
Proof. vm_compute. reflexivity. Qed.
