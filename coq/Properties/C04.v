(** C04.  Only statements, [exact], and Print Assumptions. *)
From Sheens Require Import Model.Step.
