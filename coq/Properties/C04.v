(** C04 - A step follows the documented transition rule (action, ordered
    branches, guards).  Only statements, [exact], and Print Assumptions.

    [StepRule] (Spec/StepRule.v) is the documented rule written as
    relations over the specification's data: a branch fires when its
    pattern matches and its guard returns bindings for a candidate;
    branches are tried in listed order, the first that does not decline
    decides; message branching consumes the pending message whether or not a
    branch is taken and does nothing without one; bindings branching never
    consumes; the node's action runs first and its bindings replace the
    current ones; an action failure is routed by the error settings.
    [step] is the model of core.Spec.Step (Model/Step.v), for ANY action
    type and ANY behaviour [run] of actions and guards, any specification,
    state (unknown nodes and absent bindings included) and pending message.
    The correspondence run compares [step] with Spec.Step on every generated
    (spec, state, message); since rule and model determine each other, a
    disagreement there is a violation of the rule by the implementation. *)
From Sheens Require Import Model.Step Spec.StepRule Proofs.StepFacts Proofs.StepRuleProofs.

Section C04.
Variable action : Type.
Variable run : action -> option bindings -> exec_raw.

(** the step obeys the rule *)
Theorem C04_step_follows_rule :
  forall s st pending,
  StepRule action run s st pending (outcome_of (step action run s st pending)).
Proof. exact (step_rule action run). Qed.

(** and the rule allows no other outcome: it is a complete description *)
Theorem C04_rule_determines_step :
  forall s st pending o,
  StepRule action run s st pending o -> outcome_of (step action run s st pending) = o.
Proof. exact (rule_step action run). Qed.

Theorem C04_rule_functional :
  forall s st pending o1 o2,
  StepRule action run s st pending o1 -> StepRule action run s st pending o2 -> o1 = o2.
Proof. exact (step_rule_functional action run). Qed.

(** ordered branches: what [first_branch] returns is what the in-order rule selects *)
Theorem C04_branches_in_order :
  forall brs bs against o,
  SelectRule action run bs against brs o <->
  of_try (fst (first_branch action run brs bs against)) = o.
Proof.
  intros brs bs against o. split;
    [exact (rule_first_branch action run brs bs against o)
    | intros <-; exact (first_branch_rule action run brs bs against)].
Qed.

(** guards: a guarded branch goes where the first accepted candidate says *)
Theorem C04_branch_and_guard :
  forall b bs against o,
  BranchRule action run b bs against o <->
  of_try (fst (try_branch action run b bs against)) = o.
Proof.
  intros b bs against o. split;
    [exact (rule_try_branch action run b bs against o)
    | intros <-; exact (try_branch_rule action run b bs against)].
Qed.

(** consumption: a stride consumed either nothing or exactly the pending message *)
Theorem C04_consumes_only_pending :
  forall s st pending sd,
  so_stride (step action run s st pending) = Some sd ->
  sd_consumed sd = None \/ sd_consumed sd = pending.
Proof. exact (step_consumed action run). Qed.
End C04.

Print Assumptions C04_step_follows_rule.
Print Assumptions C04_rule_determines_step.
Print Assumptions C04_rule_functional.
Print Assumptions C04_branches_in_order.
Print Assumptions C04_branch_and_guard.
Print Assumptions C04_consumes_only_pending.

(** the names the engine model writes when an action fails or no branch is
    followed, and the name of the node it then goes to, are read from
    Spec.Step and Spec.Walk in the source of the tree under test
    (Gen/Names.v, written by harness/cmd/genconsts on every run); they are the
    names the rule of Spec/StepRule.v is written with *)
Theorem C04_error_names_are_documented :
  step_action_error_key = "actionError" /\ step_error_key = "error"
  /\ step_last_node_key = "lastNode" /\ step_last_bindings_key = "lastBindings"
  /\ error_node_literal = "error".
Proof. exact error_names_documented. Qed.
Print Assumptions C04_error_names_are_documented.

(** non-vacuity: a node with an action that sets a binding, then two
    bindings branches of which the second fires *)
From Sheens Require Import Model.Action.
Definition ex_spec : aspec :=
  mk_spec
    [("start", mk_node (Some (Js (mk_prog [ASet "n" (JNum 8); AEmit (JStr "hi")] TRetBindings))) false
        (Some (mk_branching "bindings"
                 [mk_branch (Some (JObj [("n", JNum 4)])) None "one";
                  mk_branch (Some (JObj [("n", JStr "?v")])) None "two"])))]
    false "" true.
Example C04_nonvacuous :
  outcome_of (astep ex_spec (mk_state "start" (Some [])) None)
  = (Some (mk_stride (mk_state "start" (Some []))
                     (Some (mk_state "two" (Some [("?v", JNum 8); ("n", JNum 8)])))
                     None [JStr "hi"]), None).
Proof. vm_compute. reflexivity. Qed.

(** * The guard log (the steps the comparison skips)

    A guarded branch whose pattern yields several acceptable candidates goes
    where the candidate listed first says, and the matcher lists them in Go
    map-iteration order: [step] flags such steps [so_ambiguous] and the
    comparison [step_agrees] does not look at them.  The harness records the
    guard calls the implementation made and [glog_ok] (Corr/StepCorr.v)
    checks them against the per-candidate guard semantics.  [step_logged]
    (Spec/GuardLog.v) is the model's own account: [step] instrumented with a
    candidate-order oracle [cord] (any function from a branch's index and
    candidate list to the list actually presented) and returning the calls
    made.  Any action type, any [run]; the oracle statements are about the
    action language [act] the cases are written in. *)
From Sheens Require Import Spec.GuardLog Corr.StepCorr Proofs.GuardLogProofs.

(** under the identity order the instrumented step is [step] *)
Theorem C04_step_logged_erases :
  forall (action : Type) (run : action -> option bindings -> exec_raw) s st pending,
  fst (step_logged action run cand_id s st pending) = step action run s st pending.
Proof. exact step_logged_erase. Qed.

(** soundness of the oracle: for every specification, state, pending message
    and every candidate order, what the instrumented model step returns and
    the log it produced are accepted (no side condition) *)
Theorem C04_guard_log_oracle_sound :
  forall (cord : cand_oracle) (s : aspec) (st : state) (pending : option json)
         (o : step_out) (log : list mcall) (intact shared repeat : bool),
  step_logged act run_act cord s st pending = (o, log) ->
  glog_ok (mk_scase s st pending (GStep (so_stride o) (err_class (so_err o)))
                    intact shared repeat (Some (map gcall_of log))) = true.
Proof. exact glog_oracle_sound. Qed.

(** a step not flagged ambiguous has one result, whatever the order of the
    candidates (this is what [guard_order_free] is for) *)
Theorem C04_unambiguous_step_order_free :
  forall (action : Type) (run : action -> option bindings -> exec_raw) (cord : cand_oracle),
  cand_perm cord ->
  forall s st pending,
  so_ambiguous (step action run s st pending) = false ->
  fst (step_logged action run cord s st pending) = step action run s st pending.
Proof. exact step_logged_order_free. Qed.

(** the oracle is not vacuous: on an ambiguous step, where the comparison
    accepts anything, it accepts the logs of the two orders and rejects a
    guard loop that runs on every candidate and lets the last acceptance win
    (same returned stride as an honest run), and one that stops at the first
    acceptance but takes another candidate's bindings *)
Theorem C04_guard_log_oracle_discriminates :
  so_ambiguous (model_step disc_run_all) = true
  /\ step_agrees stride_eqb disc_run_all = true
  /\ step_agrees c04_proj disc_run_all = true
  /\ step_agrees stride_eqb disc_wrong_bindings = true
  /\ glog_ok disc_run_all = false
  /\ glog_ok disc_wrong_bindings = false
  /\ glog_ok disc_honest_first = true
  /\ glog_ok disc_honest_last = true
  /\ sc_go disc_honest_first
     = go_of (fst (step_logged act run_act cand_id ex_spec_any ex_start (Some ex_msg)))
  /\ sc_glog disc_honest_first
     = Some (map gcall_of (snd (step_logged act run_act cand_id ex_spec_any ex_start (Some ex_msg))))
  /\ sc_go disc_honest_last
     = go_of (fst (step_logged act run_act rev_oracle ex_spec_any ex_start (Some ex_msg)))
  /\ sc_glog disc_honest_last
     = Some (map gcall_of (snd (step_logged act run_act rev_oracle ex_spec_any ex_start (Some ex_msg)))).
Proof. exact glog_oracle_discriminates. Qed.

Print Assumptions C04_step_logged_erases.
Print Assumptions C04_guard_log_oracle_sound.
Print Assumptions C04_unambiguous_step_order_free.
Print Assumptions C04_guard_log_oracle_discriminates.

(** non-vacuity of the soundness and order statements: logs with several
    calls, two orders, an action-error step whose branches' guards run *)
Example C04_guard_log_two_orders :
  map gcall_of (snd (step_logged act run_act cand_id ex_spec_x2 ex_start (Some ex_msg)))
  = [mk_gcall 1 (Some [("?x", JNum 1)]) GVReject;
     mk_gcall 1 (Some [("?x", JNum 2)]) (GVAccept [("?x", JNum 2)])]
  /\ map gcall_of (snd (step_logged act run_act rev_oracle ex_spec_x2 ex_start (Some ex_msg)))
  = [mk_gcall 1 (Some [("?x", JNum 3)]) GVReject;
     mk_gcall 1 (Some [("?x", JNum 2)]) (GVAccept [("?x", JNum 2)])]
  /\ so_ambiguous (astep ex_spec_x2 ex_start (Some ex_msg)) = false
  /\ fst (step_logged act run_act rev_oracle ex_spec_x2 ex_start (Some ex_msg))
     = astep ex_spec_x2 ex_start (Some ex_msg).
Proof. exact ex_x2_logs. Qed.
