(** C02 - Match completeness: an instance embedded in a message is always
    found.  Only statements, [exact], and Print Assumptions.

    [embeds sg p f]: the assignment [sg] embeds pattern [p] in message [f],
    each variable standing for the whole message part at its position
    (Spec/Embed.v).  [c02_pre] spells the property's quantifier: supported
    fragment, plain variables, arrays are sets, repeated variables scalar,
    nothing planted begins with '?'.  This is the statement the repository's
    own doc/patmatch.v leaves Admitted (submsg_patmatch), here for the model
    of the real algorithm including arrays and property variables. *)
From Sheens Require Import Spec.Embed Proofs.MatchComplete Proofs.MatchLinear Proofs.EmbedsExtra
     Proofs.CplCheck.

(** if some assignment embeds the pattern in the message, matching succeeds
    (with any iteration order, for every sufficient fuel) and returns it *)
Theorem C02_match_complete :
  forall ord, perm_oracle ord -> forall p f sg,
  c02_pre p f sg = true -> embeds sg p f = true ->
  exists n0, forall fuel, n0 <= fuel ->
    exists bss, match_ ord fuel p f [] = Ok bss /\ In sg bss.
Proof. exact match_complete. Qed.
Print Assumptions C02_match_complete.

(** "exactly the embeddings", other half: for a linear plain pattern every
    returned set is an embedding whose domain is the pattern's variables *)
Theorem C02_linear_results_are_embeddings :
  forall ord, perm_oracle ord -> forall fuel p f bss bs',
  supported p = true -> all_plain p = true -> linear p = true ->
  wf_json p = true -> wf_json f = true -> var_free f = true ->
  arrays_are_sets p = true -> arrays_are_sets f = true ->
  match_ ord fuel p f [] = Ok bss -> In bs' bss ->
  c02_result_is_embedding p f bs' = true.
Proof. exact match_linear_results_embed. Qed.
Print Assumptions C02_linear_results_are_embeddings.

(** the supported plain fragment never reports an error *)
Theorem C02_supported_no_error :
  forall ord, perm_oracle ord -> forall fuel p f,
  supported p = true -> all_plain p = true -> var_free f = true ->
  match_ ord fuel p f [] <> Err.
Proof. exact match_supported_no_err. Qed.
Print Assumptions C02_supported_no_error.

(** keys and array elements the pattern does not mention never prevent a
    match: adding them (at the skeleton positions of the pattern, at any
    depth) keeps the embedding, hence by completeness the match *)
Theorem C02_extra_key_harmless :
  forall sg kvs fkvs k x, assoc k fkvs = None ->
  embeds sg (JObj kvs) (JObj fkvs) = true ->
  embeds sg (JObj kvs) (JObj (fkvs ++ [(k, x)])) = true.
Proof. exact embeds_extra_key. Qed.
Print Assumptions C02_extra_key_harmless.

Theorem C02_extra_element_harmless :
  forall sg xs fa x,
  embeds sg (JArr xs) (JArr fa) = true -> embeds sg (JArr xs) (JArr (fa ++ [x])) = true.
Proof. exact embeds_extra_elem. Qed.
Print Assumptions C02_extra_element_harmless.

Theorem C02_extras_harmless_any_depth :
  forall sg p f f',
  wf_json f = true -> embeds sg p f = true -> adds_extras p f f' -> embeds sg p f' = true.
Proof. exact embeds_adds_extras. Qed.
Print Assumptions C02_extras_harmless_any_depth.

(** non-vacuity: a concrete pattern with a repeated variable, an array
    variable, a property variable and an anonymous variable meets the side
    conditions, and the model returns the planted assignment *)
Example C02_nonvacuous :
  c02_pre ex_p ex_f ex_sg = true /\ embeds ex_sg ex_p ex_f = true /\
  match Match ex_p ex_f [] with Ok r => c02_found ex_sg r | _ => false end = true.
Proof. split; [exact ex_pre | split; [exact ex_embeds | exact ex_found]]. Qed.
