(** C02 - Match completeness.  Only statements, [exact], and Print Assumptions. *)
From Sheens Require Import Spec.Embed.
