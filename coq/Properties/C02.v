(** C02 - Match completeness: an instance embedded in a message is always
    found.  Only statements, [exact], and Print Assumptions.

    [embeds sg p f]: the assignment [sg] embeds pattern [p] in message [f],
    each variable standing for the whole message part at its position
    (Spec/Embed.v).  [c02_pre] spells the property's quantifier: supported
    fragment, plain variables, arrays are sets, repeated variables scalar,
    nothing planted begins with '?'.  This is the statement the repository's
    own doc/patmatch.v leaves without a proof (submsg_patmatch), here for the model
    of the real algorithm including arrays and property variables. *)
From Sheens Require Import Spec.Embed Proofs.MatchComplete Proofs.MatchLinear Proofs.EmbedsExtra
     Proofs.CplCheck.

(** if some assignment embeds the pattern in the message, matching succeeds
    (with any iteration order, for every sufficient fuel) and returns it *)
Theorem C02_match_complete :
  forall ord, perm_oracle ord -> forall p f sg,
  c02_pre p f sg = true -> embeds sg p f = true ->
  exists n0, forall fuel, n0 <= fuel ->
    exists bss, match_ ord fuel p f [] = Ok bss /\ In sg bss.
Proof. exact match_complete. Qed.
Print Assumptions C02_match_complete.

(** "exactly the embeddings", other half: for a linear plain pattern every
    returned set is an embedding whose domain is the pattern's variables *)
Theorem C02_linear_results_are_embeddings :
  forall ord, perm_oracle ord -> forall fuel p f bss bs',
  supported p = true -> all_plain p = true -> linear p = true ->
  wf_json p = true -> wf_json f = true -> var_free f = true ->
  arrays_are_sets p = true -> arrays_are_sets f = true ->
  match_ ord fuel p f [] = Ok bss -> In bs' bss ->
  c02_result_is_embedding p f bs' = true.
Proof. exact match_linear_results_embed. Qed.
Print Assumptions C02_linear_results_are_embeddings.

(** the supported plain fragment never reports an error *)
Theorem C02_supported_no_error :
  forall ord, perm_oracle ord -> forall fuel p f,
  supported p = true -> all_plain p = true -> var_free f = true ->
  match_ ord fuel p f [] <> Err.
Proof. exact match_supported_no_err. Qed.
Print Assumptions C02_supported_no_error.

(** keys and array elements the pattern does not mention never prevent a
    match: adding them (at the skeleton positions of the pattern, at any
    depth) keeps the embedding, hence by completeness the match *)
Theorem C02_extra_key_harmless :
  forall sg kvs fkvs k x, assoc k fkvs = None ->
  embeds sg (JObj kvs) (JObj fkvs) = true ->
  embeds sg (JObj kvs) (JObj (fkvs ++ [(k, x)])) = true.
Proof. exact embeds_extra_key. Qed.
Print Assumptions C02_extra_key_harmless.

Theorem C02_extra_element_harmless :
  forall sg xs fa x,
  embeds sg (JArr xs) (JArr fa) = true -> embeds sg (JArr xs) (JArr (fa ++ [x])) = true.
Proof. exact embeds_extra_elem. Qed.
Print Assumptions C02_extra_element_harmless.

Theorem C02_extras_harmless_any_depth :
  forall sg p f f',
  wf_json f = true -> embeds sg p f = true -> adds_extras p f f' -> embeds sg p f' = true.
Proof. exact embeds_adds_extras. Qed.
Print Assumptions C02_extras_harmless_any_depth.

(** non-vacuity: a concrete pattern with a repeated variable, an array
    variable, a property variable and an anonymous variable meets the side
    conditions, and the model returns the planted assignment *)
Example C02_nonvacuous :
  c02_pre ex_p ex_f ex_sg = true /\ embeds ex_sg ex_p ex_f = true /\
  match Match ex_p ex_f [] with Ok r => c02_found ex_sg r | _ => false end = true.
Proof. split; [exact ex_pre | split; [exact ex_embeds | exact ex_found]]. Qed.

(** * Optional and inequality variables (Spec/EmbedOpt.v)

    [embeds_opt sg p f]: as [embeds], but an optional variable "??x" may be
    left unassigned (not in [sg]) where the matcher allows it to be absent:
    as an object value whose key is missing from the message, and as the
    variable of an array whose other elements use up the whole message array
    (the matcher binds the variable to every left-over element and returns
    the bindings without it only when nothing is left over).  Where the key
    is present, or an element is left over, it stands for the message part
    like a plain variable.  [c02_pre_opt] is [c02_pre] with optional
    variables allowed; the assignment's names are a subset of the pattern's
    variables containing all the non-optional ones. *)
From Sheens Require Import Spec.EmbedOpt Proofs.MatchCompleteOpt Proofs.MatchCompleteIneq.

Theorem C02_match_complete_optional :
  forall ord, perm_oracle ord -> forall p f sg,
  c02_pre_opt p f sg = true -> embeds_opt sg p f = true ->
  exists n0, forall fuel, n0 <= fuel ->
    exists bss, match_ ord fuel p f [] = Ok bss /\ In sg bss.
Proof. exact match_complete_opt. Qed.
Print Assumptions C02_match_complete_optional.

(** non-vacuity: optional variables as object values (key present, key
    missing) and as array variables (assigned; unassigned with nothing left
    over), with a repeated plain and a property variable *)
Example C02_optional_nonvacuous :
  existsb is_optional (pvars exo_p) = true /\
  c02_pre_opt exo_p exo_f exo_sg = true /\ embeds_opt exo_sg exo_p exo_f = true /\
  match Match exo_p exo_f [] with Ok r => c02_found exo_sg r | _ => false end = true.
Proof.
  split; [exact exo_has_optional | split; [exact exo_pre | split; [exact exo_embeds | exact exo_found]]].
Qed.

(** the two restrictions in [embeds_opt] are needed: with an element left
    over, resp. with the key present, the assignment without the optional
    variable embeds the rest of the pattern but is not returned *)
Theorem C02_optional_array_leftover_refuted :
  exists xs s fa sg,
    is_optional s = true /\ unassigned sg s = true /\
    c02_pre_opt (JArr (xs ++ [JStr s])) (JArr fa) sg = true /\
    embeds sg (JArr xs) (JArr fa) = true /\
    match Match (JArr (xs ++ [JStr s])) (JArr fa) [] with
    | Ok r => c02_found sg r
    | _ => true
    end = false.
Proof. exact optional_array_leftover_refuted. Qed.
Print Assumptions C02_optional_array_leftover_refuted.

Theorem C02_optional_present_key_refuted :
  exists k s kvs fkvs sg,
    is_optional s = true /\ unassigned sg s = true /\
    c02_pre_opt (JObj ((k, JStr s) :: kvs)) (JObj fkvs) sg = true /\
    embeds sg (JObj kvs) (JObj fkvs) = true /\
    match Match (JObj ((k, JStr s) :: kvs)) (JObj fkvs) [] with
    | Ok r => c02_found sg r
    | _ => true
    end = false.
Proof. exact optional_present_key_refuted. Qed.
Print Assumptions C02_optional_present_key_refuted.

(** Inequality variables.  [bs0] gives a numeric bound for each of the
    pattern's inequality variables (and nothing else, [c02_pre_ineq]); in
    [embeds_ineq bs0 sg p f] the message has, at the position of "?<n", a
    number below the bound and [sg] assigns that number to the plain
    counterpart "?n" (likewise "?<=n", "?>n", "?>=n", "?!=n"); every other
    variable is as in [embeds_opt].  The matcher started from the bounds
    returns the bounds together with the assignment.  Arrays, repeated
    inequality variables and counterparts that also occur as plain
    variables are included. *)
Theorem C02_match_complete_inequality :
  forall ord, perm_oracle ord -> forall p f bs0 sg,
  c02_pre_ineq p f bs0 sg = true -> embeds_ineq bs0 sg p f = true ->
  exists n0, forall fuel, n0 <= fuel ->
    exists bss, match_ ord fuel p f bs0 = Ok bss /\ In (bunion bs0 sg) bss.
Proof. exact match_complete_ineq. Qed.
Print Assumptions C02_match_complete_inequality.

(** non-vacuity: inequality variables as object values, inside an array and
    as the variable of an array, one of them repeated, one whose counterpart
    is also a plain variable of the pattern, next to an optional variable *)
Example C02_inequality_nonvacuous :
  negb (forallb no_ineq_var (pvars exi_p)) = true /\
  c02_pre_ineq exi_p exi_f exi_bs0 exi_sg = true /\ embeds_ineq exi_bs0 exi_sg exi_p exi_f = true /\
  match Match exi_p exi_f exi_bs0 with Ok r => c02_found (bunion exi_bs0 exi_sg) r | _ => false end = true.
Proof.
  split; [exact exi_has_inequality | split; [exact exi_pre | split; [exact exi_embeds | exact exi_found]]].
Qed.

(** the supported fragment never reports an error, whatever kinds of
    variables the pattern has and whatever variable-free bindings are given *)
Theorem C02_supported_no_error_any_variables :
  forall ord, perm_oracle ord -> forall fuel p f bs,
  supported p = true -> var_free f = true -> var_free_bs bs = true ->
  match_ ord fuel p f bs <> Err.
Proof. exact match_supported_no_err_any_vars. Qed.
Print Assumptions C02_supported_no_error_any_variables.

(** the notions with optional variables extend the plain ones: under
    [c02_pre] (all variables plain) the side conditions carry over and the
    two embeddings coincide, so [C02_match_complete] is an instance of
    [C02_match_complete_optional] *)
Theorem C02_optional_extends_plain :
  forall p f sg, c02_pre p f sg = true ->
  c02_pre_opt p f sg = true /\ embeds_opt sg p f = embeds sg p f.
Proof. exact embeds_opt_extends_embeds. Qed.
Print Assumptions C02_optional_extends_plain.

(** and the statement with bounds extends the one with optional variables:
    with no bounds (hence no inequality variables) the side conditions carry
    over, the returned set is the assignment itself and the embedding is
    kept, so [C02_match_complete_optional] is an instance of
    [C02_match_complete_inequality] *)
Theorem C02_inequality_extends_optional :
  forall p f sg, c02_pre_opt p f sg = true ->
  c02_pre_ineq p f [] sg = true /\ bunion [] sg = sg /\
  (embeds_opt sg p f = true -> embeds_ineq [] sg p f = true).
Proof. exact embeds_ineq_extends_opt. Qed.
Print Assumptions C02_inequality_extends_optional.

(** * The oracles applied to the implementation's results are sound

    [c02_found sg rs] is what the correspondence run evaluates on the results
    the Go matcher returned for a planted assignment (Corr/MatchCorr.v,
    [c02_applicable] and [c02_opt_applicable]).  Whatever the completeness
    theorems guarantee passes it, so on code that computes what the model
    computes the oracle cannot raise an alarm. *)
From Sheens Require Import Proofs.C02OracleSound.

Theorem C02_oracle_sound :
  forall ord, perm_oracle ord -> forall p f sg,
  c02_pre p f sg = true -> embeds sg p f = true ->
  exists n0, forall fuel, n0 <= fuel ->
    exists bss, match_ ord fuel p f [] = Ok bss /\ c02_found sg bss = true.
Proof. exact c02_oracle_sound. Qed.
Print Assumptions C02_oracle_sound.

Theorem C02_optional_oracle_sound :
  forall ord, perm_oracle ord -> forall p f sg,
  c02_pre_opt p f sg = true -> embeds_opt sg p f = true ->
  exists n0, forall fuel, n0 <= fuel ->
    exists bss, match_ ord fuel p f [] = Ok bss /\ c02_found sg bss = true.
Proof. exact c02_opt_oracle_sound. Qed.
Print Assumptions C02_optional_oracle_sound.
