(** C10 - ECMAScript actions are isolated from the host and from each other.
    Only statements, [exact], Print Assumptions and Examples.

    The model (Model/JsRuntime.v) makes the interpreter state a script can
    touch explicit - globals, built-in prototypes, the members of the
    environment object, and which parts of its views of bindings/props are
    the caller's own objects - and parametrises Exec by a policy.  [faithful]
    is the code (a new runtime and env per execution, bindings deep-copied,
    props copied one level deep). *)
From Sheens Require Import Model.JsRuntime Model.ConcJs Proofs.JsIsolation.

(** whatever was executed before - any scripts, any caller data, from any
    world - an execution returns what it returns alone *)
Theorem C10_history_free :
  forall h w s c, exec_after faithful w h s c = snd (exec faithful w s c).
Proof. exact (history_free faithful faithful_ignores_world). Qed.
Print Assumptions C10_history_free.

(** the reason, for every policy: the runtime state is not taken from the world *)
Theorem C10_history_free_policy :
  forall p, ignores_world p -> forall h w s c, exec_after p w h s c = snd (exec p w s c).
Proof. exact history_free. Qed.
Print Assumptions C10_history_free_policy.

(** the caller's bindings are never changed, whatever the script does *)
Theorem C10_bindings_intact :
  forall w s c, c_bs (snd (snd (exec faithful w s c))) = c_bs c.
Proof. exact (bindings_intact faithful eq_refl). Qed.
Print Assumptions C10_bindings_intact.

(** the top level of the caller's props (keys, scalar values, which members
    are maps / arrays) is never changed *)
Theorem C10_props_intact_toplevel :
  forall w s c, props_shape (snd (snd (exec faithful w s c))) = props_shape c.
Proof. exact (props_toplevel_intact faithful eq_refl (or_introl eq_refl)). Qed.
Print Assumptions C10_props_intact_toplevel.

(** full strength for props is false of the code as it stands (D22): a nested
    member of props is the caller's own map *)
Definition C10_props_intact_full : Prop := props_intact_full.
Theorem C10_props_refuted : ~ C10_props_intact_full.
Proof. exact props_intact_full_refuted. Qed.
Print Assumptions C10_props_refuted.

(** ... and true of every script that does not assign or delete below a
    member of props: the caller's data is untouched *)
Theorem C10_caller_intact_partial :
  forall w s c, nested_props_write s = false -> snd (snd (exec faithful w s c)) = c.
Proof. exact no_nested_write_caller_intact. Qed.
Print Assumptions C10_caller_intact_partial.

(** executions over the same caller objects (one props map for all actions and
    guards of a walk): each returns what it returns alone, and the caller's
    data is as before *)
Theorem C10_sequence_isolated :
  forall ss w c,
  forallb (fun s => negb (nested_props_write s)) ss = true ->
  fst (run_seq faithful w c ss) = map (fun s => (alone s c, c)) ss
  /\ snd (snd (run_seq faithful w c ss)) = c.
Proof. exact sequence_isolated. Qed.
Print Assumptions C10_sequence_isolated.

(** any number of executions - of one compiled source or of several - cut into
    atomic steps (start, one per operation, return) and interleaved in any
    way: the world is as before, and every execution that has had its turns
    has returned what it returns alone *)
Theorem C10_concurrent_eq_alone :
  forall sched w (cfg : list ethr) i s c,
  nth_error cfg i = Some (ENew s c) ->
  S (List.length (scr_ops s)) < turns i sched ->
  fst (interleave (exec_step faithful) sched w cfg) = w /\
  nth_error (snd (interleave (exec_step faithful) sched w cfg)) i = Some (EDone (snd (exec faithful w s c))).
Proof. exact concurrent_eq_alone. Qed.
Print Assumptions C10_concurrent_eq_alone.

(** a deep copy of props would make the full statement true *)
Theorem C10_deep_props_would_hold :
  forall w s c, snd (snd (exec deep_props w s c)) = c.
Proof. exact deep_props_caller_intact. Qed.
Print Assumptions C10_deep_props_would_hold.

(** the optimisations the property worries about are not history free *)
Theorem C10_pooled_refuted : ~ history_free_for pooled_runtime.
Proof. exact pooled_runtime_refuted. Qed.
Print Assumptions C10_pooled_refuted.

Theorem C10_shared_env_refuted : ~ history_free_for shared_env.
Proof. exact shared_env_refuted. Qed.
Print Assumptions C10_shared_env_refuted.

(** non-vacuity: the polluter does pollute (it returns its deeply mutated
    bindings), the probe reads all four channels, sees nothing after it under
    [faithful] and sees the pollution under [pooled_runtime] *)
Example C10_nonvacuous :
  fst (snd (exec faithful None polluter some_caller)) = ROk (Some [("a", JObj [("deep", JNum 4)])]) []
  /\ exec_after faithful None [(polluter, some_caller)] probe some_caller
     = (ROk (Some [("r0", JNull); ("r1", JNull); ("r2", JStr "undefined"); ("r3", JNum 0)]) [], some_caller)
  /\ fst (exec_after pooled_runtime None [(polluter, some_caller)] probe some_caller)
     = ROk (Some [("r0", JNum 20); ("r1", JStr "patched"); ("r2", JStr "undefined"); ("r3", JNum 0)]) [].
Proof.
  split; [exact polluter_value | split; [exact probe_after_polluter_value | exact probe_after_polluter_pooled_value]].
Qed.

(** non-vacuity of the D22 refutation and of the side condition *)
Example C10_d22_witness :
  c_props (snd (snd (exec faithful None d22_script d22_caller)))
  = Some [("cfg", JObj [("k", JStr "hacked")]); ("mid", JStr "m1")]
  /\ nested_props_write d22_script = true /\ nested_props_write polluter = false.
Proof. split; [exact props_nested_refuted | split; reflexivity]. Qed.
