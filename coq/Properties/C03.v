(** C03 - Match is a pure function.  Only statements, [exact], and Print Assumptions. *)
From Sheens Require Import Model.Match.
