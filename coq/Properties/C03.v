(** C03 - Match is a pure function: deterministic result, inputs untouched.
    Only statements, [exact], and Print Assumptions.

    The model is a Gallina function, so "inputs untouched / results
    independent" holds of it by construction; what the theorems add is that
    the *result does not depend on the order in which the runtime iterates
    over maps* ([ord1], [ord2]: any order oracles) nor on the order in which
    the entries of the pattern's, the message's and the bound values'
    objects are listed (Go maps have no order; [jperm]).  The aliasing half
    ("never modified", "independent maps") is stated, at the end of this
    file, of the heap-level re-statement of the matcher (Model/MatchHeap.v),
    which copies and writes in place exactly where match.go does and erases
    to [match_]; that it is match.go's copy discipline is my reading of the
    source, tested by the harness's identity probes (Corr/MatchHeapCorr.v).
    Concurrent use is observed on the implementation only. *)
From Sheens Require Import Model.Match Proofs.OrderBase Proofs.MatchOrder Proofs.PatternOrder
     Proofs.EntryOrder Proofs.OrderSanity.

(** any two iteration orders give the same multiset of binding sets and the
    same success-or-error outcome (an exhausted recursion fuel says nothing) *)
Theorem C03_order_independent :
  forall ord1 ord2, perm_oracle ord1 -> perm_oracle ord2 ->
  forall fuel p f bs, res_equiv (match_ ord1 fuel p f bs) (match_ ord2 fuel p f bs).
Proof. exact match_order_independent. Qed.
Print Assumptions C03_order_independent.

(** the listed order of the pattern's entries is irrelevant (sorted visit) *)
Theorem C03_pattern_entry_order :
  forall ord fuel kvs kvs' f bs,
  Permutation kvs kvs' -> NoDup (map fst kvs) ->
  match_ ord fuel (JObj kvs) f bs = match_ ord fuel (JObj kvs') f bs.
Proof. exact match_pattern_entry_order_irrelevant. Qed.
Print Assumptions C03_pattern_entry_order.

(** maps built in a different order, at any depth of pattern, message and
    bound values, under any two iteration orders *)
Theorem C03_construction_order_independent :
  forall ord1 ord2, perm_oracle ord1 -> perm_oracle ord2 ->
  forall fuel p p' f f' bs bs',
  wf_json p = true -> wf_json f = true -> wf_bs bs = true ->
  jperm p p' -> jperm f f' -> bs_jperm bs bs' ->
  res_equiv_up_to_jperm (match_ ord1 fuel p f bs) (match_ ord2 fuel p' f' bs').
Proof. exact match_entry_order_independent. Qed.
Print Assumptions C03_construction_order_independent.

(** non-vacuity: two oracles that do produce different result orders *)
Example C03_nonvacuous :
  perm_oracle ord_id /\ perm_oracle ord_rev /\
  match_ ord_id 10 (JObj [("?k", JStr "?v")]) (JObj [("a", JNum 4); ("b", JNum 8)]) []
  <> match_ ord_rev 10 (JObj [("?k", JStr "?v")]) (JObj [("a", JNum 4); ("b", JNum 8)]) [].
Proof. split; [exact ord_id_perm | split; [exact ord_rev_perm | exact oracle_matters]]. Qed.

(** * The aliasing half, on the heap-level matcher (Model/MatchHeap.v)

    [hMatch_at ord fuel p f c s] is [Matcher.Match] run on a heap [s] of
    bindings maps with the caller's map at address [c]: it copies where
    match.go copies, writes in place where match.go writes in place, returns
    addresses, and logs every copy, write and return of a [Match].  The
    statements hold for every heap, every caller address in it, every fuel
    and every order oracle (no hypothesis on [ord] is needed). *)
From Sheens Require Import Model.MatchHeap Corr.MatchHeapCorr
     Proofs.MatchHeapProofs Proofs.MatchHeapReport.

(** reading the returned addresses in the final heap gives exactly what the
    pure model returns: same list, same order, same outcome class *)
Theorem C03_heap_erasure :
  forall ord fuel p f c s, c < hsize s ->
  read_res (hMatch_at ord fuel p f c s) = match_ ord fuel p f (hread s c).
Proof. exact heap_erasure. Qed.
Print Assumptions C03_heap_erasure.

(** the caller's map (any map that existed before the call): same contents
    afterwards, not among the returned maps, never the target of a write *)
Theorem C03_caller_bindings_never_written :
  forall ord fuel p f c s r s',
  c < hsize s -> hMatch_at ord fuel p f c s = (r, s') ->
  (forall b, b < hsize s -> hread s' b = hread s b) /\
  (forall b, b < hsize s -> ~ In b (res_addrs r)) /\
  exists L, st_log s' = L ++ st_log s /\
            forall b k, b < hsize s -> ~ In (EvWrite b k) L.
Proof. exact heap_caller_intact. Qed.
Print Assumptions C03_caller_bindings_never_written.

(** the returned maps are pairwise distinct and all allocated during the
    call; every write of the call targets a map allocated during the call *)
Theorem C03_results_are_distinct_fresh_maps :
  forall ord fuel p f c s r s',
  c < hsize s -> hMatch_at ord fuel p f c s = (r, s') ->
  NoDup (res_addrs r) /\
  (forall x, In x (res_addrs r) -> hsize s <= x < hsize s') /\
  exists L, st_log s' = L ++ st_log s /\
            forall x k, In (EvWrite x k) L -> hsize s <= x < hsize s'.
Proof. exact heap_results_fresh_distinct. Qed.
Print Assumptions C03_results_are_distinct_fresh_maps.

(** hence a write to one returned map changes no other returned map and no
    map that existed before the call *)
Theorem C03_results_can_be_changed_independently :
  forall ord fuel p f c s r s',
  c < hsize s -> hMatch_at ord fuel p f c s = (r, s') ->
  forall x k v, In x (res_addrs r) ->
  (forall y, In y (res_addrs r) -> y <> x -> hread (hwrite x k v s') y = hread s' y) /\
  (forall b, b < hsize s -> hread (hwrite x k v s') b = hread s b).
Proof. exact heap_results_independent. Qed.
Print Assumptions C03_results_can_be_changed_independently.

(** in chronological order the events of the call end with the return of its
    result, and after a [Match] - this one or one called inside it - has
    returned a list of maps, no write targets a map of that list *)
Theorem C03_no_write_after_return :
  forall ord fuel p f c s r s',
  c < hsize s -> hMatch_at ord fuel p f c s = (r, s') ->
  exists C, chron s' = chron s ++ C /\
    (forall l, r = Ok l -> exists C', C = C' ++ [EvReturn l]) /\
    (forall C1 l C2, C = C1 ++ EvReturn l :: C2 ->
       forall x k, In (EvWrite x k) C2 -> ~ In x l).
Proof. exact heap_no_late_writes. Qed.
Print Assumptions C03_no_write_after_return.

(** what the executable report predicts for the harness's identity probes,
    for every input: results distinct and not the caller's map; caller's map
    intact and never written *)
Theorem C03_alias_report_constant :
  forall p f bs, heap_alias_report p f bs = (true, true).
Proof. exact heap_alias_report_true. Qed.
Print Assumptions C03_alias_report_constant.

(** non-vacuity: pattern ["?x"] against [1,2,{"a":3}] with {"?y":7} given
    returns three maps, at three distinct fresh addresses, each written once
    before it was returned; the caller's map at address 0 is only copied *)
Example C03_heap_nonvacuous :
  fst (HMatch ex_pattern ex_message ex_bindings) = Ok [3; 5; 7] /\
  read_res (HMatch ex_pattern ex_message ex_bindings) =
    Ok [[("?x", JObj [("a", JNum 3)]); ("?y", JNum 7)];
        [("?x", JNum 1); ("?y", JNum 7)];
        [("?x", JNum 2); ("?y", JNum 7)]] /\
  hread (snd (HMatch ex_pattern ex_message ex_bindings)) caller_addr = ex_bindings /\
  chron (snd (HMatch ex_pattern ex_message ex_bindings)) =
    [EvCopy 0 1;
     EvCopy 1 2; EvCopy 2 3; EvWrite 3 "?x"; EvReturn [3];
     EvCopy 1 4; EvCopy 4 5; EvWrite 5 "?x"; EvReturn [5];
     EvCopy 1 6; EvCopy 6 7; EvWrite 7 "?x"; EvReturn [7];
     EvReturn [3; 5; 7]] /\
  heap_alias_report ex_pattern ex_message ex_bindings = (true, true).
Proof. exact heap_example. Qed.
