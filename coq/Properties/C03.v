(** C03 - Match is a pure function: deterministic result, inputs untouched.
    Only statements, [exact], and Print Assumptions.

    The model is a Gallina function, so "inputs untouched / results
    independent" holds of it by construction; what the theorems add is that
    the *result does not depend on the order in which the runtime iterates
    over maps* ([ord1], [ord2]: any order oracles) nor on the order in which
    the entries of the pattern's, the message's and the bound values'
    objects are listed (Go maps have no order; [jperm]).  Aliasing and
    concurrent use are observed on the implementation (harness probes). *)
From Sheens Require Import Model.Match Proofs.OrderBase Proofs.MatchOrder Proofs.PatternOrder
     Proofs.EntryOrder Proofs.OrderSanity.

(** any two iteration orders give the same multiset of binding sets and the
    same success-or-error outcome (an exhausted recursion fuel says nothing) *)
Theorem C03_order_independent :
  forall ord1 ord2, perm_oracle ord1 -> perm_oracle ord2 ->
  forall fuel p f bs, res_equiv (match_ ord1 fuel p f bs) (match_ ord2 fuel p f bs).
Proof. exact match_order_independent. Qed.
Print Assumptions C03_order_independent.

(** the listed order of the pattern's entries is irrelevant (sorted visit) *)
Theorem C03_pattern_entry_order :
  forall ord fuel kvs kvs' f bs,
  Permutation kvs kvs' -> NoDup (map fst kvs) ->
  match_ ord fuel (JObj kvs) f bs = match_ ord fuel (JObj kvs') f bs.
Proof. exact match_pattern_entry_order_irrelevant. Qed.
Print Assumptions C03_pattern_entry_order.

(** maps built in a different order, at any depth of pattern, message and
    bound values, under any two iteration orders *)
Theorem C03_construction_order_independent :
  forall ord1 ord2, perm_oracle ord1 -> perm_oracle ord2 ->
  forall fuel p p' f f' bs bs',
  wf_json p = true -> wf_json f = true -> wf_bs bs = true ->
  jperm p p' -> jperm f f' -> bs_jperm bs bs' ->
  res_equiv_up_to_jperm (match_ ord1 fuel p f bs) (match_ ord2 fuel p' f' bs').
Proof. exact match_entry_order_independent. Qed.
Print Assumptions C03_construction_order_independent.

(** non-vacuity: two oracles that do produce different result orders *)
Example C03_nonvacuous :
  perm_oracle ord_id /\ perm_oracle ord_rev /\
  match_ ord_id 10 (JObj [("?k", JStr "?v")]) (JObj [("a", JNum 4); ("b", JNum 8)]) []
  <> match_ ord_rev 10 (JObj [("?k", JStr "?v")]) (JObj [("a", JNum 4); ("b", JNum 8)]) [].
Proof. split; [exact ord_id_perm | split; [exact ord_rev_perm | exact oracle_matters]]. Qed.
