(** C17 - Timers fire at most once, never early, never after cancel; ids are
    reusable.  Only statements, [exact], Print Assumptions and Examples.

    [cstep Mcrew] / [cstep Sio] (Model/Timers.v) are the line-level transition
    systems of cmd/mcrew/timers.go and sio/timers.go + sio/crew.go (after the
    D16/D17 repairs): requester labels (add, rem, snapshot, restart, clock)
    are enabled in every state, in particular while a goroutine is [Emitting]
    (a request made by the handler of the firing message); goroutine labels
    follow the code ([CTimerC] select takes timer.C, [CCtl] select takes the
    closed control channel, [CClaim]/[CSkip] the identity check under the lock,
    [VReport] the message is handed to the handler, [CRet] emit returned).
    [cexec p cinit tr = Some s] says: [s] is reached by the interleaving [tr].
    All theorems quantify over every interleaving [tr].

    [astep] (Spec/TimerSpec.v) is the abstract timer service written from the
    property text; [cfired], [ccancelled], [cknown] are the recorded
    history (messages handed over with their time, timers removed by a
    cancel/replace request, accepted timers). *)
From Coq Require Import ZArith List Bool.
From Sheens Require Import Model.Timers Corr.TimersCorr Proofs.TimersSpec Proofs.TimersInv
  Proofs.TimersRefine Proofs.TimersExtra Proofs.TimersHistory Proofs.TimersOracle.
From Sheens Require Model.SioCrew Proofs.SioIdsTie.
Import ListNotations.
Local Open Scope Z_scope.

(** a non-trivial reachable state used by the Examples: x is created, fires;
    its handler cancels (not found) and re-creates x, main creates y, cancels
    y, the re-created x fires *)
Definition ex_run : list clabel :=
  [CVis (VTick 0); CVis (VAdd 0 0 15 true); CVis (VTick 15); CTimerC 0; CClaim 0; CVis (VReport 0);
   CVis (VRem 0 false); CVis (VAdd 1 0 15 true); CVis (VAdd 2 1 5000 true); CRet 0;
   CVis (VRem 1 true); CCtl 2; CVis (VTick 31); CTimerC 1; CClaim 1; CVis (VReport 1)].

Example ex_run_reachable :
  exists s, cexec Mcrew cinit ex_run = Some s /\ map fst (cfired s) = [1%nat; 0%nat] /\
            ccancelled s = [2%nat] /\ cmap s = [].
Proof. eexists. split; [vm_compute; reflexivity|]. repeat split. Qed.

Definition ex_run_sio : list clabel :=
  [CVis (VTick 0); CVis (VAdd 0 0 15 true); CVis (VAdd 1 0 15 true); CCtl 0; CVis (VAdd 2 1 5000 true);
   CVis (VTick 16); CTimerC 1; CVis VBoot; CTimerC 1; CVis (VReport 1); CVis (VAdd 3 0 15 true);
   CVis (VRem 1 true)].

Example ex_run_sio_reachable :
  exists s, cexec Sio cinit ex_run_sio = Some s /\ map fst (cfired s) = [1%nat] /\
            ccancelled s = [2%nat; 0%nat] /\ map tg (cmap s) = [3%nat].
Proof. eexists. split; [vm_compute; reflexivity|]. repeat split. Qed.

(** * At most once *)
Theorem C17_at_most_once :
  forall p tr s, cexec p cinit tr = Some s -> NoDup (map fst (cfired s)).
Proof. exact model_at_most_once. Qed.
Print Assumptions C17_at_most_once.

(** * Never early, and only accepted timers *)
Theorem C17_never_early :
  forall p tr s, cexec p cinit tr = Some s ->
  forall g t, In (g, t) (cfired s) -> exists e, In e (cknown s) /\ tg e = g /\ tdue e <= t.
Proof. exact model_never_early. Qed.
Print Assumptions C17_never_early.

(** * Never after cancel (and a fired timer is not cancelled afterwards) *)
Theorem C17_not_after_cancel :
  forall p tr s, cexec p cinit tr = Some s ->
  forall g, In g (ccancelled s) -> ~ In g (map fst (cfired s)) /\ ~ In g (claimed_gens s).
Proof. exact model_not_after_cancel. Qed.
Print Assumptions C17_not_after_cancel.

(** * The map is the pending set: accepted, not cancelled, not fired *)
Theorem C17_map_is_pending :
  forall p tr s, cexec p cinit tr = Some s ->
  forall e, In e (cmap s) <->
            (In e (cknown s) /\ ~ In (tg e) (ccancelled s) /\ ~ In (tg e) (claimed_gens s) /\
             ~ In (tg e) (map fst (cfired s))).
Proof. exact model_map_is_pending. Qed.
Print Assumptions C17_map_is_pending.

Theorem C17_ids_unique :
  forall p tr s, cexec p cinit tr = Some s -> NoDup (map tid (cmap s)).
Proof. exact model_ids_unique. Qed.
Print Assumptions C17_ids_unique.

(** * No live timer is missing from the map; a pending timer is cancellable *)
Theorem C17_live_timer_in_map :
  forall p tr s, cexec p cinit tr = Some s ->
  forall r, In r (cgors s) -> gpc r = Waiting \/ gpc r = Due -> gclosed r = false ->
            In (gtm r) (cmap s).
Proof. exact model_live_timer_in_map. Qed.
Print Assumptions C17_live_timer_in_map.

Theorem C17_pending_cancellable :
  forall p tr s, cexec p cinit tr = Some s ->
  forall e, In e (cmap s) ->
  exists s', cstep p s (CVis (VRem (tid e) true)) = Some s' /\
             In (tg e) (ccancelled s') /\ ~ In e (cmap s').
Proof. exact model_pending_cancellable. Qed.
Print Assumptions C17_pending_cancellable.

Example C17_pending_cancellable_ex :
  exists s, cexec Mcrew cinit [CVis (VAdd 0 0 15 true); CVis (VTick 20); CTimerC 0] = Some s /\
            In (mkTm 0 0 15) (cmap s).
Proof. eexists. split; [vm_compute; reflexivity|]. left. reflexivity. Qed.

(** * Ids are reusable from the moment a timer fires, also by its handler *)
Theorem C17_id_reusable_by_handler :
  forall tr s g r s1 s2 g' d,
  cexec Mcrew cinit tr = Some s ->
  find_gor g (cgors s) = Some r ->
  cstep Mcrew s (CClaim g) = Some s1 ->
  cstep Mcrew s1 (CVis (VReport g)) = Some s2 ->
  ~ In g' (map tg (cknown s)) ->
  let i := tid (gtm r) in
  find_id i (cmap s1) = None /\
  exists s3 s4,
    cstep Mcrew s2 (CVis (VAdd g' i d true)) = Some s3 /\ In (mkTm g' i (cclock s2 + d)) (cmap s3) /\
    cstep Mcrew s3 (CVis (VRem i true)) = Some s4 /\ In g' (ccancelled s4) /\
    find_id i (cmap s4) = None.
Proof. exact mcrew_id_reusable_by_handler. Qed.
Print Assumptions C17_id_reusable_by_handler.

Example C17_id_reusable_by_handler_ex :
  exists s r s1 s2,
    cexec Mcrew cinit [CVis (VAdd 0 0 15 true); CVis (VTick 15); CTimerC 0] = Some s /\
    find_gor 0 (cgors s) = Some r /\ cstep Mcrew s (CClaim 0) = Some s1 /\
    cstep Mcrew s1 (CVis (VReport 0)) = Some s2 /\ ~ In 1%nat (map tg (cknown s)).
Proof.
  eexists. eexists. eexists. eexists. split; [vm_compute; reflexivity|].
  split; [vm_compute; reflexivity|]. split; [vm_compute; reflexivity|].
  split; [vm_compute; reflexivity|]. vm_compute. intros [H|H]; [discriminate | exact H].
Qed.

Theorem C17_sio_report_frees_id :
  forall tr s g r s1,
  cexec Sio cinit tr = Some s -> find_gor g (cgors s) = Some r ->
  cstep Sio s (CVis (VReport g)) = Some s1 ->
  find_id (tid (gtm r)) (cmap s1) = None /\ In g (map fst (cfired s1)).
Proof. exact sio_report_frees_id. Qed.
Print Assumptions C17_sio_report_frees_id.

Theorem C17_free_id_accepts :
  forall p s g i d, ~ In g (map tg (cknown s)) -> find_id i (cmap s) = None ->
  exists s', cstep p s (CVis (VAdd g i d true)) = Some s' /\ In (mkTm g i (cclock s + d)) (cmap s').
Proof. exact model_free_id_accepts. Qed.
Print Assumptions C17_free_id_accepts.

(** * Exactly once, eventually: a due pending timer can always take its next
      step towards firing (no request, no other goroutine can wedge it) *)
Theorem C17_fire_stays_enabled :
  forall p tr s, cexec p cinit tr = Some s ->
  forall e, In e (cmap s) -> tdue e <= cclock s ->
  (exists s', cstep p s (CTimerC (tg e)) = Some s') \/
  (exists s', cstep p s (match p with Mcrew => CClaim (tg e) | Sio => CVis (VReport (tg e)) end)
              = Some s').
Proof. exact model_progress. Qed.
Print Assumptions C17_fire_stays_enabled.

(** * Restart (sio): exactly the pending timers are re-armed *)
Theorem C17_restart :
  forall tr s, cexec Sio cinit tr = Some s ->
  exists s', cstep Sio s (CVis VBoot) = Some s' /\ cmap s' = cmap s /\
    (forall e, In e (cmap s) ->
       exists r, In r (cgors s') /\ gtm r = e /\ gpc r = Waiting /\ gclosed r = false) /\
    (forall r, In r (cgors s') -> gpc r <> Gone -> In (gtm r) (cmap s')) /\
    cfired s' = cfired s /\ ccancelled s' = ccancelled s.
Proof. exact sio_restart. Qed.
Print Assumptions C17_restart.

(** * Refinement: every interleaving of a model is a run of the abstract
      service with the same visible labels, map = pending set, same history *)
Theorem C17_refinement :
  forall p tr s, cexec p cinit tr = Some s ->
  exists a, aexec p ainit (abs_trace p tr) = Some a /\ R s a /\ AInv a /\ CInv p s.
Proof. exact refinement_init. Qed.
Print Assumptions C17_refinement.

(** * The abstract service itself satisfies the statements (so the oracle,
      which accepts exactly its weak traces, is an oracle for C17) *)
Theorem C17_spec_sound :
  forall p tr a, aexec p ainit tr = Some a ->
  a_at_most_once a /\ a_never_early a /\ a_not_after_cancel a /\ a_pending_exact a /\
  st_ids_unique (apending a).
Proof.
  intros p tr a H. pose proof (ainv_exec p tr ainit a ainv_init H) as I.
  exact (conj (spec_at_most_once a I) (conj (spec_never_early a I) (conj (spec_not_after_cancel a I)
        (conj (spec_pending_exact a I) (spec_ids_unique a I))))).
Qed.
Print Assumptions C17_spec_sound.

Theorem C17_oracle_sound :
  forall c, spec_accepts c = true ->
  (exists tr a, aexec (tc_impl c) ainit tr = Some a /\ vis_of tr = map AVis (tc_trace c) /\ AInv a /\
                a_quiet c a = true) /\
  NoDup (vreports (tc_trace c)) /\
  (forall g, In g (vreports (tc_trace c)) -> In g (vaccepted (tc_trace c))).
Proof.
  intros c H.
  exact (conj (spec_accepts_is_trace c H)
              (conj (spec_accepts_at_most_once c H) (fun g => spec_accepts_only_accepted_fire c g H))).
Qed.
Print Assumptions C17_oracle_sound.

Example C17_oracle_sound_ex :
  spec_accepts (mk_tcase Mcrew [VTick 0; VAdd 0 0 15 true; VSnap [0%nat]; VTick 16; VReport 0;
                                VRem 0 false; VAdd 1 0 15 true; VSnap [0%nat]; VRem 0 true; VSnap []]
                         false 40 1000000 0) = true.
Proof. vm_compute. reflexivity. Qed.

(** * The implementations before the repairs (D16, D17) violate the statements *)
Theorem C17_mcrew_map_is_pending_refuted_prefix :
  ~ (forall tr s, cexec_pre Mcrew cinit tr = Some s -> c_map_is_pending s).
Proof. exact mcrew_prefix_map_is_pending_refuted. Qed.
Print Assumptions C17_mcrew_map_is_pending_refuted_prefix.

Theorem C17_mcrew_not_after_cancel_refuted_prefix :
  ~ (forall tr s, cexec_pre Mcrew cinit tr = Some s -> c_not_after_cancel s).
Proof. exact mcrew_prefix_not_after_cancel_refuted. Qed.
Print Assumptions C17_mcrew_not_after_cancel_refuted_prefix.

Theorem C17_sio_map_is_pending_refuted_prefix :
  ~ (forall tr s, cexec_pre Sio cinit tr = Some s -> c_map_is_pending s).
Proof. exact sio_prefix_map_is_pending_refuted. Qed.
Print Assumptions C17_sio_map_is_pending_refuted_prefix.

Theorem C17_sio_not_after_cancel_refuted_prefix :
  ~ (forall tr s, cexec_pre Sio cinit tr = Some s -> c_not_after_cancel s).
Proof. exact sio_prefix_not_after_cancel_refuted. Qed.
Print Assumptions C17_sio_not_after_cancel_refuted_prefix.

(** * The machine sio's timer requests are addressed to
    For the sio implementation a request is a message to the timers machine
    and the pending timers are persisted as that machine's state (under its
    id, in the binding of the same name: sio/timers_glue.go).  The id the
    crew model uses ([SioCrew.timers_id], by which Model/SioCrew.v decides
    that a request reached the timers) is read from the source of the tree
    under test (Gen/Names.v: the declaration of sio.TimersMachine) and is the
    documented one; it is not the captain's. *)
Theorem C17_sio_timers_machine_is_documented :
  SioCrew.timers_id = "timers"%string /\ SioCrew.timers_id <> SioCrew.captain_id.
Proof. exact (conj (proj1 SioIdsTie.service_ids_documented) (proj2 (proj2 SioIdsTie.service_ids_documented))). Qed.
Print Assumptions C17_sio_timers_machine_is_documented.
