(** C08 - Emission is atomic: a failing action emits nothing; order is
    preserved.  Only statements, [exact], and Print Assumptions.

    [run_js] is the model of Interpreter.Exec for the action language the
    harness renders as ECMAScript (Model/Action.v): emissions are buffered
    in the Execution; a throw, a timeout, a non-bindings return value or an
    unserialisable emission returns NO Execution.  [step] / [walk_stride]
    are the engine (any action type, any behaviour of actions/guards). *)
From Sheens Require Import Model.Step Model.Action Spec.WalkSpec Spec.SilentSpec Proofs.StepFacts Proofs.EngineFacts
     Proofs.C08Silent.

(** a script that fails - after any number of emissions, in any of the
    modelled ways - contributes no Execution, hence no emission *)
Theorem C08_failing_script_has_no_execution :
  forall p bs, xr_err (run_js p bs) = true -> xr_exe (run_js p bs) = None.
Proof. exact run_js_failure_has_no_execution. Qed.

Theorem C08_failing_script_emits_nothing :
  forall p bs, xr_err (run_js p bs) = true ->
  func_exec act run_act (Js p) bs = ((None, []), true).
Proof. exact js_failure_emits_nothing. Qed.

(** a script that completes reports its emissions in execution order *)
Theorem C08_success_emits_in_order :
  forall p b, xr_err (run_js p (Some b)) = false ->
  exists ob, xr_exe (run_js p (Some b)) = Some (ob, emits_of (pg_ops p) b).
Proof. exact js_success_emits_in_order. Qed.

Section Engine.
Variable action : Type.
Variable run : action -> option bindings -> exec_raw.
Variable s : spec action.

(** a stride reports exactly the emissions of its node's action: guards
    contribute nothing, nothing is invented or re-ordered *)
Theorem C08_stride_emits_action_output :
  forall st pending sd,
  so_stride (step action run s st pending) = Some sd ->
  sd_emitted sd = action_emission action run s st.
Proof. exact (step_emitted action run s). Qed.

Theorem C08_walk_stride_emits_action_output :
  forall st p,
  sd_emitted (fst (walk_stride action run s st p)) = [] \/
  sd_emitted (fst (walk_stride action run s st p)) = action_emission action run s st.
Proof. exact (walk_stride_emitted action run s). Qed.

(** a stride that went nowhere emitted nothing *)
Theorem C08_idle_stride_silent :
  forall st p, sd_to (fst (walk_stride action run s st p)) = None ->
  sd_emitted (fst (walk_stride action run s st p)) = [].
Proof. exact (walk_stride_idle_silent action run s). Qed.
End Engine.

(** The clause the correspondence run evaluates on the strides the
    implementation returned ([failed_action_silent], Spec/SilentSpec.v: a
    stride whose end state gained the binding "actionError" - and whose node's
    action is not a native action that hands back an execution together with
    its error - reports no message) never flags what the model does: every
    stride of the model's [step] and of the model's [walk] satisfies it, for
    every state, pending message, breakpoint, limit and every specification in
    which no program of a constrained node writes the key "actionError" itself
    ([no_action_error_writer]; necessary: [C08_failed_action_needs_no_writer]).
    So the clause demands nothing beyond the modelled semantics. *)
Theorem C08_failed_action_reports_nothing_step :
  forall (sp : aspec) st pending sd,
  no_action_error_writer sp = true ->
  so_stride (astep sp st pending) = Some sd ->
  failed_action_silent sp sd = true.
Proof. exact step_failed_action_silent. Qed.

Theorem C08_failed_action_reports_nothing_walk :
  forall (sp : aspec) bp limit st msgs w amb,
  no_action_error_writer sp = true ->
  awalk sp bp limit st msgs = (w, amb) ->
  forallb (failed_action_silent sp) (w_strides w) = true.
Proof. exact walk_failed_action_silent. Qed.

Print Assumptions C08_failing_script_has_no_execution.
Print Assumptions C08_failing_script_emits_nothing.
Print Assumptions C08_success_emits_in_order.
Print Assumptions C08_stride_emits_action_output.
Print Assumptions C08_walk_stride_emits_action_output.
Print Assumptions C08_idle_stride_silent.
Print Assumptions C08_failed_action_reports_nothing_step.
Print Assumptions C08_failed_action_reports_nothing_walk.

(** non-vacuity: emit twice, then throw: nothing; emit twice and return: both, in order *)
Example C08_nonvacuous :
  func_exec act run_act (Js (mk_prog [AEmit (JNum 4); AEmit (JNum 8)] TThrow)) (Some [])
  = ((None, []), true) /\
  func_exec act run_act (Js (mk_prog [AEmit (JNum 4); AEmit (JNum 8)] TRetBindings)) (Some [])
  = ((Some [], [JNum 4; JNum 8]), false).
Proof. vm_compute. auto. Qed.

(** non-vacuity of the clause: a specification with action-error branches
    whose node "start" runs the given action and then follows a branch to
    "next" with the bindings at hand *)
Definition c08_fail_spec (a : act) : aspec :=
  mk_spec [("start", mk_node (Some a) false (Some (mk_branching "bindings" [mk_branch None None "next"])));
           ("next", mk_node None false None)]
          true "" true.

(** a script that emits, sets a binding, emits again and then throws: the
    specification satisfies the hypothesis, the stride's end state gained
    "actionError" (the clause's premise holds), and the stride reports nothing;
    the same operations followed by a normal return report both messages *)
Example C08_failed_action_nonvacuous :
  let ops := [AEmit (JNum 4); ASet "x" (JNum 8); AEmit (JNum 8)] in
  let sp := c08_fail_spec (Js (mk_prog ops TThrow)) in
  no_action_error_writer sp = true /\
  match so_stride (astep sp (mk_state "start" (Some [])) None) with
  | Some sd =>
      sd_emitted sd = [] /\ has_key "actionError" (sd_to sd) = true
      /\ has_key "actionError" (Some (sd_from sd)) = false /\ hands_back_on_error sp sd = false
      /\ option_map st_node (sd_to sd) = Some "next"
  | None => False
  end /\
  match so_stride (astep (c08_fail_spec (Js (mk_prog ops TRetBindings))) (mk_state "start" (Some [])) None) with
  | Some sd => sd_emitted sd = [JNum 4; JNum 8] /\ has_key "actionError" (sd_to sd) = false
  | None => False
  end.
Proof. vm_compute. repeat split. Qed.

(** why the clause exempts a native action that hands back its execution
    together with the error: the model's Step reports what that execution
    holds, although the end state gained "actionError" *)
Example C08_hand_back_native_reports :
  let sp := c08_fail_spec (Native (mk_prog [AEmit (JNum 4)] TThrow) true) in
  no_action_error_writer sp = true /\
  match so_stride (astep sp (mk_state "start" (Some [])) None) with
  | Some sd =>
      sd_emitted sd = [JNum 4] /\ has_key "actionError" (sd_to sd) = true
      /\ has_key "actionError" (Some (sd_from sd)) = false /\ hands_back_on_error sp sd = true
      /\ failed_action_silent sp sd = true
  | None => False
  end /\
  (* the same program returning (nil, err): nothing is reported *)
  match so_stride (astep (c08_fail_spec (Native (mk_prog [AEmit (JNum 4)] TThrow) false))
                         (mk_state "start" (Some [])) None) with
  | Some sd => sd_emitted sd = [] /\ has_key "actionError" (sd_to sd) = true
  | None => False
  end.
Proof. vm_compute. repeat split. Qed.

(** the hypothesis is needed: a script that itself binds "actionError" and
    completes is flagged, on the model's own stride *)
Example C08_failed_action_needs_no_writer :
  let sp := c08_fail_spec (Js (mk_prog [AEmit (JNum 4); ASet "actionError" (JNum 8)] TRetBindings)) in
  no_action_error_writer sp = false /\
  match so_stride (astep sp (mk_state "start" (Some [])) None) with
  | Some sd => sd_emitted sd = [JNum 4] /\ failed_action_silent sp sd = false
  | None => False
  end.
Proof. vm_compute. repeat split. Qed.
