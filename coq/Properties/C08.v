(** C08 - Emission is atomic: a failing action emits nothing; order is
    preserved.  Only statements, [exact], and Print Assumptions.

    [run_js] is the model of Interpreter.Exec for the action language the
    harness renders as ECMAScript (Model/Action.v): emissions are buffered
    in the Execution; a throw, a timeout, a non-bindings return value or an
    unserialisable emission returns NO Execution.  [step] / [walk_stride]
    are the engine (any action type, any behaviour of actions/guards). *)
From Sheens Require Import Model.Step Model.Action Spec.WalkSpec Proofs.StepFacts Proofs.EngineFacts.

(** a script that fails - after any number of emissions, in any of the
    modelled ways - contributes no Execution, hence no emission *)
Theorem C08_failing_script_has_no_execution :
  forall p bs, xr_err (run_js p bs) = true -> xr_exe (run_js p bs) = None.
Proof. exact run_js_failure_has_no_execution. Qed.

Theorem C08_failing_script_emits_nothing :
  forall p bs, xr_err (run_js p bs) = true ->
  func_exec act run_act (Js p) bs = ((None, []), true).
Proof. exact js_failure_emits_nothing. Qed.

(** a script that completes reports its emissions in execution order *)
Theorem C08_success_emits_in_order :
  forall p b, xr_err (run_js p (Some b)) = false ->
  exists ob, xr_exe (run_js p (Some b)) = Some (ob, emits_of (pg_ops p) b).
Proof. exact js_success_emits_in_order. Qed.

Section Engine.
Variable action : Type.
Variable run : action -> option bindings -> exec_raw.
Variable s : spec action.

(** a stride reports exactly the emissions of its node's action: guards
    contribute nothing, nothing is invented or re-ordered *)
Theorem C08_stride_emits_action_output :
  forall st pending sd,
  so_stride (step action run s st pending) = Some sd ->
  sd_emitted sd = action_emission action run s st.
Proof. exact (step_emitted action run s). Qed.

Theorem C08_walk_stride_emits_action_output :
  forall st p,
  sd_emitted (fst (walk_stride action run s st p)) = [] \/
  sd_emitted (fst (walk_stride action run s st p)) = action_emission action run s st.
Proof. exact (walk_stride_emitted action run s). Qed.

(** a stride that went nowhere emitted nothing *)
Theorem C08_idle_stride_silent :
  forall st p, sd_to (fst (walk_stride action run s st p)) = None ->
  sd_emitted (fst (walk_stride action run s st p)) = [].
Proof. exact (walk_stride_idle_silent action run s). Qed.
End Engine.

Print Assumptions C08_failing_script_has_no_execution.
Print Assumptions C08_failing_script_emits_nothing.
Print Assumptions C08_success_emits_in_order.
Print Assumptions C08_stride_emits_action_output.
Print Assumptions C08_walk_stride_emits_action_output.
Print Assumptions C08_idle_stride_silent.

(** non-vacuity: emit twice, then throw: nothing; emit twice and return: both, in order *)
Example C08_nonvacuous :
  func_exec act run_act (Js (mk_prog [AEmit (JNum 4); AEmit (JNum 8)] TThrow)) (Some [])
  = ((None, []), true) /\
  func_exec act run_act (Js (mk_prog [AEmit (JNum 4); AEmit (JNum 8)] TRetBindings)) (Some [])
  = ((Some [], [JNum 4; JNum 8]), false).
Proof. vm_compute. auto. Qed.
