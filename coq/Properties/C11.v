(** C11 - action timeouts are enforced.  Only statements, [exact],
    Print Assumptions and Examples.

    The model (Model/ConcJs.v, part 2) is the protocol between the caller's
    context, the derived context, the watcher goroutine, the runtime's
    interrupt flag, the interpreted script and cancel(); the theorems hold
    for every interleaving of its atomic steps.  Wall-clock promptness and
    goja's interrupt granularity are measured by the correspondence run, not
    proved (partial). *)
From Sheens Require Import Model.ConcJs Model.Action Proofs.JsTimeout.

(** once the interrupt flag is set the script executes at most one more unit
    of interpreted code, in every schedule from every state *)
Theorem C11_stop_after_flag :
  forall v ls s, flag s = true -> ticks_taken v ls s <= 1.
Proof. exact stop_after_flag. Qed.
Print Assumptions C11_stop_after_flag.

(** from the end of the context on, the watcher's step stays enabled until it
    is taken (after which the flag is set) *)
Theorem C11_watch_enabled :
  forall e k s, reach faithful_variant (init faithful_variant e k) s -> ctx_done s = true ->
  (exists s', tstep faithful_variant Watch s = Some s') \/ flag s = true.
Proof. exact watch_enabled. Qed.
Print Assumptions C11_watch_enabled.

(** progress without a fairness axiom: in every schedule in which, after the
    context has ended, the watcher, the script and the returning call get one
    turn each in that order - with anything whatsoever before, between and
    after - an endless script is reported as Interrupted *)
Theorem C11_fair_schedule_interrupts :
  forall e p0 p1 p2 p3,
  returned (run_labels faithful_variant
              (p0 ++ Expire :: p1 ++ Watch :: p2 ++ Tick :: p3 ++ [Finish]) (init faithful_variant e None))
  = Some Interrupted.
Proof. exact fair_schedule_interrupts. Qed.
Print Assumptions C11_fair_schedule_interrupts.

(** an endless script can return nothing but Interrupted *)
Theorem C11_result :
  forall e s o, reach faithful_variant (init faithful_variant e None) s -> returned s = Some o -> o = Interrupted.
Proof. exact infinite_only_interrupted. Qed.
Print Assumptions C11_result.

(** as long as the context does not end nothing is reported as interrupted
    (the cancel() after RunProgram is not mistaken for one), and a script of k
    units returns Finished after k+1 turns *)
Theorem C11_no_spurious_interrupt :
  forall k ls, ~ In Expire ls ->
  returned (run_labels faithful_variant ls (init faithful_variant false k)) <> Some Interrupted.
Proof. exact no_spurious_interrupt. Qed.
Print Assumptions C11_no_spurious_interrupt.

Theorem C11_finite_script_finishes :
  forall k, returned (run_labels faithful_variant (repeat Tick (S k) ++ [Finish]) (init faithful_variant false (Some k)))
            = Some Finished.
Proof. exact finite_script_finishes. Qed.
Print Assumptions C11_finite_script_finishes.

(** no goroutine outlives the call waiting for something that may never come:
    once Exec has returned the derived context has ended, so the watcher has
    ended or its one remaining step is enabled; and it ends at its next turn *)
Theorem C11_no_leak :
  forall e k s, reach faithful_variant (init faithful_variant e k) s -> returned s <> None ->
  ictx_done s = true /\ watcher_blocked faithful_variant s = false.
Proof. exact no_leak. Qed.
Print Assumptions C11_no_leak.

Theorem C11_watcher_exits :
  forall e k s, reach faithful_variant (init faithful_variant e k) s -> returned s <> None ->
  forall p q, watcher (run_labels faithful_variant (p ++ Watch :: q) s) = Exited.
Proof. exact watcher_exits_after_return. Qed.
Print Assumptions C11_watcher_exits.

(** the timeout error is routed like any other action error: no step and no
    walk of any specification distinguishes a script that loops until the
    deadline from the same script ending in a throw *)
Theorem C11_timeout_routed_step :
  forall s st pending,
  astep s st pending = step act (fun a bs => run_act (loop_to_throw a) bs) s st pending.
Proof. exact timeout_routed_like_throw_step. Qed.
Print Assumptions C11_timeout_routed_step.

Theorem C11_timeout_routed_walk :
  forall s bp limit st pend,
  awalk s bp limit st pend = walk act (fun a bs => run_act (loop_to_throw a) bs) s bp limit st pend.
Proof. exact timeout_routed_like_throw_walk. Qed.
Print Assumptions C11_timeout_routed_walk.

(** each element of the protocol is needed *)
Theorem C11_no_cancel_refuted : ~ no_leak_for no_cancel.
Proof. exact no_cancel_leaks. Qed.
Print Assumptions C11_no_cancel_refuted.
Theorem C11_watch_ctx_only_refuted : ~ no_leak_for watch_ctx_only.
Proof. exact watch_ctx_only_leaks. Qed.
Print Assumptions C11_watch_ctx_only_refuted.
Theorem C11_no_watcher_refuted : ~ fair_interrupts_for no_watcher.
Proof. exact no_watcher_hangs. Qed.
Print Assumptions C11_no_watcher_refuted.
Theorem C11_no_interrupt_refuted : ~ fair_interrupts_for no_interrupt.
Proof. exact no_interrupt_hangs. Qed.
Print Assumptions C11_no_interrupt_refuted.

(** non-vacuity: concrete runs of the faithful protocol, and the routing of a
    looping action to the configured error node (emission dropped) *)
Example C11_nonvacuous :
  returned (run_labels faithful_variant [Expire; Watch; Tick; Finish] (init faithful_variant false None)) = Some Interrupted
  /\ watcher_blocked faithful_variant (run_labels faithful_variant [Tick; Finish] (init faithful_variant false (Some 0))) = false
  /\ returned (run_labels faithful_variant [Tick; Finish] (init faithful_variant false (Some 0))) = Some Finished
  /\ watcher (run_labels faithful_variant [Tick; Finish; Watch] (init faithful_variant false (Some 0))) = Exited.
Proof. exact faithful_examples. Qed.

Example C11_routing_example :
  so_stride (astep loop_spec (mk_state "start" (Some [("a", JNum 4)])) None)
  = Some (mk_stride (mk_state "start" (Some [("a", JNum 4)]))
                    (Some (mk_state "onerr" (Some [("a", JNum 4); ("actionError", err_text); ("error", err_text)])))
                    None []).
Proof. exact loop_spec_routes. Qed.
