(** C11 - action timeouts are enforced.  Only statements, [exact],
    Print Assumptions and Examples.

    The model (Model/ConcJs.v, part 2) is the protocol between the caller's
    context, the derived context, the watcher goroutine, the runtime's
    interrupt flag, the interpreted script and cancel(); the theorems hold
    for every interleaving of its atomic steps.  Wall-clock promptness and
    goja's interrupt granularity are measured by the correspondence run, not
    proved (partial). *)
From Sheens Require Import Model.ConcJs Model.Action Proofs.JsTimeout.

(** once the interrupt flag is set the script executes at most one more unit
    of interpreted code, in every schedule from every state *)
Theorem C11_stop_after_flag :
  forall v ls s, flag s = true -> ticks_taken v ls s <= 1.
Proof. exact stop_after_flag. Qed.
Print Assumptions C11_stop_after_flag.

(** from the end of the context on, the watcher's step stays enabled until it
    is taken (after which the flag is set) *)
Theorem C11_watch_enabled :
  forall e k s, reach faithful_variant (init faithful_variant e k) s -> ctx_done s = true ->
  (exists s', tstep faithful_variant Watch s = Some s') \/ flag s = true.
Proof. exact watch_enabled. Qed.
Print Assumptions C11_watch_enabled.

(** progress without a fairness axiom: in every schedule in which, after the
    context has ended, the watcher, the script and the returning call get one
    turn each in that order - with anything whatsoever before, between and
    after - an endless script is reported as Interrupted *)
Theorem C11_fair_schedule_interrupts :
  forall e p0 p1 p2 p3,
  returned (run_labels faithful_variant
              (p0 ++ Expire :: p1 ++ Watch :: p2 ++ Tick :: p3 ++ [Finish]) (init faithful_variant e None))
  = Some Interrupted.
Proof. exact fair_schedule_interrupts. Qed.
Print Assumptions C11_fair_schedule_interrupts.

(** an endless script can return nothing but Interrupted *)
Theorem C11_result :
  forall e s o, reach faithful_variant (init faithful_variant e None) s -> returned s = Some o -> o = Interrupted.
Proof. exact infinite_only_interrupted. Qed.
Print Assumptions C11_result.

(** as long as the context does not end nothing is reported as interrupted
    (the cancel() after RunProgram is not mistaken for one), and a script of k
    units returns Finished after k+1 turns *)
Theorem C11_no_spurious_interrupt :
  forall k ls, ~ In Expire ls ->
  returned (run_labels faithful_variant ls (init faithful_variant false k)) <> Some Interrupted.
Proof. exact no_spurious_interrupt. Qed.
Print Assumptions C11_no_spurious_interrupt.

Theorem C11_finite_script_finishes :
  forall k, returned (run_labels faithful_variant (repeat Tick (S k) ++ [Finish]) (init faithful_variant false (Some k)))
            = Some Finished.
Proof. exact finite_script_finishes. Qed.
Print Assumptions C11_finite_script_finishes.

(** no goroutine outlives the call waiting for something that may never come:
    once Exec has returned the derived context has ended, so the watcher has
    ended or its one remaining step is enabled; and it ends at its next turn *)
Theorem C11_no_leak :
  forall e k s, reach faithful_variant (init faithful_variant e k) s -> returned s <> None ->
  ictx_done s = true /\ watcher_blocked faithful_variant s = false.
Proof. exact no_leak. Qed.
Print Assumptions C11_no_leak.

Theorem C11_watcher_exits :
  forall e k s, reach faithful_variant (init faithful_variant e k) s -> returned s <> None ->
  forall p q, watcher (run_labels faithful_variant (p ++ Watch :: q) s) = Exited.
Proof. exact watcher_exits_after_return. Qed.
Print Assumptions C11_watcher_exits.

(** the timeout error is routed like any other action error: no step and no
    walk of any specification distinguishes a script that loops until the
    deadline from the same script ending in a throw *)
Theorem C11_timeout_routed_step :
  forall s st pending,
  astep s st pending = step act (fun a bs => run_act (loop_to_throw a) bs) s st pending.
Proof. exact timeout_routed_like_throw_step. Qed.
Print Assumptions C11_timeout_routed_step.

Theorem C11_timeout_routed_walk :
  forall s bp limit st pend,
  awalk s bp limit st pend = walk act (fun a bs => run_act (loop_to_throw a) bs) s bp limit st pend.
Proof. exact timeout_routed_like_throw_walk. Qed.
Print Assumptions C11_timeout_routed_walk.

(** each element of the protocol is needed *)
Theorem C11_no_cancel_refuted : ~ no_leak_for no_cancel.
Proof. exact no_cancel_leaks. Qed.
Print Assumptions C11_no_cancel_refuted.
Theorem C11_watch_ctx_only_refuted : ~ no_leak_for watch_ctx_only.
Proof. exact watch_ctx_only_leaks. Qed.
Print Assumptions C11_watch_ctx_only_refuted.
Theorem C11_no_watcher_refuted : ~ fair_interrupts_for no_watcher.
Proof. exact no_watcher_hangs. Qed.
Print Assumptions C11_no_watcher_refuted.
Theorem C11_no_interrupt_refuted : ~ fair_interrupts_for no_interrupt.
Proof. exact no_interrupt_hangs. Qed.
Print Assumptions C11_no_interrupt_refuted.

(** non-vacuity: concrete runs of the faithful protocol, and the routing of a
    looping action to the configured error node (emission dropped) *)
Example C11_nonvacuous :
  returned (run_labels faithful_variant [Expire; Watch; Tick; Finish] (init faithful_variant false None)) = Some Interrupted
  /\ watcher_blocked faithful_variant (run_labels faithful_variant [Tick; Finish] (init faithful_variant false (Some 0))) = false
  /\ returned (run_labels faithful_variant [Tick; Finish] (init faithful_variant false (Some 0))) = Some Finished
  /\ watcher (run_labels faithful_variant [Tick; Finish; Watch] (init faithful_variant false (Some 0))) = Exited.
Proof. exact faithful_examples. Qed.

Example C11_routing_example :
  so_stride (astep loop_spec (mk_state "start" (Some [("a", JNum 4)])) None)
  = Some (mk_stride (mk_state "start" (Some [("a", JNum 4)]))
                    (Some (mk_state "onerr" (Some [("a", JNum 4); ("actionError", err_text); ("error", err_text)])))
                    None []).
Proof. exact loop_spec_routes. Qed.

(** * The post phase: export of the result, text of the thrown value

    Model/ConcJsExport.v extends the protocol with the interpreted code that
    runs after RunProgram has returned - a getter of the returned object
    (export, ecmascript.go:348) or the toString of the thrown value
    (plainError, ecmascript.go:352) - and with the two switches
    [post_before_cancel] and [post_trapped]; [repaired_variant] is the code,
    [old_order] the code before the repairs D50/D51/D53. *)
From Sheens Require Import Model.ConcJsExport Proofs.JsTimeoutExport.

(** once the flag is set at most one more unit of interpreted code is
    executed, of the main script or of the post phase, in every variant *)
Theorem C11_export_stop_after_flag :
  forall v ls s, x_flag s = true -> xticks_taken v ls s <= 1.
Proof. exact xstop_after_flag. Qed.
Print Assumptions C11_export_stop_after_flag.

(** the watcher's step stays enabled from the end of the context on, during
    the post phase too *)
Theorem C11_export_watch_enabled :
  forall e main thr post s,
  xreach repaired_variant (xinit repaired_variant e main thr post) s -> x_ctx_done s = true ->
  (exists s', xstep repaired_variant Watch s = Some s') \/ x_flag s = true.
Proof. exact xwatch_enabled. Qed.
Print Assumptions C11_export_watch_enabled.

(** a script that is endless in its main part or in its post phase is
    reported as Interrupted under every fair schedule (the shape of
    C11_fair_schedule_interrupts) *)
Theorem C11_export_phase_interrupted :
  forall e main thr post p0 p1 p2 p3, endless_prog main post ->
  x_returned (xrun repaired_variant (p0 ++ Expire :: p1 ++ Watch :: p2 ++ Tick :: p3 ++ [Finish])
                   (xinit repaired_variant e main thr post))
  = Some XInterrupted.
Proof. exact xfair_schedule_interrupts. Qed.
Print Assumptions C11_export_phase_interrupted.

(** in particular when the main script (k+1 units, returning or throwing) is
    over and the endless getter / toString is running when the context ends *)
Theorem C11_export_phase_interrupted_in_post :
  forall k thr pt p0 p1 p2 p3,
  let s := xrun repaired_variant (repeat Tick (S k)) (xinit repaired_variant false (Some k) thr (PostRun None pt)) in
  x_script s = XPost None pt thr
  /\ x_returned s = None
  /\ x_returned (xrun repaired_variant (p0 ++ Expire :: p1 ++ Watch :: p2 ++ Tick :: p3 ++ [Finish]) s)
     = Some XInterrupted.
Proof. exact endless_post_interrupted. Qed.
Print Assumptions C11_export_phase_interrupted_in_post.

Theorem C11_export_result_endless :
  forall e main thr post s o, endless_prog main post ->
  xreach repaired_variant (xinit repaired_variant e main thr post) s -> x_returned s = Some o -> o = XInterrupted.
Proof. exact xinfinite_only_interrupted. Qed.
Print Assumptions C11_export_result_endless.

(** as long as the context does not end, whatever is returned, under whatever
    schedule, is the script's own result - or the error of a post phase that
    throws - never Interrupted, never a panic *)
Theorem C11_export_phase_result :
  forall main thr post ls o, ~ In Expire ls ->
  x_returned (xrun repaired_variant ls (xinit repaired_variant false main thr post)) = Some o ->
  o = expected thr post.
Proof. exact result_is_the_scripts. Qed.
Print Assumptions C11_export_phase_result.

Theorem C11_export_no_spurious_interrupt :
  forall main thr post ls, ~ In Expire ls ->
  x_returned (xrun repaired_variant ls (xinit repaired_variant false main thr post)) <> Some XInterrupted.
Proof. exact xno_spurious_interrupt. Qed.
Print Assumptions C11_export_no_spurious_interrupt.

(** a finite post phase of j+1 units completes after its turns *)
Theorem C11_export_phase_completes :
  forall k thr j,
  x_returned (xrun repaired_variant (repeat Tick (S k) ++ repeat Tick (S j) ++ [Finish])
                   (xinit repaired_variant false (Some k) thr (PostRun (Some j) false)))
  = Some (script_result thr).
Proof. exact finite_post_completes. Qed.
Print Assumptions C11_export_phase_completes.

Theorem C11_export_phase_throw_is_error :
  forall k thr j,
  x_returned (xrun repaired_variant (repeat Tick (S k) ++ repeat Tick (S j) ++ [Finish])
                   (xinit repaired_variant false (Some k) thr (PostRun (Some j) true)))
  = Some XPostFailed.
Proof. exact throwing_post_is_an_error. Qed.
Print Assumptions C11_export_phase_throw_is_error.

(** no panic leaves Exec when the post phase is trapped *)
Theorem C11_export_no_crash : forall v, post_trapped v = true -> no_crash_for v.
Proof. exact trapped_never_crashes. Qed.
Print Assumptions C11_export_no_crash.

(** no goroutine outlives the call *)
Theorem C11_export_phase_no_leak :
  forall e main thr post s,
  xreach repaired_variant (xinit repaired_variant e main thr post) s -> x_returned s <> None ->
  x_ictx_done s = true /\ xwatcher_blocked repaired_variant s = false.
Proof. exact xno_leak. Qed.
Print Assumptions C11_export_phase_no_leak.

Theorem C11_export_watcher_exits :
  forall e main thr post s,
  xreach repaired_variant (xinit repaired_variant e main thr post) s -> x_returned s <> None ->
  forall p q, x_watcher (xrun repaired_variant (p ++ Watch :: q) s) = Exited.
Proof. exact xwatcher_exits_after_return. Qed.
Print Assumptions C11_export_watcher_exits.

(** the old order: post phase after cancel() and under no trap *)
Theorem C11_export_after_cancel_refuted : ~ xfair_interrupts_for old_order.
Proof. exact old_order_not_interrupted. Qed.
Print Assumptions C11_export_after_cancel_refuted.

(** ... no schedule whatsoever reports an interruption of the post phase *)
Theorem C11_export_after_cancel_never_interrupted :
  forall s ls lft thr mt, x_script s = XPost lft thr mt -> x_returned s = None ->
  x_returned (xrun old_order ls s) <> Some XInterrupted.
Proof. exact old_order_never_interrupts_post. Qed.
Print Assumptions C11_export_after_cancel_never_interrupted.

(** ... what happens instead: cancel() wakes the watcher, its Interrupt hits
    the endless getter, the panic leaves Exec - with or without an end of the
    context *)
Theorem C11_export_after_cancel_panics :
  forall e main thr post s pt mt p0 p1 p2 p3,
  xreach old_order (xinit old_order e main thr post) s -> x_script s = XPost None pt mt ->
  x_returned (xrun old_order (p0 ++ Finish :: p1 ++ Watch :: p2 ++ Tick :: p3 ++ [Finish]) s) = Some XCrashed.
Proof. exact old_order_endless_post_panics. Qed.
Print Assumptions C11_export_after_cancel_panics.

(** ... and under a trap the old order reports interruptions that never were *)
Theorem C11_export_after_cancel_trapped_refuted : ~ xno_spurious_for old_order_trapped.
Proof. exact old_order_trapped_spurious. Qed.
Print Assumptions C11_export_after_cancel_trapped_refuted.

(** a throwing getter / toString outside the trap is a panic *)
Theorem C11_export_outside_trap_crashes_refuted : ~ no_crash_for old_order.
Proof. exact old_order_crashes. Qed.
Print Assumptions C11_export_outside_trap_crashes_refuted.

Theorem C11_export_untrapped_refuted : ~ no_crash_for untrapped /\ ~ xno_leak_for untrapped.
Proof. exact (conj untrapped_crashes untrapped_leaks). Qed.
Print Assumptions C11_export_untrapped_refuted.

(** the repaired code has all four properties *)
Theorem C11_export_repaired :
  xfair_interrupts_for repaired_variant /\ no_crash_for repaired_variant
  /\ xno_spurious_for repaired_variant /\ xno_leak_for repaired_variant.
Proof. exact (conj repaired_fair_interrupts (conj repaired_no_crash (conj repaired_no_spurious repaired_no_leak))). Qed.
Print Assumptions C11_export_repaired.

(** the protocol of ConcJs.v is the special case without a post phase: every
    execution of every variant under every schedule is the projection of the
    execution of the extended system, whatever the new switches say *)
Theorem C11_export_conservative :
  forall b before trapped e k thr ls,
  run_labels b ls (init b e k)
  = proj (xrun (mk_xvariant b before trapped) ls (xinit (mk_xvariant b before trapped) e k thr PostNone)).
Proof. exact conservative. Qed.
Print Assumptions C11_export_conservative.

Example C11_export_nonvacuous :
  x_returned (xrun repaired_variant [Tick; Tick; Expire; Watch; Tick; Finish]
                   (xinit repaired_variant false (Some 0) false (PostRun None false))) = Some XInterrupted
  /\ x_returned (xrun old_order [Tick; Finish; Tick; Expire; Watch; Tick; Finish]
                      (xinit old_order false (Some 0) false (PostRun None false))) = Some XCrashed
  /\ x_returned (xrun repaired_variant [Tick; Tick; Tick; Finish]
                      (xinit repaired_variant false (Some 0) false (PostRun (Some 1) false))) = Some XFinished
  /\ x_returned (xrun repaired_variant [Tick; Tick; Finish]
                      (xinit repaired_variant false (Some 0) true (PostRun (Some 0) false))) = Some XThrew
  /\ x_returned (xrun repaired_variant [Tick; Tick; Finish]
                      (xinit repaired_variant false (Some 0) false (PostRun (Some 0) true))) = Some XPostFailed
  /\ x_returned (xrun old_order [Tick; Finish; Tick; Finish]
                      (xinit old_order false (Some 0) false (PostRun (Some 0) true))) = Some XCrashed
  /\ xwatcher_blocked repaired_variant
       (xrun repaired_variant [Tick; Tick; Finish] (xinit repaired_variant false (Some 0) false (PostRun (Some 0) false)))
     = false
  /\ x_watcher (xrun repaired_variant [Tick; Tick; Finish; Watch]
                     (xinit repaired_variant false (Some 0) false (PostRun (Some 0) false))) = Exited
  /\ xticks_taken repaired_variant [Tick; Tick; Expire; Watch; Tick; Tick; Tick]
       (xinit repaired_variant false (Some 0) false (PostRun None false)) = 3.
Proof. exact export_examples. Qed.
