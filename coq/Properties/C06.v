(** C06 - The engine holds no state: processing never modifies what it is
    given.  Only statements, [exact], and Print Assumptions.

    A Gallina function cannot modify its arguments, so the claim is stated
    about the ownership-tracked model of Model/Own.v: Spec.Step / the body
    of Spec.Walk re-stated with every top-level bindings map tagged [Caller]
    (the map inside the state that was passed in) or [Fresh] (allocated
    during the call) and with a log of every in-place write the Go code
    performs (Extend, Extendm, the restore loop of FuncAction.Exec).
    [same a bs] says that the wrapped function handed back the very map it
    was given (a native action may); [run] is ANY behaviour of actions and
    guards - failing, rejecting, error with and without a partial result.

    - [C06_tracked_*_is_the_model]: erasing the tags gives exactly [step] /
      [walk_stride], so these theorems are about the same function as
      C04/C05/C07 and as the correspondence run;
    - [C06_step_leaves_caller_intact] / [C06_walk_stride_leaves_caller_intact]:
      no logged write changes the contents of the caller's map, and every
      state of the returned stride (From, To - including error states) holds
      a fresh map, never the caller's.
    The messages, the specification and the control are only read by the
    model (they are never the target of a logged operation); deep snapshots
    and map-identity probes on the implementation cover them and test the
    tag assignment itself. *)
From Sheens Require Import Model.Step Model.Own Spec.WalkSpec Proofs.OwnProofs.

Section C06.
Variable action : Type.
Variable run : action -> option bindings -> exec_raw.
Variable same : action -> option bindings -> bool.

Theorem C06_tracked_step_is_the_model :
  forall s st pending,
  erase_out (stepT action run same s st pending) =
  plain_out (step action run s (erase_state st) pending).
Proof. exact (stepT_erase action run same). Qed.

Theorem C06_tracked_walk_stride_is_the_model :
  forall s st pendings,
  erase_stride (fst (walk_strideT action run same s st pendings)) =
  fst (walk_stride action run s (erase_state st) pendings).
Proof. exact (walk_strideT_erase action run same). Qed.

(** [c0]: the contents of the caller's map (key-sorted, as every bindings
    map of the model); an action that hands back the map it was given has
    not changed it - otherwise the action, not the engine, wrote to it *)
Variable c0 : option bindings.
Hypothesis c0_sorted : sorted_keys (copy_bs c0) = true.
Hypothesis same_unchanged :
  forall a bs, same a bs = true -> exists em, xr_exe (run a bs) = Some (bs, em).

Theorem C06_step_leaves_caller_intact :
  forall s st pending,
  tinv c0 (ts_bs st) ->
  let o := stepT action run same s st pending in
  log_ok (tso_log o) /\ (forall sd, tso_stride o = Some sd -> stride_fresh sd).
Proof. exact (stepT_own action run same c0 c0_sorted same_unchanged). Qed.

Theorem C06_walk_stride_leaves_caller_intact :
  forall s st pendings,
  tinv c0 (ts_bs st) ->
  log_ok (snd (walk_strideT action run same s st pendings)) /\
  stride_fresh (fst (walk_strideT action run same s st pendings)).
Proof. exact (walk_strideT_own action run same c0 c0_sorted same_unchanged). Qed.
End C06.

Print Assumptions C06_tracked_step_is_the_model.
Print Assumptions C06_tracked_walk_stride_is_the_model.
Print Assumptions C06_step_leaves_caller_intact.
Print Assumptions C06_walk_stride_leaves_caller_intact.

(** non-vacuity: a native action hands back the caller's own map, which
    holds a permanent binding; the restore loop writes into it (one logged
    write to a [Caller] map) without changing it, and the stride's states are
    fresh; the action then follows no branch, so the error state is built -
    from a copy *)
From Sheens Require Import Model.Action.
Definition ex_spec : aspec :=
  mk_spec [("start", mk_node (Some (Native (mk_prog [] TRetBindings) false)) false None)] false "" true.
Definition ex_same (a : act) (bs : option bindings) : bool :=
  match a with Native p _ => match pg_ops p with [] => true | _ => false end | Js _ => false end.
Example C06_nonvacuous :
  let st := mk_tstate "start" (mk_tbs Caller (Some [("cfg!", JNum 4)])) in
  let o := stepT act run_act ex_same ex_spec st None in
  tso_log o = [(Caller, false); (Fresh, true); (Fresh, true); (Fresh, true)] /\
  option_map (fun sd => option_map (fun s' => t_own (ts_bs s')) (tsd_to sd)) (tso_stride o) = Some (Some Fresh).
Proof. vm_compute. auto. Qed.
