(** C06 - The engine holds no state: processing never modifies what it is
    given.  Only statements, [exact], and Print Assumptions.

    A Gallina function cannot modify its arguments, so the claim is stated
    about the ownership-tracked model of Model/Own.v: Spec.Step / the body
    of Spec.Walk re-stated with every top-level bindings map tagged [Caller]
    (the map inside the state that was passed in) or [Fresh] (allocated
    during the call) and with a log of every in-place write the Go code
    performs (Extend, Extendm, the restore loop of FuncAction.Exec).
    [same a bs] says that the wrapped function handed back the very map it
    was given, [mutates a bs] that it wrote into that map in place and
    changed it (a native action may do both); [run] is ANY behaviour of
    actions and guards - failing, rejecting, error with and without a
    partial result.  Nothing relates [run], [same] and [mutates], and
    nothing is assumed of them: FuncAction.Exec hands the wrapped function a
    shallow copy of the bindings, so what the function does to its argument
    it does to that copy, and the in-place writes of the function itself
    are part of the log.

    - [C06_tracked_*_is_the_model]: erasing the tags gives exactly [step] /
      [walk_stride], so these theorems are about the same function as
      C04/C05/C07 and as the correspondence run;
    - [C06_step_leaves_caller_intact] / [C06_walk_stride_leaves_caller_intact]:
      no logged write changes the contents of the caller's map, and every
      state of the returned stride (From, To - including error states) holds
      a fresh map, never the caller's;
    - [C06_action_may_mutate_its_argument]: the same as one closed
      statement over every [run], [same], [mutates], together with: an
      in-place write of the wrapped function is in the log, against the
      copy; [C06_exec_returns_a_fresh_map]: FuncAction.Exec returns a fresh
      map whatever the tag of the map it was given;
    - [C06_old_wiring_refuted]: with the wiring FuncAction.Exec had before
      the repair (exe, err := a.F(ctx, bs, props) - the function works on
      the very map Exec was given) a native action that deletes a binding
      in place produces a write that changes the caller's map, for Exec
      alone and for a whole step; the first half of
      [C06_step_leaves_caller_intact] is false of that wiring.
    The messages, the specification and the control are only read by the
    model (they are never the target of a logged operation); deep snapshots
    and map-identity probes on the implementation cover them and test the
    tag assignment itself. *)
From Sheens Require Import Model.Step Model.Own Spec.WalkSpec Proofs.OwnProofs.

From Sheens Require Import Model.Action.

Section C06.
Variable action : Type.
Variable run : action -> option bindings -> exec_raw.
Variable same : action -> option bindings -> bool.
Variable mutates : action -> option bindings -> bool.

Theorem C06_tracked_step_is_the_model :
  forall s st pending,
  erase_out (stepT action run same mutates s st pending) =
  plain_out (step action run s (erase_state st) pending).
Proof. exact (stepT_erase action run same mutates). Qed.

Theorem C06_tracked_walk_stride_is_the_model :
  forall s st pendings,
  erase_stride (fst (walk_strideT action run same mutates s st pendings)) =
  fst (walk_stride action run s (erase_state st) pendings).
Proof. exact (walk_strideT_erase action run same mutates). Qed.

(** [c0]: the contents of the caller's map *)
Variable c0 : option bindings.

Theorem C06_step_leaves_caller_intact :
  forall s st pending,
  tinv c0 (ts_bs st) ->
  let o := stepT action run same mutates s st pending in
  log_ok (tso_log o) /\ (forall sd, tso_stride o = Some sd -> stride_fresh sd).
Proof. exact (stepT_own action run same mutates c0). Qed.

Theorem C06_walk_stride_leaves_caller_intact :
  forall s st pendings,
  tinv c0 (ts_bs st) ->
  log_ok (snd (walk_strideT action run same mutates s st pendings)) /\
  stride_fresh (fst (walk_strideT action run same mutates s st pendings)).
Proof. exact (walk_strideT_own action run same mutates c0). Qed.

(** FuncAction.Exec alone, whatever the tag of the map it is given: every
    write - the wrapped function's own included - leaves [Caller] maps as
    they are, and the returned map is fresh *)
Theorem C06_exec_returns_a_fresh_map :
  forall a t,
  let '((ot, _), _, l) := func_execT action run same mutates a t in
  log_ok l /\ (forall t', ot = Some t' -> t_own t' = Fresh).
Proof. exact (func_execT_fresh action run same mutates). Qed.
End C06.

(** the strengthened statement, closed: for EVERY behaviour of action and
    guard functions - in particular ones that overwrite or delete bindings
    in the map they are given, in place ([mutates]), and ones that hand that
    very map back ([same]) - such a write is in the log, against Exec's copy,
    and a step / a walk stride leave the caller's map as it is and return
    fresh maps only *)
Theorem C06_action_may_mutate_its_argument :
  forall (action : Type) (run : action -> option bindings -> exec_raw)
         (same mutates : action -> option bindings -> bool)
         (c0 : option bindings) s st pendings,
  tinv c0 (ts_bs st) ->
  (forall a b, t_val (ts_bs st) = Some b -> mutates a (Some b) = true ->
     In (Fresh, true) (snd (func_execT action run same mutates a (ts_bs st)))) /\
  (let o := stepT action run same mutates s st (peek pendings) in
   log_ok (tso_log o) /\ (forall sd, tso_stride o = Some sd -> stride_fresh sd)) /\
  log_ok (snd (walk_strideT action run same mutates s st pendings)) /\
  stride_fresh (fst (walk_strideT action run same mutates s st pendings)).
Proof.
  exact (fun action run same mutates c0 s st pendings Hinv =>
           conj (fun a b => func_execT_logs_mutation action run same mutates a (ts_bs st) b)
                (conj (stepT_own action run same mutates c0 s st (peek pendings) Hinv)
                      (walk_strideT_own action run same mutates c0 s st pendings Hinv))).
Qed.

Theorem C06_old_wiring_refuted :
  (exists (a : act) (t : tbs),
     tinv (t_val t) t /\ t_own t = Caller /\
     In (Caller, true) (snd (func_execT_old act run_act native_same native_mutates a t))) /\
  (let st := mk_tstate "start" del_caller_map in
   tinv (t_val del_caller_map) (ts_bs st) /\
   In (Caller, true) (tso_log (stepT_old act run_act native_same native_mutates del_spec st None)) /\
   ~ log_ok (tso_log (stepT_old act run_act native_same native_mutates del_spec st None))) /\
  ~ (forall (action : Type) run same mutates (c0 : option bindings)
            (s : spec action) (st : tstate) (pending : option json),
       tinv c0 (ts_bs st) ->
       log_ok (tso_log (stepT_old action run same mutates s st pending))).
Proof. exact (conj old_wiring_refuted (conj old_wiring_step_refuted old_wiring_no_theorem)). Qed.

Print Assumptions C06_tracked_step_is_the_model.
Print Assumptions C06_tracked_walk_stride_is_the_model.
Print Assumptions C06_step_leaves_caller_intact.
Print Assumptions C06_walk_stride_leaves_caller_intact.
Print Assumptions C06_exec_returns_a_fresh_map.
Print Assumptions C06_action_may_mutate_its_argument.
Print Assumptions C06_old_wiring_refuted.

(** non-vacuity 1: a native action hands back the map it was given, which
    holds a permanent binding; under the repaired wiring that map is Exec's
    copy, so the restore loop writes into a [Fresh] map (without changing
    it), and the stride's states are fresh; the action then follows no
    branch, so the error state is built - from a copy *)
Definition ex_spec : aspec :=
  mk_spec [("start", mk_node (Some (Native (mk_prog [] TRetBindings) false)) false None)] false "" true.
Example C06_nonvacuous :
  let st := mk_tstate "start" (mk_tbs Caller (Some [("cfg!", JNum 4)])) in
  let o := stepT act run_act native_same native_mutates ex_spec st None in
  tso_log o = [(Fresh, false); (Fresh, true); (Fresh, true); (Fresh, true)] /\
  option_map (fun sd => option_map (fun s' => t_own (ts_bs s')) (tsd_to sd)) (tso_stride o) = Some (Some Fresh).
Proof. vm_compute. auto. Qed.

(** non-vacuity 2: a native action deletes the permanent binding "cfg!" and
    the binding "x" IN PLACE and hands the map back.  Repaired wiring: the
    deletion is a write that changes a [Fresh] map (Exec's copy), the restore
    loop puts "cfg!" back into that copy (a second changing write to a
    [Fresh] map), the caller's map is never written, the To state is the
    error state on a fresh map.  Old wiring, same behaviour: both writes
    change the [Caller] map. *)
Definition ex_del_spec : aspec :=
  mk_spec [("start", mk_node (Some (Native (mk_prog [ADel "cfg!"; ADel "x"] TRetBindings) false)) false None)]
          false "" true.
Example C06_nonvacuous_mutating_action :
  let st := mk_tstate "start" (mk_tbs Caller (Some [("cfg!", JNum 4); ("x", JNum 4)])) in
  let o := stepT act run_act native_same native_mutates ex_del_spec st None in
  let o_old := stepT_old act run_act native_same native_mutates ex_del_spec st None in
  tinv (Some [("cfg!", JNum 4); ("x", JNum 4)]) (ts_bs st) /\
  tso_log o = [(Fresh, true); (Fresh, true); (Fresh, true); (Fresh, true); (Fresh, true)] /\
  option_map (fun sd => option_map (fun s' => t_own (ts_bs s')) (tsd_to sd)) (tso_stride o) = Some (Some Fresh) /\
  option_map (fun sd => t_own (ts_bs (tsd_from sd))) (tso_stride o) = Some Fresh /\
  firstn 2 (tso_log o_old) = [(Caller, true); (Caller, true)] /\
  erase_out o = erase_out o_old.
Proof. vm_compute. repeat split; auto. Qed.
