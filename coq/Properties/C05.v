(** C05 - Walk accounting: ordered exactly-once consumption, step bound,
    truthful stop.  Only statements, [exact], and Print Assumptions.

    [walk action run s bp limit st msgs] is the model of core.Spec.Walk
    (Model/Step.v): [action]/[run] are ANY action type and ANY deterministic
    behaviour of actions and guards, [s] any specification (cyclic and
    non-terminating ones included), [bp] the disjunction of the control's
    breakpoints, [limit] the step limit.  Messages are non-null (a null
    message is no message).  Vocabulary ([consumed_of], [chain_ok],
    [final_state]) is in Spec/WalkSpec.v and is the same the oracle evaluates
    on the implementation's Walked. *)
From Sheens Require Import Model.Step Spec.WalkSpec Proofs.StepFacts Proofs.WalkProofs Proofs.WalkSplit.

Section C05.
Variable action : Type.
Variable run : action -> option bindings -> exec_raw.
Variable s : spec action.
Variable bp : state -> bool.
Notation walk := (walk action run s bp).
Notation walk_stride := (walk_stride action run s).

(** messages are consumed strictly in order, each at most once: the input is
    the consumed messages, then the dropped ones, then the reported
    remainder; nothing is dropped unless the walk reports completion, a
    completed walk reports no remainder, and messages are only dropped at a
    state that consumes no message whatever is offered *)
Theorem C05_ordered_exactly_once :
  forall limit st msgs w amb,
  Forall (fun m => m <> JNull) msgs -> walk limit st msgs = (w, amb) ->
  exists dropped,
    msgs = consumed_of (w_strides w) ++ dropped ++ w_remaining w /\
    (w_stopped w <> Done -> dropped = []) /\
    (w_stopped w = Done -> w_remaining w = []) /\
    (dropped <> [] ->
     forall p, sd_consumed (fst (walk_stride (final_state st (w_strides w)) p)) = None).
Proof. exact (walk_accounting action run s bp). Qed.

Theorem C05_step_bound :
  forall limit st msgs w amb,
  Forall (fun m => m <> JNull) msgs -> walk limit st msgs = (w, amb) ->
  List.length (w_strides w) <= limit.
Proof. exact (walk_step_bound action run s bp). Qed.

(** stopping at the limit or at a breakpoint reports exactly the unconsumed remainder *)
Theorem C05_truthful_stop :
  forall limit st msgs w amb,
  Forall (fun m => m <> JNull) msgs -> walk limit st msgs = (w, amb) ->
  w_stopped w = Limited \/ w_stopped w = BreakpointReached ->
  msgs = consumed_of (w_strides w) ++ w_remaining w.
Proof. exact (walk_truthful_stop action run s bp). Qed.

(** completion means quiescence: from the final state no step is possible
    without a new message *)
Theorem C05_done_quiescent :
  forall limit st msgs w amb,
  Forall (fun m => m <> JNull) msgs -> walk limit st msgs = (w, amb) ->
  w_stopped w = Done -> sd_to (fst (walk_stride (final_state st (w_strides w)) [])) = None.
Proof. exact (walk_done_quiescent action run s bp). Qed.

(** each step starts from the state the previous one produced *)
Theorem C05_chain :
  forall limit st msgs w amb,
  Forall (fun m => m <> JNull) msgs -> walk limit st msgs = (w, amb) ->
  chain_ok st (w_strides w) = true.
Proof. exact (walk_chain action run s bp). Qed.

Theorem C05_never_internal_error :
  forall limit st msgs w amb,
  Forall (fun m => m <> JNull) msgs -> walk limit st msgs = (w, amb) ->
  w_stopped w <> InternalError.
Proof. exact (walk_never_internal_error action run s bp). Qed.

(** two batches: if neither the limit nor a breakpoint intervenes in the walk
    of the first batch and in the walk of everything, then the walk of the
    second batch from where the first ended completes too, and final state
    and emitted messages (in order) coincide *)
Theorem C05_split :
  forall limit st ms1 ms2,
  Forall (fun m => m <> JNull) ms1 -> Forall (fun m => m <> JNull) ms2 ->
  let w1 := fst (walk limit st ms1) in
  let w12 := fst (walk limit st (ms1 ++ ms2)) in
  w_stopped w1 = Done -> w_stopped w12 = Done ->
  let w2 := fst (walk limit (walked_final st w1) ms2) in
  w_stopped w2 = Done /\
  walked_final st w12 = walked_final (walked_final st w1) w2 /\
  walked_emitted w12 = walked_emitted w1 ++ walked_emitted w2.
Proof. exact (walk_split action run s bp). Qed.

(** any split into consecutive batches, down to one message at a time *)
Theorem C05_any_split :
  forall limit rest st b fin em,
  Forall (fun m => m <> JNull) (List.concat (b :: rest)) ->
  let whole := fst (walk limit st (List.concat (b :: rest))) in
  w_stopped whole = Done ->
  walk_batches action run s bp limit st (b :: rest) = Some (fin, em) ->
  fin = walked_final st whole /\ em = walked_emitted whole.
Proof. exact (walk_any_split action run s bp). Qed.
End C05.

Print Assumptions C05_ordered_exactly_once.
Print Assumptions C05_step_bound.
Print Assumptions C05_truthful_stop.
Print Assumptions C05_done_quiescent.
Print Assumptions C05_chain.
Print Assumptions C05_never_internal_error.
Print Assumptions C05_split.
Print Assumptions C05_any_split.

(** non-vacuity: a two-node machine that consumes two messages in two
    batches or at once (the turnstile of the README, reduced) *)
From Sheens Require Import Model.Action.
Definition ex_spec : aspec :=
  mk_spec
    [("locked", mk_node None false
        (Some (mk_branching "message"
                 [mk_branch (Some (JObj [("input", JStr "coin")])) None "unlocked"])));
     ("unlocked", mk_node None false
        (Some (mk_branching "message"
                 [mk_branch (Some (JObj [("input", JStr "push")])) None "locked"])))]
    false "" true.
Definition coin := JObj [("input", JStr "coin")].
Definition push := JObj [("input", JStr "push")].
Example C05_nonvacuous :
  let st := mk_state "locked" (Some []) in
  let w12 := fst (awalk ex_spec (fun _ => false) 10 st [coin; push; coin]) in
  let w1 := fst (awalk ex_spec (fun _ => false) 10 st [coin]) in
  w_stopped w12 = Done /\ w_stopped w1 = Done /\
  consumed_of (w_strides w12) = [coin; push; coin] /\
  st_node (walked_final st w12) = "unlocked" /\
  walk_batches act run_act ex_spec (fun _ => false) 10 st [[coin]; [push]; [coin]]
  = Some (walked_final st w12, walked_emitted w12).
Proof. vm_compute. repeat split; reflexivity. Qed.
