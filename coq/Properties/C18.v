(** C18 - Permanent bindings cannot be removed or altered by actions or
    guards.  Only statements, [exact], and Print Assumptions.

    [func_exec] is the model of core.FuncAction.Exec, the wrapper through
    which the engine runs EVERY action and guard ([run] = what the wrapped
    function returns, arbitrary).  [is_permanent k] = the name ends in the
    generated constant [perm_sigil] ("!"); the switch
    [exp_permanent_bindings] is the generated default of
    core.Exp_PermanentBindings: the proofs compute with both, so changing
    either in the source breaks them on the next run. *)
From Sheens Require Import Model.Step Model.Action Proofs.StepFacts Proofs.EngineFacts Proofs.PermChain.

Section C18.
Variable action : Type.
Variable run : action -> option bindings -> exec_raw.

(** after any action or guard that completes and returns bindings, every
    permanent binding present beforehand is present with its previous value
    - whatever the code deleted, overwrote or returned instead (also when
    the wrapped function reports an error together with bindings) *)
Theorem C18_restored :
  forall a bs out em err k v,
  func_exec action run a bs = ((Some out, em), err) ->
  nodup_keys (map fst (copy_bs bs)) = true ->
  is_permanent k = true -> lookup k (copy_bs bs) = Some v ->
  lookup k out = Some v.
Proof. exact (func_exec_restores action run). Qed.

(** a failing action leaves them in place: the bindings that carry the
    error (handed to the error branches or to the designated node) extend
    the state's bindings *)
Theorem C18_failing_action_keeps :
  forall s st pending n a r,
  sp_compiled s = true -> find_node (st_node st) (sp_nodes s) = Some n ->
  nd_action n = Some a -> is_consumer action (nd_branching n) = false ->
  func_exec action run a (st_bs st) = (r, true) ->
  let ebs := bset "error" err_text (bset "actionError" err_text (copy_bs (st_bs st))) in
  lookup "error" ebs = Some err_text /\ lookup "actionError" ebs = Some err_text /\
  (forall k v, k <> "error" -> k <> "actionError" ->
               lookup k (copy_bs (st_bs st)) = Some v -> lookup k ebs = Some v) /\
  match sp_err_branches s, String.eqb (sp_err_node s) "" with
  | false, true => step action run s st pending = mk_step_out None (Some EAction) false
  | false, false =>
      step action run s st pending =
      mk_step_out (Some (mk_stride (copy_state st) (Some (mk_state (sp_err_node s) (Some ebs))) None (snd r)))
                  None false
  | true, _ => step action run s st pending = continue_ action run n st pending true (Some ebs) (snd r)
  end.
Proof. exact (action_error_routed action run). Qed.

(** a rejecting guard changes nothing: the branch is simply not taken *)
Theorem C18_rejecting_guard_no_effect :
  forall g cs, Forall (fun c => exists em, func_exec action run g c = ((None, em), false)) cs ->
  guard_loop action run g cs = Some None.
Proof.
  intros g cs H. induction H as [|c r [em Hc] _ IH]; cbn; [reflexivity|]. rewrite Hc. exact IH.
Qed.
(** an accepting guard: the bindings the guard loop hands on come from the
    guard run on one of the candidates and keep that candidate's permanent
    bindings, whatever the guard did to them *)
Theorem C18_accepting_guard_keeps :
  forall g cs b, guard_loop action run g cs = Some (Some b) ->
  exists c, In c cs /\
    (nodup_keys (map fst (copy_bs c)) = true ->
     forall k v, is_permanent k = true -> lookup k (copy_bs c) = Some v -> lookup k b = Some v).
Proof. exact (guard_accept_keeps action run). Qed.

(** over a history: through any chain of completing executions, each given
    what the previous one returned, a permanent binding of the first state
    is present with its first value at the end ([run_sorted]: what a wrapped
    function returns is a Go map, i.e. has unique keys) *)
Theorem C18_history_keeps :
  run_sorted action run -> forall l bs out k v,
  sorted_keys bs = true -> exec_chain action run l bs = Some out ->
  is_permanent k = true -> lookup k bs = Some v ->
  lookup k out = Some v /\ sorted_keys out = true.
Proof. exact (chain_keeps_permanent action run). Qed.
End C18.

Print Assumptions C18_restored.
Print Assumptions C18_failing_action_keeps.
Print Assumptions C18_rejecting_guard_no_effect.
Print Assumptions C18_accepting_guard_keeps.
Print Assumptions C18_history_keeps.

(** the names of the error bindings are not permanent, so the clause above
    covers every permanent binding *)
Example C18_error_keys_not_permanent :
  is_permanent "error" = false /\ is_permanent "actionError" = false /\ is_permanent "cfg!" = true.
Proof. vm_compute. auto. Qed.

(** non-vacuity: a script that deletes everything and returns a fresh object *)
Example C18_nonvacuous :
  func_exec act run_act (Js (mk_prog [ADelAll] (TRetFresh [("cfg!", JNum 8); ("x", JNum 4)])))
            (Some [("a", JNum 4); ("cfg!", JStr "keep"); ("ver!", JNum 12)])
  = ((Some [("cfg!", JStr "keep"); ("ver!", JNum 12); ("x", JNum 4)], []), false).
Proof. vm_compute. reflexivity. Qed.

(** non-vacuity of the history clause: three scripts in a row - delete all,
    overwrite, return a fresh object - and both permanent bindings survive *)
Example C18_history_nonvacuous :
  exec_chain act run_act
    [Js (mk_prog [ADelAll] (TRetFresh [("x", JNum 4)]));
     Js (mk_prog [ADelAll] (TRetFresh [("cfg!", JNum 8); ("y", JNum 5)]))]
    [("a", JNum 4); ("cfg!", JStr "keep"); ("ver!", JNum 12)]
  = Some [("cfg!", JStr "keep"); ("ver!", JNum 12); ("y", JNum 5)].
Proof. vm_compute. reflexivity. Qed.
