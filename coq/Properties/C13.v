(** C13 - A specification's behaviour is independent of its representation;
    compiling is idempotent.  Only statements, [exact], Print Assumptions and
    the non-vacuity Examples.

    Vocabulary (Model/Compile.v, the model of core/spec.go after the D9
    repair, core/util.go Canonicalize, core/actions.go ActionSource.Compile):

    - [adoc] is a Go [core.Spec] value: the document that was loaded and, once
      compiled, the machine.  A branch pattern is a Go [interface{}]:
      [JStr s] is a Go string, which under [patternSyntax: json] *is* the JSON
      text of the pattern; [JNull] is "no pattern".
    - [compile I force a] is Spec.Compile with the interpreters [I]: the
      rewritten Spec value, or the class of the error.
    - [with_text sel a] writes the patterns selected by [sel] as JSON text
      ([print], the model of json.Marshal on the fragment) and sets the json
      syntax; [with_inline a] keeps them inline under the syntax "none".
      [covers_strings sel]: every Go string is selected (a string has no
      inline form under the json syntax).  [plain_doc a]: the strings inside
      the patterns need no escape (the fragment of Model/JsonText.v).
    - [reload a'] is what json.Marshal / yaml.Marshal keep of a Spec value
      (everything but the compiled actions and the compiled flag);
      [pristine a]: nothing compiled yet (what a document loader returns).
    - [doc_walk a'] / [doc_step a'] are Spec.Walk / Spec.Step (Model/Step.v)
      on the projection [spec_of a'] that core/step.go reads.

    Decoding a JSON or YAML *document* into the Spec structure is not
    modelled: the harness validates the decoders on every run. *)
From Sheens Require Import Model.Compile Proofs.JsonTextFacts Proofs.CanonFacts Proofs.CompileBase
     Proofs.CompileRepr Proofs.CompileIdem Proofs.CompileReject Proofs.CompileHistory
     Corr.CompileCorr Proofs.CompileErrs.

(** * Patterns as JSON text *)

(** the parser inverts the printer on every value of the fragment: a pattern
    of any JSON shape - object, array, bare string, bare variable, number,
    boolean, null - written as text denotes that pattern *)
Theorem C13_parse_print :
  forall j, plain_json j = true -> parse (print j) = Some j.
Proof. exact parse_print. Qed.
Print Assumptions C13_parse_print.

Example C13_parse_print_nonvacuous :
  plain_json (JObj [("likes", JStr "?x"); ("n", JArr [JNum 10; JNum (-3); JBool true; JNull])]) = true
  /\ print (JObj [("likes", JStr "?x"); ("n", JArr [JNum 10; JNum (-3); JBool true; JNull])])
     = "{""likes"":""?x"",""n"":[2.5,-0.75,true,null]}"
  /\ print (JStr "?x") = """?x""" /\ parse "?x" = None.
Proof. repeat split; vm_compute; reflexivity. Qed.

(** * Text versus inline *)

(** whichever patterns are written as JSON text, Compile produces the very
    same Spec value as for the inline form (or the same error) *)
Theorem C13_text_inline :
  forall I force sel a,
    covers_strings sel -> plain_doc a ->
    compile I force (with_text sel a) = compile I force (with_inline a).
Proof. exact compile_text_inline. Qed.
Print Assumptions C13_text_inline.

(** ... hence machines that behave identically on every message sequence *)
Theorem C13_text_inline_behaviour :
  forall I force sel a,
    covers_strings sel -> plain_doc a ->
    match compile I force (with_text sel a), compile I force (with_inline a) with
    | inr x, inr y =>
        forall bp limit st msgs, doc_walk x bp limit st msgs = doc_walk y bp limit st msgs
    | inl e, inl e' => e = e'
    | _, _ => False
    end.
Proof. exact text_inline_behaviour. Qed.
Print Assumptions C13_text_inline_behaviour.

(** the empty pattern syntax is the syntax "none" *)
Theorem C13_empty_syntax :
  forall I force a,
    match compile I force (with_syntax "" a), compile I force (with_syntax "none" a) with
    | inr x, inr y => spec_of x = spec_of y
    | inl e, inl e' => e = e'
    | _, _ => False
    end.
Proof. exact compile_empty_syntax. Qed.
Print Assumptions C13_empty_syntax.

(** non-vacuity: a document with a bare variable, a bare string that is
    itself a JSON text, and an object pattern; written as text it compiles
    and the machine moves *)
Definition ex_doc : adoc :=
  mk_adoc
    [("start", Some (mk_dnode None None
                (Some (mk_dbranching "message"
                   [Some (mk_dbranch (JStr "1") None None "one");
                    Some (mk_dbranch (JObj [("likes", JStr "?x")]) None
                                     (Some (mk_asource "ecmascript" (SProg prog_keep))) "there");
                    Some (mk_dbranch (JStr "?x") None None "there")]))));
     ("one", Some (mk_dnode None None None));
     ("there", Some (mk_dnode None (Some (mk_asource "ecmascript" (SProg prog_emit)))
                (Some (mk_dbranching "" [Some (mk_dbranch JNull None None "start")]))))]
    "" "" false false "" None None None None false.

Example C13_text_inline_nonvacuous :
  covers_strings all_text /\ plain_doc ex_doc
  /\ doc_patterns (with_text all_text ex_doc)
     = [JStr """1"""; JStr "{""likes"":""?x""}"; JStr """?x"""; JStr "null"]
  /\ match compile ex_interps true (with_text all_text ex_doc) with
     | inr a' =>
         map (fun sd => option_map st_node (sd_to sd))
             (w_strides (fst (doc_walk a' (fun _ => false) 4 (mk_state "start" (Some []))
                                       [JObj [("likes", JStr "tacos")]; JStr "1"])))
         = [Some "there"; Some "start"; Some "one"; None]
     | inl _ => False
     end.
Proof.
  split; [intros s; reflexivity |]. split; [apply plain_doc_of_bool; vm_compute; reflexivity |].
  split; vm_compute; reflexivity.
Qed.

(** * Idempotence *)

(** compiling a compiled Spec value again changes nothing *)
Theorem C13_idempotent :
  forall I force a a', compile I force a = inr a' -> compile I false a' = inr a'.
Proof. exact compile_idempotent. Qed.
Print Assumptions C13_idempotent.

(** after a forced compilation (what every host does), also a forced one *)
Theorem C13_idempotent_forced :
  forall I force2 a a', compile I true a = inr a' -> compile I force2 a' = inr a'.
Proof. exact compile_idempotent_forced. Qed.
Print Assumptions C13_idempotent_forced.

(** a loaded document, however it was compiled *)
Theorem C13_idempotent_loaded :
  forall I force force2 a a',
    pristine a -> compile I force a = inr a' -> compile I force2 a' = inr a'.
Proof. exact compile_idempotent_pristine. Qed.
Print Assumptions C13_idempotent_loaded.

(** Canonicalize, applied by every compilation, is idempotent *)
Theorem C13_canonicalize_idempotent :
  forall j, canonicalize (canonicalize j) = canonicalize j.
Proof. exact canonicalize_idem. Qed.
Print Assumptions C13_canonicalize_idempotent.

(** * Reload *)

(** serialise a compiled Spec value, load it, compile it: the same value *)
Theorem C13_reload :
  forall I force force2 a a',
    pristine a -> compile I force a = inr a' -> compile I force2 (reload a') = inr a'.
Proof. exact compile_reload. Qed.
Print Assumptions C13_reload.

Example C13_idempotent_reload_nonvacuous :
  pristine (with_text all_text ex_doc)
  /\ match compile ex_interps true (with_text all_text ex_doc) with
     | inr a' =>
         ad_syntax a' = "none" /\ ad_syntax (with_text all_text ex_doc) = "json"
         /\ has_node "error" (ad_nodes a') = true /\ has_node "error" (ad_nodes ex_doc) = false
         /\ pristine_b a' = false /\ pristine_b (reload a') = true
         /\ compile ex_interps true a' = inr a' /\ compile ex_interps false (reload a') = inr a'
     | inl _ => False
     end.
Proof.
  split; [apply pristine_of_bool; vm_compute; reflexivity |].
  vm_compute. repeat split; reflexivity.
Qed.

(** * Behaviour is a function of the compiled value *)
Theorem C13_behaviour :
  forall a b, spec_of a = spec_of b ->
  forall bp limit st msgs, doc_walk a bp limit st msgs = doc_walk b bp limit st msgs.
Proof. exact walk_congruence. Qed.
Print Assumptions C13_behaviour.

(** * Early rejection *)

(** an unknown pattern syntax is rejected as soon as there is a pattern *)
Theorem C13_reject_unknown_syntax :
  forall I force a,
    ~ known_syntax (ad_syntax a) -> doc_patterns a <> [] -> compile I force a = inl CPattern.
Proof. exact reject_unknown_syntax. Qed.
Print Assumptions C13_reject_unknown_syntax.

(** an action whose interpreter the host does not know *)
Theorem C13_reject_unknown_interpreter :
  forall I force a k n so,
    In (k, Some n) (ad_nodes a) -> dn_source n = Some so -> needs_compile force (dn_action n) ->
    I (as_interp so) = None -> exists e, compile I force a = inl e.
Proof. exact reject_unknown_interpreter_action. Qed.
Print Assumptions C13_reject_unknown_interpreter.

(** ... a guard *)
Theorem C13_reject_unknown_interpreter_guard :
  forall I force a k n bg b so,
    In (k, Some n) (ad_nodes a) -> dn_branching n = Some bg -> In (Some b) (dg_branches bg) ->
    db_guard_src b = Some so -> needs_compile force (db_guard b) ->
    I (as_interp so) = None -> exists e, compile I force a = inl e.
Proof. exact reject_unknown_interpreter_guard. Qed.
Print Assumptions C13_reject_unknown_interpreter_guard.

(** an unknown branching type *)
Theorem C13_reject_unknown_branch_type :
  forall I force a k n bg,
    In (k, Some n) (ad_nodes a) -> dn_branching n = Some bg ->
    dg_type bg <> "" -> dg_type bg <> "message" -> dg_type bg <> "bindings" ->
    exists e, compile I force a = inl e.
Proof. exact reject_unknown_branch_type. Qed.
Print Assumptions C13_reject_unknown_branch_type.

(** and what did compile leaves nothing of the kind to run time: no step
    says "not compiled" or "uncompiled action", every branching type is one
    Step knows *)
Theorem C13_no_late_errors :
  forall I force a a',
    compile I force a = inr a' ->
    forall st pending e, so_err (doc_step a' st pending) = Some e ->
    e <> ENotCompiled /\ e <> EUncompiledAction.
Proof. exact compiled_no_late_errors. Qed.
Print Assumptions C13_no_late_errors.

Theorem C13_types_known :
  forall I force a a' name nd bg,
    compile I force a = inr a' ->
    find_node name (sp_nodes (spec_of a')) = Some nd -> nd_branching nd = Some bg ->
    bg_type bg = "message" \/ bg_type bg = "bindings".
Proof. exact compiled_types_known. Qed.
Print Assumptions C13_types_known.

Example C13_reject_nonvacuous :
  compile ex_interps true (with_syntax "xml" ex_doc) = inl CPattern
  /\ compile (host_interps ["lua"]) true ex_doc = inl CInterp
  /\ match compile (host_interps ["lua"]) true
             (set_nodes ex_doc [("start", Some (mk_dnode None None None))]) with
     | inr _ => True
     | inl _ => False
     end
  /\ so_err (doc_step ex_doc (mk_state "start" (Some [])) None) = Some ENotCompiled.
Proof. repeat split; vm_compute; (reflexivity || exact I). Qed.

(** * The errors the correspondence accepts from Go are [compile]'s *)
Theorem C13_possible_errors_sound :
  forall I force a,
    (forall e, compile I force a = inl e -> In e (possible_errs I force a))
    /\ (forall a', compile I force a = inr a' -> possible_errs I force a = []).
Proof.
  exact (fun I force a => conj (possible_errs_failure I force a) (possible_errs_success I force a)).
Qed.
Print Assumptions C13_possible_errors_sound.

(** * The definition before the D9 repair does not satisfy the theorem *)
Theorem C13_refuted_prefix : ~ text_inline_statement compile_prefix.
Proof. exact compile_prefix_refuted. Qed.
Print Assumptions C13_refuted_prefix.

Theorem C13_prefix_witnesses :
  (compile_prefix ex_interps true (with_text all_text (one_pattern_doc (JStr "?x"))) = inl CPattern
   /\ exists a', compile_prefix ex_interps true (with_inline (one_pattern_doc (JStr "?x"))) = inr a')
  /\ exists a' b',
       compile_prefix ex_interps true (with_text all_text (one_pattern_doc (JStr "1"))) = inr a'
       /\ compile_prefix ex_interps true (with_inline (one_pattern_doc (JStr "1"))) = inr b'
       /\ doc_patterns a' = [JNum 4; JNull] /\ doc_patterns b' = [JStr "1"; JNull]
       /\ fst (doc_walk a' (fun _ => false) 5 (mk_state "start" (Some [])) [JStr "1"])
          <> fst (doc_walk b' (fun _ => false) 5 (mk_state "start" (Some [])) [JStr "1"]).
Proof. exact (conj prefix_bare_variable prefix_string_becomes_number). Qed.
Print Assumptions C13_prefix_witnesses.

(** * Pattern texts and persisted states with string escapes
    (Model/JsonTextEsc.v: the encoder's and the decoder's treatment of
    quotes, backslashes, control characters, [<], [>], [&]) *)
From Sheens Require Import Model.JsonTextEsc Proofs.JsonTextEscProofs.

(** the decoder inverts the encoder on every value all of whose strings
    (keys included) are made of bytes below 128, whatever those bytes are *)
Theorem C13_parse_print_escapes :
  forall j, ascii_json j = true -> parse_esc (print_esc j) = Some j.
Proof. exact parse_print_esc. Qed.
Print Assumptions C13_parse_print_escapes.

(** the heart of it: one string literal, followed by anything *)
Theorem C13_parse_print_string_escapes :
  forall s rest,
    ascii_string s = true -> parse_string_esc (print_str_esc s ++ rest) = Some (s, rest).
Proof. exact parse_string_esc_print. Qed.
Print Assumptions C13_parse_print_string_escapes.

(** the model with escapes extends the model without them: where no string
    needs an escape the two printers write the same text, and whatever text
    the parser without escapes reads (printed or not, with white space or
    without), the parser with escapes reads as the same value *)
Theorem C13_escapes_conservative :
  (forall j, noesc_json j = true -> print_esc j = print j)
  /\ (forall s j, parse s = Some j -> parse_esc s = Some j).
Proof. exact (conj print_esc_noesc parse_esc_conservative). Qed.
Print Assumptions C13_escapes_conservative.

(** non-vacuity: a string with a quote, a backslash, a newline, [<], [>] and
    [&], as a key and as a value; the text Go writes for it; the model
    without escapes does not read that string back; escapes that only a
    person writes *)
Definition ex_esc_string : string :=
  ("say ""hi"" \ <b>" ++ String "010"%char "&")%string.
Definition ex_esc_value : json := JObj [(ex_esc_string, JArr [JStr ex_esc_string; JNum 10])].

Example C13_parse_print_escapes_nonvacuous :
  ascii_json ex_esc_value = true /\ noesc_json ex_esc_value = false
  /\ print_esc (JStr ex_esc_string) = """say \""hi\"" \\ \u003cb\u003e\n\u0026"""
  /\ parse_esc (print_esc ex_esc_value) = Some ex_esc_value
  /\ parse (print (JStr ex_esc_string)) = None
  /\ parse_esc "[ ""\/\b\u0041\u004A\u004a"" ]"
     = Some (JArr [JStr ("/" ++ String "008"%char "AJJ")%string])
  /\ parse_esc """\u00e9""" = None /\ parse_esc """\x""" = None
  /\ noesc_json (JObj [("likes", JStr "?x")]) = true
  /\ print_esc (JObj [("likes", JStr "?x")]) = "{""likes"":""?x""}".
Proof. repeat split; vm_compute; reflexivity. Qed.

(** * Text versus inline, with string escapes
    (Model/CompileEsc.v: Spec.Compile over the text model with escapes.
    [compile_esc] is [compile] with [parse_esc] for [parse] in
    DefaultPatternParser, [with_text_esc] is [with_text] with [print_esc] for
    [print]; everything else is shared with Model/Compile.v.
    [ascii_doc a]: every string inside the patterns of [a] is made of bytes
    below 128 - quotes, backslashes, control characters, [<], [>], [&]
    included.) *)
From Sheens Require Import Model.CompileEsc Proofs.CompileEscProofs.

(** whichever patterns are written as JSON text, and whatever characters
    their strings contain, Compile produces the very same Spec value as for
    the inline form (or the same error) *)
Theorem C13_text_inline_escapes :
  forall I force sel a,
    covers_strings sel -> ascii_doc a ->
    compile_esc I force (with_text_esc sel a) = compile_esc I force (with_inline a).
Proof. exact compile_esc_text_inline. Qed.
Print Assumptions C13_text_inline_escapes.

(** ... hence machines that behave identically on every message sequence *)
Theorem C13_text_inline_behaviour_escapes :
  forall I force sel a,
    covers_strings sel -> ascii_doc a ->
    match compile_esc I force (with_text_esc sel a), compile_esc I force (with_inline a) with
    | inr x, inr y =>
        forall bp limit st msgs, doc_walk x bp limit st msgs = doc_walk y bp limit st msgs
    | inl e, inl e' => e = e'
    | _, _ => False
    end.
Proof. exact text_inline_behaviour_esc. Qed.
Print Assumptions C13_text_inline_behaviour_escapes.

(** in the model the side condition is not needed (the decoder inverts the
    encoder on every byte string); [ascii_doc] is what ties the model to Go *)
Theorem C13_text_inline_escapes_bytes :
  forall I force sel a,
    covers_strings sel ->
    compile_esc I force (with_text_esc sel a) = compile_esc I force (with_inline a).
Proof. exact compile_esc_text_inline_bytes. Qed.
Print Assumptions C13_text_inline_escapes_bytes.

(** the inline form does not go through the text model at all: the text
    form with escapes compiles to what [compile] makes of the inline form *)
Theorem C13_text_escapes_inline_compile :
  forall I force sel a,
    covers_strings sel -> ascii_doc a ->
    compile_esc I force (with_text_esc sel a) = compile I force (with_inline a).
Proof. exact compile_esc_text_is_compile_inline. Qed.
Print Assumptions C13_text_escapes_inline_compile.

(** conservativity: Compile over the model with escapes agrees with Compile
    over the model without them unless the latter rejects a pattern text;
    in particular whatever compiles, compiles to the same Spec value.  On
    the documents of [C13_text_inline] - plain patterns, written as text by
    either printer - the two agree.  Documents that do not declare the json
    syntax do not use the text model. *)
Theorem C13_compile_esc_conservative :
  (forall I force a,
      compile I force a <> inl CPattern -> compile_esc I force a = compile I force a)
  /\ (forall I force a a', compile I force a = inr a' -> compile_esc I force a = inr a')
  /\ (forall I force sel a,
        covers_strings sel -> plain_doc a ->
        compile_esc I force (with_text sel a) = compile I force (with_text sel a)
        /\ compile_esc I force (with_text_esc sel a) = compile I force (with_text sel a))
  /\ (forall sel a, noesc_doc a -> with_text_esc sel a = with_text sel a)
  /\ (forall I force a,
        String.eqb (ad_syntax a) "json" = false -> compile_esc I force a = compile I force a).
Proof.
  exact (conj compile_esc_conservative
        (conj compile_esc_of_compile
        (conj (fun I force sel a Hs Hp =>
                 conj (compile_esc_with_text_plain I force sel a Hs Hp)
                      (compile_esc_text_plain I force sel a Hs Hp))
        (conj with_text_esc_noesc
              (compile_with_not_json parse_esc))))).
Qed.
Print Assumptions C13_compile_esc_conservative.

(** the other direction: every Spec value [compile_esc] returns is what
    [compile] returns for the document with its pattern texts read and
    written inline ([preparsed]), which is pristine if the document is; so
    the theorems about compiled values above hold of it *)
Theorem C13_compile_esc_is_a_compile :
  forall I force a a',
    compile_esc I force a = inr a' ->
    compile I force (preparsed parse_esc a) = inr a'
    /\ (pristine a -> pristine (preparsed parse_esc a)).
Proof.
  exact (fun I force a a' H =>
           conj (compile_with_as_compile parse_esc I force a a' H) (pristine_preparsed parse_esc a)).
Qed.
Print Assumptions C13_compile_esc_is_a_compile.

Theorem C13_idempotent_escapes :
  forall I force a a', compile_esc I force a = inr a' -> compile_esc I false a' = inr a'.
Proof. exact compile_esc_idempotent. Qed.
Print Assumptions C13_idempotent_escapes.

Theorem C13_idempotent_forced_escapes :
  forall I force2 a a', compile_esc I true a = inr a' -> compile_esc I force2 a' = inr a'.
Proof. exact compile_esc_idempotent_forced. Qed.
Print Assumptions C13_idempotent_forced_escapes.

Theorem C13_idempotent_loaded_escapes :
  forall I force force2 a a',
    pristine a -> compile_esc I force a = inr a' -> compile_esc I force2 a' = inr a'.
Proof. exact compile_esc_idempotent_pristine. Qed.
Print Assumptions C13_idempotent_loaded_escapes.

Theorem C13_reload_escapes :
  forall I force force2 a a',
    pristine a -> compile_esc I force a = inr a' -> compile_esc I force2 (reload a') = inr a'.
Proof. exact compile_esc_reload. Qed.
Print Assumptions C13_reload_escapes.

Theorem C13_no_late_errors_escapes :
  forall I force a a',
    compile_esc I force a = inr a' ->
    forall st pending e, so_err (doc_step a' st pending) = Some e ->
    e <> ENotCompiled /\ e <> EUncompiledAction.
Proof. exact compiled_esc_no_late_errors. Qed.
Print Assumptions C13_no_late_errors_escapes.

Theorem C13_types_known_escapes :
  forall I force a a' name nd bg,
    compile_esc I force a = inr a' ->
    find_node name (sp_nodes (spec_of a')) = Some nd -> nd_branching nd = Some bg ->
    bg_type bg = "message" \/ bg_type bg = "bindings".
Proof. exact compiled_esc_types_known. Qed.
Print Assumptions C13_types_known_escapes.

(** non-vacuity: a key and a bare string pattern with a quote, a backslash,
    a newline, [<], [>], [&].  The document is ASCII and not plain; the
    texts are the ones Go writes; the model without escapes rejects its own
    text; over the model with escapes it compiles, to the inline patterns,
    and the machine moves on messages that contain those characters *)
Definition ex_esc_doc : adoc :=
  mk_adoc
    [("start", Some (mk_dnode None None
                (Some (mk_dbranching "message"
                   [Some (mk_dbranch (JObj [(ex_esc_string, JStr "?x")]) None
                                     (Some (mk_asource "ecmascript" (SProg prog_keep))) "there");
                    Some (mk_dbranch (JStr ex_esc_string) None None "there")]))));
     ("there", Some (mk_dnode None (Some (mk_asource "ecmascript" (SProg prog_emit)))
                (Some (mk_dbranching "" [Some (mk_dbranch JNull None None "start")]))))]
    "" "" false false "" None None None None false.

Example C13_text_inline_escapes_nonvacuous :
  covers_strings all_text /\ ascii_doc ex_esc_doc
  /\ forallb plain_json (doc_patterns ex_esc_doc) = false
  /\ doc_patterns (with_text_esc all_text ex_esc_doc)
     = [JStr "{""say \""hi\"" \\ \u003cb\u003e\n\u0026"":""?x""}";
        JStr """say \""hi\"" \\ \u003cb\u003e\n\u0026"""; JStr "null"]
  /\ compile ex_interps true (with_text all_text ex_esc_doc) = inl CPattern
  /\ match compile_esc ex_interps true (with_text_esc all_text ex_esc_doc) with
     | inr a' =>
         doc_patterns a' = [JObj [(ex_esc_string, JStr "?x")]; JStr ex_esc_string; JNull]
         /\ map (fun sd => option_map st_node (sd_to sd))
                (w_strides (fst (doc_walk a' (fun _ => false) 4 (mk_state "start" (Some []))
                                          [JObj [(ex_esc_string, JStr "tacos")]; JStr ex_esc_string])))
            = [Some "there"; Some "start"; Some "there"; Some "start"]
         /\ compile_esc ex_interps false (reload a') = inr a'
     | inl _ => False
     end.
Proof.
  split; [intros s; reflexivity |]. split; [apply ascii_doc_of_bool; vm_compute; reflexivity |].
  repeat split; vm_compute; reflexivity.
Qed.

(** the extension is proper: a pattern text with an escape that only a
    person writes ([\/]) is rejected over the model without escapes *)
Example C13_compile_esc_reads_more :
  let a := with_syntax "json"
             (set_nodes (mk_adoc [] "" "" false false "" None None None None false)
                [("start", Some (mk_dnode None None
                    (Some (mk_dbranching "message"
                       [Some (mk_dbranch (JStr """A\/""") None None "start")]))))]) in
  compile (fun _ => None) true a = inl CPattern
  /\ match compile_esc (fun _ => None) true a with
     | inr a' => doc_patterns a' = [JStr "A/"]
     | inl _ => False
     end.
Proof. exact compile_esc_reads_more. Qed.
