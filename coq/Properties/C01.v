(** C01 - Match soundness.  Only statements, [exact], and Print Assumptions. *)
From Sheens Require Import Spec.Contain.

Example C01_nonvacuous_readme :
  Match (JObj [("likes", JStr "?likes")]) (JObj [("likes", JStr "tacos")]) []
  = Ok [[("?likes", JStr "tacos")]].
Proof. vm_compute. reflexivity. Qed.
