(** C01 - Match soundness: each result extends the given bindings and fits
    the message.  Only statements, [exact], and Print Assumptions.

    [c01_ok p f bs0 bs'] (Spec/Contain.v, written from the documentation) is
    the property for one returned binding set [bs']: every given binding is
    present unchanged; every other key is a variable of the pattern or the
    plain counterpart of one of its inequality variables; the anonymous
    variable is never bound; the pattern instantiated by [bs'] [fits] the
    message under the documented partial-matching rules (scalars equal,
    every pattern key present with a contained value, array elements
    matched by distinct message elements, inequality variables in the stated
    numeric relation).  [match_] is the model of match.Match (Model/Match.v),
    [ord] any iteration order the runtime may choose for the maps involved.

    Hypotheses: [var_free] = the quantifier's "no string inside the message
    or the bound values begins with '?'"; [wf_json f] and [nodup_keys] are
    true of every Go map; [no_anon_counterpart p] excludes the one pattern
    shape ("?<=" etc.: an inequality on the anonymous variable) for which
    the conjunct "the anonymous variable is never bound" is false (see
    [C01_planned_statement_refuted]).  No fragment hypothesis is needed:
    outside the supported fragment the matcher returns an error, which the
    premise [= Ok bss] excludes. *)
From Sheens Require Import Spec.Contain Proofs.OrderBase Proofs.SndMatchSound Proofs.SndMatchFuel.

Theorem C01_match_sound :
  forall ord, perm_oracle ord ->
  forall fuel p f bs0 bss bs',
    var_free f = true -> var_free_bs bs0 = true -> wf_json f = true ->
    nodup_keys (map fst bs0) = true -> no_anon_counterpart p = true ->
    match_ ord fuel p f bs0 = Ok bss -> In bs' bss -> c01_ok p f bs0 bs' = true.
Proof. exact match_sound. Qed.
Print Assumptions C01_match_sound.

(** without the hypothesis on the pattern: all conjuncts but the one about
    the anonymous variable *)
Theorem C01_match_sound_any_pattern :
  forall ord, perm_oracle ord ->
  forall fuel p f bs0 bss bs',
    var_free f = true -> var_free_bs bs0 = true -> wf_json f = true ->
    nodup_keys (map fst bs0) = true ->
    match_ ord fuel p f bs0 = Ok bss -> In bs' bss ->
    c01_given_kept bs0 bs' && c01_only_bindable p bs0 bs' && fits bs0 bs' p f = true.
Proof. exact match_sound_but_anon. Qed.
Print Assumptions C01_match_sound_any_pattern.

(** the recursion fuel of the model is no restriction: [match_bound] always
    suffices and any larger fuel gives the same result *)
Theorem C01_fuel_enough :
  forall ord, perm_oracle ord ->
  forall p f bs0,
    var_free f = true -> var_free_bs bs0 = true ->
    match_ ord (match_bound p f bs0) p f bs0 <> Fuel.
Proof. exact match_fuel_enough. Qed.
Print Assumptions C01_fuel_enough.

Theorem C01_fuel_irrelevant :
  forall ord, perm_oracle ord ->
  forall p f bs0 fuel,
    var_free f = true -> var_free_bs bs0 = true ->
    match_bound p f bs0 <= fuel ->
    match_ ord fuel p f bs0 = match_ ord (match_bound p f bs0) p f bs0.
Proof. exact match_fuel_irrelevant. Qed.
Print Assumptions C01_fuel_irrelevant.

(** returned binding sets stay key-sorted (the model's canonical form) *)
Theorem C01_results_sorted :
  forall ord, perm_oracle ord ->
  forall fuel p f bs0 bss bs',
    var_free f = true -> var_free_bs bs0 = true -> sorted_keys bs0 = true ->
    match_ ord fuel p f bs0 = Ok bss -> In bs' bss -> sorted_keys bs' = true.
Proof. exact match_sorted. Qed.
Print Assumptions C01_results_sorted.

(** the statement as first planned (without the two added hypotheses) is
    false of the faithful model; the witnesses are in Proofs/SndMatchSound.v *)
Theorem C01_planned_statement_refuted : ~ match_sound_planned_statement.
Proof. exact match_sound_planned_refuted_anon. Qed.
Print Assumptions C01_planned_statement_refuted.

(** non-vacuity: the README example meets the hypotheses and binds *)
Example C01_nonvacuous_readme :
  Match (JObj [("likes", JStr "?likes")]) (JObj [("likes", JStr "tacos")]) []
  = Ok [[("?likes", JStr "tacos")]].
Proof. vm_compute. reflexivity. Qed.

Example C01_nonvacuous_hyps :
  let p := JObj [("a", JArr [JStr "?x"; JNum 4]); ("n", JStr "?<n")] in
  let f := JObj [("a", JArr [JNum 4; JStr "t"]); ("n", JNum 8); ("z", JNull)] in
  let bs0 := [("?<n", JNum 12)] in
  var_free f = true /\ var_free_bs bs0 = true /\ wf_json f = true /\
  nodup_keys (map fst bs0) = true /\ no_anon_counterpart p = true /\
  Match p f bs0 = Ok [[("?<n", JNum 12); ("?n", JNum 8); ("?x", JStr "t")]].
Proof. vm_compute. repeat split; reflexivity. Qed.
