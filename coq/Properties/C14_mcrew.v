(** C14, the cmd/mcrew (and cmd/mdb) half - routing: each addressed machine
    sees a message exactly once, others never; emitted messages are fed back
    and reported once.  Only statements, [exact], Print Assumptions and
    Examples.

    [feed spec_ok wk services choose (submit root s)] is the model of
    submitting [root] to the service in state [s]: Service.Process routes
    the message ([route]: the reserved names - "ws"/"http"/"timers", read from
    the source, [C14_mcrew_reserved_names] - go to the container's services, a string names one machine, anything else means
    every machine), walks the recipients under the crew lock, reports every
    emitted message and re-submits it with [go s.Process]; the pending
    Process calls are taken in the order the schedule [choose] dictates (any
    list of numbers).  The ghost log [fd_log] records for every processed
    message the machines it was presented to.  For cmd/mdb [services] is
    empty and the operator pops the queue.  [spec_ok] / [wk] (does GetSpec
    succeed; what does a walk return and emit) are universally quantified.

    [mcrew_rule] is the routing rule these two containers implement,
    [addressed] the documented one (Spec/MCrewSpec.v).  They agree except on
    lists of ids and "*" (D12, a known finding): the full statement with
    [addressed] is refuted by [C14_mcrew_list_target_refuted], the proved
    part is [C14_mcrew_exactly_once] + [C14_mcrew_rule_is_addressed].

    With the store DOWN ([up s = false]) the real service still routes,
    reports and feeds back every emitted message; only no machine state
    advances: [C14_mcrew_down_*], [C14_mcrew_*store_independent*],
    [C14_mcrew_down_frozen*].  [stays wk services m msg]
    (Proofs/MCrewRouteDown.v, restated by [C14_mcrew_stays_means]): the
    write-back of the end states that the recipients of [msg] reach is the
    identity on the crew [m]. *)
From Sheens Require Import Spec.MCrewSpec Proofs.MCrewFacts Proofs.MCrewRouting Proofs.MCrewRouteDown
     Corr.MCrewCorr.
From Coq Require Import Permutation.

(** exactly once to each machine the container's rule selects and to no
    other machine, for the submitted message and every message fed back,
    under every schedule of the re-submitted Process calls *)
Theorem C14_mcrew_exactly_once :
  forall spec_ok wk services choose root s,
    msorted (mem s) ->
    (forall k r, mget k (mem s) = Some r -> spec_ok (r_spec r) = true) ->
    forall msg mids,
      In (msg, mids) (fd_log (feed spec_ok wk services choose (submit root s))) ->
      forall mid,
        count_occ string_dec mids mid
        = if existsb (String.eqb mid) (mcrew_rule services (map fst (mem s)) msg) then 1 else 0.
Proof. exact mcrew_exactly_once. Qed.
Print Assumptions C14_mcrew_exactly_once.

(** the container's rule is the documented one for every message whose
    target is absent, a string other than "*", or not a list *)
Theorem C14_mcrew_rule_is_addressed :
  forall services ids msg,
    d12_target msg = false -> mcrew_rule services ids msg = addressed services ids msg.
Proof. exact rule_is_addressed. Qed.
Print Assumptions C14_mcrew_rule_is_addressed.

(** every emitted message is reported to the host exactly once and processed
    exactly once (or still waiting for its Process call); nothing else is
    processed: the processed messages and the waiting ones are, as a bag,
    the submitted message plus the reported ones *)
Theorem C14_mcrew_feedback :
  forall spec_ok wk services choose root s,
    msorted (mem s) ->
    (forall k r, mget k (mem s) = Some r -> spec_ok (r_spec r) = true) ->
    let f := feed spec_ok wk services choose (submit root s) in
    Permutation (map fst (fd_log f) ++ fd_pending f) (root :: fd_reported f).
Proof. exact mcrew_feedback. Qed.
Print Assumptions C14_mcrew_feedback.

(** D12: the statement with the documented rule is false of the faithful
    model: a list naming m0 is presented to m0, m1 and m2 *)
Definition C14_mcrew_full : Prop :=
  forall choose root s msg mids,
    msorted (mem s) ->
    In (msg, mids) (fd_log (feed_m choose (submit root s))) ->
    mids = addressed mcrew_services (map fst (mem s)) msg.

Theorem C14_mcrew_list_target_refuted :
  addressed mcrew_services ["m0"; "m1"; "m2"] d12_msg = ["m0"]
  /\ fd_log (feed_m [0] (submit d12_msg (mk_svc d12_crew d12_crew true)))
     = [(d12_msg, ["m0"; "m1"; "m2"])].
Proof. exact list_target_goes_to_all. Qed.
Print Assumptions C14_mcrew_list_target_refuted.

Theorem C14_mcrew_star_refuted :
  addressed mcrew_services ["m0"; "m1"; "m2"] (leaf "a" "*") = ["m0"; "m1"; "m2"]
  /\ fd_log (feed_m [0] (submit (leaf "a" "*") (mk_svc d12_crew d12_crew true)))
     = [(leaf "a" "*", [])].
Proof. exact star_is_not_a_wildcard. Qed.
Print Assumptions C14_mcrew_star_refuted.

(** the reserved destinations and the key the model routes by are read from
    the source of the tree under test (Gen/Names.v, written by
    harness/cmd/genconsts on every run: the case labels of the switch in
    cmd/mcrew's Service.Route and cmd/mdb's Host.Route, the literal of the map
    index); they are the documented ones (cmd/mcrew/README.md: ws, http,
    timers; none for mdb; the key "to"), so the theorems above and the oracle
    of the correspondence run speak about the names the documentation gives *)
Theorem C14_mcrew_reserved_names :
  (forall s, In s mcrew_services <-> In s ["ws"; "http"; "timers"])
  /\ mdb_services = []
  /\ mcrew_route_key = "to"
  /\ mdb_route_key = mcrew_route_key.
Proof. exact reserved_names_documented. Qed.
Print Assumptions C14_mcrew_reserved_names.

Theorem C14_mcrew_routes_by_documented_names :
  forall ids msg,
    route mcrew_services msg = route ["ws"; "http"; "timers"] msg
    /\ mcrew_rule mcrew_services ids msg = mcrew_rule ["ws"; "http"; "timers"] ids msg
    /\ addressed mcrew_services ids msg = addressed ["ws"; "http"; "timers"] ids msg.
Proof. exact route_by_documented_names. Qed.
Print Assumptions C14_mcrew_routes_by_documented_names.

Theorem C14_mcrew_full_refuted : ~ C14_mcrew_full.
Proof. exact full_statement_refuted. Qed.
Print Assumptions C14_mcrew_full_refuted.

(** ---- the store down ------------------------------------------------------------------
    a Process call with the store down changes nothing and still returns
    every walk: the recipients' walks from the states in memory *)
Theorem C14_mcrew_down_process :
  forall spec_ok wk services msg s,
    up s = false ->
    let mids := recipients (route services msg) (mem s) in
    let ws := walks wk (mem s) mids msg in
    do_process spec_ok wk services msg s
    = if specs_ok spec_ok (mem s) mids
      then (s, PProcessed (negb (is_nil (changes ws))) ws)
      else (s, PSpecErr).
Proof. exact process_down. Qed.
Print Assumptions C14_mcrew_down_process.

(** ... which are: one entry per recipient (every recipient is a machine of
    the crew), in the order of the recipients, with what that machine's walk
    returned and emitted; they are the walks the same call returns with the
    store up, whatever the store holds *)
Theorem C14_mcrew_down_reports_every_walk :
  forall spec_ok wk services msg s,
    up s = false ->
    specs_ok spec_ok (mem s) (recipients (route services msg) (mem s)) = true ->
    let mids := recipients (route services msg) (mem s) in
    let ws := walks wk (mem s) mids msg in
    exists r,
      do_process spec_ok wk services msg s = (s, r)
      /\ walked_of r = mids
      /\ emitted_of r = flat_map (fun mw : string * wobs => wo_emitted (snd mw)) ws
      /\ ws = flat_map (fun mid =>
                          match mget mid (mem s) with
                          | Some rc => [(mid, mk_wobs (r_node rc, r_bs rc)
                                                      (fst (wk (r_spec rc) mid rc msg))
                                                      (snd (wk (r_spec rc) mid rc msg)))]
                          | None => []
                          end) mids
      /\ (forall st, exists err,
             snd (do_process spec_ok wk services msg (mk_svc (mem s) st true)) = PProcessed err ws).
Proof. exact process_down_reports. Qed.
Print Assumptions C14_mcrew_down_reports_every_walk.

(** what one round of the feedback loop logs, reports and re-submits is a
    function of the in-memory crew: not of the store's contents, not of
    whether it is up *)
Theorem C14_mcrew_round_reports_from_memory :
  forall spec_ok wk services i f g,
    mem (fd_svc f) = mem (fd_svc g) ->
    fd_pending f = fd_pending g -> fd_log f = fd_log g -> fd_reported f = fd_reported g ->
    fd_pending (feed_one spec_ok wk services i f) = fd_pending (feed_one spec_ok wk services i g)
    /\ fd_log (feed_one spec_ok wk services i f) = fd_log (feed_one spec_ok wk services i g)
    /\ fd_reported (feed_one spec_ok wk services i f) = fd_reported (feed_one spec_ok wk services i g).
Proof. exact feed_one_reports_indep. Qed.
Print Assumptions C14_mcrew_round_reports_from_memory.

Theorem C14_mcrew_stays_means :
  forall wk services m msg,
    stays wk services m msg
    <-> set_states (changes (walks wk m (recipients (route services msg) m) msg)) m = m.
Proof. exact stays_means. Qed.
Print Assumptions C14_mcrew_stays_means.

(** it holds when every recipient's walk ends nowhere or in the state it started from *)
Theorem C14_mcrew_stays_same_state :
  forall wk services m msg,
    msorted m ->
    (forall mid w, In (mid, w) (walks wk m (recipients (route services msg) m) msg) ->
                   wo_to w = None \/ wo_to w = Some (wo_from w)) ->
    stays wk services m msg.
Proof. exact stays_same_state. Qed.
Print Assumptions C14_mcrew_stays_same_state.

(** a round does not depend on the store - memory afterwards included - when
    the message it takes leaves every recipient where it is ([st], [u]: the
    service with any store, up or not; [st']: the same crew with the store down) *)
Theorem C14_mcrew_round_store_independent :
  forall spec_ok wk services i m st st' u pend log rep,
    (forall msg, In msg pend -> stays wk services m msg) ->
    let fu := feed_one spec_ok wk services i (mk_fed (mk_svc m st u) pend log rep) in
    let fd := feed_one spec_ok wk services i (mk_fed (mk_svc m st' false) pend log rep) in
    fd_pending fu = fd_pending fd /\ fd_log fu = fd_log fd /\ fd_reported fu = fd_reported fd
    /\ mem (fd_svc fu) = mem (fd_svc fd) /\ mem (fd_svc fd) = m.
Proof. exact feed_one_store_independent. Qed.
Print Assumptions C14_mcrew_round_store_independent.

(** the same with the weakest hypothesis: only the message taken matters *)
Theorem C14_mcrew_round_store_independent_pick :
  forall spec_ok wk services i m st st' u pend log rep,
    (forall msg rest,
        take_nth (Nat.modulo i (Nat.max 1 (List.length pend))) pend = Some (msg, rest) ->
        stays wk services m msg) ->
    let fu := feed_one spec_ok wk services i (mk_fed (mk_svc m st u) pend log rep) in
    let fd := feed_one spec_ok wk services i (mk_fed (mk_svc m st' false) pend log rep) in
    fd_pending fu = fd_pending fd /\ fd_log fu = fd_log fd /\ fd_reported fu = fd_reported fd
    /\ mem (fd_svc fu) = mem (fd_svc fd) /\ mem (fd_svc fd) = m.
Proof. exact feed_one_store_independent_pick. Qed.
Print Assumptions C14_mcrew_round_store_independent_pick.

(** all rounds, under every schedule: [P] holds of the pending messages, is
    closed under what the crew [m] emits, and [m] stays put on it *)
Theorem C14_mcrew_feed_store_independent :
  forall spec_ok wk services (P : json -> Prop) m,
    (forall msg, P msg -> stays wk services m msg) ->
    (forall msg, P msg ->
                 forall e, In e (flat_map (fun mw : string * wobs => wo_emitted (snd mw))
                                          (walks wk m (recipients (route services msg) m) msg)) -> P e) ->
    forall choose st st' u pend log rep,
      Forall P pend ->
      let fu := feed spec_ok wk services choose (mk_fed (mk_svc m st u) pend log rep) in
      let fd := feed spec_ok wk services choose (mk_fed (mk_svc m st' false) pend log rep) in
      fd_pending fu = fd_pending fd /\ fd_log fu = fd_log fd /\ fd_reported fu = fd_reported fd
      /\ mem (fd_svc fu) = mem (fd_svc fd) /\ mem (fd_svc fd) = m.
Proof. exact feed_store_independent. Qed.
Print Assumptions C14_mcrew_feed_store_independent.

(** the first round never depends on the store: the root message is walked
    from the crew in memory (only the memory and the store afterwards differ) *)
Theorem C14_mcrew_first_round_store_independent :
  forall spec_ok wk services i msg m st st' u u',
    let f := feed_one spec_ok wk services i (submit msg (mk_svc m st u)) in
    let g := feed_one spec_ok wk services i (submit msg (mk_svc m st' u')) in
    fd_log f = fd_log g /\ fd_reported f = fd_reported g /\ fd_pending f = fd_pending g.
Proof. exact first_round_store_independent. Qed.
Print Assumptions C14_mcrew_first_round_store_independent.

(** later rounds do: without [stays] the statements above are false of the
    model (a machine that did not advance reacts differently to the next message) *)
Theorem C14_mcrew_second_round_store_dependent :
  let f u := feed_m [0; 0] (submit dep_root (mk_svc dep_crew dep_crew u)) in
  map msg_id (fd_reported (f true)) = [JStr "x"; JStr "y"]
  /\ map msg_id (fd_reported (f false)) = [JStr "x"]
  /\ map (fun e : json * list string => (msg_id (fst e), snd e)) (fd_log (f true))
     = [(JStr "a", ["m0"]); (JStr "x", ["m0"])]
  /\ map (fun e : json * list string => (msg_id (fst e), snd e)) (fd_log (f false))
     = [(JStr "a", ["m0"]); (JStr "x", ["m0"])].
Proof. exact second_round_store_dependent. Qed.
Print Assumptions C14_mcrew_second_round_store_dependent.

Theorem C14_mcrew_feed_store_independent_unconditional_refuted :
  ~ (forall choose root m st,
        fd_reported (feed_m choose (submit root (mk_svc m st true)))
        = fd_reported (feed_m choose (submit root (mk_svc m st false)))).
Proof. exact feed_store_independent_unconditional_refuted. Qed.
Print Assumptions C14_mcrew_feed_store_independent_unconditional_refuted.

Theorem C14_mcrew_round_mem_unconditional_refuted :
  ~ (forall i m st pend log rep,
        mem (fd_svc (feed_one spec_ok_m wk_m mcrew_services i (mk_fed (mk_svc m st true) pend log rep)))
        = mem (fd_svc (feed_one spec_ok_m wk_m mcrew_services i (mk_fed (mk_svc m st false) pend log rep)))).
Proof. exact feed_one_mem_unconditional_refuted. Qed.
Print Assumptions C14_mcrew_round_mem_unconditional_refuted.

(** a round with the store down, spelled out: the message is walked by its
    recipients in the states they are in, everything they emit is reported
    and re-submitted, the service is left as it was *)
Theorem C14_mcrew_down_round :
  forall spec_ok wk services i f msg rest,
    up (fd_svc f) = false ->
    take_nth (Nat.modulo i (Nat.max 1 (List.length (fd_pending f)))) (fd_pending f) = Some (msg, rest) ->
    specs_ok spec_ok (mem (fd_svc f)) (recipients (route services msg) (mem (fd_svc f))) = true ->
    let mids := recipients (route services msg) (mem (fd_svc f)) in
    let em := flat_map (fun mw : string * wobs => wo_emitted (snd mw))
                       (walks wk (mem (fd_svc f)) mids msg) in
    feed_one spec_ok wk services i f
    = mk_fed (fd_svc f) (rest ++ em) (fd_log f ++ [(msg, mids)]) (fd_reported f ++ em).
Proof. exact feed_one_down. Qed.
Print Assumptions C14_mcrew_down_round.

(** the store down throughout: the whole feedback run is that of a crew
    frozen at its initial states - memory and store never change - under
    every schedule ... *)
Theorem C14_mcrew_down_frozen :
  forall spec_ok wk services choose f,
    up (fd_svc f) = false -> fd_svc (feed spec_ok wk services choose f) = fd_svc f.
Proof. exact feed_down_frozen. Qed.
Print Assumptions C14_mcrew_down_frozen.

(** ... and for the first-in first-out iteration ([feed_iter]: take the
    oldest pending call, at most [fuel] times), whatever the machines do ... *)
Theorem C14_mcrew_down_frozen_fifo :
  forall spec_ok wk services fuel msg m st,
    let f := feed_iter spec_ok wk services fuel (submit msg (mk_svc m st false)) in
    mem (fd_svc f) = m /\ sto (fd_svc f) = st /\ up (fd_svc f) = false.
Proof. exact feed_iter_down_mem_sto. Qed.
Print Assumptions C14_mcrew_down_frozen_fifo.

(** ... which on the concrete machines is the iteration the correspondence
    run (Corr/MCrewCorr.v, [route_agrees]) compares the Go observations with *)
Theorem C14_mcrew_feed_fifo_is_iter :
  forall services fuel f,
    feed_fifo services fuel f = feed_iter spec_ok_m wk_m services fuel f.
Proof. exact feed_fifo_is_iter. Qed.
Print Assumptions C14_mcrew_feed_fifo_is_iter.

Theorem C14_mcrew_down_frozen_feed_fifo :
  forall services fuel msg m st,
    let f := feed_fifo services fuel (submit msg (mk_svc m st false)) in
    mem (fd_svc f) = m /\ sto (fd_svc f) = st /\ up (fd_svc f) = false.
Proof. exact feed_fifo_down_mem_sto. Qed.
Print Assumptions C14_mcrew_down_frozen_feed_fifo.

(** ---- non-vacuity: a message tree on the concrete recorder machines ---------------
    m0 receives "a" and forwards "b" (to m1) and "c" (to everybody); the
    schedule takes the second pending call first. *)
Definition ex_root : json :=
  JObj [("fwd", JArr [leaf "b" "m1"; JObj [("fwd", JArr []); ("id", JStr "c")]]);
        ("id", JStr "a"); ("to", JStr "m0")].

Example C14_mcrew_example :
  let f := feed_m [0; 1; 0] (submit ex_root (mk_svc d12_crew d12_crew true)) in
  msorted d12_crew
  /\ map (fun e : json * list string => (msg_id (fst e), snd e)) (fd_log f)
     = [(JStr "a", ["m0"]); (JStr "c", ["m0"; "m1"; "m2"]); (JStr "b", ["m1"])]
  /\ map msg_id (fd_reported f) = [JStr "b"; JStr "c"]
  /\ fd_pending f = []
  /\ d12_target ex_root = false.
Proof. vm_compute. repeat split; reflexivity. Qed.

(** ---- non-vacuity, store down: a recorder and a flip-flop; the root goes to
    m0 and forwards "b" (to m1) and "c" (to everybody) *)
Definition ex_crew2 : mmap := [("m0", mk_mrec "rec" "start" []); ("m1", mk_mrec "flip" "start" [])].

(** first round: the same log, reports and pending calls, store up or down;
    memory advanced only with the store up *)
Example C14_mcrew_down_first_round_example :
  let f u := feed_one spec_ok_m wk_m mcrew_services 0 (submit ex_root (mk_svc ex_crew2 ex_crew2 u)) in
  msorted ex_crew2
  /\ fd_log (f true) = fd_log (f false)
  /\ fd_reported (f true) = fd_reported (f false)
  /\ fd_pending (f true) = fd_pending (f false)
  /\ fd_log (f false) = [(ex_root, ["m0"])]
  /\ map msg_id (fd_reported (f false)) = [JStr "b"; JStr "c"]
  /\ mem (fd_svc (f false)) = ex_crew2
  /\ map (fun e : string * mrec => (fst e, log_of (snd e))) (mem (fd_svc (f true)))
     = [("m0", [JStr "a"]); ("m1", [])].
Proof. vm_compute. repeat split; reflexivity. Qed.

(** five rounds with the store down: three messages processed, two reported,
    nothing pending, memory and store as at the start; with the store up the
    same messages, and the machines have their logs *)
Example C14_mcrew_down_frozen_example :
  let f u := feed_fifo mcrew_services 5 (submit ex_root (mk_svc ex_crew2 ex_crew2 u)) in
  mem (fd_svc (f false)) = ex_crew2
  /\ sto (fd_svc (f false)) = ex_crew2
  /\ map (fun e : json * list string => (msg_id (fst e), snd e)) (fd_log (f false))
     = [(JStr "a", ["m0"]); (JStr "b", ["m1"]); (JStr "c", ["m0"; "m1"])]
  /\ map msg_id (fd_reported (f false)) = [JStr "b"; JStr "c"]
  /\ fd_pending (f false) = []
  /\ fd_log (f true) = fd_log (f false)
  /\ map (fun e : string * mrec => (fst e, log_of (snd e))) (mem (fd_svc (f true)))
     = [("m0", [JStr "a"; JStr "c"]); ("m1", [JStr "b"; JStr "c"])]
  /\ f false = feed_iter spec_ok_m wk_m mcrew_services 5 (submit ex_root (mk_svc ex_crew2 ex_crew2 false)).
Proof. vm_compute. repeat split; reflexivity. Qed.

(** the hypotheses of the store-independence theorems can be met: two "deaf"
    machines are presented the root message and stay where they are *)
Definition ex_deaf2 : mmap := [("m0", mk_mrec "deaf" "start" []); ("m1", mk_mrec "deaf" "start" [])].
Definition ex_all : json := JObj [("fwd", JArr []); ("id", JStr "a")].

Example C14_mcrew_stays_example :
  msorted ex_deaf2
  /\ stays wk_m mcrew_services ex_deaf2 ex_all
  /\ map (fun mw : string * wobs => (fst mw, wo_to (snd mw)))
         (walks wk_m ex_deaf2 (recipients (route mcrew_services ex_all) ex_deaf2) ex_all)
     = [("m0", None); ("m1", None)]
  /\ fd_log (feed_m [0] (submit ex_all (mk_svc ex_deaf2 ex_deaf2 false))) = [(ex_all, ["m0"; "m1"])]
  /\ fd_log (feed_m [0] (submit ex_all (mk_svc ex_deaf2 ex_deaf2 true))) = [(ex_all, ["m0"; "m1"])].
Proof. vm_compute. repeat split; reflexivity. Qed.
