(** C14, the cmd/mcrew (and cmd/mdb) half - routing: each addressed machine
    sees a message exactly once, others never; emitted messages are fed back
    and reported once.  Only statements, [exact], Print Assumptions and
    Examples.

    [feed spec_ok wk services choose (submit root s)] is the model of
    submitting [root] to the service in state [s]: Service.Process routes
    the message ([route]: the reserved names - "ws"/"http"/"timers", read from
    the source, [C14_mcrew_reserved_names] - go to the container's services, a string names one machine, anything else means
    every machine), walks the recipients under the crew lock, reports every
    emitted message and re-submits it with [go s.Process]; the pending
    Process calls are taken in the order the schedule [choose] dictates (any
    list of numbers).  The ghost log [fd_log] records for every processed
    message the machines it was presented to.  For cmd/mdb [services] is
    empty and the operator pops the queue.  [spec_ok] / [wk] (does GetSpec
    succeed; what does a walk return and emit) are universally quantified.

    [mcrew_rule] is the routing rule these two containers implement,
    [addressed] the documented one (Spec/MCrewSpec.v).  They agree except on
    lists of ids and "*" (D12, a known finding): the full statement with
    [addressed] is refuted by [C14_mcrew_list_target_refuted], the proved
    part is [C14_mcrew_exactly_once] + [C14_mcrew_rule_is_addressed]. *)
From Sheens Require Import Spec.MCrewSpec Proofs.MCrewFacts Proofs.MCrewRouting.
From Coq Require Import Permutation.

(** exactly once to each machine the container's rule selects and to no
    other machine, for the submitted message and every message fed back,
    under every schedule of the re-submitted Process calls *)
Theorem C14_mcrew_exactly_once :
  forall spec_ok wk services choose root s,
    msorted (mem s) ->
    (forall k r, mget k (mem s) = Some r -> spec_ok (r_spec r) = true) ->
    forall msg mids,
      In (msg, mids) (fd_log (feed spec_ok wk services choose (submit root s))) ->
      forall mid,
        count_occ string_dec mids mid
        = if existsb (String.eqb mid) (mcrew_rule services (map fst (mem s)) msg) then 1 else 0.
Proof. exact mcrew_exactly_once. Qed.
Print Assumptions C14_mcrew_exactly_once.

(** the container's rule is the documented one for every message whose
    target is absent, a string other than "*", or not a list *)
Theorem C14_mcrew_rule_is_addressed :
  forall services ids msg,
    d12_target msg = false -> mcrew_rule services ids msg = addressed services ids msg.
Proof. exact rule_is_addressed. Qed.
Print Assumptions C14_mcrew_rule_is_addressed.

(** every emitted message is reported to the host exactly once and processed
    exactly once (or still waiting for its Process call); nothing else is
    processed: the processed messages and the waiting ones are, as a bag,
    the submitted message plus the reported ones *)
Theorem C14_mcrew_feedback :
  forall spec_ok wk services choose root s,
    msorted (mem s) ->
    (forall k r, mget k (mem s) = Some r -> spec_ok (r_spec r) = true) ->
    let f := feed spec_ok wk services choose (submit root s) in
    Permutation (map fst (fd_log f) ++ fd_pending f) (root :: fd_reported f).
Proof. exact mcrew_feedback. Qed.
Print Assumptions C14_mcrew_feedback.

(** D12: the statement with the documented rule is false of the faithful
    model: a list naming m0 is presented to m0, m1 and m2 *)
Definition C14_mcrew_full : Prop :=
  forall choose root s msg mids,
    msorted (mem s) ->
    In (msg, mids) (fd_log (feed_m choose (submit root s))) ->
    mids = addressed mcrew_services (map fst (mem s)) msg.

Theorem C14_mcrew_list_target_refuted :
  addressed mcrew_services ["m0"; "m1"; "m2"] d12_msg = ["m0"]
  /\ fd_log (feed_m [0] (submit d12_msg (mk_svc d12_crew d12_crew true)))
     = [(d12_msg, ["m0"; "m1"; "m2"])].
Proof. exact list_target_goes_to_all. Qed.
Print Assumptions C14_mcrew_list_target_refuted.

Theorem C14_mcrew_star_refuted :
  addressed mcrew_services ["m0"; "m1"; "m2"] (leaf "a" "*") = ["m0"; "m1"; "m2"]
  /\ fd_log (feed_m [0] (submit (leaf "a" "*") (mk_svc d12_crew d12_crew true)))
     = [(leaf "a" "*", [])].
Proof. exact star_is_not_a_wildcard. Qed.
Print Assumptions C14_mcrew_star_refuted.

(** the reserved destinations and the key the model routes by are read from
    the source of the tree under test (Gen/Names.v, written by
    harness/cmd/genconsts on every run: the case labels of the switch in
    cmd/mcrew's Service.Route and cmd/mdb's Host.Route, the literal of the map
    index); they are the documented ones (cmd/mcrew/README.md: ws, http,
    timers; none for mdb; the key "to"), so the theorems above and the oracle
    of the correspondence run speak about the names the documentation gives *)
Theorem C14_mcrew_reserved_names :
  (forall s, In s mcrew_services <-> In s ["ws"; "http"; "timers"])
  /\ mdb_services = []
  /\ mcrew_route_key = "to"
  /\ mdb_route_key = mcrew_route_key.
Proof. exact reserved_names_documented. Qed.
Print Assumptions C14_mcrew_reserved_names.

Theorem C14_mcrew_routes_by_documented_names :
  forall ids msg,
    route mcrew_services msg = route ["ws"; "http"; "timers"] msg
    /\ mcrew_rule mcrew_services ids msg = mcrew_rule ["ws"; "http"; "timers"] ids msg
    /\ addressed mcrew_services ids msg = addressed ["ws"; "http"; "timers"] ids msg.
Proof. exact route_by_documented_names. Qed.
Print Assumptions C14_mcrew_routes_by_documented_names.

Theorem C14_mcrew_full_refuted : ~ C14_mcrew_full.
Proof. exact full_statement_refuted. Qed.
Print Assumptions C14_mcrew_full_refuted.

(** ---- non-vacuity: a message tree on the concrete recorder machines ---------------
    m0 receives "a" and forwards "b" (to m1) and "c" (to everybody); the
    schedule takes the second pending call first. *)
Definition ex_root : json :=
  JObj [("fwd", JArr [leaf "b" "m1"; JObj [("fwd", JArr []); ("id", JStr "c")]]);
        ("id", JStr "a"); ("to", JStr "m0")].

Example C14_mcrew_example :
  let f := feed_m [0; 1; 0] (submit ex_root (mk_svc d12_crew d12_crew true)) in
  msorted d12_crew
  /\ map (fun e : json * list string => (msg_id (fst e), snd e)) (fd_log f)
     = [(JStr "a", ["m0"]); (JStr "c", ["m0"; "m1"; "m2"]); (JStr "b", ["m1"])]
  /\ map msg_id (fd_reported f) = [JStr "b"; JStr "c"]
  /\ fd_pending f = []
  /\ d12_target ex_root = false.
Proof. vm_compute. repeat split; reflexivity. Qed.
