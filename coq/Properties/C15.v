(** C15 - Reported changes suffice to persist a crew and restart it anywhere.
    Only statements, [exact], Print Assumptions, Examples.

    The theorems are about [run_history] of Model/SioCrew.v: a history of
    messages (crew operations arrive as messages to the captain) and direct
    SetMachine / DeleteMachine calls, run on the pair (crew, store), the
    store being the state of the reference consumer [stdio_fold] that folds
    the reports of every [process_msg] (Result.Changed) in order.  They hold
    for EVERY type of specification sources, reaction function, decoder,
    predicate [resolves] on sources (which sources ResolveSpecSource finds a
    specification for: a source with neither "inline" nor "url" resolves to
    nothing, without error, and leaves the machine without specification -
    [C15_unresolvable_source_inert]), sound equality test on sources and
    order oracle that permutes its argument; for the restart theorems walks end at named nodes (as every
    walk of core.Spec does).  [live_view] / [store_view] (Spec/SioSpec.v):
    specification source, node, bindings of a machine, [None] when absent;
    the source in [store_view] is what the stored source resolves to (with
    [resolves] constantly true: the stored source itself).

    Outside the model ([Unmodelled]): operations on the two service
    machines.  A message to the captain that is no crew operation is INSIDE
    the property's histories: since the repair of D56 the captain's action
    drops the message's binding on every path (NewCaptainSpec,
    sio/captainspec.go), so the captain holds nothing between two messages
    and never becomes inert.  In the model the field [wedged] (the inert
    captain of the code before that repair) is set by no step:
    [C15_captain_never_inert], and [C15_restart_unobservable] has no
    hypothesis on the captain.  (The captain's state is not part of what a
    crew reports, so a store cannot restore it; that is why, for crew VALUES
    that no history reaches, [C15_restart_unobservable_any_crew] still asks
    for [wedged = false], and [C15_any_crew_needs_captain] shows that it
    must.) *)
From Coq Require Import List String Permutation.
From Sheens Require Import Model.SioRecorder Spec.SioSpec Proofs.SioRouting Proofs.SioPersist Proofs.SioRestart
     Proofs.SioCommute Proofs.SioRecorderFacts Proofs.SioHistory Proofs.SioUnwedged Proofs.SioUnresolved
     Proofs.SioReportLive.
From Sheens Require Proofs.SioIdsTie.
Import ListNotations.
Open Scope string_scope.

Section C15.
Variable S : Type.
Variable react : S -> mid -> mstate -> json -> option mstate * list json.
Variable decode_src : json -> option S.
Variable resolves : S -> bool.
Variable src_eqb : S -> S -> bool.
Variable ord : forall A : Type, list (mid * A) -> list (mid * A).
Hypothesis ord_perm : forall A l, Permutation (ord A l) l.
Hypothesis src_eqb_sound : forall a b, src_eqb a b = true -> a = b.
Hypothesis react_named : forall s m st msg st', fst (react s m st msg) = Some st' -> ms_node st' <> "".
Local Notation run_history := (run_history S react decode_src resolves src_eqb ord).
Local Notation boot := (boot S resolves ord).

(** after any history that ends with a message, the store that applied every
    report in order is exactly the live crew: same machines, same
    specification sources, same nodes and bindings, deleted machines absent *)
Theorem C15_store_tracks_crew : forall fuel h c store,
  run_history fuel (init_crew S, []) h = Done (c, store) -> ends_with_msg S h ->
  forall m, store_view S resolves store m = live_view S c m.
Proof. exact (store_tracks_crew S react decode_src resolves src_eqb ord ord_perm src_eqb_sound). Qed.

(** at any point of any history: the store with the changes that are cached
    but not yet reported applied to it is the live crew *)
Theorem C15_store_tracks_crew_pending : forall fuel h c store,
  run_history fuel (init_crew S, []) h = Done (c, store) ->
  forall m, pending_view S resolves c store m = live_view S c m.
Proof. exact (store_tracks_crew_pending S react decode_src resolves src_eqb ord ord_perm src_eqb_sound). Qed.

(** a crew booted from the store at a message boundary has the same machines *)
Theorem C15_boot_equiv : forall fuel h c store,
  run_history fuel (init_crew S, []) h = Done (c, store) -> ends_with_msg S h ->
  machines S (boot store) = machines S c
  /\ forall m, live_view S (boot store) m = live_view S c m.
Proof. exact (boot_equiv S react decode_src resolves src_eqb ord ord_perm src_eqb_sound react_named). Qed.

(** the captain of a crew that a history reaches is never inert: no message,
    operation or not, and no direct call leaves anything in its bindings
    (the repair of D56) *)
Theorem C15_captain_never_inert : forall fuel h c store,
  run_history fuel (init_crew S, []) h = Done (c, store) -> wedged S c = false.
Proof. exact (reachable_unwedged S react decode_src resolves src_eqb ord). Qed.

(** ... the same store keeps tracking it ([inv]: the invariant behind
    [C15_store_tracks_crew]), and on every later history it produces the same
    outputs (Result.Emitted of every message) and ends with the same machines
    as the original, under the same schedule [ord] ([core_eq]: same machines,
    same captain) *)
Theorem C15_restart_unobservable : forall fuel h c store,
  run_history fuel (init_crew S, []) h = Done (c, store) -> ends_with_msg S h ->
  core_eq S (boot store) c
  /\ inv S resolves (boot store) store
  /\ forall fuel' h2,
       orel (outputs_sim S) (run_outputs S react decode_src resolves src_eqb ord fuel' c h2)
            (run_outputs S react decode_src resolves src_eqb ord fuel' (boot store) h2).
Proof. exact (restart_unobservable_reachable S react decode_src resolves src_eqb ord ord_perm src_eqb_sound react_named). Qed.

(** the same for ANY crew value, reachable or not: its machines a key-sorted
    list of machines at named nodes ([good]), nothing cached (a message
    boundary), a store that tracks it ([inv]).  The captain's state is not
    part of what a crew reports, so here the hypothesis on the captain stays *)
Theorem C15_restart_unobservable_any_crew : forall c store,
  good S c -> inv S resolves c store -> cache S c = [] ->
  wedged S c = false ->
  core_eq S (boot store) c
  /\ inv S resolves (boot store) store
  /\ forall fuel' h2,
       orel (outputs_sim S) (run_outputs S react decode_src resolves src_eqb ord fuel' c h2)
            (run_outputs S react decode_src resolves src_eqb ord fuel' (boot store) h2).
Proof. exact (restart_unobservable_any_crew S react decode_src resolves src_eqb ord ord_perm). Qed.

(** a source that resolves to no specification: at any point of any history,
    SetMachine with such a source leaves the machine without source - no
    message is presented to it, the crew stays as it is - while the pending
    change, and after the next report the consumer's store, carry the source
    as given; the crew booted from that store has the same machines, hence
    the same inert machine *)
Theorem C15_unresolvable_source_inert : forall fuel h c store m s st c2 out tm,
  run_history fuel (init_crew S, []) h = Done (c, store) ->
  is_service m = false -> resolves s = false ->
  get_changed S src_eqb ord (set_machine S resolves c m (Some s) st) = (c2, out, tm) ->
  let c1 := set_machine S resolves c m (Some s) st in
  let store2 := stdio_fold S store out in
  (exists mc, aget m (machines S c1) = Some mc /\ m_src S mc = None)
  /\ (forall msg, present S react decode_src resolves c1 msg m = Done (c1, false, None))
  /\ c_src S (cache_get S c1 m) = Some s
  /\ (exists e, aget m store2 = Some e /\ e_src S e = Some s)
  /\ machines S (boot store2) = machines S c1
  /\ (forall msg, present S react decode_src resolves (boot store2) msg m = Done (boot store2, false, None)).
Proof.
  exact (unresolvable_source_inert_reachable S react decode_src resolves src_eqb ord ord_perm src_eqb_sound react_named).
Qed.

(** the part of the commutation clause that is a theorem: whatever order the
    map iteration gives the machines of a round, the same machines see the
    message, the crew afterwards is the same (machine by machine, cached
    change by cached change) and the same batches are reported, up to order *)
Theorem C15_round_order_irrelevant :
  forall (ord1 ord2 : forall A : Type, list (mid * A) -> list (mid * A)),
  (forall A l, Permutation (ord1 A l) l) -> (forall A l, Permutation (ord2 A l) l) ->
  forall c msg c1 rd1,
  wf_crew S c -> mixes_captain msg = false ->
  run_machines S react decode_src resolves ord1 c msg = Done (c1, rd1) ->
  exists c2 rd2,
    run_machines S react decode_src resolves ord2 c msg = Done (c2, rd2)
    /\ crew_pw S c1 c2
    /\ Permutation (rd_recips S rd1) (rd_recips S rd2)
    /\ Permutation (rd_batches S rd1) (rd_batches S rd2).
Proof. exact (round_order_irrelevant S react decode_src resolves). Qed.
(** what a crew reports is what the crew has.  First the invariant of the
    change cache (Crew.changed) behind it, at any point of any history, for
    every machine id with a cached change: a pending change that is no
    deletion names a live machine; a cached state - whatever [c_deleted]
    says - is the CURRENT state of a live machine; a pending deletion of a
    machine that does not exist carries neither state nor source.  (A
    pending deletion of a machine that exists - deleted and created again,
    D14 - may carry a state, and may carry none although the machine is at
    its default state: [C15_cache_live_sharp].)  No hypothesis on the
    oracles *)
Theorem C15_cache_live_reachable : forall fuel h c store,
  run_history fuel (init_crew S, []) h = Done (c, store) ->
  forall m ch, aget m (cache S c) = Some ch ->
    (c_deleted S ch = false -> exists mc, aget m (machines S c) = Some mc)
    /\ (forall st, c_state S ch = Some st ->
        exists mc, aget m (machines S c) = Some mc /\ m_state S mc = st)
    /\ (c_deleted S ch = true -> aget m (machines S c) = None -> c_state S ch = None /\ c_src S ch = None).
Proof. exact (cache_live_reachable S react decode_src resolves src_eqb ord). Qed.

(** [cache_live] (the statement above for one crew) holds for the empty crew
    and every step of the model keeps it, from ANY crew that has it *)
Theorem C15_cache_live_invariant :
  cache_live S (init_crew S)
  /\ forall c, cache_live S c ->
       (forall m src st, cache_live S (set_machine S resolves c m src st))
       /\ (forall m, cache_live S (delete_machine S c m))
       /\ (forall m mc st, cache_live S (record_state S c m mc st))
       /\ (forall op, cache_live S (do_op S resolves c op))
       /\ (forall msg m c1 got b, present S react decode_src resolves c msg m = Done (c1, got, b) -> cache_live S c1)
       /\ (forall msg c1 rd, run_machines S react decode_src resolves ord c msg = Done (c1, rd) -> cache_live S c1)
       /\ (forall fuel q tr c1 trf, process S react decode_src resolves ord fuel c q tr = Done (c1, trf) -> cache_live S c1)
       /\ (forall c1 out tm, get_changed S src_eqb ord c = (c1, out, tm) -> cache_live S c1 /\ cache S c1 = [])
       /\ (forall fuel msg c1 r, process_msg S react decode_src resolves src_eqb ord fuel c msg = Done (c1, r) -> cache_live S c1)
       /\ (forall fuel store h c1 store1 r,
             hstep S react decode_src resolves src_eqb ord fuel (c, store) h = Done (c1, store1, r) -> cache_live S c1)
       /\ (forall fuel store h c1 store1, run_history fuel (c, store) h = Done (c1, store1) -> cache_live S c1).
Proof. exact (cache_live_invariant S react decode_src resolves src_eqb ord). Qed.

(** GetChanged at any point of any history: the machines are left alone,
    and for every report [(m, r)] it returns: if it is no deletion, machine
    [m] exists and a state in the report is that machine's state; if it is a
    deletion with a state (deleted and created again since the last report),
    machine [m] exists and the state is its state; if it is a deletion
    without a state, machine [m] does not exist and the report carries no
    source.  The order oracle enumerates the keys of the map ([ord_perm]) *)
Theorem C15_report_is_live_state : forall fuel h c store c' out tm,
  run_history fuel (init_crew S, []) h = Done (c, store) ->
  get_changed S src_eqb ord c = (c', out, tm) ->
  machines S c' = machines S c
  /\ forall m r, In (m, r) out ->
       (c_deleted S r = false ->
          exists mc, aget m (machines S c') = Some mc /\ forall st, c_state S r = Some st -> m_state S mc = st)
       /\ (c_deleted S r = true -> forall st, c_state S r = Some st ->
          exists mc, aget m (machines S c') = Some mc /\ m_state S mc = st)
       /\ (c_deleted S r = true -> c_state S r = None -> aget m (machines S c') = None /\ c_src S r = None).
Proof. exact (report_is_live_state S react decode_src resolves src_eqb ord ord_perm). Qed.

(** the same for any crew VALUE whose cache has the invariant *)
Theorem C15_report_is_live_state_any_crew : forall c c' out tm,
  cache_live S c -> get_changed S src_eqb ord c = (c', out, tm) ->
  machines S c' = machines S c
  /\ forall m r, In (m, r) out ->
       (c_deleted S r = false ->
          exists mc, aget m (machines S c') = Some mc /\ forall st, c_state S r = Some st -> m_state S mc = st)
       /\ (c_deleted S r = true -> forall st, c_state S r = Some st ->
          exists mc, aget m (machines S c') = Some mc /\ m_state S mc = st)
       /\ (c_deleted S r = true -> c_state S r = None -> aget m (machines S c') = None /\ c_src S r = None).
Proof. exact (report_is_live_state_any_crew S src_eqb ord ord_perm). Qed.

(** ProcessMsg at any point of any history: Result.Changed says the same
    about the machines of the crew that ProcessMsg leaves behind *)
Theorem C15_process_msg_reports_live_state : forall fuel h c store fuel' msg c1 r,
  run_history fuel (init_crew S, []) h = Done (c, store) ->
  process_msg S react decode_src resolves src_eqb ord fuel' c msg = Done (c1, r) ->
  forall m rep, In (m, rep) (res_changed S r) ->
       (c_deleted S rep = false ->
          exists mc, aget m (machines S c1) = Some mc /\ forall st, c_state S rep = Some st -> m_state S mc = st)
       /\ (c_deleted S rep = true -> forall st, c_state S rep = Some st ->
          exists mc, aget m (machines S c1) = Some mc /\ m_state S mc = st)
       /\ (c_deleted S rep = true -> c_state S rep = None -> aget m (machines S c1) = None /\ c_src S rep = None).
Proof. exact (process_msg_reports_live_state S react decode_src resolves src_eqb ord ord_perm). Qed.

(** in particular for every message of a history: the reports that the
    consumer folds into its store at that step describe the crew at that
    step *)
Theorem C15_history_reports_live_state : forall fuel h c store msg c1 store1 r,
  run_history fuel (init_crew S, []) h = Done (c, store) ->
  hstep S react decode_src resolves src_eqb ord fuel (c, store) (OpMsg msg) = Done (c1, store1, Some r) ->
  run_history fuel (init_crew S, []) (h ++ [OpMsg msg]) = Done (c1, store1)
  /\ forall m rep, In (m, rep) (res_changed S r) ->
       (c_deleted S rep = false ->
          exists mc, aget m (machines S c1) = Some mc /\ forall st, c_state S rep = Some st -> m_state S mc = st)
       /\ (c_deleted S rep = true -> forall st, c_state S rep = Some st ->
          exists mc, aget m (machines S c1) = Some mc /\ m_state S mc = st)
       /\ (c_deleted S rep = true -> c_state S rep = None -> aget m (machines S c1) = None /\ c_src S rep = None).
Proof. exact (history_msg_reports_live_state S react decode_src resolves src_eqb ord ord_perm). Qed.
End C15.

Print Assumptions C15_store_tracks_crew.
Print Assumptions C15_store_tracks_crew_pending.
Print Assumptions C15_boot_equiv.
Print Assumptions C15_captain_never_inert.
Print Assumptions C15_restart_unobservable.
Print Assumptions C15_restart_unobservable_any_crew.
Print Assumptions C15_unresolvable_source_inert.
Print Assumptions C15_round_order_irrelevant.
Print Assumptions C15_cache_live_reachable.
Print Assumptions C15_cache_live_invariant.
Print Assumptions C15_report_is_live_state.
Print Assumptions C15_report_is_live_state_any_crew.
Print Assumptions C15_process_msg_reports_live_state.
Print Assumptions C15_history_reports_live_state.

(** Full strength across schedules is false without the property's
    commutation hypothesis: the order in which the batches of one round are
    queued decides the order in which a third machine sees them.  The
    statement is kept, and refuted on the recorder instance (identity order
    against reversed order); what is proved is the same-schedule theorem
    above plus [C15_round_order_irrelevant]; across schedules the property is
    observed on the implementation (second crew under Go's own random map
    order, histories whose outcome does not depend on the order).  Like
    [C15_restart_unobservable] the statement has no hypothesis on the captain
    (with that hypothesis, as it stood before the repair of D56, it is the
    same proposition: [restart_two_schedules_full_iff]). *)
Definition C15_restart_two_schedules_full : Prop := restart_two_schedules_full_reachable.
Theorem C15_restart_two_schedules_refuted : ~ C15_restart_two_schedules_full.
Proof. exact restart_two_schedules_reachable_refuted. Qed.
Print Assumptions C15_restart_two_schedules_refuted.

(** the hypothesis on the captain of [C15_restart_unobservable_any_crew]
    cannot be dropped: the empty crew VALUE with an inert captain (no history
    reaches it) and the empty store meet the other hypotheses, and the crew
    booted from the store executes an operation that this value ignores *)
Theorem C15_any_crew_needs_captain :
  good rcfg wedged_empty_crew /\ inv rcfg rresolves wedged_empty_crew [] /\ cache rcfg wedged_empty_crew = []
  /\ ~ core_eq rcfg (r_boot []) wedged_empty_crew
  /\ exists h2, ~ orel (outputs_sim rcfg) (run_outputs rcfg rreact rdecode rresolves rcfg_eqb ord_id 10 wedged_empty_crew h2)
                       (run_outputs rcfg rreact rdecode rresolves rcfg_eqb ord_id 10 (r_boot []) h2).
Proof. exact any_crew_needs_unwedged. Qed.
Print Assumptions C15_any_crew_needs_captain.

(** crew operations are messages to the captain, and a store holds the two
    service machines under their ids: the ids the model uses are read from
    the source of the tree under test (Gen/Names.v) and are the documented
    ones, which the examples below write in their messages *)
Theorem C15_service_ids_are_documented :
  timers_id = "timers" /\ captain_id = "captain" /\ timers_id <> captain_id.
Proof. exact SioIdsTie.service_ids_documented. Qed.
Print Assumptions C15_service_ids_are_documented.

(** the code before the repairs D13 and D42 (SetMachine did not apply the
    state of an existing machine; creating a machine without specification
    and state was no change) falsifies [C15_store_tracks_crew] *)
Theorem C15_refuted_prefix_D13 :
  exists c store, d13_prefix_run = Done (c, store) /\ store_view rcfg rresolves store "a" <> live_view rcfg c "a".
Proof. exact d13_prefix_refuted. Qed.
Theorem C15_refuted_prefix_D42 :
  exists c store, flush (set_machine_prefix (init_crew rcfg) "z" None None, []) = Done (c, store)
                  /\ store_view rcfg rresolves store "z" <> live_view rcfg c "z".
Proof. exact d42_prefix_refuted. Qed.

(** non-vacuity on the instance the correspondence run uses (its three
    hypotheses are lemmas of Proofs/SioRecorderFacts.v): create a and b,
    move a, replace a's state (the witness of D13), delete and re-create a
    within one ProcessMsg (the witness of D14), then a message to everybody *)
Definition c15_spec (l d : string) : json :=
  JObj [("spec", JObj [("inline", JObj [("doc", JStr d); ("name", JStr l)])])].
Definition c15_history : list (hop rcfg) :=
  [OpMsg (JObj [("to", JStr "captain"); ("update", JObj [("a", c15_spec "L0" "fwd"); ("b", c15_spec "L1" "fwd")])]);
   OpMsg (JObj [("tag", JStr "one"); ("to", JStr "a")]);
   OpMsg (JObj [("to", JStr "captain");
                ("update", JObj [("a", JObj [("state", JObj [("bs", JObj [("k", JNum 4)]); ("node", JStr "flip")])])])]);
   OpMsg (JObj [("tag", JStr "d14");
                ("then", JArr [JObj [("delete", JArr [JStr "a"]); ("to", JStr "captain")];
                               JObj [("to", JStr "captain"); ("update", JObj [("a", c15_spec "L2" "rev")])]]);
                ("to", JStr "b")]);
   OpMsg (JObj [("tag", JStr "all")])].

Example C15_nonvacuous :
  exists c store,
    r_run_history 50 (init_crew rcfg, []) c15_history = Done (c, store)
    /\ ends_with_msg rcfg c15_history /\ wedged rcfg c = false
    /\ live_view rcfg c "a"
       = Some (Some (mk_rcfg "L2" RRev),
               mk_ms "flip" [("by", JStr "L2"); ("log", JArr [JArr [JStr "all"; JNull]])])
    /\ store_view rcfg rresolves store "a" = live_view rcfg c "a"
    /\ machines rcfg (r_boot store) = machines rcfg c
    /\ core_eq rcfg (r_boot store) c.
Proof.
  destruct (r_run_history 50 (init_crew rcfg, []) c15_history) as [[c store]| |] eqn:H;
    try (vm_compute in H; discriminate).
  exists c, store. split; [reflexivity|].
  assert (E : ends_with_msg rcfg c15_history).
  { exists (removelast c15_history), (JObj [("tag", JStr "all")]). reflexivity. }
  split; [exact E|].
  pose proof (C15_captain_never_inert rcfg rreact rdecode rresolves rcfg_eqb ord_id _ _ _ _ H) as W.
  pose proof (C15_store_tracks_crew rcfg rreact rdecode rresolves rcfg_eqb ord_id ord_id_perm rcfg_eqb_sound _ _ _ _ H E "a") as T.
  pose proof (C15_boot_equiv rcfg rreact rdecode rresolves rcfg_eqb ord_id ord_id_perm rcfg_eqb_sound rreact_named _ _ _ _ H E) as [B _].
  pose proof (C15_restart_unobservable rcfg rreact rdecode rresolves rcfg_eqb ord_id ord_id_perm rcfg_eqb_sound rreact_named
                _ _ _ _ H E) as [R _].
  split; [exact W|].
  vm_compute in H. injection H as <- <-.
  split; [reflexivity|]. split; [exact T|]. split; [exact B|exact R].
Qed.

(** a history the theorems did not cover before the repair of D56: a message
    to the captain that is no crew operation (and one that is no object)
    comes first.  The captain stays in service: the operation that follows
    creates its machine, the store tracks the crew, and the crew booted from
    the store runs a later history to the same outputs and the same machines *)
Definition c15_history_not_an_op : list (hop rcfg) :=
  [OpMsg (JObj [("tag", JStr "noise"); ("to", JStr "captain")]);
   OpMsg (JObj [("to", JStr "captain"); ("update", JObj [("a", c15_spec "L0" "fwd")])]);
   OpMsg (JObj [("tag", JStr "one"); ("then", JArr [JObj [("tag", JStr "two"); ("to", JStr "captain")]]);
                ("to", JStr "a")])].
Definition c15_later : list (hop rcfg) :=
  [OpMsg (JObj [("to", JStr "captain"); ("update", JObj [("b", c15_spec "L1" "fwd")])]);
   OpMsg (JObj [("tag", JStr "all"); ("then", JArr [JStr "echo"])])].

Example C15_nonvacuous_not_an_op :
  exists c store,
    r_run_history 50 (init_crew rcfg, []) c15_history_not_an_op = Done (c, store)
    /\ wedged rcfg c = false
    /\ live_view rcfg c "a"
       = Some (Some (mk_rcfg "L0" RFwd),
               mk_ms "flip" [("by", JStr "L0"); ("log", JArr [JArr [JStr "one"; JNull]])])
    /\ store_view rcfg rresolves store "a" = live_view rcfg c "a"
    /\ core_eq rcfg (r_boot store) c
    /\ exists c2 outs,
         run_outputs rcfg rreact rdecode rresolves rcfg_eqb ord_id 50 (r_boot store) c15_later = Done (c2, outs)
         /\ run_outputs rcfg rreact rdecode rresolves rcfg_eqb ord_id 50 c c15_later = Done (c2, outs)
         /\ is_some (live_view rcfg c2 "b") = true
         /\ outs = [[]; [[JStr "echo"]; [JStr "echo"]]].
Proof.
  destruct (r_run_history 50 (init_crew rcfg, []) c15_history_not_an_op) as [[c store]| |] eqn:H;
    try (vm_compute in H; discriminate).
  exists c, store. split; [reflexivity|].
  assert (E : ends_with_msg rcfg c15_history_not_an_op).
  { eexists (removelast c15_history_not_an_op), _. reflexivity. }
  pose proof (C15_captain_never_inert rcfg rreact rdecode rresolves rcfg_eqb ord_id _ _ _ _ H) as W.
  pose proof (C15_store_tracks_crew rcfg rreact rdecode rresolves rcfg_eqb ord_id ord_id_perm rcfg_eqb_sound _ _ _ _ H E "a") as T.
  pose proof (C15_restart_unobservable rcfg rreact rdecode rresolves rcfg_eqb ord_id ord_id_perm rcfg_eqb_sound rreact_named
                _ _ _ _ H E) as (R & _ & _).
  split; [exact W|].
  vm_compute in H. injection H as <- <-.
  split; [reflexivity|]. split; [exact T|]. split; [exact R|].
  vm_compute. eexists _, _. repeat split.
Qed.

(** a source that is only a name resolves to nothing ([RNamed], [rresolves]):
    a is created as a forwarding recorder and reacts to a message; then its
    specification is replaced by the source {"name":"N0"}.  The live machine
    has no source any more and sees no message, the pending change and then
    the store carry the source as given, and the crew booted from the store
    has the same inert machine.  Through the captain (the source decoded
    from the operation) the same: the message after the replacement emits
    nothing, store and crew agree, the booted crew is the crew; a later
    inline source brings the machine back. *)
Definition c15_named : rcfg := mk_rcfg "N0" RNamed.
Definition c15_history_reacts : list (hop rcfg) :=
  [OpMsg (JObj [("to", JStr "captain"); ("update", JObj [("a", c15_spec "L0" "fwd")])]);
   OpMsg (JObj [("tag", JStr "one"); ("then", JArr [JObj [("tag", JStr "x"); ("to", JStr "nobody")]]); ("to", JStr "a")])].
Definition c15_msg_two : json :=
  JObj [("tag", JStr "two"); ("then", JArr [JObj [("tag", JStr "y"); ("to", JStr "nobody")]]); ("to", JStr "a")].

Example C15_unresolvable_nonvacuous :
  rresolves c15_named = false
  /\ exists c store c2 out tm,
    r_run_history 50 (init_crew rcfg, []) c15_history_reacts = Done (c, store)
    /\ live_view rcfg c "a"
       = Some (Some (mk_rcfg "L0" RFwd), mk_ms "flip" [("by", JStr "L0"); ("log", JArr [JArr [JStr "one"; JNull]])])
    (* before: a reacts *)
    /\ (exists c', present rcfg rreact rdecode rresolves c c15_msg_two "a"
                   = Done (c', true, Some [JObj [("from", JStr "a"); ("tag", JStr "y"); ("to", JStr "nobody")]]))
    /\ get_changed rcfg rcfg_eqb ord_id (r_set_machine c "a" (Some c15_named) None) = (c2, out, tm)
    /\ let c1 := r_set_machine c "a" (Some c15_named) None in
       let store2 := stdio_fold rcfg store out in
       live_view rcfg c1 "a" = Some (None, mk_ms "flip" [("by", JStr "L0"); ("log", JArr [JArr [JStr "one"; JNull]])])
       /\ present rcfg rreact rdecode rresolves c1 c15_msg_two "a" = Done (c1, false, None)
       /\ c_src rcfg (cache_get rcfg c1 "a") = Some c15_named
       /\ option_map (e_src rcfg) (aget "a" store2) = Some (Some c15_named)
       /\ store_view rcfg rresolves store2 "a" = live_view rcfg c1 "a"
       /\ machines rcfg (r_boot store2) = machines rcfg c1
       /\ present rcfg rreact rdecode rresolves (r_boot store2) c15_msg_two "a" = Done (r_boot store2, false, None).
Proof.
  split; [reflexivity|].
  destruct (r_run_history 50 (init_crew rcfg, []) c15_history_reacts) as [[c store]| |] eqn:H;
    try (vm_compute in H; discriminate).
  destruct (get_changed rcfg rcfg_eqb ord_id (r_set_machine c "a" (Some c15_named) None)) as [[c2 out] tm] eqn:HG.
  exists c, store, c2, out, tm. split; [reflexivity|].
  pose proof (C15_unresolvable_source_inert rcfg rreact rdecode rresolves rcfg_eqb ord_id ord_id_perm rcfg_eqb_sound
                rreact_named _ _ _ _ "a" c15_named None _ _ _ H eq_refl eq_refl HG) as (_ & P1 & C1 & _ & B & P2).
  vm_compute in H. injection H as <- <-.
  split; [reflexivity|]. split; [eexists; vm_compute; reflexivity|]. split; [exact HG|].
  split; [reflexivity|]. split; [apply P1|]. split; [exact C1|].
  vm_compute in HG. injection HG as <- <- <-.
  split; [reflexivity|]. split; [reflexivity|]. split; [exact B|apply P2].
Qed.

Definition c15_history_named : list (hop rcfg) :=
  c15_history_reacts ++
  [OpMsg (JObj [("to", JStr "captain"); ("update", JObj [("a", JObj [("spec", JObj [("name", JStr "N0")])])])]);
   OpMsg c15_msg_two].
Definition c15_named_later : list (hop rcfg) :=
  [OpMsg (JObj [("tag", JStr "three"); ("then", JArr [JStr "z"])]);
   OpMsg (JObj [("to", JStr "captain"); ("update", JObj [("a", c15_spec "L1" "fwd")])]);
   OpMsg (JObj [("tag", JStr "four"); ("then", JArr [JStr "w"]); ("to", JStr "a")])].

Example C15_unresolvable_through_captain :
  exists c store,
    r_run_history 50 (init_crew rcfg, []) c15_history_named = Done (c, store)
    /\ live_view rcfg c "a" = Some (None, mk_ms "flip" [("by", JStr "L0"); ("log", JArr [JArr [JStr "one"; JNull]])])
    /\ option_map (e_src rcfg) (aget "a" store) = Some (Some c15_named)
    /\ store_view rcfg rresolves store "a" = live_view rcfg c "a"
    /\ core_eq rcfg (r_boot store) c
    /\ exists c2 outs,
         run_outputs rcfg rreact rdecode rresolves rcfg_eqb ord_id 50 c c15_named_later = Done (c2, outs)
         /\ run_outputs rcfg rreact rdecode rresolves rcfg_eqb ord_id 50 (r_boot store) c15_named_later = Done (c2, outs)
         /\ outs = [[]; []; [[JStr "w"]]].
Proof.
  destruct (r_run_history 50 (init_crew rcfg, []) c15_history_named) as [[c store]| |] eqn:H;
    try (vm_compute in H; discriminate).
  exists c, store. split; [reflexivity|].
  assert (E : ends_with_msg rcfg c15_history_named).
  { eexists (removelast c15_history_named), _. reflexivity. }
  pose proof (C15_store_tracks_crew rcfg rreact rdecode rresolves rcfg_eqb ord_id ord_id_perm rcfg_eqb_sound _ _ _ _ H E "a") as T.
  pose proof (C15_restart_unobservable rcfg rreact rdecode rresolves rcfg_eqb ord_id ord_id_perm rcfg_eqb_sound rreact_named
                _ _ _ _ H E) as (R & _ & _).
  vm_compute in H. injection H as <- <-.
  split; [reflexivity|]. split; [reflexivity|]. split; [exact T|]. split; [exact R|].
  vm_compute. eexists _, _. repeat split.
Qed.

(** the reports are about the live crew: the hypothesis on the order oracle
    of [C15_report_is_live_state] cannot be dropped from the MODEL's
    statement (an "iteration order" that renames the keys of Crew.changed
    makes GetChanged report a machine that does not exist; no Go map does
    that) *)
Theorem C15_report_live_needs_ord :
  let c := set_machine unit (fun _ => true) (init_crew unit) "a" None None in
  cache_live unit c
  /\ exists c' out tm r,
       get_changed unit (fun _ _ => true) ord_rename c = (c', out, tm)
       /\ In ("zz", r) out /\ c_deleted unit r = false /\ aget "zz" (machines unit c') = None.
Proof. exact report_live_needs_ord. Qed.
Print Assumptions C15_report_live_needs_ord.

(** non-vacuity of the report theorems on the recorder instance.  The
    history: create a; a message that a reacts to; delete b, which never
    existed; create c and delete it in one operation.  Every message's
    Result.Changed, and what [C15_process_msg_reports_live_state] says about
    each of them (the last conjuncts come from the theorem, not from
    computation) *)
Definition c15_live_ops : list (hop rcfg) :=
  [OpMsg (JObj [("to", JStr "captain"); ("update", JObj [("a", c15_spec "L0" "fwd")])]);
   OpMsg (JObj [("tag", JStr "one"); ("to", JStr "a")]);
   OpMsg (JObj [("delete", JArr [JStr "b"]); ("to", JStr "captain")]);
   OpMsg (JObj [("delete", JArr [JStr "c"]); ("to", JStr "captain"); ("update", JObj [("c", c15_spec "L2" "fwd")])])].
Definition c15_live_state : mstate := mk_ms "flip" [("by", JStr "L0"); ("log", JArr [JArr [JStr "one"; JNull]])].

Example C15_report_live_history :
  exists c1 s1 r1 c2 s2 r2 c3 s3 r3 c4 s4 r4,
    r_hstep 50 (init_crew rcfg, []) (nth 0 c15_live_ops (OpDel "")) = Done (c1, s1, Some r1)
    /\ r_hstep 50 (c1, s1) (nth 1 c15_live_ops (OpDel "")) = Done (c2, s2, Some r2)
    /\ r_hstep 50 (c2, s2) (nth 2 c15_live_ops (OpDel "")) = Done (c3, s3, Some r3)
    /\ r_hstep 50 (c3, s3) (nth 3 c15_live_ops (OpDel "")) = Done (c4, s4, Some r4)
    /\ r_run_history 50 (init_crew rcfg, []) c15_live_ops = Done (c4, s4)
    /\ res_changed rcfg r1 = [("a", mk_chg false None (Some (mk_rcfg "L0" RFwd)))]
    /\ res_changed rcfg r2 = [("a", mk_chg false (Some c15_live_state) None)]
    /\ res_changed rcfg r3 = [("b", mk_chg true None None)]
    /\ res_changed rcfg r4 = [("c", mk_chg true None None)]
    /\ map fst (machines rcfg c4) = ["a"]
    /\ (exists mc, aget "a" (machines rcfg c1) = Some mc)
    /\ (exists mc, aget "a" (machines rcfg c2) = Some mc /\ m_state rcfg mc = c15_live_state)
    /\ aget "b" (machines rcfg c3) = None
    /\ aget "c" (machines rcfg c4) = None.
Proof.
  pose proof (C15_history_reports_live_state rcfg rreact rdecode rresolves rcfg_eqb ord_id ord_id_perm 50) as T.
  destruct (r_hstep 50 (init_crew rcfg, []) (nth 0 c15_live_ops (OpDel ""))) as [[[c1 s1] [r1|]]| |] eqn:H1;
    try (vm_compute in H1; discriminate).
  destruct (r_hstep 50 (c1, s1) (nth 1 c15_live_ops (OpDel ""))) as [[[c2 s2] [r2|]]| |] eqn:H2;
    try (exfalso; vm_compute in H1; injection H1 as <- <- <-; vm_compute in H2; discriminate).
  destruct (r_hstep 50 (c2, s2) (nth 2 c15_live_ops (OpDel ""))) as [[[c3 s3] [r3|]]| |] eqn:H3;
    try (exfalso; vm_compute in H1; injection H1 as <- <- <-; vm_compute in H2; injection H2 as <- <- <-;
         vm_compute in H3; discriminate).
  destruct (r_hstep 50 (c3, s3) (nth 3 c15_live_ops (OpDel ""))) as [[[c4 s4] [r4|]]| |] eqn:H4;
    try (exfalso; vm_compute in H1; injection H1 as <- <- <-; vm_compute in H2; injection H2 as <- <- <-;
         vm_compute in H3; injection H3 as <- <- <-; vm_compute in H4; discriminate).
  exists c1, s1, r1, c2, s2, r2, c3, s3, r3, c4, s4, r4.
  destruct (T [] _ _ _ _ _ _ eq_refl H1) as [R1 T1].
  destruct (T _ _ _ _ _ _ _ R1 H2) as [R2 T2].
  destruct (T _ _ _ _ _ _ _ R2 H3) as [R3 T3].
  destruct (T _ _ _ _ _ _ _ R3 H4) as [R4 T4].
  clear T R1 R2 R3.
  split; [first [exact H1|reflexivity]|]. split; [exact H2|]. split; [exact H3|]. split; [exact H4|]. split; [exact R4|].
  clear R4.
  vm_compute in H1. injection H1 as <- <- <-. vm_compute in H2. injection H2 as <- <- <-.
  vm_compute in H3. injection H3 as <- <- <-. vm_compute in H4. injection H4 as <- <- <-.
  split; [reflexivity|]. split; [reflexivity|]. split; [reflexivity|]. split; [reflexivity|]. split; [reflexivity|].
  split.
  { destruct (T1 "a" _ (or_introl eq_refl)) as (A & _ & _). destruct (A eq_refl) as (mc & Em & _).
    exists mc. exact Em. }
  split.
  { destruct (T2 "a" _ (or_introl eq_refl)) as (A & _ & _). destruct (A eq_refl) as (mc & Em & Es).
    exists mc. split; [exact Em|]. apply Es. reflexivity. }
  split.
  { destruct (T3 "b" _ (or_introl eq_refl)) as (_ & _ & A). apply (A eq_refl eq_refl). }
  destruct (T4 "c" _ (or_introl eq_refl)) as (_ & _ & A). apply (A eq_refl eq_refl).
Qed.

(** all kinds of reports in ONE Result.Changed: a and d exist; one message
    to a makes a move and emit four operations to the captain - delete b
    (never existed), create and delete c, delete d, create d again.  The
    report of a carries its new state, b and c are pure deletions, d is a
    deletion with the state and source of the machine that exists now (the
    replacement report of D14) *)
Definition c15_live_before : list (hop rcfg) :=
  [OpMsg (JObj [("to", JStr "captain"); ("update", JObj [("a", c15_spec "L0" "fwd"); ("d", c15_spec "L1" "mute")])])].
Definition c15_live_msg : json :=
  JObj [("tag", JStr "go");
        ("then", JArr [JObj [("delete", JArr [JStr "b"]); ("to", JStr "captain")];
                       JObj [("delete", JArr [JStr "c"]); ("to", JStr "captain"); ("update", JObj [("c", c15_spec "L2" "fwd")])];
                       JObj [("delete", JArr [JStr "d"]); ("to", JStr "captain")];
                       JObj [("to", JStr "captain"); ("update", JObj [("d", c15_spec "L3" "rev")])]]);
        ("to", JStr "a")].

Example C15_report_live_nonvacuous :
  exists c store c1 r st,
    r_run_history 50 (init_crew rcfg, []) c15_live_before = Done (c, store)
    /\ r_process_msg 50 c c15_live_msg = Done (c1, r)
    /\ st = mk_ms "flip" [("by", JStr "L0"); ("log", JArr [JArr [JStr "go"; JNull]])]
    /\ res_changed rcfg r
       = [("a", mk_chg false (Some st) None);
          ("b", mk_chg true None None);
          ("c", mk_chg true None None);
          ("d", mk_chg true (Some default_state) (Some (mk_rcfg "L3" RRev)))]
    /\ (exists mc, aget "a" (machines rcfg c1) = Some mc /\ m_state rcfg mc = st)
    /\ aget "b" (machines rcfg c1) = None
    /\ aget "c" (machines rcfg c1) = None
    /\ (exists mc, aget "d" (machines rcfg c1) = Some mc /\ m_state rcfg mc = default_state).
Proof.
  destruct (r_run_history 50 (init_crew rcfg, []) c15_live_before) as [[c store]| |] eqn:H;
    try (vm_compute in H; discriminate).
  destruct (r_process_msg 50 c c15_live_msg) as [[c1 r]| |] eqn:HP;
    try (exfalso; vm_compute in H; injection H as <- <-; vm_compute in HP; discriminate).
  exists c, store, c1, r, (mk_ms "flip" [("by", JStr "L0"); ("log", JArr [JArr [JStr "go"; JNull]])]).
  pose proof (C15_process_msg_reports_live_state rcfg rreact rdecode rresolves rcfg_eqb ord_id ord_id_perm
                _ _ _ _ _ _ _ _ H HP) as T.
  split; [reflexivity|]. split; [exact HP|]. split; [reflexivity|].
  vm_compute in H. injection H as <- <-. vm_compute in HP. injection HP as <- <-.
  split; [reflexivity|].
  split.
  { destruct (T "a" _ (or_introl eq_refl)) as (A & _ & _). destruct (A eq_refl) as (mc & Em & Es).
    exists mc. split; [exact Em|]. apply Es. reflexivity. }
  split.
  { destruct (T "b" _ (or_intror (or_introl eq_refl))) as (_ & _ & A). apply (A eq_refl eq_refl). }
  split.
  { destruct (T "c" _ (or_intror (or_intror (or_introl eq_refl)))) as (_ & _ & A). apply (A eq_refl eq_refl). }
  destruct (T "d" _ (or_intror (or_intror (or_intror (or_introl eq_refl))))) as (_ & A & _).
  apply (A eq_refl _ eq_refl).
Qed.

(** GetChanged after direct calls of the crew's API ([C15_report_is_live_state]),
    and the sharpness of the cache invariant: a is created; then SetMachine
    e with a state only, DeleteMachine b (never existed), DeleteMachine d and
    SetMachine d again WITHOUT a state, SetMachine f and DeleteMachine f.
    The cached change of d is a deletion without a state although d exists:
    the state in d's report is read from the machine, not from the cache *)
Definition c15_live_api : list (hop rcfg) :=
  [OpMsg (JObj [("to", JStr "captain"); ("update", JObj [("a", c15_spec "L0" "fwd"); ("d", c15_spec "L1" "mute")])]);
   OpSet "e" None (Some (mk_ms "" [("k", JNum 1)])); OpDel "b";
   OpDel "d"; OpSet "d" (Some (mk_rcfg "L3" RRev)) None;
   OpSet "f" None None; OpDel "f"].

Example C15_cache_live_sharp :
  exists c store c' out tm,
    r_run_history 50 (init_crew rcfg, []) c15_live_api = Done (c, store)
    /\ get_changed rcfg rcfg_eqb ord_id c = (c', out, tm)
    /\ cache rcfg c
       = [("b", mk_chg true None None);
          ("d", mk_chg true None (Some (mk_rcfg "L3" RRev)));
          ("e", mk_chg false (Some (mk_ms "start" [("k", JNum 1)])) None);
          ("f", mk_chg true None None)]
    /\ map fst (machines rcfg c) = ["a"; "d"; "e"]
    /\ out
       = [("b", mk_chg true None None);
          ("d", mk_chg true (Some default_state) (Some (mk_rcfg "L3" RRev)));
          ("e", mk_chg false (Some (mk_ms "start" [("k", JNum 1)])) None);
          ("f", mk_chg true None None)]
    /\ machines rcfg c' = machines rcfg c
    /\ aget "b" (machines rcfg c') = None
    /\ (exists mc, aget "d" (machines rcfg c') = Some mc /\ m_state rcfg mc = default_state)
    /\ (exists mc, aget "e" (machines rcfg c') = Some mc /\ m_state rcfg mc = mk_ms "start" [("k", JNum 1)])
    /\ aget "f" (machines rcfg c') = None.
Proof.
  destruct (r_run_history 50 (init_crew rcfg, []) c15_live_api) as [[c store]| |] eqn:H;
    try (vm_compute in H; discriminate).
  destruct (get_changed rcfg rcfg_eqb ord_id c) as [[c' out] tm] eqn:HG.
  exists c, store, c', out, tm.
  pose proof (C15_report_is_live_state rcfg rreact rdecode rresolves rcfg_eqb ord_id ord_id_perm
                _ _ _ _ _ _ _ H HG) as [EM T].
  split; [reflexivity|]. split; [exact HG|].
  vm_compute in H. injection H as <- <-. vm_compute in HG. injection HG as <- <- <-.
  split; [reflexivity|]. split; [reflexivity|]. split; [reflexivity|]. split; [exact EM|].
  split.
  { destruct (T "b" _ (or_introl eq_refl)) as (_ & _ & A). apply (A eq_refl eq_refl). }
  split.
  { destruct (T "d" _ (or_intror (or_introl eq_refl))) as (_ & A & _). apply (A eq_refl _ eq_refl). }
  split.
  { destruct (T "e" _ (or_intror (or_intror (or_introl eq_refl)))) as (A & _ & _).
    destruct (A eq_refl) as (mc & Em & Es). exists mc. split; [exact Em|]. apply Es. reflexivity. }
  destruct (T "f" _ (or_intror (or_intror (or_intror (or_introl eq_refl))))) as (_ & _ & A). apply (A eq_refl eq_refl).
Qed.
