(** C15 - Reported changes suffice to persist a crew and restart it anywhere.
    Only statements, [exact], Print Assumptions, Examples.

    The theorems are about [run_history] of Model/SioCrew.v: a history of
    messages (crew operations arrive as messages to the captain) and direct
    SetMachine / DeleteMachine calls, run on the pair (crew, store), the
    store being the state of the reference consumer [stdio_fold] that folds
    the reports of every [process_msg] (Result.Changed) in order.  They hold
    for EVERY type of specification sources, reaction function, decoder,
    predicate [resolves] on sources (which sources ResolveSpecSource finds a
    specification for: a source with neither "inline" nor "url" resolves to
    nothing, without error, and leaves the machine without specification -
    [C15_unresolvable_source_inert]), sound equality test on sources and
    order oracle that permutes its argument; for the restart theorems walks end at named nodes (as every
    walk of core.Spec does).  [live_view] / [store_view] (Spec/SioSpec.v):
    specification source, node, bindings of a machine, [None] when absent;
    the source in [store_view] is what the stored source resolves to (with
    [resolves] constantly true: the stored source itself).

    Outside the model ([Unmodelled]): operations on the two service
    machines.  A message to the captain that is no crew operation is INSIDE
    the property's histories: since the repair of D56 the captain's action
    drops the message's binding on every path (NewCaptainSpec,
    sio/captainspec.go), so the captain holds nothing between two messages
    and never becomes inert.  In the model the field [wedged] (the inert
    captain of the code before that repair) is set by no step:
    [C15_captain_never_inert], and [C15_restart_unobservable] has no
    hypothesis on the captain.  (The captain's state is not part of what a
    crew reports, so a store cannot restore it; that is why, for crew VALUES
    that no history reaches, [C15_restart_unobservable_any_crew] still asks
    for [wedged = false], and [C15_any_crew_needs_captain] shows that it
    must.) *)
From Coq Require Import List String Permutation.
From Sheens Require Import Model.SioRecorder Spec.SioSpec Proofs.SioRouting Proofs.SioPersist Proofs.SioRestart
     Proofs.SioCommute Proofs.SioRecorderFacts Proofs.SioHistory Proofs.SioUnwedged Proofs.SioUnresolved.
From Sheens Require Proofs.SioIdsTie.
Import ListNotations.
Open Scope string_scope.

Section C15.
Variable S : Type.
Variable react : S -> mid -> mstate -> json -> option mstate * list json.
Variable decode_src : json -> option S.
Variable resolves : S -> bool.
Variable src_eqb : S -> S -> bool.
Variable ord : forall A : Type, list (mid * A) -> list (mid * A).
Hypothesis ord_perm : forall A l, Permutation (ord A l) l.
Hypothesis src_eqb_sound : forall a b, src_eqb a b = true -> a = b.
Hypothesis react_named : forall s m st msg st', fst (react s m st msg) = Some st' -> ms_node st' <> "".
Local Notation run_history := (run_history S react decode_src resolves src_eqb ord).
Local Notation boot := (boot S resolves ord).

(** after any history that ends with a message, the store that applied every
    report in order is exactly the live crew: same machines, same
    specification sources, same nodes and bindings, deleted machines absent *)
Theorem C15_store_tracks_crew : forall fuel h c store,
  run_history fuel (init_crew S, []) h = Done (c, store) -> ends_with_msg S h ->
  forall m, store_view S resolves store m = live_view S c m.
Proof. exact (store_tracks_crew S react decode_src resolves src_eqb ord ord_perm src_eqb_sound). Qed.

(** at any point of any history: the store with the changes that are cached
    but not yet reported applied to it is the live crew *)
Theorem C15_store_tracks_crew_pending : forall fuel h c store,
  run_history fuel (init_crew S, []) h = Done (c, store) ->
  forall m, pending_view S resolves c store m = live_view S c m.
Proof. exact (store_tracks_crew_pending S react decode_src resolves src_eqb ord ord_perm src_eqb_sound). Qed.

(** a crew booted from the store at a message boundary has the same machines *)
Theorem C15_boot_equiv : forall fuel h c store,
  run_history fuel (init_crew S, []) h = Done (c, store) -> ends_with_msg S h ->
  machines S (boot store) = machines S c
  /\ forall m, live_view S (boot store) m = live_view S c m.
Proof. exact (boot_equiv S react decode_src resolves src_eqb ord ord_perm src_eqb_sound react_named). Qed.

(** the captain of a crew that a history reaches is never inert: no message,
    operation or not, and no direct call leaves anything in its bindings
    (the repair of D56) *)
Theorem C15_captain_never_inert : forall fuel h c store,
  run_history fuel (init_crew S, []) h = Done (c, store) -> wedged S c = false.
Proof. exact (reachable_unwedged S react decode_src resolves src_eqb ord). Qed.

(** ... the same store keeps tracking it ([inv]: the invariant behind
    [C15_store_tracks_crew]), and on every later history it produces the same
    outputs (Result.Emitted of every message) and ends with the same machines
    as the original, under the same schedule [ord] ([core_eq]: same machines,
    same captain) *)
Theorem C15_restart_unobservable : forall fuel h c store,
  run_history fuel (init_crew S, []) h = Done (c, store) -> ends_with_msg S h ->
  core_eq S (boot store) c
  /\ inv S resolves (boot store) store
  /\ forall fuel' h2,
       orel (outputs_sim S) (run_outputs S react decode_src resolves src_eqb ord fuel' c h2)
            (run_outputs S react decode_src resolves src_eqb ord fuel' (boot store) h2).
Proof. exact (restart_unobservable_reachable S react decode_src resolves src_eqb ord ord_perm src_eqb_sound react_named). Qed.

(** the same for ANY crew value, reachable or not: its machines a key-sorted
    list of machines at named nodes ([good]), nothing cached (a message
    boundary), a store that tracks it ([inv]).  The captain's state is not
    part of what a crew reports, so here the hypothesis on the captain stays *)
Theorem C15_restart_unobservable_any_crew : forall c store,
  good S c -> inv S resolves c store -> cache S c = [] ->
  wedged S c = false ->
  core_eq S (boot store) c
  /\ inv S resolves (boot store) store
  /\ forall fuel' h2,
       orel (outputs_sim S) (run_outputs S react decode_src resolves src_eqb ord fuel' c h2)
            (run_outputs S react decode_src resolves src_eqb ord fuel' (boot store) h2).
Proof. exact (restart_unobservable_any_crew S react decode_src resolves src_eqb ord ord_perm). Qed.

(** a source that resolves to no specification: at any point of any history,
    SetMachine with such a source leaves the machine without source - no
    message is presented to it, the crew stays as it is - while the pending
    change, and after the next report the consumer's store, carry the source
    as given; the crew booted from that store has the same machines, hence
    the same inert machine *)
Theorem C15_unresolvable_source_inert : forall fuel h c store m s st c2 out tm,
  run_history fuel (init_crew S, []) h = Done (c, store) ->
  is_service m = false -> resolves s = false ->
  get_changed S src_eqb ord (set_machine S resolves c m (Some s) st) = (c2, out, tm) ->
  let c1 := set_machine S resolves c m (Some s) st in
  let store2 := stdio_fold S store out in
  (exists mc, aget m (machines S c1) = Some mc /\ m_src S mc = None)
  /\ (forall msg, present S react decode_src resolves c1 msg m = Done (c1, false, None))
  /\ c_src S (cache_get S c1 m) = Some s
  /\ (exists e, aget m store2 = Some e /\ e_src S e = Some s)
  /\ machines S (boot store2) = machines S c1
  /\ (forall msg, present S react decode_src resolves (boot store2) msg m = Done (boot store2, false, None)).
Proof.
  exact (unresolvable_source_inert_reachable S react decode_src resolves src_eqb ord ord_perm src_eqb_sound react_named).
Qed.

(** the part of the commutation clause that is a theorem: whatever order the
    map iteration gives the machines of a round, the same machines see the
    message, the crew afterwards is the same (machine by machine, cached
    change by cached change) and the same batches are reported, up to order *)
Theorem C15_round_order_irrelevant :
  forall (ord1 ord2 : forall A : Type, list (mid * A) -> list (mid * A)),
  (forall A l, Permutation (ord1 A l) l) -> (forall A l, Permutation (ord2 A l) l) ->
  forall c msg c1 rd1,
  wf_crew S c -> mixes_captain msg = false ->
  run_machines S react decode_src resolves ord1 c msg = Done (c1, rd1) ->
  exists c2 rd2,
    run_machines S react decode_src resolves ord2 c msg = Done (c2, rd2)
    /\ crew_pw S c1 c2
    /\ Permutation (rd_recips S rd1) (rd_recips S rd2)
    /\ Permutation (rd_batches S rd1) (rd_batches S rd2).
Proof. exact (round_order_irrelevant S react decode_src resolves). Qed.
End C15.

Print Assumptions C15_store_tracks_crew.
Print Assumptions C15_store_tracks_crew_pending.
Print Assumptions C15_boot_equiv.
Print Assumptions C15_captain_never_inert.
Print Assumptions C15_restart_unobservable.
Print Assumptions C15_restart_unobservable_any_crew.
Print Assumptions C15_unresolvable_source_inert.
Print Assumptions C15_round_order_irrelevant.

(** Full strength across schedules is false without the property's
    commutation hypothesis: the order in which the batches of one round are
    queued decides the order in which a third machine sees them.  The
    statement is kept, and refuted on the recorder instance (identity order
    against reversed order); what is proved is the same-schedule theorem
    above plus [C15_round_order_irrelevant]; across schedules the property is
    observed on the implementation (second crew under Go's own random map
    order, histories whose outcome does not depend on the order).  Like
    [C15_restart_unobservable] the statement has no hypothesis on the captain
    (with that hypothesis, as it stood before the repair of D56, it is the
    same proposition: [restart_two_schedules_full_iff]). *)
Definition C15_restart_two_schedules_full : Prop := restart_two_schedules_full_reachable.
Theorem C15_restart_two_schedules_refuted : ~ C15_restart_two_schedules_full.
Proof. exact restart_two_schedules_reachable_refuted. Qed.
Print Assumptions C15_restart_two_schedules_refuted.

(** the hypothesis on the captain of [C15_restart_unobservable_any_crew]
    cannot be dropped: the empty crew VALUE with an inert captain (no history
    reaches it) and the empty store meet the other hypotheses, and the crew
    booted from the store executes an operation that this value ignores *)
Theorem C15_any_crew_needs_captain :
  good rcfg wedged_empty_crew /\ inv rcfg rresolves wedged_empty_crew [] /\ cache rcfg wedged_empty_crew = []
  /\ ~ core_eq rcfg (r_boot []) wedged_empty_crew
  /\ exists h2, ~ orel (outputs_sim rcfg) (run_outputs rcfg rreact rdecode rresolves rcfg_eqb ord_id 10 wedged_empty_crew h2)
                       (run_outputs rcfg rreact rdecode rresolves rcfg_eqb ord_id 10 (r_boot []) h2).
Proof. exact any_crew_needs_unwedged. Qed.
Print Assumptions C15_any_crew_needs_captain.

(** crew operations are messages to the captain, and a store holds the two
    service machines under their ids: the ids the model uses are read from
    the source of the tree under test (Gen/Names.v) and are the documented
    ones, which the examples below write in their messages *)
Theorem C15_service_ids_are_documented :
  timers_id = "timers" /\ captain_id = "captain" /\ timers_id <> captain_id.
Proof. exact SioIdsTie.service_ids_documented. Qed.
Print Assumptions C15_service_ids_are_documented.

(** the code before the repairs D13 and D42 (SetMachine did not apply the
    state of an existing machine; creating a machine without specification
    and state was no change) falsifies [C15_store_tracks_crew] *)
Theorem C15_refuted_prefix_D13 :
  exists c store, d13_prefix_run = Done (c, store) /\ store_view rcfg rresolves store "a" <> live_view rcfg c "a".
Proof. exact d13_prefix_refuted. Qed.
Theorem C15_refuted_prefix_D42 :
  exists c store, flush (set_machine_prefix (init_crew rcfg) "z" None None, []) = Done (c, store)
                  /\ store_view rcfg rresolves store "z" <> live_view rcfg c "z".
Proof. exact d42_prefix_refuted. Qed.

(** non-vacuity on the instance the correspondence run uses (its three
    hypotheses are lemmas of Proofs/SioRecorderFacts.v): create a and b,
    move a, replace a's state (the witness of D13), delete and re-create a
    within one ProcessMsg (the witness of D14), then a message to everybody *)
Definition c15_spec (l d : string) : json :=
  JObj [("spec", JObj [("inline", JObj [("doc", JStr d); ("name", JStr l)])])].
Definition c15_history : list (hop rcfg) :=
  [OpMsg (JObj [("to", JStr "captain"); ("update", JObj [("a", c15_spec "L0" "fwd"); ("b", c15_spec "L1" "fwd")])]);
   OpMsg (JObj [("tag", JStr "one"); ("to", JStr "a")]);
   OpMsg (JObj [("to", JStr "captain");
                ("update", JObj [("a", JObj [("state", JObj [("bs", JObj [("k", JNum 4)]); ("node", JStr "flip")])])])]);
   OpMsg (JObj [("tag", JStr "d14");
                ("then", JArr [JObj [("delete", JArr [JStr "a"]); ("to", JStr "captain")];
                               JObj [("to", JStr "captain"); ("update", JObj [("a", c15_spec "L2" "rev")])]]);
                ("to", JStr "b")]);
   OpMsg (JObj [("tag", JStr "all")])].

Example C15_nonvacuous :
  exists c store,
    r_run_history 50 (init_crew rcfg, []) c15_history = Done (c, store)
    /\ ends_with_msg rcfg c15_history /\ wedged rcfg c = false
    /\ live_view rcfg c "a"
       = Some (Some (mk_rcfg "L2" RRev),
               mk_ms "flip" [("by", JStr "L2"); ("log", JArr [JArr [JStr "all"; JNull]])])
    /\ store_view rcfg rresolves store "a" = live_view rcfg c "a"
    /\ machines rcfg (r_boot store) = machines rcfg c
    /\ core_eq rcfg (r_boot store) c.
Proof.
  destruct (r_run_history 50 (init_crew rcfg, []) c15_history) as [[c store]| |] eqn:H;
    try (vm_compute in H; discriminate).
  exists c, store. split; [reflexivity|].
  assert (E : ends_with_msg rcfg c15_history).
  { exists (removelast c15_history), (JObj [("tag", JStr "all")]). reflexivity. }
  split; [exact E|].
  pose proof (C15_captain_never_inert rcfg rreact rdecode rresolves rcfg_eqb ord_id _ _ _ _ H) as W.
  pose proof (C15_store_tracks_crew rcfg rreact rdecode rresolves rcfg_eqb ord_id ord_id_perm rcfg_eqb_sound _ _ _ _ H E "a") as T.
  pose proof (C15_boot_equiv rcfg rreact rdecode rresolves rcfg_eqb ord_id ord_id_perm rcfg_eqb_sound rreact_named _ _ _ _ H E) as [B _].
  pose proof (C15_restart_unobservable rcfg rreact rdecode rresolves rcfg_eqb ord_id ord_id_perm rcfg_eqb_sound rreact_named
                _ _ _ _ H E) as [R _].
  split; [exact W|].
  vm_compute in H. injection H as <- <-.
  split; [reflexivity|]. split; [exact T|]. split; [exact B|exact R].
Qed.

(** a history the theorems did not cover before the repair of D56: a message
    to the captain that is no crew operation (and one that is no object)
    comes first.  The captain stays in service: the operation that follows
    creates its machine, the store tracks the crew, and the crew booted from
    the store runs a later history to the same outputs and the same machines *)
Definition c15_history_not_an_op : list (hop rcfg) :=
  [OpMsg (JObj [("tag", JStr "noise"); ("to", JStr "captain")]);
   OpMsg (JObj [("to", JStr "captain"); ("update", JObj [("a", c15_spec "L0" "fwd")])]);
   OpMsg (JObj [("tag", JStr "one"); ("then", JArr [JObj [("tag", JStr "two"); ("to", JStr "captain")]]);
                ("to", JStr "a")])].
Definition c15_later : list (hop rcfg) :=
  [OpMsg (JObj [("to", JStr "captain"); ("update", JObj [("b", c15_spec "L1" "fwd")])]);
   OpMsg (JObj [("tag", JStr "all"); ("then", JArr [JStr "echo"])])].

Example C15_nonvacuous_not_an_op :
  exists c store,
    r_run_history 50 (init_crew rcfg, []) c15_history_not_an_op = Done (c, store)
    /\ wedged rcfg c = false
    /\ live_view rcfg c "a"
       = Some (Some (mk_rcfg "L0" RFwd),
               mk_ms "flip" [("by", JStr "L0"); ("log", JArr [JArr [JStr "one"; JNull]])])
    /\ store_view rcfg rresolves store "a" = live_view rcfg c "a"
    /\ core_eq rcfg (r_boot store) c
    /\ exists c2 outs,
         run_outputs rcfg rreact rdecode rresolves rcfg_eqb ord_id 50 (r_boot store) c15_later = Done (c2, outs)
         /\ run_outputs rcfg rreact rdecode rresolves rcfg_eqb ord_id 50 c c15_later = Done (c2, outs)
         /\ is_some (live_view rcfg c2 "b") = true
         /\ outs = [[]; [[JStr "echo"]; [JStr "echo"]]].
Proof.
  destruct (r_run_history 50 (init_crew rcfg, []) c15_history_not_an_op) as [[c store]| |] eqn:H;
    try (vm_compute in H; discriminate).
  exists c, store. split; [reflexivity|].
  assert (E : ends_with_msg rcfg c15_history_not_an_op).
  { eexists (removelast c15_history_not_an_op), _. reflexivity. }
  pose proof (C15_captain_never_inert rcfg rreact rdecode rresolves rcfg_eqb ord_id _ _ _ _ H) as W.
  pose proof (C15_store_tracks_crew rcfg rreact rdecode rresolves rcfg_eqb ord_id ord_id_perm rcfg_eqb_sound _ _ _ _ H E "a") as T.
  pose proof (C15_restart_unobservable rcfg rreact rdecode rresolves rcfg_eqb ord_id ord_id_perm rcfg_eqb_sound rreact_named
                _ _ _ _ H E) as (R & _ & _).
  split; [exact W|].
  vm_compute in H. injection H as <- <-.
  split; [reflexivity|]. split; [exact T|]. split; [exact R|].
  vm_compute. eexists _, _. repeat split.
Qed.

(** a source that is only a name resolves to nothing ([RNamed], [rresolves]):
    a is created as a forwarding recorder and reacts to a message; then its
    specification is replaced by the source {"name":"N0"}.  The live machine
    has no source any more and sees no message, the pending change and then
    the store carry the source as given, and the crew booted from the store
    has the same inert machine.  Through the captain (the source decoded
    from the operation) the same: the message after the replacement emits
    nothing, store and crew agree, the booted crew is the crew; a later
    inline source brings the machine back. *)
Definition c15_named : rcfg := mk_rcfg "N0" RNamed.
Definition c15_history_reacts : list (hop rcfg) :=
  [OpMsg (JObj [("to", JStr "captain"); ("update", JObj [("a", c15_spec "L0" "fwd")])]);
   OpMsg (JObj [("tag", JStr "one"); ("then", JArr [JObj [("tag", JStr "x"); ("to", JStr "nobody")]]); ("to", JStr "a")])].
Definition c15_msg_two : json :=
  JObj [("tag", JStr "two"); ("then", JArr [JObj [("tag", JStr "y"); ("to", JStr "nobody")]]); ("to", JStr "a")].

Example C15_unresolvable_nonvacuous :
  rresolves c15_named = false
  /\ exists c store c2 out tm,
    r_run_history 50 (init_crew rcfg, []) c15_history_reacts = Done (c, store)
    /\ live_view rcfg c "a"
       = Some (Some (mk_rcfg "L0" RFwd), mk_ms "flip" [("by", JStr "L0"); ("log", JArr [JArr [JStr "one"; JNull]])])
    (* before: a reacts *)
    /\ (exists c', present rcfg rreact rdecode rresolves c c15_msg_two "a"
                   = Done (c', true, Some [JObj [("from", JStr "a"); ("tag", JStr "y"); ("to", JStr "nobody")]]))
    /\ get_changed rcfg rcfg_eqb ord_id (r_set_machine c "a" (Some c15_named) None) = (c2, out, tm)
    /\ let c1 := r_set_machine c "a" (Some c15_named) None in
       let store2 := stdio_fold rcfg store out in
       live_view rcfg c1 "a" = Some (None, mk_ms "flip" [("by", JStr "L0"); ("log", JArr [JArr [JStr "one"; JNull]])])
       /\ present rcfg rreact rdecode rresolves c1 c15_msg_two "a" = Done (c1, false, None)
       /\ c_src rcfg (cache_get rcfg c1 "a") = Some c15_named
       /\ option_map (e_src rcfg) (aget "a" store2) = Some (Some c15_named)
       /\ store_view rcfg rresolves store2 "a" = live_view rcfg c1 "a"
       /\ machines rcfg (r_boot store2) = machines rcfg c1
       /\ present rcfg rreact rdecode rresolves (r_boot store2) c15_msg_two "a" = Done (r_boot store2, false, None).
Proof.
  split; [reflexivity|].
  destruct (r_run_history 50 (init_crew rcfg, []) c15_history_reacts) as [[c store]| |] eqn:H;
    try (vm_compute in H; discriminate).
  destruct (get_changed rcfg rcfg_eqb ord_id (r_set_machine c "a" (Some c15_named) None)) as [[c2 out] tm] eqn:HG.
  exists c, store, c2, out, tm. split; [reflexivity|].
  pose proof (C15_unresolvable_source_inert rcfg rreact rdecode rresolves rcfg_eqb ord_id ord_id_perm rcfg_eqb_sound
                rreact_named _ _ _ _ "a" c15_named None _ _ _ H eq_refl eq_refl HG) as (_ & P1 & C1 & _ & B & P2).
  vm_compute in H. injection H as <- <-.
  split; [reflexivity|]. split; [eexists; vm_compute; reflexivity|]. split; [exact HG|].
  split; [reflexivity|]. split; [apply P1|]. split; [exact C1|].
  vm_compute in HG. injection HG as <- <- <-.
  split; [reflexivity|]. split; [reflexivity|]. split; [exact B|apply P2].
Qed.

Definition c15_history_named : list (hop rcfg) :=
  c15_history_reacts ++
  [OpMsg (JObj [("to", JStr "captain"); ("update", JObj [("a", JObj [("spec", JObj [("name", JStr "N0")])])])]);
   OpMsg c15_msg_two].
Definition c15_named_later : list (hop rcfg) :=
  [OpMsg (JObj [("tag", JStr "three"); ("then", JArr [JStr "z"])]);
   OpMsg (JObj [("to", JStr "captain"); ("update", JObj [("a", c15_spec "L1" "fwd")])]);
   OpMsg (JObj [("tag", JStr "four"); ("then", JArr [JStr "w"]); ("to", JStr "a")])].

Example C15_unresolvable_through_captain :
  exists c store,
    r_run_history 50 (init_crew rcfg, []) c15_history_named = Done (c, store)
    /\ live_view rcfg c "a" = Some (None, mk_ms "flip" [("by", JStr "L0"); ("log", JArr [JArr [JStr "one"; JNull]])])
    /\ option_map (e_src rcfg) (aget "a" store) = Some (Some c15_named)
    /\ store_view rcfg rresolves store "a" = live_view rcfg c "a"
    /\ core_eq rcfg (r_boot store) c
    /\ exists c2 outs,
         run_outputs rcfg rreact rdecode rresolves rcfg_eqb ord_id 50 c c15_named_later = Done (c2, outs)
         /\ run_outputs rcfg rreact rdecode rresolves rcfg_eqb ord_id 50 (r_boot store) c15_named_later = Done (c2, outs)
         /\ outs = [[]; []; [[JStr "w"]]].
Proof.
  destruct (r_run_history 50 (init_crew rcfg, []) c15_history_named) as [[c store]| |] eqn:H;
    try (vm_compute in H; discriminate).
  exists c, store. split; [reflexivity|].
  assert (E : ends_with_msg rcfg c15_history_named).
  { eexists (removelast c15_history_named), _. reflexivity. }
  pose proof (C15_store_tracks_crew rcfg rreact rdecode rresolves rcfg_eqb ord_id ord_id_perm rcfg_eqb_sound _ _ _ _ H E "a") as T.
  pose proof (C15_restart_unobservable rcfg rreact rdecode rresolves rcfg_eqb ord_id ord_id_perm rcfg_eqb_sound rreact_named
                _ _ _ _ H E) as (R & _ & _).
  vm_compute in H. injection H as <- <-.
  split; [reflexivity|]. split; [reflexivity|]. split; [exact T|]. split; [exact R|].
  vm_compute. eexists _, _. repeat split.
Qed.
