(** C14 (sio host) - Routing: each addressed machine sees a message exactly
    once, others never; emissions are fed back breadth first, each once, and
    reported once.  Only statements, [exact], Print Assumptions, Examples.

    The theorems are about [process_msg] of Model/SioCrew.v (the model of
    sio.Crew.ProcessMsg) for EVERY type of specification sources [S], every
    reaction function [react] (what a machine's walk does with a message),
    every decoder of specification sources, every equality test on them and
    every order oracle [ord] (Go's map iteration order) that permutes its
    argument, every crew that is well formed (no ordinary machine carries the
    id of a service machine; every crew reached from the initial one is:
    [C14_reachable_crews_wf]), every message and every fuel that suffices
    ([Done]).  The result carries a ghost trace: one [round] per message
    taken from the queue, with the crew at that time, the machines the
    message was presented to and the batches they emitted.

    [addressed] and [can_see] are the specification (Spec/SioSpec.v, written
    from the property text).  The correspondence run evaluates the recorder
    instance of the same [process_msg] against sio.Crew on every check. *)
From Coq Require Import List String Permutation.
From Sheens Require Import Model.Match.   (* first: the sio modules' names (ord_id) take precedence *)
From Sheens Require Import Model.SioRecorder Spec.SioSpec Proofs.SioRouting Proofs.SioRecorderFacts Proofs.SioStrip.
From Sheens Require Import Gen.SioSpecs Proofs.SioSpecTie Proofs.SioIdsTie.
Import ListNotations.
Open Scope string_scope.

Section C14.
Variable S : Type.
Variable react : S -> mid -> mstate -> json -> option mstate * list json.
Variable decode_src : json -> option S.
Variable resolves : S -> bool.
Variable src_eqb : S -> S -> bool.
Variable ord : forall A : Type, list (mid * A) -> list (mid * A).
Hypothesis ord_perm : forall A l, Permutation (ord A l) l.
Local Notation process_msg := (process_msg S react decode_src resolves src_eqb ord).
Local Notation wf := (wf_crew S).

(** every processed message occurrence is presented exactly once to every
    machine it is addressed to and never to another one (a message that names
    the captain together with other machines is covered by the next theorem) *)
Theorem C14_exactly_once : forall fuel c msg c' res,
  wf c -> process_msg fuel c msg = Done (c', res) ->
  forall rd, In rd (res_trace S res) -> mixes_captain (rd_msg S rd) = false ->
  forall m, count_occ string_dec (rd_recips S rd) m
            = if addressed (can_see S (rd_before S rd)) (rd_msg S rd) m then 1 else 0.
Proof. exact (exactly_once S react decode_src resolves src_eqb ord ord_perm). Qed.

(** unconditionally: never twice, only to machines the message names, and
    only machines that were presented the message emit *)
Theorem C14_at_most_once_only_named : forall fuel c msg c' res,
  wf c -> process_msg fuel c msg = Done (c', res) ->
  forall rd, In rd (res_trace S res) ->
  NoDup (rd_recips S rd)
  /\ (forall m, In m (rd_recips S rd) -> In m (to_machines S ord (rd_before S rd) (rd_msg S rd)))
  /\ (forall m, In m (map fst (rd_batches S rd)) -> In m (rd_recips S rd)).
Proof. exact (at_most_once_only_named S react decode_src resolves src_eqb ord ord_perm). Qed.

(** the processed occurrences are the submitted message followed by every
    emitted message, each once, round by round (breadth first), batch by
    batch, each batch in its machine's emission order (for every order oracle,
    permutation or not) *)
Theorem C14_feedback : forall fuel c msg c' res,
  wf c -> process_msg fuel c msg = Done (c', res) ->
  map (rd_msg S) (res_trace S res) = msg :: flat_map (batch_msgs S) (res_trace S res).
Proof. exact (feedback S react decode_src resolves src_eqb ord). Qed.

(** Result.Emitted holds every emitted message exactly once, in processing
    order, in non-empty batches; the batches of a round are, up to the map
    order, the reactions of the round's ordinary recipients *)
Theorem C14_reported_once : forall fuel c msg c' res,
  wf c -> process_msg fuel c msg = Done (c', res) ->
  List.concat (res_emitted S res) = flat_map (batch_msgs S) (res_trace S res)
  /\ map (rd_msg S) (res_trace S res) = msg :: List.concat (res_emitted S res)
  /\ Forall (fun b => b <> []) (res_emitted S res)
  /\ forall rd, In rd (res_trace S res) -> mixes_captain (rd_msg S rd) = false ->
     Permutation (rd_batches S rd)
                 (map (fun m => (m, emissions_of S react (rd_before S rd) m (rd_msg S rd)))
                      (filter (fun m => negb (is_service m)) (rd_recips S rd))).
Proof. exact (reported_once S react decode_src resolves src_eqb ord ord_perm). Qed.

(** the crews the theorems speak about: everything a history reaches *)
Theorem C14_reachable_crews_wf : forall fuel h c store,
  run_history S react decode_src resolves src_eqb ord fuel (init_crew S, []) h = Done (c, store) -> wf c.
Proof.
  intros fuel h c store.
  exact (run_history_wf S react decode_src resolves src_eqb ord fuel h (init_crew S) [] c store (init_wf S)).
Qed.

(** a modelling decision made explicit: an update that names a service
    machine (timers, captain) and carries no state ([svc_noop]) is dropped
    before the operation is carried out ([strip_op], applied by the captain's
    branch of [present]).  For every crew and operation: what is left is
    ordinary (and so covered by the theorems above) whenever every update is
    ordinary or such a no-op and every delete is ordinary; stripping twice is
    stripping once; an operation of such no-ops only leaves the crew - the
    whole record - as it is; and an ordinary operation, the only kind modelled
    before, is not touched *)
Theorem C14_service_update_without_state_is_noop : forall (c : crew S) (op : crew_op S),
  (forallb (fun u => negb (is_service (fst u)) || svc_noop S u) (op_update S op) = true ->
   forallb (fun d => negb (is_service d)) (op_delete S op) = true ->
   op_ordinary S (strip_op S op) = true)
  /\ strip_op S (strip_op S op) = strip_op S op
  /\ (forallb (svc_noop S) (op_update S op) = true -> op_delete S op = [] ->
      do_op S resolves c (strip_op S op) = c)
  /\ (op_ordinary S op = true -> strip_op S op = op).
Proof. exact (service_update_without_state_is_noop S resolves). Qed.
End C14.

Print Assumptions C14_exactly_once.
Print Assumptions C14_at_most_once_only_named.
Print Assumptions C14_feedback.
Print Assumptions C14_reported_once.
Print Assumptions C14_reachable_crews_wf.
Print Assumptions C14_service_update_without_state_is_noop.

(** non-vacuity, on the instance the correspondence run uses: machines a
    (forwards), b (reverses) and the machine with the empty id; a message to
    everybody whose follow-ups go to a, to a list with a repeated and a
    non-string member, and the machine with the empty id.  Five rounds, breadth first. *)
Definition c14_setup : list (hop rcfg) :=
  [OpSet "a" (Some (mk_rcfg "L0" RFwd)) None; OpSet "b" (Some (mk_rcfg "L1" RRev)) None;
   OpSet "" (Some (mk_rcfg "L2" RMute)) None].
Definition c14_msg : json :=
  JObj [("tag", JStr "t1");
        ("then", JArr [JObj [("tag", JStr "t2"); ("to", JStr "a")];
                       JObj [("tag", JStr "t3"); ("to", JArr [JStr "b"; JNum 20; JStr "b"; JStr ""])]])].

Example C14_nonvacuous :
  exists c store c' res,
    r_run_history 10 (init_crew rcfg, []) c14_setup = Done (c, store)
    /\ wf_crew rcfg c
    /\ r_process_msg 50 c c14_msg = Done (c', res)
    /\ map (rd_recips rcfg) (res_trace rcfg res)
       = [[""; "a"; "b"]; ["a"]; ["b"; ""]; ["b"; ""]; ["a"]]
    /\ List.length (res_emitted rcfg res) = 2.
Proof.
  destruct (r_run_history 10 (init_crew rcfg, []) c14_setup) as [[c store]| |] eqn:H;
    try (vm_compute in H; discriminate).
  exists c, store.
  destruct (r_process_msg 50 c c14_msg) as [[c' res]| |] eqn:HP.
  - exists c', res. split; [reflexivity|]. split.
    + eapply (C14_reachable_crews_wf rcfg rreact rdecode rresolves rcfg_eqb ord_id). exact H.
    + split; [reflexivity|].
      vm_compute in H. injection H as <- <-. vm_compute in HP. injection HP as <- <-.
      vm_compute. split; reflexivity.
  - exfalso. vm_compute in H. injection H as <- <-. vm_compute in HP. discriminate.
  - exfalso. vm_compute in H. injection H as <- <-. vm_compute in HP. discriminate.
Qed.

(** non-vacuity of the last theorem, on the same instance: a message to the
    captain that gives the timers machine a specification and no state is a
    crew operation which is not ordinary; stripped it is empty; [present]
    leaves the crew (three machines, pending changes) exactly as it is and
    reports the captain as having seen the message; so does the whole
    [process_msg] but for the change cache it flushes, in one round.  The same
    update beside one of an ordinary machine: only the latter is carried out. *)
Definition c14_svc_spec : json :=
  JObj [("inline", JObj [("doc", JStr "fwd"); ("name", JStr "L9")])].
Definition c14_svc_msg : json :=
  JObj [("to", JStr "captain");
        ("update", JObj [("timers", JObj [("spec", c14_svc_spec)])])].
Definition c14_svc_mixed_msg : json :=
  JObj [("to", JStr "captain");
        ("update", JObj [("b", JObj [("spec", c14_svc_spec)]); ("timers", JObj [("spec", c14_svc_spec)])])].

Example C14_service_update_nonvacuous :
  exists c store op,
    r_run_history 10 (init_crew rcfg, []) c14_setup = Done (c, store)
    /\ List.length (machines rcfg c) = 3
    /\ as_crew_op rcfg rdecode c14_svc_msg = IsOp op
    /\ op_ordinary rcfg op = false
    /\ forallb (svc_noop rcfg) (op_update rcfg op) = true
    /\ strip_op rcfg op = mk_op [] []
    /\ present rcfg rreact rdecode rresolves c c14_svc_msg captain_id = Done (c, true, None)
    /\ match r_process_msg 10 c c14_svc_msg with
       | Done (c', res) => machines rcfg c' = machines rcfg c
                           /\ map (rd_recips rcfg) (res_trace rcfg res) = [["captain"]]
                           /\ res_emitted rcfg res = []
       | _ => False
       end
    /\ present rcfg rreact rdecode rresolves c c14_svc_mixed_msg captain_id
       = Done (set_machine rcfg rresolves c "b" (Some (mk_rcfg "L9" RFwd)) None, true, None).
Proof.
  destruct (r_run_history 10 (init_crew rcfg, []) c14_setup) as [[c store]| |] eqn:H;
    try (vm_compute in H; discriminate).
  exists c, store. vm_compute in H. injection H as <- <-.
  eexists. vm_compute. repeat split.
Qed.

(** * The service machines' start nodes: the model's hand-written routing
      predicates are what the specifications in the source say

    The model does not run the timers machine and the captain through the
    engine model: [present] asks [tm_shape] whether the timers machine reacts
    to a message, and treats every message routed to the captain as presented
    to node "do".  Both are copies of node "start" of Crew.NewTimersSpec
    (sio/timersspec.go) and Crew.NewCaptainSpec (sio/captainspec.go).
    Gen/SioSpecs.v, regenerated from the tree under test on every check by
    harness/cmd/genconsts (go/ast), holds those nodes' branches (pattern as a
    [json] term, target; source order) and branching types; the theorems
    below compute with them, so a change of the patterns in the source breaks
    them.  [accepts bs msg p] (Proofs/SioSpecTie.v): the matcher model's entry
    point [Match p msg bs] - what [try_branch] of the engine model asks for a
    message branch - is [Ok] of at least one candidate.

    The bindings are those of the machine waiting in "start": any map that
    binds none of the patterns' variables (the timers machine keeps "timers"
    and possibly "error", the captain nothing or "error").  No hypothesis on
    the message (none of well-formedness either: [tm_shape] and the matcher
    model both read a repeated key at its first occurrence). *)

(** [tm_shape] = some branch of the timers machine's start node is taken *)
Theorem C14_sio_timers_shape_is_source_patterns : forall bs msg,
  lookup "?in" bs = None -> lookup "?msg" bs = None -> lookup "?id" bs = None ->
  tm_shape msg = existsb (fun pt => accepts bs msg (fst pt)) sio_timers_start_branches.
Proof. exact tm_shape_is_start_branches. Qed.

(** and no branch fails to be matched (error, fuel): "not taken" is "does not match" *)
Theorem C14_sio_timers_start_never_errs : forall bs msg,
  lookup "?in" bs = None -> lookup "?msg" bs = None -> lookup "?id" bs = None ->
  forall pt, In pt sio_timers_start_branches -> exists r, Match (fst pt) msg bs = Ok r.
Proof. exact timers_start_never_errs. Qed.

(** the captain's start node has a branch, every branch leads to "do" and
    takes every message *)
Theorem C14_sio_captain_start_accepts_all :
  sio_captain_start_branches <> []
  /\ (forall pt, In pt sio_captain_start_branches -> snd pt = "do")
  /\ forall msg bs, lookup "?op" bs = None ->
     forall p, In p (map fst sio_captain_start_branches) ->
     exists r, Match p msg bs = Ok r /\ r <> [].
Proof. exact captain_start_accepts_all. Qed.

(** both start nodes wait for a message *)
Theorem C14_sio_service_start_nodes_take_messages :
  sio_timers_start_type = "message" /\ sio_captain_start_type = "message".
Proof. exact service_start_nodes_take_messages. Qed.

Print Assumptions C14_sio_timers_shape_is_source_patterns.
Print Assumptions C14_sio_timers_start_never_errs.
Print Assumptions C14_sio_captain_start_accepts_all.
Print Assumptions C14_sio_service_start_nodes_take_messages.

(** the ids of the two service machines, by which [addressed], [can_see] and
    [present] tell them from ordinary machines, are read from the source of
    the tree under test (Gen/Names.v: the declarations of sio.TimersMachine
    and sio.CaptainMachine); they are the ids the documentation sends timer
    requests and crew operations to (sio/siostd/README.md) *)
Theorem C14_sio_service_ids_are_documented :
  timers_id = "timers" /\ captain_id = "captain" /\ timers_id <> captain_id.
Proof. exact service_ids_documented. Qed.
Theorem C14_sio_is_service_documented : forall m,
  is_service m = (String.eqb m "timers" || String.eqb m "captain")%bool.
Proof. exact is_service_documented. Qed.
Print Assumptions C14_sio_service_ids_are_documented.
Print Assumptions C14_sio_is_service_documented.

(** non-vacuity: with the bindings {"timers": {}} a makeTimer request takes
    "make", a cancelTimer request "cancel"; a makeTimer request without "id",
    a string and an array holding a request take nothing; [tm_shape] agrees *)
Definition c14_tm_bs : bindings := [("timers", JObj [])].
Definition c14_tm_make : json :=
  JObj [("makeTimer", JObj [("id", JStr "t1"); ("in", JStr "1s"); ("msg", JObj [("to", JStr "a")])])].
Definition c14_tm_cancel : json := JObj [("cancelTimer", JStr "t1")].
Definition c14_tm_make_no_id : json := JObj [("makeTimer", JObj [("in", JStr "1s"); ("msg", JNum 4)])].
Definition c14_tm_both : json :=
  JObj [("cancelTimer", JStr "t0"); ("makeTimer", JObj [("id", JStr "t1"); ("in", JStr "1s"); ("msg", JNull)])].

Example C14_sio_timers_shape_nonvacuous :
  taken c14_tm_bs c14_tm_make sio_timers_start_branches = ["make"] /\ tm_shape c14_tm_make = true
  /\ taken c14_tm_bs c14_tm_cancel sio_timers_start_branches = ["cancel"] /\ tm_shape c14_tm_cancel = true
  /\ taken c14_tm_bs c14_tm_make_no_id sio_timers_start_branches = [] /\ tm_shape c14_tm_make_no_id = false
  /\ taken c14_tm_bs (JStr "makeTimer") sio_timers_start_branches = [] /\ tm_shape (JStr "makeTimer") = false
  /\ taken c14_tm_bs (JArr [c14_tm_cancel]) sio_timers_start_branches = [] /\ tm_shape (JArr [c14_tm_cancel]) = false
  /\ Match (fst (hd (JNull, "") sio_timers_start_branches)) c14_tm_make c14_tm_bs
     = Ok [[("?id", JStr "t1"); ("?in", JStr "1s"); ("?msg", JObj [("to", JStr "a")]); ("timers", JObj [])]].
Proof. vm_compute. repeat split. Qed.

(** what the model abstracts: one message can match both patterns; the source
    tries the branches in order ("make" first); [tm_shape] only says that the
    timers machine reacts *)
Example C14_sio_timers_both_branches_can_match :
  taken c14_tm_bs c14_tm_both sio_timers_start_branches = ["make"; "cancel"] /\ tm_shape c14_tm_both = true.
Proof. vm_compute. split; reflexivity. Qed.

(** the hypothesis on the bindings is needed: had the timers machine kept
    ?id = "t0", it would not react to a request for another id *)
Example C14_sio_timers_bound_id_refuted :
  tm_shape c14_tm_cancel = true
  /\ existsb (fun pt => accepts [("?id", JStr "t0")] c14_tm_cancel (fst pt)) sio_timers_start_branches = false.
Proof. vm_compute. split; reflexivity. Qed.

Example C14_sio_captain_start_nonvacuous :
  taken [] (JStr "x") sio_captain_start_branches = ["do"]
  /\ taken [("error", JStr "no op")] c14_tm_cancel sio_captain_start_branches = ["do"]
  /\ Match (JStr "?op") JNull [] = Ok [[("?op", JNull)]].
Proof. vm_compute. repeat split. Qed.
