(** C20 - Analysis and graph renderings are faithful to the spec.
    Only statements, [exact], Print Assumptions and Examples.

    [gspec] is Spec.Nodes (a Go map: [NoDup (names g)] is true of every map)
    as tools/analysis.go, tools/dot.go and tools/mermaid.go see it; [analyze],
    [dot], [mermaid] are the models of Analyze, Dot and Mermaid
    (Model/Tools.v) after the repairs D20, D21, D31, D33.  What the outputs
    are compared with is defined in Spec/Graph.v from the graph alone:
    [missing_target], [terminal_node], [orphan_node], ... as propositions,
    [g_missing], [g_terminal], ..., [g_render_nodes] (the nodes and one
    placeholder per target that is not a node), [g_edges] (one edge per
    branch) as lists.  [dot_items] / [mer_items] read a list of statements as
    node and edge items ([mer_items] resolves Mermaid's generated ids).
    [Panic] is the outcome of a nil dereference. *)
From Sheens Require Import Corr.ToolsCorr Proofs.ToolsSets Proofs.ToolsSpec Proofs.ToolsAnalysis
  Proofs.ToolsRender Proofs.ToolsOrder Proofs.ToolsOracle Proofs.ToolsHistory.
From Coq Require Import Permutation Sorted.

(** the four counts are the graph's; every reported list has exactly the
    elements of the set it is named after, once each, sorted *)
Theorem C20_analysis_faithful :
  forall g, NoDup (names g) -> analysis_faithful g (analyze g).
Proof. exact analyze_faithful. Qed.
Print Assumptions C20_analysis_faithful.

(** the same in the words of the property *)
Theorem C20_analysis_in_words :
  forall g, NoDup (names g) ->
  let a := analyze g in
  (forall t, In t (a_missing a) <-> missing_target g t) /\
  (forall x, In x (a_terminal a) <-> terminal_node g x) /\
  (forall x, In x (a_orphans a) <-> orphan_node g x) /\
  (forall x, In x (a_empty a) <-> has_empty_target g x) /\
  (forall t, In t (a_tvars a) <-> target_variable g t) /\
  ((exists i, uses_interpreter g i) -> forall i, In i (a_interpreters a) <-> uses_interpreter g i) /\
  ((forall i, ~ uses_interpreter g i) -> a_interpreters a = [default_interpreter]).
Proof. exact analyze_in_words. Qed.
Print Assumptions C20_analysis_in_words.

(** the computed lists used by the oracle are those propositions *)
Theorem C20_spec_lists_are_the_sets :
  forall g,
  (forall t, In t (g_missing g) <-> missing_target g t) /\
  (forall x, In x (g_terminal g) <-> terminal_node g x) /\
  (forall x, In x (g_orphans g) <-> orphan_node g x) /\
  (forall x, In x (g_empty g) <-> has_empty_target g x) /\
  (forall t, In t (g_tvars g) <-> target_variable g t) /\
  (forall x, In x (g_render_nodes g) <-> is_node g x \/ is_target g x) /\
  (forall t, In t (g_placeholders g) <-> is_target g t /\ ~ is_node g t).
Proof.
  exact (fun g => conj (g_missing_spec g) (conj (g_terminal_spec g) (conj (g_orphans_spec g)
          (conj (g_empty_spec g) (conj (g_tvars_spec g) (conj (g_render_nodes_spec g)
          (g_placeholders_spec g))))))).
Qed.
Print Assumptions C20_spec_lists_are_the_sets.

(** the iteration order of the map is not observable in the report *)
Theorem C20_analysis_order_independent :
  forall g g', NoDup (names g) -> Permutation g g' ->
  a_nodecount (analyze g) = a_nodecount (analyze g') /\
  a_branches (analyze g) = a_branches (analyze g') /\
  a_actions (analyze g) = a_actions (analyze g') /\
  a_guards (analyze g) = a_guards (analyze g') /\
  Permutation (a_terminal (analyze g)) (a_terminal (analyze g')) /\
  a_orphans (analyze g) = a_orphans (analyze g') /\
  a_empty (analyze g) = a_empty (analyze g') /\
  a_missing (analyze g) = a_missing (analyze g') /\
  a_tvars (analyze g) = a_tvars (analyze g') /\
  a_interpreters (analyze g) = a_interpreters (analyze g').
Proof. exact analyze_order_independent. Qed.
Print Assumptions C20_analysis_order_independent.

(** totality: no nil dereference on any graph - native actions, null nodes,
    targets that are not nodes included ([analyze] is a total function by
    its type) *)
Theorem C20_total :
  forall g, (exists l, dot g = Done l) /\ (exists m, mermaid g = Done m).
Proof. exact (fun g => conj (dot_total g) (mermaid_total g)). Qed.
Print Assumptions C20_total.

(** Graphviz: one node statement per spec node and per target that is not a
    node; the placeholders are exactly the latter; one edge per branch *)
Theorem C20_dot_nodes :
  forall g l, NoDup (names g) -> dot g = Done l ->
  Permutation (item_nodes (dot_items l)) (g_render_nodes g).
Proof. exact dot_nodes. Qed.
Print Assumptions C20_dot_nodes.

Theorem C20_dot_placeholders :
  forall g l, NoDup (names g) -> dot g = Done l ->
  Permutation (dot_placeholders l) (g_placeholders g).
Proof. exact dot_placeholders_spec. Qed.
Print Assumptions C20_dot_placeholders.

Theorem C20_dot_edges :
  forall g l, NoDup (names g) -> dot g = Done l ->
  Permutation (item_edges (dot_items l)) (g_edges g).
Proof. exact dot_edges. Qed.
Print Assumptions C20_dot_edges.

(** Mermaid: the generated ids are declared once each, every edge joins
    declared ids, and read through the declarations the statements are the
    same nodes and edges *)
Theorem C20_mermaid_items :
  forall g, NoDup (names g) ->
  exists m items,
    mermaid g = Done m /\ mer_items m = Some items /\
    Permutation (item_nodes items) (g_render_nodes g) /\
    Permutation (item_edges items) (g_edges g).
Proof. exact mermaid_items. Qed.
Print Assumptions C20_mermaid_items.

Theorem C20_renderers_agree :
  forall g l m, dot g = Done l -> mermaid g = Done m -> mer_items m = Some (dot_items l).
Proof. exact renderers_agree. Qed.
Print Assumptions C20_renderers_agree.

Theorem C20_render_order_independent :
  forall g g' l l',
  NoDup (names g) -> Permutation g g' -> dot g = Done l -> dot g' = Done l' ->
  Permutation (item_nodes (dot_items l)) (item_nodes (dot_items l')) /\
  Permutation (item_edges (dot_items l)) (item_edges (dot_items l')).
Proof. exact render_order_independent. Qed.
Print Assumptions C20_render_order_independent.

(** the boolean oracle evaluated on the implementation's output accepts
    exactly the renderings the theorems describe, and accepts the model's
    output on every graph *)
Theorem C20_oracle_sound :
  forall g l, render_ok g (GItems l) = true ->
  Permutation (item_nodes l) (g_render_nodes g) /\ Permutation (item_edges l) (g_edges g).
Proof. exact render_ok_sound. Qed.
Print Assumptions C20_oracle_sound.

Theorem C20_model_passes_oracle :
  forall g, NoDup (names g) ->
  c20_ok (model_case g) = true /\ c20_agrees (model_case g) = true.
Proof. exact (fun g H => conj (model_passes_oracle g H) (model_agrees_with_itself g H)). Qed.
Print Assumptions C20_model_passes_oracle.

(** the code before the repairs: D20 (nil dereference on a native action),
    D21 (edges dropped after a target that is not a node), D33 (null node) *)
Theorem C20_D20_refuted_prefix : ~ dot_old_total.
Proof. exact dot_old_total_refuted. Qed.
Print Assumptions C20_D20_refuted_prefix.

Theorem C20_D21_refuted_prefix : ~ dot_old_edges.
Proof. exact dot_old_edges_refuted. Qed.
Print Assumptions C20_D21_refuted_prefix.

Theorem C20_D33_refuted_prefix :
  analyze_old g_null = Panic /\
  exists l, dot_old g_null = Done l /\ item_nodes (dot_items l) = ["start"].
Proof. exact D33_refuted_prefix. Qed.
Print Assumptions C20_D33_refuted_prefix.

(** non-vacuity: [g_demo] (native and source actions, a guard, a missing, an
    empty and a variable target, a null node, odd names) meets the
    hypothesis, and the functions give on it what the theorems say *)
Example C20_demo_hypothesis : NoDup (names g_demo).
Proof. exact g_demo_NoDup. Qed.

Example C20_demo_analysis :
  analyze g_demo =
  mk_analysis 4 6 3 1 ["test-1"; "node"] ["node"; "start"] ["a b"] [""; "gone"] ["@from"]
              ["ecmascript"; "goja"].
Proof. vm_compute. reflexivity. Qed.

Example C20_demo_dot :
  exists l, dot g_demo = Done l /\
    item_nodes (dot_items l) = ["start"; "a b"; "gone"; "test-1"; "@from"; ""; "node"] /\
    dot_placeholders l = ["gone"; "@from"; ""] /\
    item_edges (dot_items l) =
      [("start", "a b"); ("start", "a b"); ("a b", "gone"); ("a b", "test-1");
       ("a b", "@from"); ("a b", "")].
Proof. eexists. vm_compute. repeat split. Qed.

Example C20_demo_mermaid :
  exists m, mermaid g_demo = Done m /\
    mer_table m = [(1, "start"); (2, "a b"); (3, "gone"); (4, "test-1"); (5, "@from"); (6, "");
                   (7, "node")]%nat /\
    match dot g_demo with Done l => mer_items m = Some (dot_items l) | Panic => False end.
Proof. eexists. vm_compute. repeat split. Qed.

Example C20_demo_order :
  a_missing (analyze (rev g_demo)) = a_missing (analyze g_demo) /\
  a_terminal (analyze (rev g_demo)) = rev (a_terminal (analyze g_demo)).
Proof. vm_compute. split; reflexivity. Qed.

(** * The text level: node names of any content

    [dot_id], [mermaid_text], [mermaid_nid] (Model/ToolsText.v) are dotID,
    mermaidText and the n%d ids of tools/dot.go, tools/mermaid.go, byte by
    byte.  A name is any sequence of bytes (quotes, backslashes, hashes,
    newlines, bytes that are not UTF-8 ...).  Two different names never get
    the same identifier, and a name never ends the quoted string it is
    written in: a reader that starts at the opening quote stops exactly at the
    closing quote that the renderer wrote, whatever follows. *)
From Sheens Require Import Corr.ToolsTextCorr Proofs.ToolsTextLink Proofs.ToolsTextTie.

Theorem C20_dot_ids_injective : forall a b : string, dot_id a = dot_id b -> a = b.
Proof. exact dot_id_injective. Qed.
Print Assumptions C20_dot_ids_injective.

Theorem C20_dot_id_reads_back : forall name : string, dot_unquote (dot_id name) = Some name.
Proof. exact dot_unquote_id. Qed.
Print Assumptions C20_dot_id_reads_back.

(** [dot_quoted_ok t]: [t] begins and ends with a quote, every quote between
    them stands behind an odd number of backslashes and the last one behind
    an even number *)
Theorem C20_dot_id_stays_quoted : forall name : string, dot_quoted_ok (dot_id name) = true.
Proof. exact dot_id_quoted_ok. Qed.
Print Assumptions C20_dot_id_stays_quoted.

Theorem C20_dot_id_ends_where_written :
  forall name rest : string, dot_scan (dot_id name ++ rest) = Some (name, rest).
Proof. exact dot_scan_id. Qed.
Print Assumptions C20_dot_id_ends_where_written.

Theorem C20_dot_edge_heads_injective :
  forall a b a' b' : string, dot_edge_head a b = dot_edge_head a' b' -> a = a' /\ b = b'.
Proof. exact dot_edge_head_injective. Qed.
Print Assumptions C20_dot_edge_heads_injective.

(** read by the rules of Graphviz' own scanner (which keeps a doubled
    backslash as it is) the identifier is the name with every backslash
    doubled: still one token, still a different one for every name *)
Theorem C20_dot_id_graphviz_reading :
  (forall name rest : string, gv_scan (dot_id name ++ rest) = Some (gv_name name, rest)) /\
  (forall a b : string, gv_name a = gv_name b -> a = b).
Proof. exact (conj gv_scan_id gv_name_injective). Qed.
Print Assumptions C20_dot_id_graphviz_reading.

Theorem C20_mermaid_texts_injective : forall a b : string, mermaid_text a = mermaid_text b -> a = b.
Proof. exact mermaid_text_injective. Qed.
Print Assumptions C20_mermaid_texts_injective.

Theorem C20_mermaid_text_reads_back : forall name : string, mermaid_untext (mermaid_text name) = Some name.
Proof. exact mermaid_untext_text. Qed.
Print Assumptions C20_mermaid_text_reads_back.

(** no quote at all in the text, so the label between its two quotes is one
    quoted string *)
Theorem C20_mermaid_text_stays_quoted :
  forall name : string,
  has_char dquote (mermaid_text name) = false /\ mermaid_quoted_ok (mermaid_label name) = true.
Proof. exact (fun name => conj (mermaid_text_no_quote name) (mermaid_label_quoted_ok name)). Qed.
Print Assumptions C20_mermaid_text_stays_quoted.

Theorem C20_mermaid_label_ends_where_written :
  forall name rest : string, mermaid_scan (mermaid_label name ++ rest) = Some (name, rest).
Proof. exact mermaid_scan_label. Qed.
Print Assumptions C20_mermaid_label_ends_where_written.

Theorem C20_mermaid_ids_injective : forall a b : nat, mermaid_nid a = mermaid_nid b -> a = b.
Proof. exact mermaid_nid_injective. Qed.
Print Assumptions C20_mermaid_ids_injective.

(** an id is the letter n and at least one digit, nothing else *)
Theorem C20_mermaid_id_shape :
  forall num : nat,
  exists ds, mermaid_nid num = String "n"%char ds /\ ds <> ""%string /\ all_chars is_digit ds = true.
Proof. exact mermaid_nid_shape. Qed.
Print Assumptions C20_mermaid_id_shape.

(** on top of the statement level: the node statements written for a graph
    carry pairwise different identifiers (ids, label texts) *)
Theorem C20_dot_rendered_ids_distinct :
  forall g l, NoDup (names g) -> dot g = Done l -> NoDup (map dot_id (item_nodes (dot_items l))).
Proof. exact dot_rendered_ids_distinct. Qed.
Print Assumptions C20_dot_rendered_ids_distinct.

Theorem C20_mermaid_rendered_ids_distinct :
  forall g, NoDup (names g) ->
  exists m, mermaid g = Done m /\
    NoDup (map (fun p => mermaid_nid (fst p)) (mer_table m)) /\
    NoDup (map (fun p => mermaid_text (snd p)) (mer_table m)).
Proof. exact mermaid_rendered_ids_distinct. Qed.
Print Assumptions C20_mermaid_rendered_ids_distinct.

(** the oracle of the correspondence run (decided on the Go text alone)
    accepts only texts that determine the name, and accepts the model's *)
Theorem C20_text_oracle_sound :
  forall name dot mer : string,
  tt_ok (mk_ttcase name dot mer) = true ->
  dot_unquote dot = Some name /\ dot_quoted_ok dot = true /\
  mermaid_untext mer = Some name /\ has_char dquote mer = false.
Proof. exact tt_ok_sound. Qed.
Print Assumptions C20_text_oracle_sound.

Theorem C20_text_model_passes_oracle :
  forall name : string,
  tt_ok (mk_ttcase name (dot_id name) (mermaid_text name)) = true /\
  tt_agrees (mk_ttcase name (dot_id name) (mermaid_text name)) = true.
Proof. exact tt_model_passes. Qed.
Print Assumptions C20_text_model_passes_oracle.

(** the label of a node statement, label=<...>, holds the name escaped by
    dotHTML (ampersand and angle brackets as entities).  Read by the nesting
    rule of Graphviz' scanner it ends exactly at the bracket Dot writes
    behind it, for every name and whatever follows, also with a doc string;
    and it reads back as the name *)
Theorem C20_dot_label_stays_inside :
  forall name rest : string, html_scan 1 (dot_label_name name ++ String rangle rest) = Some rest.
Proof. exact dot_label_stays_inside_holds. Qed.
Print Assumptions C20_dot_label_stays_inside.

Theorem C20_dot_node_label_stays_inside :
  forall name doc rest : string, html_scan 1 (dot_node_label name doc ++ String rangle rest) = Some rest.
Proof. exact dot_node_label_stays_inside. Qed.
Print Assumptions C20_dot_node_label_stays_inside.

Theorem C20_dot_label_readable_back :
  (forall name : string, html_unescape (dot_label_name name) = Some name) /\
  (forall a b : string, dot_label_name a = dot_label_name b -> a = b).
Proof. exact (conj dot_label_readable_back dot_label_name_injective). Qed.
Print Assumptions C20_dot_label_readable_back.

Theorem C20_text_label_oracle :
  (forall name label : string,
     tt_ok (mk_ttlabel name label) = true ->
     html_scan 1 (label ++ String rangle EmptyString) = Some EmptyString /\ html_unescape label = Some name) /\
  (forall name : string,
     tt_ok (mk_ttlabel name (dot_label_name name)) = true /\
     tt_agrees (mk_ttlabel name (dot_label_name name)) = true /\
     tt_ok (mk_ttdoc name (dot_html name)) = true /\
     tt_agrees (mk_ttdoc name (dot_html name)) = true).
Proof. exact (conj tt_label_ok_sound tt_model_label_passes). Qed.
Print Assumptions C20_text_label_oracle.

(** the three escaping functions are the byte-wise replacement by the tables
    harness/cmd/genconsts reads, on every run, from the strings.NewReplacer
    calls in dotID, dotHTML and mermaidText of the tree under test
    (Gen/Names.v); as functions from bytes to replacements the tables are
    the ones the theorems above describe: backslash and quote get a
    backslash, ampersand and angle brackets become entities, hash and quote
    become Mermaid entity codes, every other byte is copied *)
Theorem C20_escapes_are_source_tables :
  (forall s : string, dot_escape s = byte_replace dot_id_escapes s)
  /\ (forall s : string, dot_html s = byte_replace dot_html_escapes s)
  /\ (forall s : string, mermaid_text s = byte_replace mermaid_text_escapes s).
Proof. exact escapes_are_generated_tables. Qed.
Print Assumptions C20_escapes_are_source_tables.

Theorem C20_source_tables_as_functions :
  (forall c, lookup_byte dot_id_escapes c =
             if Ascii.eqb c bslash then Some (String bslash (String bslash EmptyString))
             else if Ascii.eqb c dquote then Some (String bslash (String dquote EmptyString))
             else None)
  /\ (forall c, lookup_byte dot_html_escapes c =
                if Ascii.eqb c amp then Some "&amp;"%string
                else if Ascii.eqb c langle then Some "&lt;"%string
                else if Ascii.eqb c rangle then Some "&gt;"%string
                else None)
  /\ (forall c, lookup_byte mermaid_text_escapes c =
                if Ascii.eqb c hash then Some "#35;"%string
                else if Ascii.eqb c dquote then Some "#quot;"%string
                else None).
Proof. exact (conj dot_id_table (conj dot_html_table mermaid_text_table)). Qed.
Print Assumptions C20_source_tables_as_functions.

Theorem C20_source_tables_have_distinct_olds :
  NoDup (map fst dot_id_escapes) /\ NoDup (map fst dot_html_escapes) /\ NoDup (map fst mermaid_text_escapes).
Proof. exact escape_tables_have_distinct_olds. Qed.
Print Assumptions C20_source_tables_have_distinct_olds.

(** D55, the code before the repair: the label held the raw name; the name >
    ended it early and the name < never ended it *)
Theorem C20_dot_raw_label_refuted :
  ~ (forall name rest : string, html_scan 1 (dot_label_raw name ++ String rangle rest) = Some rest).
Proof. exact dot_raw_label_stays_inside_refuted. Qed.
Print Assumptions C20_dot_raw_label_refuted.

(** non-vacuity: a name with a quote, two backslashes before a quote, a
    hash, a newline, a tab, a closing angle bracket, two bytes >= 128 (UTF-8
    for e-acute) and a backslash at the end *)
Example C20_text_demo :
  nasty_name = sb [97; 34; 92; 92; 34; 35; 10; 9; 62; 195; 169; 92]%Z /\
  dot_id nasty_name =
    sb [34; 97; 92; 34; 92; 92; 92; 92; 92; 34; 35; 10; 9; 62; 195; 169; 92; 92; 34]%Z /\
  dot_unquote (dot_id nasty_name) = Some nasty_name /\
  dot_quoted_ok (dot_id nasty_name) = true /\
  dot_scan (dot_id nasty_name ++ " -> x")%string = Some (nasty_name, " -> x"%string) /\
  mermaid_text nasty_name =
    ("a#quot;" ++ sb [92; 92]%Z ++ "#quot;#35;" ++ sb [10; 9; 62; 195; 169; 92]%Z)%string /\
  mermaid_untext (mermaid_text nasty_name) = Some nasty_name /\
  mermaid_nid 120 = "n120"%string /\
  dot_label_name nasty_name =
    (sb [97; 34; 92; 92; 34; 35; 10; 9]%Z ++ "&gt;" ++ sb [195; 169; 92]%Z)%string /\
  html_scan 1 (dot_label_name nasty_name ++ "> ]")%string = Some " ]"%string /\
  html_unescape (dot_label_name nasty_name) = Some nasty_name /\
  (* before the repair the label ended at the bracket inside the name *)
  html_scan 1 (dot_label_raw nasty_name ++ "> ]")%string = Some (sb [195; 169; 92]%Z ++ "> ]")%string /\
  (* an unescaped rendering would break: the raw name between quotes is not one quoted string *)
  dot_quoted_ok (String dquote (nasty_name ++ String dquote EmptyString)) = false /\
  (* and two different names would collapse if backslashes were not escaped *)
  dot_id (sb [92; 34]%Z) <> dot_id (sb [34]%Z).
Proof. vm_compute. repeat split. discriminate. Qed.
