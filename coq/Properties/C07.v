(** C07 - Processing is total: failures become error states or errors,
    never crashes.  Only statements, [exact], and Print Assumptions.

    The model functions [step] and [walk] (Model/Step.v) are total Gallina
    functions over EVERY specification, state (unknown node, absent
    bindings: [st_bs = None]), message list, action/guard behaviour [run]
    (error with and without a partial Execution, null results) and control
    (the harness passes no control in a third of the calls; the model then
    uses the generated default limit).  Their correspondence with
    Spec.Step / Spec.Walk - run under recover() and a watchdog - is what
    ties "the model returns normally" to "the Go code returns normally".
    What is proved here is the second sentence of the property: every
    failure is surfaced, as a returned error or as a transition to an
    error-handling node whose bindings carry the diagnostics. *)
From Sheens Require Import Model.Step Spec.WalkSpec Proofs.StepFacts Proofs.EngineFacts Proofs.WalkProofs.

Section C07.
Variable action : Type.
Variable run : action -> option bindings -> exec_raw.
Variable s : spec action.

(** inside a walk every step error becomes a transition to the error node
    whose bindings record the error, the node at which it occurred and the
    bindings at that point *)
Theorem C07_step_error_surfaced :
  forall st p e,
  so_err (step action run s st (peek p)) = Some e -> st_node st <> error_node_literal ->
  exists bs', sd_to (fst (walk_stride action run s st p)) = Some (mk_state error_node_literal (Some bs')) /\
              lookup "error" bs' = Some err_text /\
              lookup "lastNode" bs' = Some (JStr (st_node st)) /\
              lookup "lastBindings" bs' = Some (JObj (copy_bs (st_bs st))).
Proof. exact (walk_error_surfaced action run s). Qed.

(** an action failure is routed by the error settings: returned error,
    designated node carrying the error text, or error bindings handed to the
    node's branches *)
Theorem C07_action_failure_routed :
  forall st pending n a r,
  sp_compiled s = true -> find_node (st_node st) (sp_nodes s) = Some n ->
  nd_action n = Some a -> is_consumer action (nd_branching n) = false ->
  func_exec action run a (st_bs st) = (r, true) ->
  let ebs := bset "error" err_text (bset "actionError" err_text (copy_bs (st_bs st))) in
  lookup "error" ebs = Some err_text /\ lookup "actionError" ebs = Some err_text /\
  (forall k v, k <> "error" -> k <> "actionError" ->
               lookup k (copy_bs (st_bs st)) = Some v -> lookup k ebs = Some v) /\
  match sp_err_branches s, String.eqb (sp_err_node s) "" with
  | false, true => step action run s st pending = mk_step_out None (Some EAction) false
  | false, false =>
      step action run s st pending =
      mk_step_out (Some (mk_stride (copy_state st) (Some (mk_state (sp_err_node s) (Some ebs))) None (snd r)))
                  None false
  | true, _ => step action run s st pending = continue_ action run n st pending true (Some ebs) (snd r)
  end.
Proof. exact (action_error_routed action run s). Qed.

(** an action node that follows no branch goes to the error node with the diagnostics *)
Theorem C07_no_branch_surfaced :
  forall n st pending bs em sd,
  so_stride (continue_ action run n st pending true bs em) = Some sd ->
  (exists st', sd_to sd = Some (copy_state st') /\
               fst (fst (consider action run (nd_branching n) bs pending)) = TTo st') \/
  (exists bs', sd_to sd = Some (mk_state error_node_literal (Some bs')) /\
               lookup "error" bs' = Some no_branch_text /\
               lookup "lastNode" bs' = Some (JStr (st_node st)) /\
               lookup "lastBindings" bs' = Some (JObj (copy_bs (st_bs st)))).
Proof. exact (action_no_branch_surfaced action run). Qed.

(** a walk always returns a proper stop reason within its step bound *)
Theorem C07_walk_returns :
  forall bp limit st msgs w amb,
  Forall (fun m => m <> JNull) msgs -> walk action run s bp limit st msgs = (w, amb) ->
  w_stopped w <> InternalError /\ List.length (w_strides w) <= limit.
Proof.
  intros bp limit st msgs w amb Hn Hw. split.
  - exact (walk_never_internal_error action run s bp limit st msgs w amb Hn Hw).
  - exact (walk_step_bound action run s bp limit st msgs w amb Hn Hw).
Qed.
End C07.

From Sheens Require Import Proofs.MatchTerminates.
(** the matcher terminates on EVERY pattern, message and bindings - variable
    names inside messages and inside bound values included (after the D6
    repair) - within a fuel that is linear in the depths involved, for every
    iteration order; so the model's [EFuel] outcome cannot occur for inputs
    within the model's default fuel, and the Go recursion is bounded by the
    same measure (no unbounded recursion / stack overflow) *)
Theorem C07_matcher_terminates :
  forall ord, perm_oracle ord ->
  forall p f bs fuel, match_fuel_for p f bs <= fuel -> match_ ord fuel p f bs <> Fuel.
Proof. exact match_terminates. Qed.

Print Assumptions C07_matcher_terminates.
Print Assumptions C07_step_error_surfaced.
Print Assumptions C07_action_failure_routed.
Print Assumptions C07_no_branch_surfaced.
Print Assumptions C07_walk_returns.

(** the binding names and the node name of the statements above are those the
    engine model writes: it takes them from Spec.Step and Spec.Walk in the
    source of the tree under test (Gen/Names.v, written by
    harness/cmd/genconsts on every run) *)
Theorem C07_error_names_are_documented :
  step_action_error_key = "actionError" /\ step_error_key = "error"
  /\ step_last_node_key = "lastNode" /\ step_last_bindings_key = "lastBindings"
  /\ error_node_literal = "error".
Proof. exact error_names_documented. Qed.
Theorem C07_error_bindings_are_documented : forall base text from,
  error_bindings base text from
  = bset "lastBindings" (JObj (copy_bs (st_bs from)))
      (bset "lastNode" (JStr (st_node from)) (bset "error" text base)).
Proof. exact error_bindings_documented. Qed.
Print Assumptions C07_error_names_are_documented.
Print Assumptions C07_error_bindings_are_documented.

(** non-vacuity: a state without bindings at an unknown node *)
From Sheens Require Import Model.Action.
Example C07_nonvacuous :
  let s := mk_spec (action := act) [] false "" true in
  let sd := fst (walk_stride act run_act s (mk_state "nowhere" None) []) in
  option_map st_node (sd_to sd) = Some "error" /\
  option_map (fun st' => lookup "lastNode" (copy_bs (st_bs st'))) (sd_to sd) = Some (Some (JStr "nowhere")).
Proof. vm_compute. auto. Qed.
