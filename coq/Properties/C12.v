(** C12 - a compiled spec is shared immutable data; spec updates are atomic.
    Only statements, [exact], Print Assumptions and Examples.

    Model/Specter.v cuts Spec.Walk's loop ([walk_loop] of Model/Step.v) into
    atomic steps and runs any number of walkers under the interleaving
    semantics of Model/ConcJs.v, (a) with the specification as the shared
    state, (b) with an UpdatableSpec register that writers store into.
    Data-race freedom of the Go code is observed (race detector), not proved
    (partial). *)
From Sheens Require Import Model.Specter Model.Action Proofs.ConcBase Proofs.SpecShared.

(** threads whose steps hand the shared state back unchanged get, in every
    interleaving, what they get alone *)
Theorem C12_read_only_independent :
  forall (Sh L : Type) (step : Sh -> L -> Sh * L),
  (forall sh l, fst (step sh l) = sh) ->
  forall sched sh cfg,
  fst (interleave step sched sh cfg) = sh /\
  forall i, nth_error (snd (interleave step sched sh cfg)) i
            = option_map (iterate (turns i sched) (fun l => snd (step sh l))) (nth_error cfg i).
Proof. exact ro_run. Qed.
Print Assumptions C12_read_only_independent.

(** any number of machines walked against one specification, any schedule:
    the specification is as before and every walker that had its turns has
    exactly the result of Spec.Walk alone *)
Theorem C12_parallel_eq_alone :
  forall action run (s : spec action) sched (cfg : list walker) i bp limit st pend,
  nth_error cfg i = Some (bp, wst_init limit st pend) ->
  limit < turns i sched ->
  fst (interleave (spec_step action run) sched s cfg) = s /\
  option_map (fun t : walker => ws_res (snd t)) (nth_error (snd (interleave (spec_step action run) sched s cfg)) i)
  = Some (Some (walk action run s bp limit st pend)).
Proof. exact walkers_parallel_eq_alone. Qed.
Print Assumptions C12_parallel_eq_alone.

(** the atomic steps are Spec.Walk: iterating them gives [walk]'s result *)
Theorem C12_small_step_is_walk :
  forall action run (s : spec action) bp limit st pend k res,
  ws_res (iterate k (walk_step1 action run s bp) (wst_init limit st pend)) = Some res ->
  res = walk action run s bp limit st pend.
Proof. exact walk_result_unique. Qed.
Print Assumptions C12_small_step_is_walk.

(** every processing call (load ; walk) against an updatable specification,
    under every interleaving with stores and with other walkers: the result
    is the walk under ONE version, one the register held (initial or stored) *)
Theorem C12_swap_atomic :
  forall action run sched r0 cfg0 i bp limit st pend t res,
  Forall (fun t => match t with Walker _ (Some _) _ _ => False | _ => True end) cfg0 ->
  nth_error cfg0 i = Some (Walker action None bp (wst_init limit st pend)) ->
  nth_error (snd (interleave (reg_step action run) sched r0 cfg0)) i = Some t ->
  thr_result action t = Some res ->
  exists v, In v (reg_versions action r0 ++ flat_map (stored_by action) cfg0)
            /\ In v (reg_versions action (fst (interleave (reg_step action run) sched r0 cfg0)))
            /\ res = walk action run v bp limit st pend.
Proof. exact swap_atomic. Qed.
Print Assumptions C12_swap_atomic.

(** looking the version up again during the walk is not atomic *)
Theorem C12_reload_refuted : ~ swap_atomic_for (reload_step act run_act).
Proof. exact reload_refuted. Qed.
Print Assumptions C12_reload_refuted.

(** the read-only hypothesis is needed: a lazily filled shared cache makes a
    thread's result depend on the others *)
Theorem C12_hidden_write_refuted :
  nth_error (snd (interleave caching_step [0; 1] 0 [10; 10])) 1
  <> nth_error (snd (interleave caching_step [1] 0 [10; 10])) 1.
Proof. exact hidden_write_breaks_independence. Qed.
Print Assumptions C12_hidden_write_refuted.

(** non-vacuity: two versions whose walks differ; load-once finishes under the
    version it started with although the other is stored in the middle; the
    re-reading variant ends in a node neither version reaches *)
Example C12_nonvacuous :
  final_node (Some (awalk version_a (fun _ => false) 5 (mk_state "start" (Some [])) two_msgs)) = "enda"
  /\ final_node (Some (awalk version_b (fun _ => false) 5 (mk_state "start" (Some [])) two_msgs)) = "endb"
  /\ final_of (snd (interleave (reg_step act run_act) swap_sched (version_a, []) swap_cfg)) = "enda"
  /\ final_of (snd (interleave (reload_step act run_act) swap_sched (version_a, []) swap_cfg)) = "mixed".
Proof.
  destruct sequential_versions as [Ha Hb].
  split; [exact Ha | split; [exact Hb | split; [exact load_once_example | exact reload_mixes_versions]]].
Qed.
