(** C09 - State is plain data: persisting and restoring a machine is
    unobservable.  Only statements, [exact], and Print Assumptions.

    [gval] (Model/Repr.v) is a tree of Go values with the representation
    tags the matcher can tell apart (float64 / int64 numbers, plain maps /
    match.Bindings-typed maps); [roundtrip] is Marshal-then-Unmarshal;
    [is_canon] = float64 and plain maps everywhere.  Persisting a state is
    unobservable - the reloaded state is the very same Go value - exactly
    when it is canonical, and the engine only lets canonical values into a
    state: message parts and bound values (JSON data by construction),
    the canonicalised result of an ECMAScript action, the plain-map copy of
    the bindings saved at the error node.  The engine model itself
    (Model/Step.v) works on canonical data ([json]); that the Go states are
    canonical at every message boundary is the invariant the harness checks
    on the implementation, next to the direct comparison of a run that
    round-trips the state with one that does not. *)
From Sheens Require Import Model.Repr Proofs.ReprProofs.

(** a canonical state survives persisting unchanged *)
Theorem C09_roundtrip_of_canonical_is_identity :
  forall g, is_canon g = true -> roundtrip g = g.
Proof. exact roundtrip_canonical. Qed.

(** whatever is read back is canonical and is the same datum; reading it back again changes nothing *)
Theorem C09_roundtrip_yields_canonical : forall g, is_canon (roundtrip g) = true.
Proof. exact roundtrip_is_canon. Qed.
Theorem C09_roundtrip_keeps_the_datum : forall g, canon (roundtrip g) = canon g.
Proof. exact roundtrip_same_datum. Qed.
Theorem C09_roundtrip_idempotent : forall g, roundtrip (roundtrip g) = roundtrip g.
Proof. exact roundtrip_idempotent. Qed.

(** what an ECMAScript action returns is stored canonically - for every
    JSON-representable result: integers, fractions, nested arrays and objects, nulls *)
Theorem C09_script_results_are_canonical :
  forall j, is_canon (js_result j) = true /\ canon (js_result j) = j.
Proof. exact js_result_canonical. Qed.
Theorem C09_script_results_survive_persisting :
  forall j, roundtrip (js_result j) = js_result j.
Proof. exact js_result_survives_persisting. Qed.

(** the diagnostic bindings saved at the error node are plain data *)
Theorem C09_saved_bindings_are_canonical :
  forall b, is_canon (last_bindings b) = true /\ roundtrip (last_bindings b) = last_bindings b.
Proof. exact last_bindings_canonical. Qed.

(** before the repairs (D7: exported int64 inside arrays; D8: typed map) persisting WAS observable *)
Theorem C09_refuted_before_D7 : exists j, roundtrip (js_result_before_D7 j) <> js_result_before_D7 j.
Proof. exact js_result_before_D7_refuted. Qed.
Theorem C09_refuted_before_D8 : exists b, roundtrip (last_bindings_before_D8 b) <> last_bindings_before_D8 b.
Proof. exact last_bindings_before_D8_refuted. Qed.

(** the text level: a state written out as JSON text ({"node":...,"bs":{...}})
    and parsed back is the very same state, for every state in the text
    fragment of Model/JsonText.v (no string escapes; numbers in quarters),
    absent bindings included; so whatever is computed from the reloaded state
    - every later transition, binding and emission of [walk] - is what is
    computed from the state in memory *)
From Sheens Require Import Model.StateText Proofs.StateTextProofs Model.Action.
Theorem C09_state_text_roundtrip :
  forall st, plain_state st = true -> decode_state (encode_state st) = Some st.
Proof. exact decode_encode_state. Qed.

Theorem C09_reload_unobservable :
  forall (A : Type) (process : state -> A) st,
  plain_state st = true ->
  option_map process (decode_state (encode_state st)) = Some (process st).
Proof. exact reload_unobservable. Qed.

Theorem C09_stored_text_determines_state :
  forall a b, plain_state a = true -> plain_state b = true -> encode_state a = encode_state b -> a = b.
Proof. exact encode_state_inj. Qed.

Example C09_text_nonvacuous :
  let st := mk_state "listen" (Some [("?n", JNum 10); ("xs", JArr [JNum 4; JNull; JObj [("k", JStr "v")]])]) in
  plain_state st = true /\
  encode_state st = "{""node"":""listen"",""bs"":{""?n"":2.5,""xs"":[1,null,{""k"":""v""}]}}"%string /\
  decode_state (encode_state st) = Some st.
Proof. vm_compute. auto. Qed.

Print Assumptions C09_state_text_roundtrip.
Print Assumptions C09_reload_unobservable.
Print Assumptions C09_stored_text_determines_state.
Print Assumptions C09_roundtrip_of_canonical_is_identity.
Print Assumptions C09_roundtrip_yields_canonical.
Print Assumptions C09_roundtrip_keeps_the_datum.
Print Assumptions C09_roundtrip_idempotent.
Print Assumptions C09_script_results_are_canonical.
Print Assumptions C09_script_results_survive_persisting.
Print Assumptions C09_saved_bindings_are_canonical.
Print Assumptions C09_refuted_before_D7.
Print Assumptions C09_refuted_before_D8.

Example C09_nonvacuous :
  let j := JObj [("n", JNum 8); ("xs", JArr [JNum 4; JNum 2; JObj [("k", JNull)]])] in
  is_canon (export_goja j) = false /\ is_canon (js_result j) = true /\ canon (js_result j) = j.
Proof. vm_compute. auto. Qed.

(** * The text level with string escapes (Model/StateTextEsc.v:
    [encode_state_esc] / [decode_state_esc] are [encode_state] /
    [decode_state] over the text model of Model/JsonTextEsc.v, which writes
    and reads quotes, backslashes, control characters, [<], [>], [&] the way
    encoding/json does).  [ascii_state st]: the node name, the binding names
    and every bound string are made of bytes below 128, whatever those bytes
    are.  In the model the round trip holds of every byte string (the
    [_bytes] statements); [ascii_state] is what ties the model to Go. *)
From Sheens Require Import Model.StateTextEsc Proofs.StateTextEscProofs.

Theorem C09_state_text_roundtrip_escapes :
  forall st, ascii_state st = true -> decode_state_esc (encode_state_esc st) = Some st.
Proof. exact decode_encode_state_esc. Qed.
Print Assumptions C09_state_text_roundtrip_escapes.

Theorem C09_state_text_injective_escapes :
  forall a b,
    ascii_state a = true -> ascii_state b = true -> encode_state_esc a = encode_state_esc b -> a = b.
Proof. exact encode_state_esc_inj. Qed.
Print Assumptions C09_state_text_injective_escapes.

Theorem C09_reload_unobservable_escapes :
  forall (A : Type) (process : state -> A) st,
  ascii_state st = true ->
  option_map process (decode_state_esc (encode_state_esc st)) = Some (process st).
Proof. exact reload_unobservable_esc. Qed.
Print Assumptions C09_reload_unobservable_escapes.

Theorem C09_state_text_roundtrip_escapes_bytes :
  (forall st, decode_state_esc (encode_state_esc st) = Some st)
  /\ (forall a b, encode_state_esc a = encode_state_esc b -> a = b).
Proof. exact (conj decode_encode_state_esc_bytes encode_state_esc_inj_bytes). Qed.
Print Assumptions C09_state_text_roundtrip_escapes_bytes.

(** conservativity: whatever stored text the decoder without escapes reads,
    the decoder with escapes reads as the same state; where no string needs
    an escape the two encoders write the same text; on every plain state the
    two pipelines agree *)
Theorem C09_state_text_escapes_conservative :
  (forall s st, decode_state s = Some st -> decode_state_esc s = Some st)
  /\ (forall st, noesc_state st = true -> encode_state_esc st = encode_state st)
  /\ (forall st, plain_state st = true -> decode_state_esc (encode_state st) = Some st)
  /\ (forall st, plain_state st = true ->
        decode_state_esc (encode_state_esc st) = decode_state (encode_state st)).
Proof.
  exact (conj decode_state_esc_conservative
        (conj encode_state_esc_noesc
        (conj decode_esc_encode_plain state_text_esc_conservative))).
Qed.
Print Assumptions C09_state_text_escapes_conservative.

(** non-vacuity: a node name, a binding name and a bound string with a
    quote, a backslash and a newline (and [<], [&]); the text Go stores; the
    encoding without escapes does not survive the round trip *)
Example C09_text_escapes_nonvacuous :
  let s := ("a""b\c" ++ String "010"%char "<&")%string in
  let st := mk_state s (Some [(s, JArr [JStr s; JNum 10])]) in
  ascii_state st = true /\ plain_state st = false /\
  encode_state_esc st
  = "{""node"":""a\""b\\c\n\u003c\u0026"",""bs"":{""a\""b\\c\n\u003c\u0026"":[""a\""b\\c\n\u003c\u0026"",2.5]}}"%string /\
  decode_state_esc (encode_state_esc st) = Some st /\
  decode_state (encode_state st) = None /\
  decode_state_esc "{""bs"":null,""node"":""A\/""}" = Some (mk_state "A/" None).
Proof. vm_compute. repeat split; reflexivity. Qed.
