(** What a sound verdict of the expectation tool means, written from the
    property text and the package documentation (tools/expect: "Pattern must
    be matched by an emitted message", "Guard ... is called to execute
    procedural code to verify the bindings after a match", "Inverted means
    that matching output isn't desired", "OutputSet is the set (not a list)
    of outputs to verify") -- not from the reader loop.

    A passing run must be explained by a *segmentation* of the emitted
    stream: one segment of consecutive lines per step, in order, each line in
    at most one segment, the segment of step [k] drawn only from lines that
    had been emitted by the end of step [k]; within its segment every
    expected output of the step is met by some line (matched by the pattern
    and accepted by the guard), and no line of the segment is met by a
    forbidden (inverted) output. *)
From Sheens Require Export Model.Expect.

(** the message is what the output asks for: the pattern matches it and the
    guard (if any) accepts the bindings of the match *)
Definition accepts (o : output) (m : json) : Prop :=
  exists b rest, Match (o_pat o) m [] = Ok (b :: rest) /\ guard_exec (o_guard o) b = GuardOk.

Definition accepts_b (o : output) (m : json) : bool :=
  match Match (o_pat o) m [] with
  | Ok (b :: _) => match guard_exec (o_guard o) b with GuardOk => true | _ => false end
  | _ => false
  end.

(** one step against the lines attributed to it *)
Definition step_ok (outs : list output) (seg : list line) : Prop :=
  (forall o, In o outs -> o_inv o = false -> exists m, In (Some m) seg /\ accepts o m) /\
  (forall o m, In o outs -> o_inv o = true -> In (Some m) seg -> ~ accepts o m).

(** the segments are consecutive pieces of the stream, and the first [k]
    segments use only what the first [k] chunks delivered *)
Definition causal (segs chunks : list (list line)) : Prop :=
  forall k, k <= List.length segs ->
  exists rest, List.concat (firstn k segs) ++ rest = List.concat (firstn k chunks).

Definition session_sound (steps : list (list output)) (chunks : list (list line)) : Prop :=
  exists segs, causal segs chunks /\ Forall2 step_ok steps segs.

(** * The same, decidable: the oracle evaluated on the implementation's verdict *)
Definition line_accepted (o : output) (l : line) : bool :=
  match l with Some m => accepts_b o m | None => false end.

Definition step_ok_b (outs : list output) (seg : list line) : bool :=
  forallb (fun o => if o_inv o then negb (existsb (line_accepted o) seg)
                    else existsb (line_accepted o) seg) outs.

(** every way of cutting a list in two *)
Fixpoint splits {A : Type} (l : list A) : list (list A * list A) :=
  ([], l) :: match l with
             | [] => []
             | x :: r => map (fun p => (x :: fst p, snd p)) (splits r)
             end.

(** is there a segmentation?  [pending] = emitted and not yet attributed *)
Fixpoint sound_from (steps : list (list output)) (chunks : list (list line))
         (pending : list line) : bool :=
  match steps with
  | [] => true
  | outs :: more =>
      existsb (fun p => step_ok_b outs (fst p) && sound_from more (tl chunks) (snd p))
              (splits (pending ++ hd [] chunks))
  end.

Definition session_sound_b (steps : list (list output)) (chunks : list (list line)) : bool :=
  sound_from steps chunks [].

(** an expected output of step [k] that nothing emitted by the end of that
    step satisfies: the message "never arrives before the timeout" *)
Definition never_arrives (steps : list (list output)) (chunks : list (list line)) : Prop :=
  exists k outs o,
    nth_error steps k = Some outs /\ In o outs /\ o_inv o = false /\
    forall m, In (Some m) (List.concat (firstn (S k) chunks)) -> ~ accepts o m.

(** an expected output that no line of the whole stream satisfies, whatever
    else the stream contains (and however often) *)
Definition unmet_anywhere (steps : list (list output)) (chunks : list (list line)) : Prop :=
  exists outs o,
    In outs steps /\ In o outs /\ o_inv o = false /\
    forall m, In (Some m) (List.concat chunks) -> ~ accepts o m.

Definition unmet_anywhere_b (steps : list (list output)) (chunks : list (list line)) : bool :=
  existsb (fun outs => existsb (fun o => negb (o_inv o) &&
                                         negb (existsb (line_accepted o) (List.concat chunks))) outs) steps.

(** * A sufficient condition for passing (the converse direction, partial):
    during every step at least one JSON line and, for every expected output
    of the step, a line that meets it are emitted; nothing in the stream
    makes a pattern match or a guard fail with an error; nothing in the
    stream meets a forbidden output of any step. *)
Definition step_met (outs : list output) (chunk : list line) : Prop :=
  (exists m, In (Some m) chunk) /\
  (forall o, In o outs -> o_inv o = false -> exists m, In (Some m) chunk /\ accepts o m).

Definition no_errors (steps : list (list output)) (ls : list line) : Prop :=
  forall outs o m w, In outs steps -> In o outs -> In (Some m) ls -> try_output o m <> OFail w.

Definition nothing_forbidden (steps : list (list output)) (ls : list line) : Prop :=
  forall outs o m, In outs steps -> In o outs -> o_inv o = true -> In (Some m) ls -> ~ accepts o m.

(** [never_arrives], decidable *)
Fixpoint never_arrives_from (k : nat) (steps : list (list output)) (chunks : list (list line)) : bool :=
  match steps with
  | [] => false
  | outs :: more =>
      existsb (fun o => negb (o_inv o) &&
                        negb (existsb (line_accepted o) (List.concat (firstn (S k) chunks)))) outs
      || never_arrives_from (S k) more chunks
  end.

Definition never_arrives_b (steps : list (list output)) (chunks : list (list line)) : bool :=
  never_arrives_from 0 steps chunks.

(** * Where a step's segment ends: at the first JSON line with which every
    expected output of the step has been met ("up to the point the step
    completed").  [seg] ends in a JSON line, and at every earlier JSON line
    of it some expected output was still unmet. *)
Definition step_minimal (outs : list output) (seg : list line) : Prop :=
  exists pre m, seg = pre ++ [Some m] /\
    forall pre1 m1 post1, pre = pre1 ++ Some m1 :: post1 ->
      exists o, In o outs /\ o_inv o = false /\
                forall m', In (Some m') (pre1 ++ [Some m1]) -> ~ accepts o m'.

(** * No step is vacuous: the tool examines at least one emitted message in
    every step (a step made of forbidden outputs only still looks at the next
    message; [step_minimal] segments end in a JSON line).  The segmentation
    that explains a pass must give every step a JSON line. *)
Definition has_json (seg : list line) : bool :=
  existsb (fun l : line => match l with Some _ => true | None => false end) seg.

Definition session_sound_nv (steps : list (list output)) (chunks : list (list line)) : Prop :=
  exists segs, causal segs chunks /\
               Forall2 (fun outs seg => step_ok outs seg /\ has_json seg = true) steps segs.

Fixpoint sound_nv_from (steps : list (list output)) (chunks : list (list line))
         (pending : list line) : bool :=
  match steps with
  | [] => true
  | outs :: more =>
      existsb (fun p => step_ok_b outs (fst p) && has_json (fst p)
                        && sound_nv_from more (tl chunks) (snd p))
              (splits (pending ++ hd [] chunks))
  end.

Definition session_sound_nv_b (steps : list (list output)) (chunks : list (list line)) : bool :=
  sound_nv_from steps chunks [].
