(** Specifications for the mcrew service, written from the property texts
    (C16, C14) and the documentation (README / doc/by-example.md "Message
    routing"), not from the code:

    - [hist_step]: what a client may observe of a crew whose memory advances
      only with a successful write.  An automaton driven by (request,
      response) pairs alone: it tracks the crew that the responses so far
      imply and whether the store is up, and accepts a response only if it is
      the response of the sequential crew in that state (an added machine
      appears, a removed one vanishes, every walk starts from the machine's
      current state - no update is lost -, writes fail iff the store is down
      or a record of the batch cannot be serialised, a batch is written
      entirely or not at all, and a failed operation changes nothing).  It does not say what a walk computes.
    - [addressed]: the machines a message is addressed to.
    - [expect]: for a tree of messages (every recorder forwards the members of
      "fwd"), who must receive what, how often. *)
From Sheens Require Export Spec.WalkSpec Model.MCrew.

Definition mrec_eqb (a b : mrec) : bool :=
  String.eqb (r_spec a) (r_spec b) && String.eqb (r_node a) (r_node b)
  && bindings_eqb (r_bs a) (r_bs b).
Definition mentry_eqb (a b : string * mrec) : bool :=
  String.eqb (fst a) (fst b) && mrec_eqb (snd a) (snd b).
Definition mmap_eqb (a b : mmap) : bool := list_eqb mentry_eqb a b.
Definition nb_eqb (a b : string * bindings) : bool :=
  String.eqb (fst a) (fst b) && bindings_eqb (snd a) (snd b).

(** the ids of a crew are strictly ascending (so: unique, as in every Go map) *)
Definition mkeys (m : mmap) : bindings := map (fun e : string * mrec => (fst e, JNull)) m.
Definition msorted (m : mmap) : Prop := sorted_keys (mkeys m) = true.

(** ---- C16 ------------------------------------------------------------- *)

Record hst : Type := mk_hst { h_cur : mmap; h_up : bool }.

Definition hst0 : hst := mk_hst [] true.
(** what a client can know of a service state *)
Definition hst_of (s : svc) : hst := mk_hst (mem s) (up s).

(** responses after which the crew must be exactly as it was *)
Definition must_not_change (r : resp) : bool :=
  match r with
  | PErr | PSpecErr | PExists | PPanic | PProcessed true _ | PCrew _ | PFault => true
  | _ => false
  end.

Definition walked_from_cur (cur : mmap) (mw : string * wobs) : bool :=
  match mget (fst mw) cur with
  | Some r => nb_eqb (r_node r, r_bs r) (wo_from (snd mw))
  | None => false
  end.

Definition is_nil {A : Type} (l : list A) : bool := match l with [] => true | _ => false end.

Definition hist_step (h : hst) (q : req) (r : resp) : option hst :=
  match q, r with
  | RAdd spec id node bs bad, POk =>
      if negb (mhas id (h_cur h)) && h_up h && negb bad
      then Some (mk_hst (mset id (mk_mrec spec (start_if_empty node) bs) (h_cur h)) (h_up h))
      else None
  | RAdd _ id _ _ _, PExists => if mhas id (h_cur h) then Some h else None
  | RAdd _ id _ _ bad, PErr =>
      if negb (mhas id (h_cur h)) && (negb (h_up h) || bad) then Some h else None
  | RRem id, POk => if h_up h then Some (mk_hst (mdel id (h_cur h)) (h_up h)) else None
  | RRem _, PErr => if negb (h_up h) then Some h else None
  | RProcess _, PSpecErr => Some h
  | RProcess _, PProcessed err ws =>
      if forallb (walked_from_cur (h_cur h)) ws && nodup_keys (map fst ws) then
        let ch := changes ws in
        (* the write of a non-empty batch succeeds iff the store is up and
           every end state of the batch can be serialised; it fails as a whole *)
        let can_write := h_up h && all_serialisable ch in
        if err then (if negb can_write && negb (is_nil ch) then Some h else None)
        else if can_write || is_nil ch
             then Some (mk_hst (set_states ch (h_cur h)) (h_up h)) else None
      else None
  | RGet, PCrew m => if mmap_eqb m (h_cur h) then Some h else None
  | RFault u, PFault => Some (mk_hst (h_cur h) u)
  | _, _ => None
  end.

Fixpoint hist_run (h : hst) (evs : list (req * resp)) : option hst :=
  match evs with
  | [] => Some h
  | (q, r) :: rest =>
      match hist_step h q r with
      | Some h' => hist_run h' rest
      | None => None
      end
  end.

(** ---- C14 ------------------------------------------------------------- *)

(** The reserved destinations of the mcrew container as its documentation
    gives them (cmd/mcrew/README.md: "to":"ws", "to":"timers", "to":"http");
    cmd/mdb documents none.  Written here from the documentation; the model
    ([mcrew_services], [mdb_services]) takes its names from the source. *)
Definition documented_services : list string := ["ws"; "http"; "timers"].
Definition documented_mdb_services : list string := [].

Definition named_in (l : list json) (id : string) : bool :=
  existsb (fun x => match x with JStr s => String.eqb s id | _ => false end) l.

(** The machines (among [ids]) a message is addressed to: the named machine
    or machines when it carries a routing target ("*" = everybody; a list
    names its string members, each once; unknown ids name nobody), every
    machine otherwise; a reserved service name addresses the service, not a
    machine. *)
Definition addressed (services ids : list string) (msg : json) : list string :=
  match msg with
  | JObj kvs =>
      match assoc "to" kvs with
      | Some (JStr s) =>
          if String.eqb s "*" then ids
          else if existsb (String.eqb s) services then []
          else filter (String.eqb s) ids
      | Some (JArr l) => filter (named_in l) ids
      | _ => ids
      end
  | _ => ids
  end.

(** what cmd/mcrew and cmd/mdb do instead (D12): only a string names a
    machine, "*" is an ordinary id, any other "to" is ignored *)
Definition mcrew_rule (services ids : list string) (msg : json) : list string :=
  match msg with
  | JObj kvs =>
      match assoc "to" kvs with
      | Some (JStr s) =>
          if existsb (String.eqb s) services then [] else filter (String.eqb s) ids
      | _ => ids
      end
  | _ => ids
  end.

(** the targets on which the two rules can differ *)
Definition d12_target (msg : json) : bool :=
  match msg with
  | JObj kvs =>
      match assoc "to" kvs with
      | Some (JStr s) => String.eqb s "*"
      | Some (JArr _) => true
      | _ => false
      end
  | _ => false
  end.

Definition msg_id (msg : json) : json :=
  match msg with
  | JObj kvs => match assoc "id" kvs with Some v => v | None => JNull end
  | _ => JNull
  end.
Definition msg_fwd (msg : json) : list json :=
  match msg with
  | JObj kvs => match assoc "fwd" kvs with Some (JArr l) => l | _ => [] end
  | _ => []
  end.
(** a message the recorder machines react to *)
Definition recordable (msg : json) : bool :=
  match msg with
  | JObj kvs =>
      match assoc "id" kvs, assoc "fwd" kvs with Some _, Some _ => true | _, _ => false end
  | _ => false
  end.

Section Expect.
  (** [who ids msg]: the addressing rule *)
  Variable who : json -> list string.

  (** [occ] copies of [msg] are submitted; every machine that receives one
      forwards each member of "fwd" once.  Result: the deliveries (message
      id, machine) and the ids of all processed messages, with
      multiplicity. *)
  Fixpoint expect (fuel occ : nat) (msg : json) : list (json * string) * list json :=
    match fuel with
    | O => ([], [])
    | Datatypes.S f =>
        let tos := who msg in
        let sub := map (expect f (occ * List.length tos)) (msg_fwd msg) in
        (flat_map (fun mid => repeat (msg_id msg, mid) occ) tos ++ flat_map fst sub,
         repeat (msg_id msg) occ ++ flat_map snd sub)
    end.

  Fixpoint all_recordable (fuel : nat) (msg : json) : bool :=
    match fuel with
    | O => false
    | Datatypes.S f => recordable msg && forallb (all_recordable f) (msg_fwd msg)
    end.
End Expect.
