(** The guard log of the MODEL.

    [Model/Step.v] fixes the order in which a branch's guard sees the
    candidates its pattern produced (the order of [Match]); Go's matcher
    lists them in map-iteration order, so for a guarded branch with several
    acceptable candidates the implementation may show any of several
    behaviours, and the model flags the step [so_ambiguous].

    This file gives the model's account of ALL those behaviours: an
    instrumented copy of [guard_loop] / [try_branch] / [first_branch] /
    [consider] / [step], parameterised by a candidate-order oracle [cord]
    (which permutes the candidate list of each branch, and may permute the
    lists of different branches differently), that returns, together with
    the step result, the list of guard calls made, in order: branch index in
    the current node's list, candidate, verdict.  (The log type is declared
    here and converted to Corr/StepCorr.v's [gcall] in
    Proofs/GuardLogProofs.v: Spec/ does not import Corr/.)

    With the identity order the instrumented functions erase to the existing
    ones ([*_erase], at the end).  Everything holds for every action type
    and every behaviour [run] of actions and guards. *)
From Sheens Require Export Model.Step.

(** one call of a guard as the model makes it *)
Record mcall : Type := mk_mcall {
  mc_idx : nat;                   (* index of the branch in the node's list *)
  mc_cand : option bindings;      (* the candidate given to the guard *)
  mc_says : guard_says            (* what the guard said *)
}.

(** a candidate-order oracle: for the branch with a given index, the order in
    which the matcher lists the candidates.  Each branch is tried at most
    once in a step, and the oracle sees both the index and the list, so
    every assignment of orders to the branches of a node is some oracle. *)
Definition cand_oracle := nat -> list (option bindings) -> list (option bindings).
Definition cand_id : cand_oracle := fun _ l => l.
(** what theorems assume of an oracle: it only reorders *)
Definition cand_perm (cord : cand_oracle) : Prop :=
  forall (i : nat) (l : list (option bindings)), Permutation (cord i l) l.
(** the oracles of Model/Match.v are candidate oracles *)
Definition cand_of_order (ord : order_oracle) : cand_oracle :=
  fun _ l => ord (option bindings) l.

Lemma cand_id_perm : cand_perm cand_id.
Proof. intros i l. apply Permutation_refl. Qed.
Lemma cand_of_order_perm (ord : order_oracle) : perm_oracle ord -> cand_perm (cand_of_order ord).
Proof. intros H i l. apply H. Qed.
Lemma cand_of_order_id : cand_of_order ord_id = cand_id.
Proof. reflexivity. Qed.

Section Logged.
  Variable action : Type.
  Variable run : action -> option bindings -> exec_raw.
  Variable cord : cand_oracle.

  (** the guard loop of Branch.try, recording every call *)
  Fixpoint guard_loop_logged (i : nat) (g : action) (cands : list (option bindings))
    : option (option bindings) * list mcall :=
    match cands with
    | [] => (Some None, [])
    | c :: r =>
        let '((ob, _), err) := func_exec action run g c in
        if err then (None, [mk_mcall i c GFail])
        else match ob with
             | Some b => (Some (Some b), [mk_mcall i c (GAccept b)])
             | None =>
                 let '(x, l) := guard_loop_logged i g r in (x, mk_mcall i c GReject :: l)
             end
    end.

  (** Branch.try for the branch with index [i]; the candidates are presented
      in the oracle's order *)
  Definition try_branch_logged (i : nat) (b : branch action) (bs : option bindings) (against : json)
    : try_res * bool * list mcall :=
    let cands : res (list (option bindings)) :=
      match br_pattern b with
      | Some p =>
          match Match p against (copy_bs bs) with
          | Ok r => Ok (map Some r)
          | Err => Err
          | Fuel => Fuel
          end
      | None => Ok [bs]
      end in
    match cands with
    | Err => (TErr EMatch, false, [])
    | Fuel => (TErr EFuel, false, [])
    | Ok cs0 =>
        let cs := cord i cs0 in
        let ambiguous :=
          match br_guard b, cs with
          | Some g, _ :: _ :: _ => negb (guard_order_free action run g cs)
          | _, _ => false
          end in
        let chosen : option (option bindings) * list mcall :=
          match br_guard b with
          | None =>
              (match cs with
               | [] => Some None
               | [c] => Some c
               | _ => None
               end, [])
          | Some g => guard_loop_logged i g cs
          end in
        match fst chosen with
        | None => (TErr (match br_guard b with None => ETooMany | Some _ => EGuard end),
                   ambiguous, snd chosen)
        | Some None => (TNone, ambiguous, snd chosen)
        | Some (Some bs') => (TTo (mk_state (target action b bs') (Some bs')), ambiguous, snd chosen)
        end
    end.

  (** the branches from index [i] on *)
  Fixpoint first_branch_logged (i : nat) (brs : list (branch action)) (bs : option bindings)
           (against : json) : try_res * bool * list mcall :=
    match brs with
    | [] => (TNone, false, [])
    | b :: r =>
        match try_branch_logged i b bs against with
        | (TNone, amb, l) =>
            let '(t, amb', l') := first_branch_logged (S i) r bs against in
            (t, amb || amb', l ++ l')
        | other => other
        end
    end.

  (** Branches.consider: (result, consumer flag, ambiguous, log) *)
  Definition consider_logged (bg : option (branching action)) (bs : option bindings)
             (pending : option json) : try_res * bool * bool * list mcall :=
    match bg with
    | None => (TNone, false, false, [])
    | Some b =>
        let consumer := String.eqb (bg_type b) "message" in
        if consumer then
          match pending with
          | None => (TNone, true, false, [])
          | Some m =>
              let '(t, amb, l) := first_branch_logged 0 (bg_branches b) bs m in (t, true, amb, l)
          end
        else
          let '(t, amb, l) := first_branch_logged 0 (bg_branches b) bs (JObj (copy_bs bs)) in
          (t, false, amb, l)
    end.

  (** the part of Spec.Step after the action (the [continue] closure of
      [step]): the branches of node [n] are considered with [bs] *)
  Definition continue_logged (n : node action) (st : state) (pending : option json)
             (have : bool) (bs : option bindings) (emitted : list json) : step_out * list mcall :=
    let from := copy_state st in
    let '(tr, consumer, amb, log) := consider_logged (nd_branching n) bs pending in
    let consumed := if consumer then pending else None in
    match tr with
    | TTo st' =>
        (mk_step_out (Some (mk_stride from (Some (copy_state st')) consumed emitted)) None amb, log)
    | _ =>
        let err := match tr with TErr e => Some e | _ => None end in
        let to :=
          if have then
            Some (mk_state error_node_literal
                           (Some (error_bindings (copy_bs bs) no_branch_text st)))
          else None in
        (mk_step_out (Some (mk_stride from to consumed emitted)) err amb, log)
    end.

  (** Spec.Step, with the guard calls it made *)
  Definition step_logged (s : spec action) (st : state) (pending : option json)
    : step_out * list mcall :=
    if negb (sp_compiled s) then (mk_step_out None (Some ENotCompiled) false, []) else
    match find_node (st_node st) (sp_nodes s) with
    | None => (mk_step_out None (Some EUnknownNode) false, [])
    | Some n =>
        let have := match nd_action n with Some _ => true | None => false end in
        if negb have && nd_uncompiled n then (mk_step_out None (Some EUncompiledAction) false, []) else
        if have && match nd_branching n with
                   | Some b => String.eqb (bg_type b) "message"
                   | None => false
                   end
        then (mk_step_out None (Some EBadBranching) false, []) else
        match nd_action n with
        | None => continue_logged n st pending have (st_bs st) []
        | Some a =>
            let '((ob, emitted), err) := func_exec action run a (st_bs st) in
            let ebs := copy_bs ob in
            if negb err then continue_logged n st pending have (Some ebs) emitted
            else
              let bs := bset "error" err_text (bset "actionError" err_text (copy_bs (st_bs st))) in
              if negb (sp_err_branches s) then
                if String.eqb (sp_err_node s) "" then (mk_step_out None (Some EAction) false, [])
                else (mk_step_out
                        (Some (mk_stride (copy_state st)
                                         (Some (mk_state (sp_err_node s) (Some bs))) None emitted))
                        None false, [])
              else continue_logged n st pending have (Some bs) emitted
        end
    end.
End Logged.

(** * Erasure: with the identity order the instrumented functions compute
      exactly what the functions of Model/Step.v compute *)
Section Erase.
  Variable action : Type.
  Variable run : action -> option bindings -> exec_raw.

  Lemma guard_loop_logged_erase i g cs :
    fst (guard_loop_logged action run i g cs) = guard_loop action run g cs.
  Proof.
    induction cs as [|c r IH]; [reflexivity|].
    cbn [guard_loop_logged guard_loop].
    destruct (func_exec action run g c) as [[ob em] err].
    destruct err; [reflexivity|].
    destruct ob as [b|]; [reflexivity|].
    destruct (guard_loop_logged action run i g r) as [x l]. exact IH.
  Qed.

  Lemma try_branch_logged_erase i b bs against :
    fst (try_branch_logged action run cand_id i b bs against) = try_branch action run b bs against.
  Proof.
    unfold try_branch_logged, try_branch, cand_id.
    destruct (match br_pattern b with
              | Some p => match Match p against (copy_bs bs) with
                          | Ok r => Ok (map Some r) | Err => Err | Fuel => Fuel end
              | None => Ok [bs]
              end) as [cs| |]; [|reflexivity|reflexivity].
    destruct (br_guard b) as [g|].
    - rewrite guard_loop_logged_erase.
      destruct (guard_loop action run g cs) as [[bs'|]|]; reflexivity.
    - cbn [fst snd]. destruct cs as [|c [|c' r]]; [reflexivity| |reflexivity].
      destruct c; reflexivity.
  Qed.

  Lemma first_branch_logged_erase brs : forall i bs against,
    fst (first_branch_logged action run cand_id i brs bs against) = first_branch action run brs bs against.
  Proof.
    induction brs as [|b r IH]; intros i bs against; [reflexivity|].
    cbn [first_branch_logged first_branch].
    rewrite <- (try_branch_logged_erase i b bs against).
    destruct (try_branch_logged action run cand_id i b bs against) as [[t amb] l].
    cbn [fst]. destruct t; [|reflexivity|reflexivity].
    rewrite <- (IH (S i) bs against).
    destruct (first_branch_logged action run cand_id (S i) r bs against) as [[t' amb'] l'].
    reflexivity.
  Qed.

  Lemma consider_logged_erase bg bs pending :
    fst (consider_logged action run cand_id bg bs pending) = consider action run bg bs pending.
  Proof.
    unfold consider_logged, consider. destruct bg as [b|]; [|reflexivity].
    destruct (String.eqb (bg_type b) "message").
    - destruct pending as [m|]; [|reflexivity].
      rewrite <- (first_branch_logged_erase (bg_branches b) 0 bs m).
      destruct (first_branch_logged action run cand_id 0 (bg_branches b) bs m) as [[t amb] l].
      reflexivity.
    - rewrite <- (first_branch_logged_erase (bg_branches b) 0 bs (JObj (copy_bs bs))).
      destruct (first_branch_logged action run cand_id 0 (bg_branches b) bs (JObj (copy_bs bs)))
        as [[t amb] l].
      reflexivity.
  Qed.

  (** the [continue] closure of [step], as a function *)
  Definition continue_plain (n : node action) (st : state) (pending : option json)
             (have : bool) (bs : option bindings) (emitted : list json) : step_out :=
    let from := copy_state st in
    let '(tr, consumer, amb) := consider action run (nd_branching n) bs pending in
    let consumed := if consumer then pending else None in
    match tr with
    | TTo st' =>
        mk_step_out (Some (mk_stride from (Some (copy_state st')) consumed emitted)) None amb
    | _ =>
        let err := match tr with TErr e => Some e | _ => None end in
        let to :=
          if have then
            Some (mk_state error_node_literal
                           (Some (error_bindings (copy_bs bs) no_branch_text st)))
          else None in
        mk_step_out (Some (mk_stride from to consumed emitted)) err amb
    end.

  Lemma continue_logged_erase n st pending have bs em :
    fst (continue_logged action run cand_id n st pending have bs em)
    = continue_plain n st pending have bs em.
  Proof.
    unfold continue_logged, continue_plain.
    rewrite <- (consider_logged_erase (nd_branching n) bs pending).
    destruct (consider_logged action run cand_id (nd_branching n) bs pending) as [[[tr consumer] amb] log].
    cbn [fst]. destruct tr; reflexivity.
  Qed.

  (** the result component of the instrumented step under the identity order
      is [step], exactly *)
  Theorem step_logged_erase s st pending :
    fst (step_logged action run cand_id s st pending) = step action run s st pending.
  Proof.
    unfold step_logged, step.
    destruct (negb (sp_compiled s)); [reflexivity|].
    destruct (find_node (st_node st) (sp_nodes s)) as [n|]; [|reflexivity].
    cbv zeta.
    destruct (nd_action n) as [a|].
    - destruct (negb true && nd_uncompiled n); [reflexivity|].
      destruct (true && match nd_branching n with
                        | Some b => String.eqb (bg_type b) "message" | None => false end);
        [reflexivity|].
      destruct (func_exec action run a (st_bs st)) as [[ob emitted] err].
      destruct (negb err).
      + rewrite continue_logged_erase. reflexivity.
      + destruct (negb (sp_err_branches s)).
        * destruct (String.eqb (sp_err_node s) ""); reflexivity.
        * rewrite continue_logged_erase. reflexivity.
    - destruct (negb false && nd_uncompiled n); [reflexivity|].
      destruct (false && match nd_branching n with
                         | Some b => String.eqb (bg_type b) "message" | None => false end);
        [reflexivity|].
      rewrite continue_logged_erase. reflexivity.
  Qed.
End Erase.
