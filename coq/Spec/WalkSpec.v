(** Vocabulary for the walk-accounting statements (C05): the messages a walk
    consumed, the state chain, the final state.  Shared by the theorems and
    by the oracle evaluated on the implementation's output. *)
From Sheens Require Export Model.Step.

Definition opt_eqb {A : Type} (eqb : A -> A -> bool) (a b : option A) : bool :=
  match a, b with
  | Some x, Some y => eqb x y
  | None, None => true
  | _, _ => false
  end.
Fixpoint list_eqb {A : Type} (eqb : A -> A -> bool) (a b : list A) : bool :=
  match a, b with
  | [], [] => true
  | x :: r, y :: s => eqb x y && list_eqb eqb r s
  | _, _ => false
  end.
Definition state_eqb (a b : state) : bool :=
  String.eqb (st_node a) (st_node b) && opt_eqb bindings_eqb (st_bs a) (st_bs b).
Definition stride_eqb (a b : stride) : bool :=
  state_eqb (sd_from a) (sd_from b) && opt_eqb state_eqb (sd_to a) (sd_to b)
  && opt_eqb json_eqb (sd_consumed a) (sd_consumed b)
  && list_eqb json_eqb (sd_emitted a) (sd_emitted b).

Fixpoint consumed_of (sds : list stride) : list json :=
  match sds with
  | [] => []
  | sd :: r => match sd_consumed sd with Some m => m :: consumed_of r | None => consumed_of r end
  end.
Fixpoint strip_prefix (pre l : list json) : option (list json) :=
  match pre, l with
  | [], _ => Some l
  | x :: p, y :: r => if json_eqb x y then strip_prefix p r else None
  | _ :: _, [] => None
  end.
Fixpoint chain_ok (prev : state) (sds : list stride) : bool :=
  match sds with
  | [] => true
  | sd :: r =>
      state_eqb (sd_from sd) (copy_state prev)
      && chain_ok (match sd_to sd with Some t => t | None => prev end) r
  end.
Definition final_state (st : state) (sds : list stride) : state :=
  fold_left (fun acc sd => match sd_to sd with Some t => copy_state t | None => acc end) sds st.

