(** C08, the implementation's own account of a failed action: a stride whose
    end state gained the binding "actionError" is the stride of an action that
    failed, and reports no message.  The clause [failed_action_silent] is
    evaluated on what the implementation returned (Corr/StepCorr.v:
    [c08_step_violations], [c08_walk_violations]); Proofs/C08Silent.v proves
    that it is a consequence of the model (Model/Step.v, Model/Action.v) for
    every specification none of whose programs writes the key "actionError"
    itself ([no_action_error_writer]). *)
From Sheens Require Export Model.Action.

Definition has_key (k : string) (s : option state) : bool :=
  match s with
  | Some st => match lookup k (copy_bs (st_bs st)) with Some _ => true | None => false end
  | None => false
  end.
(** (a native action that hands back an execution together with its error is the one exception Step makes: what
    such an execution holds is reported, and the model says so too) *)
Definition hands_back_on_error (sp : aspec) (sd : stride) : bool :=
  match find_node (st_node (sd_from sd)) (sp_nodes sp) with
  | Some n => match nd_action n with Some (Native _ true) => true | _ => false end
  | None => false
  end.
Definition failed_action_silent (sp : aspec) (sd : stride) : bool :=
  if has_key "actionError" (sd_to sd) && negb (has_key "actionError" (Some (sd_from sd)))
     && negb (hands_back_on_error sp sd)
  then match sd_emitted sd with [] => true | _ => false end
  else true.

(** * The specifications the clause is a theorem for

    "gained the binding actionError" identifies a failed action only if no
    program of the node puts that key there itself.  The ways a program of the
    action language can create a top-level binding: [ASet], [ACopy] (its
    destination), [ACountGlobal], and returning an object literal
    ([TRetFresh]).  ([APoke] only rewrites the value of a key that is there;
    pattern matching only adds variables, which start with "?".) *)
Definition op_writes_action_error (op : aop) : bool :=
  match op with
  | ASet k _ | ACopy k _ | ACountGlobal k => String.eqb k "actionError"
  | _ => false
  end.
Definition prog_writes_action_error (p : prog) : bool :=
  existsb op_writes_action_error (pg_ops p)
  || match pg_term p with
     | TRetFresh kvs => match lookup "actionError" kvs with Some _ => true | None => false end
     | _ => false
     end.
Definition act_writes_action_error (a : act) : bool :=
  match a with Js p | Native p _ => prog_writes_action_error p end.

(** a node is constrained only if its stride can report messages at all and
    the clause speaks about it: a node without action reports nothing, a node
    whose native action hands back its execution is exempted by the clause.
    For the others: neither the action nor a guard of one of the node's
    branches writes the key. *)
Definition node_no_writer (n : node act) : bool :=
  match nd_action n with
  | None => true
  | Some (Native _ true) => true
  | Some a =>
      negb (act_writes_action_error a)
      && forallb (fun b : branch act =>
                    match br_guard b with Some g => negb (act_writes_action_error g) | None => true end)
                 (match nd_branching n with Some bg => bg_branches bg | None => [] end)
  end.
Definition no_action_error_writer (sp : aspec) : bool :=
  forallb (fun kn : string * node act => node_no_writer (snd kn)) (sp_nodes sp).
