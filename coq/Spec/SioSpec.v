(** Specification vocabulary for C14/C15, written from the property texts
    and the documentation (doc/by-example.md "Message routing", the comments
    of sio/crew.go), not from the code.

    Routing.  A message carries a routing target in its member "to":
    a machine id, "*" (everybody), or a list of ids; a message without a
    target goes to every ordinary machine; the service machines (timers,
    captain) see only what names them.  A list member that is no string
    names nobody; a repeated member names its machine once.  A "to" of any
    other JSON type is not in the property's list of targets; it is read as
    "no target" (what the code does).

    Persistence.  What a consumer of the crew's reports knows about a
    machine is its state (if one was reported) and its specification source
    (if one was reported); a machine whose state was never reported is in
    the default state.  A reported source that resolves to no specification
    (neither inline nor a URL) stands for a machine without specification:
    the store keeps the source as reported, what it says about the machine
    is what the source resolves to ([resolved]). *)
From Sheens Require Export Model.SioCrew.

Inductive target : Type := TNone | TAll | TOne (s : mid) | TMany (l : list mid).

Definition routing_target (msg : json) : target :=
  match msg with
  | JObj kvs =>
      match assoc "to" kvs with
      | Some (JStr s) => if String.eqb s "*" then TAll else TOne s
      | Some (JArr l) => TMany (strings_of l)
      | _ => TNone
      end
  | _ => TNone
  end.

(** [can_see]: the machines that can be presented a message at all *)
Definition addressed (can_see : mid -> bool) (msg : json) (m : mid) : bool :=
  can_see m &&
  match routing_target msg with
  | TNone | TAll => negb (is_service m)
  | TOne s => String.eqb m s
  | TMany l => smem m l
  end.

Section Views.
Variable S : Type.
Variable resolves : S -> bool.

(** machines that can be presented a message: the two service machines and
    every ordinary machine that has a specification *)
Definition can_see (c : crew S) (m : mid) : bool :=
  is_service m ||
  match aget m (machines S c) with Some mc => is_some (m_src S mc) | None => false end.

(** what is observable of a machine: specification source, node, bindings *)
Definition view_of_mach (mc : mach S) : option S * mstate := (m_src S mc, m_state S mc).
Definition live_view (c : crew S) (m : mid) : option (option S * mstate) :=
  option_map view_of_mach (aget m (machines S c)).

Definition view_of_entry (e : entry S) : option S * mstate :=
  (resolved S resolves (e_src S e), match e_state S e with Some s => s | None => default_state end).
Definition store_view (store : list (mid * entry S)) (m : mid) : option (option S * mstate) :=
  option_map view_of_entry (aget m store).

(** a message that names the captain together with other machines: the
    crew may change between two recipients of one round *)
Definition names_captain (msg : json) : bool :=
  match routing_target msg with
  | TOne s => String.eqb s captain_id
  | TMany l => smem captain_id l
  | _ => false
  end.
Definition mixes_captain (msg : json) : bool :=
  match routing_target msg with
  | TMany l => smem captain_id l && existsb (fun s => negb (String.eqb s captain_id)) l
  | _ => false
  end.
End Views.
