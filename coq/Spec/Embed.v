(** C02: what it means for an assignment [sg] of values to a pattern's
    variables to embed the pattern in a message (each variable stands for the
    whole message part at its position), and the side conditions of the
    property's quantifier.  Boolean and total: also the oracle. *)
From Sheens Require Export Spec.Contain.

(** a plain variable: not optional, not inequality-shaped *)
Definition is_plain_var (s : string) : bool :=
  is_var s && negb (is_optional s) &&
  match ineq_parse s with None => true | Some _ => false end.

Section Embeds.
  Variable sg : bindings.

  Definition var_embeds (s : string) (f : json) : bool :=
    if is_anon s then true
    else match lookup s sg with
         | Some w => json_eqb w f
         | None => false
         end.

  Fixpoint embeds (p f : json) {struct p} : bool :=
    match p with
    | JNull => match f with JNull => true | _ => false end
    | JBool a => match f with JBool b => Bool.eqb a b | _ => false end
    | JNum a => match f with JNum b => Z.eqb a b | _ => false end
    | JStr s =>
        if is_var s then var_embeds s f
        else match f with JStr t => String.eqb s t | _ => false end
    | JArr xs =>
        match f with
        | JArr fa => inj_assign embeds (fun _ => false) xs fa
        | _ => false
        end
    | JObj kvs =>
        match f with
        | JObj fkvs =>
            match kvs with
            | [(k, q)] =>
                if is_var k then
                  existsb (fun fkv : string * json =>
                             var_embeds k (JStr (fst fkv)) && embeds q (snd fkv)) fkvs
                else
                  match assoc k fkvs with
                  | Some y => embeds q y
                  | None => false
                  end
            | _ =>
                forallb (fun kv : string * json =>
                           negb (is_var (fst kv)) &&
                           match assoc (fst kv) fkvs with
                           | Some y => embeds (snd kv) y
                           | None => false
                           end) kvs
            end
        | _ => false
        end
    end.
End Embeds.

(** the supported fragment: at most one variable directly inside any array,
    a variable property name only as the sole key of its map *)
Definition count_vars_direct (xs : list json) : nat :=
  List.length (filter (fun x => match x with JStr s => is_var s | _ => false end) xs).

Fixpoint supported (p : json) : bool :=
  match p with
  | JArr xs => Nat.leb (count_vars_direct xs) 1 && forallb supported xs
  | JObj kvs =>
      (match kvs with
       | [_] => true
       | _ => negb (has_var_key kvs)
       end) && forallb (fun kv : string * json => supported (snd kv)) kvs
  | _ => true
  end.

(** every variable of the pattern is plain (or anonymous) *)
Definition all_plain (p : json) : bool :=
  forallb (fun v => is_anon v || is_plain_var v) (pvars p).

Fixpoint count_occ_str (s : string) (l : list string) : nat :=
  match l with
  | [] => 0
  | x :: r => (if String.eqb s x then 1 else 0) + count_occ_str s r
  end.

(** each (non-anonymous) variable occurs once *)
Definition linear (p : json) : bool :=
  let vs := pvars p in
  forallb (fun v => is_anon v || Nat.eqb (count_occ_str v vs) 1) vs.

(** arrays are sets: no array anywhere has two equal scalar members *)
Fixpoint nodup_scalars (l : list json) : bool :=
  match l with
  | [] => true
  | x :: r => (if is_scalar x then negb (jmem x r) else true) && nodup_scalars r
  end.

Fixpoint arrays_are_sets (j : json) : bool :=
  match j with
  | JArr l => nodup_scalars l && forallb arrays_are_sets l
  | JObj kvs => forallb (fun kv : string * json => arrays_are_sets (snd kv)) kvs
  | _ => true
  end.

Definition same_keys (a b : list string) : bool :=
  forallb (fun k => smem k b) a && forallb (fun k => smem k a) b.

(** C02's side conditions on (pattern, message, assignment) *)
Definition c02_pre (p f : json) (sg : bindings) : bool :=
  supported p && all_plain p && wf_json p && wf_json f && var_free f
  && arrays_are_sets p && arrays_are_sets f
  && var_free_bs sg && sorted_keys sg
  && same_keys (map fst sg) (filter (fun v => negb (is_anon v)) (pvars p))
  (* repeated variables take scalar values *)
  && forallb (fun kv : string * json =>
                Nat.leb (count_occ_str (fst kv) (pvars p)) 1 || is_scalar (snd kv)) sg.

(** completeness for one case: the planted assignment is returned *)
Definition c02_found (sg : bindings) (r : list bindings) : bool :=
  existsb (bindings_eqb sg) r.

(** the "exactly the embeddings" half that can be decided per result: for a
    linear plain pattern and no initial bindings every returned set is an
    embedding with exactly the pattern's variables as its domain *)
Definition c02_result_is_embedding (p f : json) (bs' : bindings) : bool :=
  embeds bs' p f
  && same_keys (map fst bs') (filter (fun v => negb (is_anon v)) (pvars p)).
