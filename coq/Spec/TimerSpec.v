(** The abstract timer service (C17), written from the property text and the
    READMEs, not from the code.

    A timer service keeps a set of pending timers, at most one per id.  A
    request [add id d] is accepted when the id is free (cmd/mcrew: otherwise
    refused with "id exists"; sio: otherwise the pending timer under that id
    is cancelled and replaced), a request [rem id] cancels the pending timer
    under that id or reports that there is none.  A pending timer whose due
    time has come may fire: it stops being pending at that moment (so its id
    is free) and its message is then handed to the handler exactly once
    ([VReport]).  Nothing else ever emits a message.  A restart ([VBoot],
    sio only) keeps the pending set.

    Everything an implementation lets an observer see is a [vis] label:
    results of requests, the hand-over of a message, the set of ids it reports
    as pending, the passing of time.  [AFire] is the one internal step.

    Ghost fields ([aknown], [areported], [acancelled]) record the history so
    that the property statements are statements about states. *)
From Coq Require Import ZArith List Bool Arith Lia.
Import ListNotations.
Local Open Scope Z_scope.

Inductive impl : Type := Mcrew | Sio.

(** what the documented behaviour of [add] on a busy id is *)
Definition replaces (p : impl) : bool :=
  match p with Sio => true | Mcrew => false end.

(** a timer: generation (identity of one accepted request), id, due time *)
Record tm : Type := mkTm { tg : nat; tid : nat; tdue : Z }.

Definition tm_eqb (a b : tm) : bool :=
  Nat.eqb (tg a) (tg b) && Nat.eqb (tid a) (tid b) && Z.eqb (tdue a) (tdue b).

Definition id_is (i : nat) (e : tm) : bool := Nat.eqb (tid e) i.
Definition gen_is (g : nat) (e : tm) : bool := Nat.eqb (tg e) g.

Definition find_id (i : nat) (l : list tm) : option tm := find (id_is i) l.
Definition find_gen (g : nat) (l : list tm) : option tm := find (gen_is g) l.
Definition rm_id (i : nat) (l : list tm) : list tm := filter (fun e => negb (id_is i e)) l.
Definition rm_gen (g : nat) (l : list tm) : list tm := filter (fun e => negb (gen_is g e)) l.

Definition memn (x : nat) (l : list nat) : bool := existsb (Nat.eqb x) l.
Definition rmn (x : nat) (l : list nat) : list nat := filter (fun y => negb (Nat.eqb x y)) l.

(** set equality of id lists (an implementation reports its pending ids in
    no particular order) *)
Definition subn (a b : list nat) : bool := forallb (fun x => memn x b) a.
Definition ids_eqb (a b : list nat) : bool :=
  subn a b && subn b a && Nat.eqb (length a) (length b).

(** * Visible labels *)
Inductive vis : Type :=
| VTick (t : Z)                              (* the clock has reached (at least) t *)
| VAdd (g i : nat) (d : Z) (ok : bool)        (* request: timer g under id i, due in d; result *)
| VRem (i : nat) (ok : bool)                  (* request: cancel id i; result *)
| VReport (g : nat)                           (* g's message is handed to the handler *)
| VSnap (ids : list nat)                      (* the ids reported as pending *)
| VBoot.                                      (* restart from the persisted state *)

Inductive alabel : Type :=
| AVis (v : vis)
| AFire (g : nat).                            (* internal: g stops being pending *)

Record astate : Type := mkA {
  apending : list tm;                 (* the pending timers *)
  afiring : list nat;                 (* fired, message not yet handed over *)
  aclock : Z;
  aknown : list tm;                   (* every timer ever accepted *)
  areported : list (nat * Z);         (* messages handed over, with the time *)
  acancelled : list nat               (* timers cancelled (or replaced) while pending *)
}.

Definition ainit : astate := mkA [] [] 0 [] [] [].

Definition a_accept (a : astate) (e : tm) (keep : list tm) (cancelled : list nat) : astate :=
  mkA (keep ++ [e]) (afiring a) (aclock a) (aknown a ++ [e]) (areported a) cancelled.

Definition astep (p : impl) (a : astate) (l : alabel) : option astate :=
  match l with
  | AVis (VTick t) =>
      Some (mkA (apending a) (afiring a) (Z.max (aclock a) t) (aknown a) (areported a) (acancelled a))
  | AVis (VAdd g i d ok) =>
      if memn g (map tg (aknown a)) then None else
      let e := mkTm g i (aclock a + d) in
      match find_id i (apending a) with
      | Some old =>
          if replaces p then
            if ok then Some (a_accept a e (rm_id i (apending a)) (tg old :: acancelled a)) else None
          else
            if ok then None else Some a
      | None => if ok then Some (a_accept a e (apending a) (acancelled a)) else None
      end
  | AVis (VRem i ok) =>
      match find_id i (apending a) with
      | Some old =>
          if ok then Some (mkA (rm_id i (apending a)) (afiring a) (aclock a) (aknown a) (areported a)
                               (tg old :: acancelled a))
          else None
      | None => if ok then None else Some a
      end
  | AFire g =>
      match find_gen g (apending a) with
      | Some e =>
          if tdue e <=? aclock a then
            Some (mkA (rm_gen g (apending a)) (g :: afiring a) (aclock a) (aknown a) (areported a)
                      (acancelled a))
          else None
      | None => None
      end
  | AVis (VReport g) =>
      if memn g (afiring a) then
        Some (mkA (apending a) (rmn g (afiring a)) (aclock a) (aknown a)
                  ((g, aclock a) :: areported a) (acancelled a))
      else None
  | AVis (VSnap ids) =>
      if ids_eqb ids (map tid (apending a)) then Some a else None
  | AVis VBoot =>
      if replaces p then
        match afiring a with [] => Some a | _ => None end
      else None
  end.

Fixpoint aexec (p : impl) (a : astate) (tr : list alabel) : option astate :=
  match tr with
  | [] => Some a
  | l :: r => match astep p a l with Some a' => aexec p a' r | None => None end
  end.

(** * The property statements, as predicates on a history

    They are stated once, over the four history components, so that the same
    text applies to the abstract service and to the models of the two
    implementations. *)
Section Statements.
  Variable pending : list tm.
  Variable started : list nat.          (* fired, whether or not the message is out yet *)
  Variable known : list tm.
  Variable reported : list (nat * Z).
  Variable cancelled : list nat.

  (** a message is handed over at most once per accepted timer *)
  Definition st_at_most_once : Prop := NoDup (map fst reported).

  (** only for an accepted timer, and never before its due time *)
  Definition st_never_early : Prop :=
    forall g t, In (g, t) reported -> exists e, In e known /\ tg e = g /\ tdue e <= t.

  (** a timer cancelled while pending never fires; one that fired is not
      cancelled afterwards *)
  Definition st_not_after_cancel : Prop :=
    forall g, In g cancelled -> ~ In g (map fst reported) /\ ~ In g started.

  (** pending = accepted and not yet fired or cancelled *)
  Definition st_pending_exact : Prop :=
    forall e, In e pending <->
              (In e known /\ ~ In (tg e) cancelled /\ ~ In (tg e) started /\
               ~ In (tg e) (map fst reported)).

  (** at most one pending timer per id *)
  Definition st_ids_unique : Prop := NoDup (map tid pending).
End Statements.

Definition a_at_most_once (a : astate) : Prop := st_at_most_once (areported a).
Definition a_never_early (a : astate) : Prop := st_never_early (aknown a) (areported a).
Definition a_not_after_cancel (a : astate) : Prop :=
  st_not_after_cancel (afiring a) (areported a) (acancelled a).
Definition a_pending_exact (a : astate) : Prop :=
  st_pending_exact (apending a) (afiring a) (aknown a) (areported a) (acancelled a).
