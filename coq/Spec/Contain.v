(** The documented partial-matching ("containment") rules, as total boolean
    functions: [contains] for variable-free values, [fits] for a pattern
    instantiated by a returned binding set.  They are written from the
    documentation (README "Pattern matching", match/match.md), not from the
    code, and double as the oracles evaluated on the implementation's
    output. *)
From Sheens Require Export Model.Match.

(** every way of picking one element, with the rest *)
Fixpoint picks {A : Type} (l : list A) : list (A * list A) :=
  match l with
  | [] => []
  | x :: r => (x, r) :: map (fun yr : A * list A => (fst yr, x :: snd yr)) (picks r)
  end.

Section InjAssign.
  Context {A : Type}.
  Variable P : A -> json -> bool.
  Variable skip : A -> bool.
  (** an injective assignment of the (non-skipped) elements of [xs] to
      positions of [fa] such that [P] holds at each *)
  Fixpoint inj_assign (xs : list A) (fa : list json) {struct xs} : bool :=
    match xs with
    | [] => true
    | x :: r =>
        if skip x then inj_assign r fa
        else existsb (fun yr : json * list json => P x (fst yr) && inj_assign r (snd yr))
                     (picks fa)
    end.
End InjAssign.

Fixpoint contains (v f : json) {struct v} : bool :=
  match v, f with
  | JNull, JNull => true
  | JBool a, JBool b => Bool.eqb a b
  | JNum a, JNum b => Z.eqb a b
  | JStr a, JStr b => String.eqb a b
  | JArr xs, JArr fa => inj_assign contains (fun _ => false) xs fa
  | JObj kvs, JObj fkvs =>
      forallb (fun kv : string * json =>
                 match assoc (fst kv) fkvs with
                 | Some y => contains (snd kv) y
                 | None => false
                 end) kvs
  | _, _ => false
  end.

Section Fits.
  Variables (bs0 bs' : bindings).

  Definition plain_rule (s : string) (f : json) : bool :=
    match lookup s bs' with
    | Some w => contains w f
    | None => false
    end.

  Definition ineq_rule (op vv : string) (b : Z) (f : json) : bool :=
    match f with
    | JNum a =>
        sat op a b &&
        match lookup vv bs' with
        | Some (JNum c) => Z.eqb c a
        | _ => false
        end
    | _ => false
    end.

  (** a (non-anonymous) variable [s] standing at message part [f] *)
  Definition var_fits (s : string) (f : json) : bool :=
    match ineq_parse s with
    | None => plain_rule s f
    | Some (op, vv) =>
        match lookup s bs0 with
        | Some (JNum b) =>
            (* the documented use: the bound is given *)
            match f with
            | JNum a =>
                match lookup vv bs' with
                | Some (JNum _) | None => ineq_rule op vv b f
                | Some _ => sat op a b && plain_rule s f
                end
            | _ => plain_rule s f
            end
        | _ =>
            plain_rule s f ||
            match lookup s bs' with
            | Some (JNum b) => ineq_rule op vv b f
            | _ => false
            end
        end
    end.

  Definition key_fits (k fk : string) : bool :=
    if is_anon k then true else var_fits k (JStr fk).

  Fixpoint fits (p f : json) {struct p} : bool :=
    match p with
    | JNull => match f with JNull => true | _ => false end
    | JBool a => match f with JBool b => Bool.eqb a b | _ => false end
    | JNum a => match f with JNum b => Z.eqb a b | _ => false end
    | JStr s =>
        if is_var s then
          if is_anon s then true else var_fits s f
        else match f with JStr t => String.eqb s t | _ => false end
    | JArr xs =>
        match f with
        | JArr fa => inj_assign fits is_optional_json xs fa
        | _ => false
        end
    | JObj kvs =>
        match f with
        | JObj fkvs =>
            match kvs with
            | [(k, q)] =>
                if is_var k then
                  existsb (fun fkv : string * json => key_fits k (fst fkv) && fits q (snd fkv)) fkvs
                else
                  match assoc k fkvs with
                  | Some y => fits q y
                  | None => is_optional_json q
                  end
            | _ =>
                forallb (fun kv : string * json =>
                           negb (is_var (fst kv)) &&
                           match assoc (fst kv) fkvs with
                           | Some y => fits (snd kv) y
                           | None => is_optional_json (snd kv)
                           end) kvs
            end
        | _ => false
        end
    end.
End Fits.

(** variables occurring in a pattern (values and property names) *)
Fixpoint pvars (p : json) : list string :=
  match p with
  | JStr s => if is_var s then [s] else []
  | JArr l => flat_map pvars l
  | JObj kvs =>
      flat_map (fun kv : string * json =>
                  (if is_var (fst kv) then [fst kv] else []) ++ pvars (snd kv)) kvs
  | _ => []
  end.

Definition smem (s : string) (l : list string) : bool := existsb (String.eqb s) l.

(** names a match may bind: the pattern's variables and the plain
    counterparts of its inequality variables *)
Definition bindable (p : json) : list string :=
  let vs := pvars p in
  vs ++ flat_map (fun v => match ineq_parse v with Some (_, vv) => [vv] | None => [] end) vs.

Definition opt_json_eqb (a b : option json) : bool :=
  match a, b with
  | Some x, Some y => json_eqb x y
  | None, None => true
  | _, _ => false
  end.

(** C01 for one returned binding set *)
Definition c01_ok (p f : json) (bs0 bs' : bindings) : bool :=
  forallb (fun kv : string * json => opt_json_eqb (lookup (fst kv) bs') (Some (snd kv))) bs0
  && forallb (fun kv : string * json =>
                smem (fst kv) (map fst bs0) || smem (fst kv) (bindable p)) bs'
  && negb (smem anon_var (map fst bs') && negb (smem anon_var (map fst bs0)))
  && fits bs0 bs' p f.
