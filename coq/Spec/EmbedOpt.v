(** C02 beyond plain variables: embeddings for patterns with optional
    variables ("??x") and with inequality variables ("?<n", "?<=n", "?>n",
    "?>=n", "?!=n") whose bounds are given in the initial bindings.

    One skeleton, [embeds_with], is shared by the two notions.  It differs
    from [embeds] (Spec/Embed.v) in exactly two places, both about an
    optional variable that is *unassigned*:
    - an object entry [k : "??x"] whose key [k] is missing from the message
      is fine when "??x" is unassigned; when the key is present the variable
      stands for the value there, like a plain one;
    - in an array whose variable "??x" is unassigned the other elements must
      embed injectively and *use up the whole message array*: the matcher
      binds the variable to every left-over element it can be bound to and
      returns the bindings without it only if there is no such element.
    Boolean and total: also the oracle. *)
From Sheens Require Export Spec.Embed.

(** not inequality-shaped: a plain, an optional or the anonymous variable *)
Definition no_ineq_var (s : string) : bool :=
  match ineq_parse s with None => true | Some _ => false end.

(** every variable of the pattern is plain, optional or anonymous *)
Definition all_plain_or_opt (p : json) : bool :=
  forallb (fun v => is_anon v || no_ineq_var v) (pvars p).

Section EmbedsWith.
  (** [unas s]: the variable [s] is unassigned;
      [vemb s y]: the (non-anonymous) variable [s] can stand for [y] *)
  Variable unas : string -> bool.
  Variable vemb : string -> json -> bool.

  (** an unassigned optional variable *)
  Definition absent_here (x : json) : bool :=
    match x with JStr s => is_optional s && unas s | _ => false end.

  Definition var_at (s : string) (f : json) : bool :=
    if is_anon s then true else vemb s f.

  Fixpoint embeds_with (p f : json) {struct p} : bool :=
    match p with
    | JNull => match f with JNull => true | _ => false end
    | JBool a => match f with JBool b => Bool.eqb a b | _ => false end
    | JNum a => match f with JNum b => Z.eqb a b | _ => false end
    | JStr s =>
        if is_var s then var_at s f
        else match f with JStr t => String.eqb s t | _ => false end
    | JArr xs =>
        match f with
        | JArr fa =>
            (* the elements other than an unassigned optional variable go to
               pairwise distinct positions ... *)
            inj_assign embeds_with absent_here xs fa
            (* ... and if there is an unassigned optional variable they
               leave no element of the message array over *)
            && (negb (existsb absent_here xs)
                || Nat.eqb (List.length fa)
                           (List.length (filter (fun x => negb (absent_here x)) xs)))
        | _ => false
        end
    | JObj kvs =>
        match f with
        | JObj fkvs =>
            match kvs with
            | [(k, q)] =>
                if is_var k then
                  existsb (fun fkv : string * json =>
                             var_at k (JStr (fst fkv)) && embeds_with q (snd fkv)) fkvs
                else
                  match assoc k fkvs with
                  | Some y => embeds_with q y
                  | None => absent_here q
                  end
            | _ =>
                forallb (fun kv : string * json =>
                           negb (is_var (fst kv)) &&
                           match assoc (fst kv) fkvs with
                           | Some y => embeds_with (snd kv) y
                           | None => absent_here (snd kv)
                           end) kvs
            end
        | _ => false
        end
    end.
End EmbedsWith.

(** * Optional variables *)

Definition unassigned (sg : bindings) (s : string) : bool :=
  match lookup s sg with None => true | Some _ => false end.

Definition assigned_to (sg : bindings) (s : string) (y : json) : bool :=
  match lookup s sg with Some w => json_eqb w y | None => false end.

(** [sg] embeds [p] in [f]; an optional variable is either assigned (and then
    stands for the message part at its position) or not in [sg] at all *)
Definition embeds_opt (sg : bindings) (p f : json) : bool :=
  embeds_with (unassigned sg) (assigned_to sg) p f.

Definition nonanon_vars (p : json) : list string :=
  filter (fun v => negb (is_anon v)) (pvars p).

(** C02's side conditions with optional variables allowed: as [c02_pre],
    but the assignment's keys are a subset of the pattern's (non-anonymous)
    variables that contains all the non-optional ones *)
Definition c02_pre_opt (p f : json) (sg : bindings) : bool :=
  supported p && all_plain_or_opt p && wf_json p && wf_json f && var_free f
  && arrays_are_sets p && arrays_are_sets f
  && var_free_bs sg && sorted_keys sg
  && forallb (fun k => smem k (nonanon_vars p)) (map fst sg)
  && forallb (fun v => is_optional v || smem v (map fst sg)) (nonanon_vars p)
  (* repeated variables take scalar values *)
  && forallb (fun kv : string * json =>
                Nat.leb (count_occ_str (fst kv) (pvars p)) 1 || is_scalar (snd kv)) sg.

(** * Inequality variables with given bounds *)

(** the names a variable binds: itself and, if inequality-shaped, its plain
    counterpart *)
Definition bv (s : string) : list string :=
  s :: match ineq_parse s with Some (_, vv) => [vv] | None => [] end.

Definition bvars (p : json) : list string := flat_map bv (pvars p).

(** [bs0] holds the bounds, [sg] the assignment.  At the position of an
    inequality variable "?<n" the message has a number in the stated relation
    to the bound and the plain counterpart "?n" is assigned that number; any
    other variable is as in [embeds_opt]. *)
Definition ineq_at (bs0 sg : bindings) (s : string) (y : json) : bool :=
  match ineq_parse s with
  | None => assigned_to sg s y
  | Some (op, vv) =>
      match lookup s bs0, y with
      | Some (JNum b), JNum a => sat op a b && assigned_to sg vv (JNum a)
      | _, _ => false
      end
  end.

Definition embeds_ineq (bs0 sg : bindings) (p f : json) : bool :=
  embeds_with (unassigned sg) (ineq_at bs0 sg) p f.

(** the bindings of [bs0] and [sg] together ([sg] first in case of a clash,
    which the side conditions exclude) *)
Definition bunion (bs0 sg : bindings) : bindings :=
  fold_right (fun kv acc => bset (fst kv) (snd kv) acc) bs0 sg.

Definition is_num (j : json) : bool := match j with JNum _ => true | _ => false end.

Definition ineq_vars (p : json) : list string :=
  filter (fun v => negb (no_ineq_var v)) (pvars p).

Definition nonanon_bvars (p : json) : list string :=
  filter (fun v => negb (is_anon v)) (bvars p).

(** side conditions: [bs0] gives exactly a numeric bound for each of the
    pattern's inequality variables; the assignment's keys are among the
    pattern's variables and counterparts, are not bounds, and include every
    plain variable; a name met twice (a counterpart counts) has a scalar
    value *)
Definition c02_pre_ineq (p f : json) (bs0 sg : bindings) : bool :=
  supported p && wf_json p && wf_json f && var_free f
  && arrays_are_sets p && arrays_are_sets f
  && sorted_keys bs0 && forallb (fun kv : string * json => is_num (snd kv)) bs0
  && same_keys (map fst bs0) (ineq_vars p)
  && var_free_bs sg && sorted_keys sg
  && forallb (fun k => smem k (nonanon_bvars p) && negb (smem k (map fst bs0))) (map fst sg)
  && forallb (fun v => is_optional v || negb (no_ineq_var v) || smem v (map fst sg))
             (nonanon_vars p)
  && forallb (fun kv : string * json =>
                Nat.leb (count_occ_str (fst kv) (bvars p)) 1 || is_scalar (snd kv)) sg.
