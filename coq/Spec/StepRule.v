(** The documented transition rule of one processing step (README
    "Processing", doc/by-example.md, the comments of core/step.go), written
    as relations over the data of a specification - not following the
    structure of the implementation or of the model [step]:

    - a branch *fires* when its pattern (if any) matches and its guard (if
      any) returns bindings for a candidate, tried in the matcher's order;
      without a guard exactly one candidate is required;
    - branches are tried in their listed order and the first that does not
      decline decides;
    - message branching works on the pending message, consumes it whether
      or not a branch is taken, and does nothing when there is none;
      bindings branching works on the current bindings and never consumes;
    - a node's action runs first and the bindings it returns replace the
      current ones; an action node that follows no branch goes to the error
      node; an action failure is routed by the error settings (error
      branches / designated node / returned error).

    Actions and guards are abstract: [run] gives what the wrapped function
    returns, [func_exec] (the permanent-bindings wrapper, C18) what the
    engine sees. *)
From Sheens Require Export Model.Step.

Section Rule.
  Variable action : Type.
  Variable run : action -> option bindings -> exec_raw.

  Notation branch := (branch action).
  Notation spec := (spec action).
  Notation node := (node action).

  Inductive br_outcome : Type :=
  | BrTo (st' : state)
  | BrNone
  | BrErr (e : step_err).

  (** what a guard says about one candidate *)
  Definition guard_accepts (g : action) (c : option bindings) (bs' : bindings) : Prop :=
    exists em, func_exec action run g c = ((Some bs', em), false).
  Definition guard_rejects (g : action) (c : option bindings) : Prop :=
    exists em, func_exec action run g c = ((None, em), false).
  Definition guard_fails (g : action) (c : option bindings) : Prop :=
    exists r, func_exec action run g c = (r, true).

  (** the candidate binding sets of a branch: the matches of its pattern, or
      the current bindings when it has no pattern *)
  Definition candidates (b : branch) (bs : option bindings) (against : json)
    : res (list (option bindings)) :=
    match br_pattern b with
    | None => Ok [bs]
    | Some p =>
        match Match p against (copy_bs bs) with
        | Ok r => Ok (map Some r)
        | Err => Err
        | Fuel => Fuel
        end
    end.

  Inductive BranchRule (b : branch) (bs : option bindings) (against : json) : br_outcome -> Prop :=
  | BR_match_error :
      candidates b bs against = Err -> BranchRule b bs against (BrErr EMatch)
  | BR_match_fuel :
      candidates b bs against = Fuel -> BranchRule b bs against (BrErr EFuel)
  | BR_no_match :
      candidates b bs against = Ok [] -> BranchRule b bs against BrNone
  | BR_plain_one c :
      br_guard b = None -> candidates b bs against = Ok [Some c] ->
      BranchRule b bs against (BrTo (mk_state (target action b c) (Some c)))
  | BR_plain_nil :
      (* a branch without pattern and guard on absent bindings is not taken *)
      br_guard b = None -> candidates b bs against = Ok [None] ->
      BranchRule b bs against BrNone
  | BR_plain_many c1 c2 r :
      br_guard b = None -> candidates b bs against = Ok (c1 :: c2 :: r) ->
      BranchRule b bs against (BrErr ETooMany)
  | BR_guard_accepts g pre c post bs' :
      br_guard b = Some g -> candidates b bs against = Ok (pre ++ c :: post) ->
      Forall (guard_rejects g) pre -> guard_accepts g c bs' ->
      BranchRule b bs against (BrTo (mk_state (target action b bs') (Some bs')))
  | BR_guard_rejects_all g cs :
      br_guard b = Some g -> candidates b bs against = Ok cs -> cs <> [] ->
      Forall (guard_rejects g) cs -> BranchRule b bs against BrNone
  | BR_guard_fails g pre c post :
      br_guard b = Some g -> candidates b bs against = Ok (pre ++ c :: post) ->
      Forall (guard_rejects g) pre -> guard_fails g c ->
      BranchRule b bs against (BrErr EGuard).

  (** branches in their listed order; the first that does not decline decides *)
  Inductive SelectRule (bs : option bindings) (against : json) : list branch -> br_outcome -> Prop :=
  | Sel_none : SelectRule bs against [] BrNone
  | Sel_skip b r o :
      BranchRule b bs against BrNone -> SelectRule bs against r o -> SelectRule bs against (b :: r) o
  | Sel_take b r o :
      BranchRule b bs against o -> o <> BrNone -> SelectRule bs against (b :: r) o.

  (** what the branching of a node does with the current bindings and the
      pending message: (outcome, consumed message) *)
  Inductive BranchingRule (bg : option (branching action)) (bs : option bindings)
            (pending : option json) : br_outcome -> option json -> Prop :=
  | Bg_absent : bg = None -> BranchingRule bg bs pending BrNone None
  | Bg_message_none b :
      bg = Some b -> bg_type b = "message" -> pending = None ->
      BranchingRule bg bs pending BrNone None
  | Bg_message b m o :
      bg = Some b -> bg_type b = "message" -> pending = Some m ->
      SelectRule bs m (bg_branches b) o ->
      BranchingRule bg bs pending o (Some m)        (* consumed whether or not a branch is taken *)
  | Bg_bindings b o :
      bg = Some b -> bg_type b <> "message" ->
      SelectRule bs (JObj (copy_bs bs)) (bg_branches b) o ->
      BranchingRule bg bs pending o None.           (* never consumes *)

  Definition message_typed (bg : option (branching action)) : Prop :=
    exists b, bg = Some b /\ bg_type b = "message".

  (** outcome of a step: the stride (if any) and the returned error (if any) *)
  Definition outcome : Type := (option stride * option step_err)%type.

  Definition error_state (bs : option bindings) (text : json) (from : state) : state :=
    mk_state error_node_literal (Some (error_bindings (copy_bs bs) text from)).

  Inductive StepRule (s : spec) (st : state) (pending : option json) : outcome -> Prop :=
  | SR_not_compiled :
      sp_compiled s = false -> StepRule s st pending (None, Some ENotCompiled)
  | SR_unknown_node :
      sp_compiled s = true -> find_node (st_node st) (sp_nodes s) = None ->
      StepRule s st pending (None, Some EUnknownNode)
  | SR_uncompiled_action n :
      sp_compiled s = true -> find_node (st_node st) (sp_nodes s) = Some n ->
      nd_action n = None -> nd_uncompiled n = true ->
      StepRule s st pending (None, Some EUncompiledAction)
  | SR_action_with_message_branching n a b :
      sp_compiled s = true -> find_node (st_node st) (sp_nodes s) = Some n ->
      nd_action n = Some a -> nd_branching n = Some b -> bg_type b = "message" ->
      StepRule s st pending (None, Some EBadBranching)
  (* no action: the branches decide; no branch = no transition *)
  | SR_branch n o consumed :
      sp_compiled s = true -> find_node (st_node st) (sp_nodes s) = Some n ->
      nd_action n = None -> nd_uncompiled n = false ->
      BranchingRule (nd_branching n) (st_bs st) pending o consumed ->
      StepRule s st pending
        (Some (mk_stride (copy_state st)
                         (match o with BrTo st' => Some (copy_state st') | _ => None end)
                         consumed []),
         match o with BrErr e => Some e | _ => None end)
  (* the action runs first; its bindings replace the current ones *)
  | SR_action n a ob emitted o consumed :
      sp_compiled s = true -> find_node (st_node st) (sp_nodes s) = Some n ->
      nd_action n = Some a -> ~ message_typed (nd_branching n) ->
      func_exec action run a (st_bs st) = ((ob, emitted), false) ->
      BranchingRule (nd_branching n) (Some (copy_bs ob)) pending o consumed ->
      StepRule s st pending
        (Some (mk_stride (copy_state st)
                         (match o with
                          | BrTo st' => Some (copy_state st')
                          | _ => Some (error_state (Some (copy_bs ob)) no_branch_text st)
                          end)
                         consumed emitted),
         match o with BrErr e => Some e | _ => None end)
  (* action failure, routed by the error settings *)
  | SR_action_error_returned n a r :
      sp_compiled s = true -> find_node (st_node st) (sp_nodes s) = Some n ->
      nd_action n = Some a -> ~ message_typed (nd_branching n) ->
      func_exec action run a (st_bs st) = (r, true) ->
      sp_err_branches s = false -> sp_err_node s = "" ->
      StepRule s st pending (None, Some EAction)
  | SR_action_error_node n a ob emitted :
      sp_compiled s = true -> find_node (st_node st) (sp_nodes s) = Some n ->
      nd_action n = Some a -> ~ message_typed (nd_branching n) ->
      func_exec action run a (st_bs st) = ((ob, emitted), true) ->
      sp_err_branches s = false -> sp_err_node s <> "" ->
      StepRule s st pending
        (Some (mk_stride (copy_state st)
                         (Some (mk_state (sp_err_node s)
                                  (Some (bset "error" err_text
                                           (bset "actionError" err_text (copy_bs (st_bs st)))))))
                         None emitted),
         None)
  | SR_action_error_branches n a ob emitted o consumed :
      sp_compiled s = true -> find_node (st_node st) (sp_nodes s) = Some n ->
      nd_action n = Some a -> ~ message_typed (nd_branching n) ->
      func_exec action run a (st_bs st) = ((ob, emitted), true) ->
      sp_err_branches s = true ->
      let ebs := Some (bset "error" err_text (bset "actionError" err_text (copy_bs (st_bs st)))) in
      BranchingRule (nd_branching n) ebs pending o consumed ->
      StepRule s st pending
        (Some (mk_stride (copy_state st)
                         (match o with
                          | BrTo st' => Some (copy_state st')
                          | _ => Some (error_state ebs no_branch_text st)
                          end)
                         consumed emitted),
         match o with BrErr e => Some e | _ => None end).
End Rule.
