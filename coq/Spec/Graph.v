(** What analysis and renderings are supposed to say, defined from the spec
    graph alone (C20).  Nothing here mentions how Analyze, Dot or Mermaid
    compute: the definitions quantify over (or filter) the nodes and the
    branches of the graph.

    Every notion is given twice: as a proposition (the reading of the
    property text) and as a list computed from the graph (what the oracle of
    the correspondence check evaluates on the implementation's output);
    Proofs/ToolsSpec.v proves that the two agree. *)
From Sheens Require Export Model.Tools.

(** * The graph *)
Definition branches_of (o : option node) : list branch := branches_of_node (node_of o).

(** every branch with the node it leaves, in node order *)
Definition all_branches (g : gspec) : list (string * branch) :=
  flat_map (fun p => map (pair (fst p)) (branches_of (snd p))) g.
Definition targets (g : gspec) : list string :=
  map (fun xb => b_target (snd xb)) (all_branches g).

Definition node_has_action (o : option node) : bool :=
  n_action (node_of o) || is_some (n_source (node_of o)).
Definition branch_has_guard (b : branch) : bool :=
  b_guard b || is_some (b_gsource b).

(** * Propositions *)
Definition is_node (g : gspec) (x : string) : Prop := In x (names g).
Definition has_branch (g : gspec) (x : string) (b : branch) : Prop := In (x, b) (all_branches g).
Definition is_target (g : gspec) (t : string) : Prop :=
  exists x b, has_branch g x b /\ b_target b = t.

(** a target that is neither a node nor a branch target variable *)
Definition missing_target (g : gspec) (t : string) : Prop :=
  is_target g t /\ ~ is_node g t /\ is_tvar t = false.
Definition target_variable (g : gspec) (t : string) : Prop :=
  is_target g t /\ is_tvar t = true.
(** a node without branches *)
Definition terminal_node (g : gspec) (x : string) : Prop :=
  exists o, In (x, o) g /\ branches_of o = [].
(** a node no branch names as its target *)
Definition orphan_node (g : gspec) (x : string) : Prop :=
  is_node g x /\ ~ is_target g x.
(** a node with a branch whose target is the empty string *)
Definition has_empty_target (g : gspec) (x : string) : Prop :=
  exists b, has_branch g x b /\ b_target b = "".
Definition uses_interpreter (g : gspec) (i : string) : Prop :=
  (exists x o, In (x, o) g /\ n_source (node_of o) = Some i) \/
  (exists x b, has_branch g x b /\ b_gsource b = Some i).

Definition same_set {A : Type} (a b : list A) : Prop := forall x, In x a <-> In x b.

(** * The same, computed *)
Fixpoint sdedup (l : list string) : list string :=
  match l with
  | [] => []
  | x :: r => if smem x r then sdedup r else x :: sdedup r
  end.
Definition opt_list {A : Type} (o : option A) : list A :=
  match o with Some a => [a] | None => [] end.

Definition g_nodecount (g : gspec) : nat := List.length g.
Definition g_branches (g : gspec) : nat := List.length (all_branches g).
Definition g_actions (g : gspec) : nat :=
  List.length (filter (fun p => node_has_action (snd p)) g).
Definition g_guards (g : gspec) : nat :=
  List.length (filter (fun xb => branch_has_guard (snd xb)) (all_branches g)).
Definition g_terminal (g : gspec) : list string :=
  map fst (filter (fun p => is_nil (branches_of (snd p))) g).
Definition g_orphans (g : gspec) : list string :=
  filter (fun x => negb (smem x (targets g))) (names g).
Definition g_empty (g : gspec) : list string :=
  sdedup (map fst (filter (fun xb => String.eqb (b_target (snd xb)) "") (all_branches g))).
Definition g_missing (g : gspec) : list string :=
  sdedup (filter (fun t => negb (is_tvar t) && negb (smem t (names g))) (targets g)).
Definition g_tvars (g : gspec) : list string :=
  sdedup (filter is_tvar (targets g)).
Definition g_interp_used (g : gspec) : list string :=
  sdedup (flat_map (fun p => opt_list (n_source (node_of (snd p)))) g
          ++ flat_map (fun xb => opt_list (b_gsource (snd xb))) (all_branches g)).
(** the report names the interpreters used; "default" stands for "none is named" *)
Definition g_interpreters (g : gspec) : list string :=
  match g_interp_used g with
  | [] => [default_interpreter]
  | l => l
  end.

(** * What a rendering denotes *)
Inductive item : Type :=
| NodeItem (name : string)
| EdgeItem (from to : string).

Definition item_nodes (l : list item) : list string :=
  flat_map (fun it => match it with NodeItem x => [x] | EdgeItem _ _ => [] end) l.
Definition item_edges (l : list item) : list (string * string) :=
  flat_map (fun it => match it with NodeItem _ => [] | EdgeItem a b => [(a, b)] end) l.

(** one edge per branch *)
Definition g_edges (g : gspec) : list (string * string) :=
  map (fun xb => (fst xb, b_target (snd xb))) (all_branches g).
(** targets that are not nodes are drawn as placeholders, one each *)
Definition g_placeholders (g : gspec) : list string :=
  sdedup (filter (fun t => negb (smem t (names g))) (targets g)).
(** one node per spec node (and the placeholders) *)
Definition g_render_nodes (g : gspec) : list string := names g ++ g_placeholders g.

(** Graphviz statements name their nodes directly *)
Definition dstmt_item (s : dstmt) : item :=
  match s with
  | DNode x _ => NodeItem x
  | DEdge a b => EdgeItem a b
  end.
Definition dot_items (l : list dstmt) : list item := map dstmt_item l.
Definition dot_placeholders (l : list dstmt) : list string :=
  flat_map (fun s => match s with DNode x true => [x] | _ => [] end) l.

(** Mermaid statements use generated ids: an edge denotes the pair of names
    its ids were declared with; a file with an undeclared or twice declared
    id denotes nothing *)
Definition mer_table (l : list mstmt) : list (nat * string) :=
  flat_map (fun s => match s with MNode i x _ => [(i, x)] | MEdge _ _ => [] end) l.
Fixpoint tab_get (i : nat) (t : list (nat * string)) : option string :=
  match t with
  | [] => None
  | (j, x) :: r => if Nat.eqb i j then Some x else tab_get i r
  end.
Fixpoint nat_nodup (l : list nat) : bool :=
  match l with
  | [] => true
  | x :: r => negb (existsb (Nat.eqb x) r) && nat_nodup r
  end.
Fixpoint mer_denote (t : list (nat * string)) (l : list mstmt) : option (list item) :=
  match l with
  | [] => Some []
  | MNode _ x _ :: r => option_map (cons (NodeItem x)) (mer_denote t r)
  | MEdge a b :: r =>
      match tab_get a t, tab_get b t, mer_denote t r with
      | Some x, Some y, Some items => Some (EdgeItem x y :: items)
      | _, _, _ => None
      end
  end.
Definition mer_items (l : list mstmt) : option (list item) :=
  if nat_nodup (map fst (mer_table l)) then mer_denote (mer_table l) l else None.
