(** The decidable C02 oracles of Corr/MatchCorr.v ([c02_found] on a planted
    assignment) accept whatever the completeness theorems guarantee: on code
    that computes what the model computes they cannot raise an alarm. *)
From Sheens Require Import Spec.Embed Spec.EmbedOpt Proofs.MatchComplete Proofs.MatchCompleteOpt.

Lemma in_c02_found sg (bss : list bindings) : In sg bss -> c02_found sg bss = true.
Proof.
  intros H. unfold c02_found. apply existsb_exists. exists sg. split; [exact H|].
  unfold bindings_eqb. apply json_eqb_refl.
Qed.

Theorem c02_oracle_sound : forall ord, perm_oracle ord -> forall p f sg,
  c02_pre p f sg = true -> embeds sg p f = true ->
  exists n0, forall fuel, n0 <= fuel ->
    exists bss, match_ ord fuel p f [] = Ok bss /\ c02_found sg bss = true.
Proof.
  intros ord Hord p f sg Hpre Hemb.
  destruct (match_complete ord Hord p f sg Hpre Hemb) as [n0 H]. exists n0. intros fuel Hf.
  destruct (H fuel Hf) as [bss [Hm Hin]]. exists bss. split; [exact Hm | exact (in_c02_found sg bss Hin)].
Qed.

Theorem c02_opt_oracle_sound : forall ord, perm_oracle ord -> forall p f sg,
  c02_pre_opt p f sg = true -> embeds_opt sg p f = true ->
  exists n0, forall fuel, n0 <= fuel ->
    exists bss, match_ ord fuel p f [] = Ok bss /\ c02_found sg bss = true.
Proof.
  intros ord Hord p f sg Hpre Hemb.
  destruct (match_complete_opt ord Hord p f sg Hpre Hemb) as [n0 H]. exists n0. intros fuel Hf.
  destruct (H fuel Hf) as [bss [Hm Hin]]. exists bss. split; [exact Hm | exact (in_c02_found sg bss Hin)].
Qed.
