(** Extras never prevent a match: adding properties or elements to the
    message keeps [embeds], at the top and at any depth. *)
From Sheens Require Export Proofs.CplBasics.

Lemma assoc_app_some : forall k l1 l2 y, assoc k l1 = Some y -> assoc k (l1 ++ l2) = Some y.
Proof.
  intros k l1 l2 y; induction l1 as [|[k' v] r IH]; cbn [assoc app]; [discriminate|].
  destruct (String.eqb k k'); auto.
Qed.

Lemma embeds_obj_eq' : forall sg kvs fkvs,
  embeds sg (JObj kvs) (JObj fkvs) =
  match kvs with
  | [(k, q)] =>
      if is_var k then
        existsb (fun fkv : string * json =>
                   var_embeds sg k (JStr (fst fkv)) && embeds sg q (snd fkv)) fkvs
      else
        match assoc k fkvs with
        | Some y => embeds sg q y
        | None => false
        end
  | _ =>
      forallb (fun kv : string * json =>
                 negb (is_var (fst kv)) &&
                 match assoc (fst kv) fkvs with
                 | Some y => embeds sg (snd kv) y
                 | None => false
                 end) kvs
  end.
Proof. intros sg kvs fkvs. destruct kvs as [|[k q] [|kv2 r]]; reflexivity. Qed.

(** the hypothesis [assoc k fkvs = None] is not used: [assoc] takes the
    first entry, so an appended duplicate key is invisible *)
Theorem embeds_extra_key : forall sg kvs fkvs k x, assoc k fkvs = None ->
  embeds sg (JObj kvs) (JObj fkvs) = true ->
  embeds sg (JObj kvs) (JObj (fkvs ++ [(k, x)])) = true.
Proof.
  intros sg kvs fkvs k x _ H. rewrite embeds_obj_eq' in *.
  assert (Hall : forall l,
             forallb (fun kv : string * json =>
                        negb (is_var (fst kv)) &&
                        match assoc (fst kv) fkvs with
                        | Some y => embeds sg (snd kv) y
                        | None => false
                        end) l = true ->
             forallb (fun kv : string * json =>
                        negb (is_var (fst kv)) &&
                        match assoc (fst kv) (fkvs ++ [(k, x)]) with
                        | Some y => embeds sg (snd kv) y
                        | None => false
                        end) l = true).
  { intros l Hl. rewrite forallb_forall in *. intros kv Hin. specialize (Hl kv Hin).
    apply andb_true_iff in Hl. destruct Hl as [H1 H2]. rewrite H1. cbn [andb].
    destruct (assoc (fst kv) fkvs) as [y|] eqn:E; [|discriminate].
    rewrite (assoc_app_some _ _ _ _ E). exact H2. }
  destruct kvs as [|[k0 q] [|kv2 r]]; try (apply Hall; exact H).
  destruct (is_var k0).
  - rewrite existsb_app, H. reflexivity.
  - destruct (assoc k0 fkvs) as [y|] eqn:E; [|discriminate].
    rewrite (assoc_app_some _ _ _ _ E). exact H.
Qed.

(** * Arrays *)
Lemma picks_app_l : forall (A : Type) (l l2 : list A) y rest,
  In (y, rest) (picks l) -> In (y, rest ++ l2) (picks (l ++ l2)).
Proof.
  intros A l l2; induction l as [|x l IH]; intros y rest H; [contradiction|].
  cbn [picks app] in *. destruct H as [H|H].
  - inversion H; subst. left; reflexivity.
  - right. apply in_map_iff in H. destruct H as [[y' r'] [Heq Hin]]. cbn [fst snd] in Heq.
    inversion Heq; subst. apply in_map_iff. exists (y, r' ++ l2). split; [reflexivity | apply IH; exact Hin].
Qed.

Section InjAssignMono.
  Context {A : Type}.
  Variable P : A -> json -> bool.
  Let noskip : A -> bool := fun _ => false.

  Lemma inj_assign_app : forall xs fa extras,
    inj_assign P noskip xs fa = true -> inj_assign P noskip xs (fa ++ extras) = true.
  Proof.
    induction xs as [|x xs IH]; intros fa extras H; [reflexivity|].
    cbn [inj_assign] in *. unfold noskip in H at 1. unfold noskip at 1. cbv beta iota in *.
    apply existsb_exists in H. destruct H as [[y rest] [Hin Hy]]. cbn [fst snd] in Hy.
    apply andb_true_iff in Hy. destruct Hy as [HP Hrest].
    apply existsb_exists. exists (y, rest ++ extras). split; [apply picks_app_l; exact Hin|].
    cbn [fst snd]. rewrite HP. cbn [andb]. apply IH; exact Hrest.
  Qed.

  Lemma picks_Forall2 : forall (R : json -> json -> Prop) (l l' : list json) y rest,
    Forall2 R l l' -> In (y, rest) (picks l) ->
    exists y' rest', In (y', rest') (picks l') /\ R y y' /\ Forall2 R rest rest'.
  Proof.
    intros R l l' y rest HF; revert y rest. induction HF as [|a a' l l' Ha HF IH]; intros y rest H; [contradiction|].
    cbn [picks] in H. destruct H as [H|H].
    - inversion H; subst. exists a', l'. split; [left; reflexivity | split; assumption].
    - apply in_map_iff in H. destruct H as [[y0 r0] [Heq Hin]]. cbn [fst snd] in Heq. inversion Heq; subst.
      destruct (IH _ _ Hin) as [y' [rest' [H1 [H2 H3]]]].
      exists y', (a' :: rest'). split; [|split; [exact H2 | constructor; assumption]].
      cbn [picks]. right. apply in_map_iff. exists (y', rest'). split; [reflexivity | exact H1].
  Qed.

  Lemma inj_assign_mono : forall xs fa fa',
    Forall2 (fun y y' => forall x, In x xs -> P x y = true -> P x y' = true) fa fa' ->
    inj_assign P noskip xs fa = true -> inj_assign P noskip xs fa' = true.
  Proof.
    induction xs as [|x xs IH]; intros fa fa' HF H; [reflexivity|].
    cbn [inj_assign] in *. unfold noskip in H at 1. unfold noskip at 1. cbv beta iota in *.
    apply existsb_exists in H. destruct H as [[y rest] [Hin Hy]]. cbn [fst snd] in Hy.
    apply andb_true_iff in Hy. destruct Hy as [HP Hrest].
    destruct (picks_Forall2 _ _ _ _ _ HF Hin) as [y' [rest' [H1 [H2 H3]]]].
    apply existsb_exists. exists (y', rest'). split; [exact H1|]. cbn [fst snd].
    rewrite (H2 x (or_introl eq_refl) HP). cbn [andb].
    apply (IH rest rest'); [|exact Hrest].
    clear - H3. induction H3 as [|a b l l' Hab HF IHF]; constructor; [|exact IHF].
    intros x' Hx'. apply Hab. right; exact Hx'.
  Qed.
End InjAssignMono.

Theorem embeds_extra_elem : forall sg xs fa x,
  embeds sg (JArr xs) (JArr fa) = true -> embeds sg (JArr xs) (JArr (fa ++ [x])) = true.
Proof. intros sg xs fa x H. cbn [embeds] in *. apply inj_assign_app; exact H. Qed.

(** * Any depth *)
(** [adds_extras p f f']: [f'] is [f] with extra properties / elements added
    at skeleton positions of [p], at any depth.  What stands under a
    variable is unchanged (only [AE_same] applies to a variable pattern).
    - object: every property of [f] is kept; its value may be extended along
      the sub-pattern(s) that can stand over it (the pattern entry with the
      same key, or the entry with a variable key); a property that no
      pattern entry can stand over is unchanged; [f'] may have more keys.
    - array: the elements of [f] are kept, each possibly extended in a way
      compatible with every element of the pattern array (any of them may be
      the one matched against it; so with a variable directly in the pattern
      array the old elements are unchanged), and elements are appended. *)
Inductive adds_extras : json -> json -> json -> Prop :=
| AE_same : forall p f, adds_extras p f f
| AE_obj : forall kvs fkvs fkvs',
    (forall k y, assoc k fkvs = Some y ->
       exists y', assoc k fkvs' = Some y' /\
         (forall kp q, In (kp, q) kvs -> kp = k \/ is_var kp = true -> adds_extras q y y') /\
         ((forall kp q, In (kp, q) kvs -> kp <> k /\ is_var kp = false) -> y' = y)) ->
    adds_extras (JObj kvs) (JObj fkvs) (JObj fkvs')
| AE_arr : forall xs fa fa' extras,
    Forall2 (fun y y' => (forall x, In x xs -> adds_extras x y y') /\ (xs = [] -> y' = y)) fa fa' ->
    adds_extras (JArr xs) (JArr fa) (JArr (fa' ++ extras)).

Lemma nodup_keys_assoc : forall kvs k y,
  nodup_keys (map fst kvs) = true -> In (k, y) kvs -> assoc k kvs = Some y.
Proof.
  induction kvs as [|[k0 y0] r IH]; intros k y Hn Hin; [contradiction|].
  cbn [map fst nodup_keys] in Hn. apply andb_true_iff in Hn. destruct Hn as [Hk0 Hr].
  cbn [assoc]. destruct Hin as [Heq|Hin].
  - inversion Heq; subst. rewrite String.eqb_refl. reflexivity.
  - destruct (String.eqb k k0) eqn:E; [|apply IH; assumption].
    apply String.eqb_eq in E; subst k0. apply negb_true_iff in Hk0.
    assert (Hex : existsb (String.eqb k) (map fst r) = true).
    { apply existsb_exists. exists k. split; [|apply String.eqb_refl].
      apply in_map_iff. exists (k, y); split; [reflexivity | exact Hin]. }
    congruence.
Qed.

(** the message must have unique object keys (true of every Go map): the
    property-variable rule of [embeds] ranges over the entries, [adds_extras]
    speaks of the value looked up under a key *)
Theorem embeds_adds_extras : forall sg p f f',
  wf_json f = true -> embeds sg p f = true -> adds_extras p f f' -> embeds sg p f' = true.
Proof.
  intros sg p; induction p as [| b | z | s | xs IH | kvs IH] using json_ind'; intros f f' Hwf He Ha;
    inversion Ha; subst; try exact He.
  - (* arrays *)
    cbn [embeds] in He |- *. apply inj_assign_app.
    eapply inj_assign_mono; [|exact He].
    cbn [wf_json] in Hwf. rewrite forallb_forall in Hwf. rewrite Forall_forall in IH.
    clear Ha He.
    match goal with HF : Forall2 _ fa fa' |- _ => revert Hwf; induction HF as [|y y' l l' [Hyy _] HF IHF]; intros Hwf end;
      constructor.
    + intros x Hx Hxy. eapply (IH x Hx); [apply Hwf; left; reflexivity | exact Hxy | apply Hyy; exact Hx].
    + apply IHF. intros y0 Hy0. apply Hwf. right; exact Hy0.
  - (* objects *)
    match goal with H : forall k y, assoc k fkvs = Some y -> _ |- _ => rename H into Hrel end. cbn [wf_json] in Hwf. apply andb_true_iff in Hwf. destruct Hwf as [Hnd Hwf].
    rewrite forallb_forall in Hwf. rewrite Forall_forall in IH.
    rewrite embeds_obj_eq' in *.
    assert (Hall :
              forallb (fun kv : string * json =>
                         negb (is_var (fst kv)) &&
                         match assoc (fst kv) fkvs with
                         | Some y => embeds sg (snd kv) y
                         | None => false
                         end) kvs = true ->
              forallb (fun kv : string * json =>
                         negb (is_var (fst kv)) &&
                         match assoc (fst kv) fkvs' with
                         | Some y => embeds sg (snd kv) y
                         | None => false
                         end) kvs = true).
    { intros Hl. rewrite forallb_forall in *. intros [kp q] Hin. specialize (Hl (kp, q) Hin).
      cbn [fst snd] in *. apply andb_true_iff in Hl. destruct Hl as [H1 H2]. rewrite H1. cbn [andb].
      destruct (assoc kp fkvs) as [y|] eqn:E; [|discriminate].
      destruct (Hrel kp y E) as [y' [E' [Hsub _]]]. rewrite E'.
      eapply (IH (kp, q) Hin); [apply (Hwf (kp, y)); apply assoc_In; exact E | exact H2 |].
      apply (Hsub kp q Hin). left; reflexivity. }
    destruct kvs as [|[k0 q] [|kv2 r]]; try (apply Hall; exact He).
    destruct (is_var k0) eqn:Ek.
    + apply existsb_exists in He. destruct He as [[fk fv] [Hin Hfe]]. cbn [fst snd] in Hfe.
      apply andb_true_iff in Hfe. destruct Hfe as [Hek Hev].
      pose proof (nodup_keys_assoc fkvs fk fv Hnd Hin) as E.
      destruct (Hrel fk fv E) as [y' [E' [Hsub _]]].
      apply existsb_exists. exists (fk, y'). split; [apply assoc_In; exact E'|]. cbn [fst snd].
      rewrite Hek. cbn [andb].
      eapply (IH (k0, q) (or_introl eq_refl)); [apply (Hwf (fk, fv) Hin) | exact Hev |].
      apply (Hsub k0 q (or_introl eq_refl)). right; exact Ek.
    + destruct (assoc k0 fkvs) as [y|] eqn:E; [|discriminate].
      destruct (Hrel k0 y E) as [y' [E' [Hsub _]]]. rewrite E'.
      eapply (IH (k0, q) (or_introl eq_refl)); [apply (Hwf (k0, y)); apply assoc_In; exact E | exact He |].
      apply (Hsub k0 q (or_introl eq_refl)). left; reflexivity.
Qed.

Print Assumptions embeds_extra_key.
Print Assumptions embeds_extra_elem.
Print Assumptions embeds_adds_extras.
