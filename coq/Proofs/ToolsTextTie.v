(** C20: the escape tables of the text level are the source's.

    Model/ToolsText.v's [dot_escape] (inside dotID), [dot_html] (dotHTML) and
    [mermaid_text] (mermaidText) are [byte_replace] - the byte-wise replacer
    Go builds for one-byte old strings - over three tables of pairs.  The
    tables are not written in the model: harness/cmd/genconsts reads the
    arguments of the three strings.NewReplacer calls from tools/dot.go and
    tools/mermaid.go of the tree under test on every run and writes them to
    Gen/Names.v ([dot_id_escapes], [dot_html_escapes],
    [mermaid_text_escapes]: old byte, new string, source order).

    Here: (1) the three functions are the replacement by the generated
    tables; (2) each generated table, as a function from bytes to
    replacements, is the one the comments in the source and the theorems of
    Properties/C20.v describe (backslash and quote escaped by a backslash;
    ampersand and the angle brackets as entities; hash and quote as Mermaid
    entity codes; every other byte is copied).  An edit of a pair in the
    source changes Gen/Names.v and (2) (with the equations [dot_escape_cons],
    [dot_html_cons], [mermaid_text_cons] of Proofs/ToolsTextProofs.v, on
    which injectivity and the read-back theorems rest) no longer goes
    through. *)
From Coq Require Import String Ascii List.
From Sheens Require Import Model.ToolsText.
Import ListNotations.
Local Open Scope string_scope.

Theorem escapes_are_generated_tables :
  (forall s, dot_escape s = byte_replace dot_id_escapes s)
  /\ (forall s, dot_html s = byte_replace dot_html_escapes s)
  /\ (forall s, mermaid_text s = byte_replace mermaid_text_escapes s).
Proof. repeat split; reflexivity. Qed.

Theorem dot_id_table : forall c,
  lookup_byte dot_id_escapes c =
  if Ascii.eqb c bslash then Some (String bslash (String bslash ""))
  else if Ascii.eqb c dquote then Some (String bslash (String dquote ""))
  else None.
Proof.
  intros c. unfold dot_id_escapes, bslash, dquote. cbn [lookup_byte].
  destruct (Ascii.eqb c "092"%char) eqn:E1.
  - reflexivity.
  - destruct (Ascii.eqb c "034"%char); reflexivity.
Qed.

Theorem dot_html_table : forall c,
  lookup_byte dot_html_escapes c =
  if Ascii.eqb c amp then Some "&amp;"
  else if Ascii.eqb c langle then Some "&lt;"
  else if Ascii.eqb c rangle then Some "&gt;"
  else None.
Proof.
  intros c. unfold dot_html_escapes, amp, langle, rangle. cbn [lookup_byte].
  destruct (Ascii.eqb c "038"%char); [reflexivity|].
  destruct (Ascii.eqb c "060"%char); [reflexivity|].
  destruct (Ascii.eqb c "062"%char); reflexivity.
Qed.

Theorem mermaid_text_table : forall c,
  lookup_byte mermaid_text_escapes c =
  if Ascii.eqb c hash then Some "#35;"
  else if Ascii.eqb c dquote then Some "#quot;"
  else None.
Proof.
  intros c. unfold mermaid_text_escapes, hash, dquote. cbn [lookup_byte].
  destruct (Ascii.eqb c "035"%char); [reflexivity|].
  destruct (Ascii.eqb c "034"%char); reflexivity.
Qed.

(** the old bytes of a table are pairwise different, so the order of the
    pairs in the source does not matter to the replacer *)
Theorem escape_tables_have_distinct_olds :
  NoDup (map fst dot_id_escapes) /\ NoDup (map fst dot_html_escapes) /\ NoDup (map fst mermaid_text_escapes).
Proof.
  repeat split; cbn; repeat constructor; cbn; intuition discriminate.
Qed.
