(** Facts about one step of the engine model (Model/Step.v) that the walk
    theorems (C05) and the step theorems (C04, C07, C08, C18) rest on.  All
    of them hold for every action type and every behaviour [run] of actions
    and guards. *)
From Coq Require Import Lia.
From Sheens Require Import Model.Step Spec.WalkSpec.

Section Facts.
  Variable action : Type.
  Variable run : action -> option bindings -> exec_raw.
  Variable s : spec action.

  Notation step := (step action run).
  Notation consider := (consider action run).
  Notation first_branch := (first_branch action run).
  Notation try_branch := (try_branch action run).
  Notation walk_stride := (walk_stride action run s).

  Definition is_consumer (bg : option (branching action)) : bool :=
    match bg with
    | Some b => String.eqb (bg_type b) "message"
    | None => false
    end.

  Lemma consider_flag bg bs pending :
    snd (fst (consider bg bs pending)) = is_consumer bg.
  Proof.
    unfold consider, is_consumer. destruct bg as [b|]; [|reflexivity].
    destruct (String.eqb (bg_type b) "message").
    - destruct pending as [m|]; [|reflexivity].
      destruct (first_branch (bg_branches b) bs m). reflexivity.
    - destruct (first_branch (bg_branches b) bs (JObj (copy_bs bs))). reflexivity.
  Qed.

  Lemma consider_nonconsumer bg bs p p' :
    is_consumer bg = false -> consider bg bs p = consider bg bs p'.
  Proof.
    unfold consider, is_consumer. destruct bg as [b|]; [|reflexivity].
    intros H. rewrite H. reflexivity.
  Qed.

  Lemma consider_no_message bg bs :
    is_consumer bg = true -> consider bg bs None = (TNone, true, false).
  Proof.
    unfold consider, is_consumer. destruct bg as [b|]; [|discriminate].
    intros H. rewrite H. reflexivity.
  Qed.

  (** the part of [step] after the action: branches are considered *)
  Definition continue_ (n : node action) (st : state) (pending : option json)
             (have : bool) (bs : option bindings) (emitted : list json) : step_out :=
    let from := copy_state st in
    let '(tr, consumer, amb) := consider (nd_branching n) bs pending in
    let consumed := if consumer then pending else None in
    match tr with
    | TTo st' =>
        mk_step_out (Some (mk_stride from (Some (copy_state st')) consumed emitted)) None amb
    | _ =>
        let err := match tr with TErr e => Some e | _ => None end in
        let to :=
          if have then
            Some (mk_state error_node_literal
                           (Some (error_bindings (copy_bs bs) no_branch_text st)))
          else None in
        mk_step_out (Some (mk_stride from to consumed emitted)) err amb
    end.

  (** [step] written with [continue_] (same term, by computation) *)
  Lemma step_unfold st pending :
    step s st pending =
    if negb (sp_compiled s) then mk_step_out None (Some ENotCompiled) false else
    match find_node (st_node st) (sp_nodes s) with
    | None => mk_step_out None (Some EUnknownNode) false
    | Some n =>
        let have := match nd_action n with Some _ => true | None => false end in
        if negb have && nd_uncompiled n then mk_step_out None (Some EUncompiledAction) false else
        if have && is_consumer (nd_branching n)
        then mk_step_out None (Some EBadBranching) false else
        match nd_action n with
        | None => continue_ n st pending have (st_bs st) []
        | Some a =>
            let '((ob, emitted), err) := func_exec action run a (st_bs st) in
            let ebs := copy_bs ob in
            if negb err then continue_ n st pending have (Some ebs) emitted
            else
              let bs := bset "error" err_text (bset "actionError" err_text (copy_bs (st_bs st))) in
              if negb (sp_err_branches s) then
                if String.eqb (sp_err_node s) "" then mk_step_out None (Some EAction) false
                else mk_step_out
                       (Some (mk_stride (copy_state st) (Some (mk_state (sp_err_node s) (Some bs))) None emitted))
                       None false
              else continue_ n st pending have (Some bs) emitted
        end
    end.
  Proof. reflexivity. Qed.

  Lemma continue_consumed n st pending have bs em sd :
    so_stride (continue_ n st pending have bs em) = Some sd ->
    sd_consumed sd = if is_consumer (nd_branching n) then pending else None.
  Proof.
    unfold continue_. pose proof (consider_flag (nd_branching n) bs pending) as Hf.
    destruct (consider (nd_branching n) bs pending) as [[tr consumer] amb]. cbn in Hf. subst consumer.
    destruct tr; cbn; intros H; inversion H; reflexivity.
  Qed.

  Lemma continue_from n st pending have bs em sd :
    so_stride (continue_ n st pending have bs em) = Some sd -> sd_from sd = copy_state st.
  Proof.
    unfold continue_.
    destruct (consider (nd_branching n) bs pending) as [[tr consumer] amb].
    destruct tr; cbn; intros H; inversion H; reflexivity.
  Qed.

  Lemma continue_emitted n st pending have bs em sd :
    so_stride (continue_ n st pending have bs em) = Some sd -> sd_emitted sd = em.
  Proof.
    unfold continue_.
    destruct (consider (nd_branching n) bs pending) as [[tr consumer] amb].
    destruct tr; cbn; intros H; inversion H; reflexivity.
  Qed.

  Lemma continue_some n st pending have bs em :
    so_stride (continue_ n st pending have bs em) <> None.
  Proof.
    unfold continue_.
    destruct (consider (nd_branching n) bs pending) as [[tr consumer] amb].
    destruct tr; cbn; discriminate.
  Qed.

  Lemma continue_nonconsumer n st p p' have bs em :
    is_consumer (nd_branching n) = false ->
    continue_ n st p have bs em = continue_ n st p' have bs em.
  Proof.
    intros H. unfold continue_. rewrite (consider_nonconsumer _ bs p p' H).
    pose proof (consider_flag (nd_branching n) bs p') as Hf.
    destruct (consider (nd_branching n) bs p') as [[tr consumer] amb]. cbn in Hf. subst consumer.
    rewrite H. reflexivity.
  Qed.

  (** with an action, a step that followed no branch goes to the error node *)
  Lemma continue_have_to n st pending bs em sd :
    so_stride (continue_ n st pending true bs em) = Some sd -> sd_to sd <> None.
  Proof.
    unfold continue_.
    destruct (consider (nd_branching n) bs pending) as [[tr consumer] amb].
    destruct tr; cbn; intros H; inversion H; cbn; discriminate.
  Qed.

  (** * What a stride of [step] consumed *)
  Lemma step_consumed st pending sd :
    so_stride (step s st pending) = Some sd ->
    sd_consumed sd = None \/ sd_consumed sd = pending.
  Proof.
    rewrite step_unfold.
    destruct (negb (sp_compiled s)); [discriminate|].
    destruct (find_node (st_node st) (sp_nodes s)) as [n|]; [|discriminate].
    cbv zeta.
    destruct (negb _ && nd_uncompiled n); [discriminate|].
    destruct (_ && is_consumer (nd_branching n)); [discriminate|].
    destruct (nd_action n) as [a|].
    - destruct (func_exec action run a (st_bs st)) as [[ob em] err].
      destruct (negb err).
      + intros H. rewrite (continue_consumed _ _ _ _ _ _ _ H).
        destruct (is_consumer _); auto.
      + destruct (negb (sp_err_branches s)).
        * destruct (String.eqb (sp_err_node s) ""); [discriminate|].
          intros H. inversion H. left. reflexivity.
        * intros H. rewrite (continue_consumed _ _ _ _ _ _ _ H).
          destruct (is_consumer _); auto.
    - intros H. rewrite (continue_consumed _ _ _ _ _ _ _ H).
      destruct (is_consumer _); auto.
  Qed.

  Lemma step_from st pending sd :
    so_stride (step s st pending) = Some sd -> sd_from sd = copy_state st.
  Proof.
    rewrite step_unfold.
    destruct (negb (sp_compiled s)); [discriminate|].
    destruct (find_node (st_node st) (sp_nodes s)) as [n|]; [|discriminate].
    cbv zeta.
    destruct (negb _ && nd_uncompiled n); [discriminate|].
    destruct (_ && is_consumer (nd_branching n)); [discriminate|].
    destruct (nd_action n) as [a|].
    - destruct (func_exec action run a (st_bs st)) as [[ob em] err].
      destruct (negb err).
      + apply continue_from.
      + destruct (negb (sp_err_branches s)).
        * destruct (String.eqb (sp_err_node s) ""); [discriminate|].
          intros H. inversion H. reflexivity.
        * apply continue_from.
    - apply continue_from.
  Qed.

  (** a step that was offered a message and did not consume it did not look
      at it: the same step results from any other pending message or none *)
  Lemma step_unconsumed_indep st m :
    (forall sd, so_stride (step s st (Some m)) = Some sd -> sd_consumed sd = None) ->
    forall p, step s st p = step s st (Some m).
  Proof.
    intros H p. revert H. rewrite !step_unfold.
    destruct (negb (sp_compiled s)); [reflexivity|].
    destruct (find_node (st_node st) (sp_nodes s)) as [n|]; [|reflexivity].
    cbv zeta.
    destruct (negb _ && nd_uncompiled n); [reflexivity|].
    destruct (_ && is_consumer (nd_branching n)); [reflexivity|].
    assert (Hc : forall have bs em,
               (forall sd, so_stride (continue_ n st (Some m) have bs em) = Some sd -> sd_consumed sd = None) ->
               continue_ n st p have bs em = continue_ n st (Some m) have bs em).
    { intros have bs em H.
      destruct (is_consumer (nd_branching n)) eqn:E.
      - exfalso. destruct (so_stride (continue_ n st (Some m) have bs em)) as [sd|] eqn:Es.
        + pose proof (continue_consumed _ _ _ _ _ _ _ Es) as Hk. rewrite E in Hk.
          rewrite (H sd eq_refl) in Hk. discriminate.
        + exact (continue_some _ _ _ _ _ _ Es).
      - apply continue_nonconsumer. exact E. }
    destruct (nd_action n) as [a|].
    - destruct (func_exec action run a (st_bs st)) as [[ob em] err].
      destruct (negb err).
      + apply Hc.
      + destruct (negb (sp_err_branches s)); [reflexivity|]. apply Hc.
    - apply Hc.
  Qed.

  (** a step that consumed its message does nothing without one *)
  Lemma step_consumer_waits st m sd :
    so_stride (step s st (Some m)) = Some sd -> sd_consumed sd = Some m ->
    exists sd', step s st None = mk_step_out (Some sd') None false /\
                sd_to sd' = None /\ sd_consumed sd' = None /\ sd_emitted sd' = [] /\
                sd_from sd' = copy_state st.
  Proof.
    rewrite !step_unfold.
    destruct (negb (sp_compiled s)); [discriminate|].
    destruct (find_node (st_node st) (sp_nodes s)) as [n|]; [|discriminate].
    cbv zeta.
    destruct (negb _ && nd_uncompiled n); [discriminate|].
    destruct (nd_action n) as [a|] eqn:Ea.
    - cbn [andb].
      destruct (is_consumer (nd_branching n)) eqn:E; [discriminate|].
      (* a node with an action is never a consumer *)
      destruct (func_exec action run a (st_bs st)) as [[ob em] err].
      assert (Hno : forall have bs em0 sd0,
                 so_stride (continue_ n st (Some m) have bs em0) = Some sd0 -> sd_consumed sd0 = Some m -> False).
      { intros have bs em0 sd0 Hs Hk. rewrite (continue_consumed _ _ _ _ _ _ _ Hs), E in Hk. discriminate. }
      destruct (negb err).
      + intros Hs Hk. exfalso. eauto.
      + destruct (negb (sp_err_branches s)).
        * destruct (String.eqb (sp_err_node s) ""); [discriminate|].
          intros Hs Hk. inversion Hs. subst sd. discriminate.
        * intros Hs Hk. exfalso. eauto.
    - cbn [andb]. intros Hs Hk.
      pose proof (continue_consumed _ _ _ _ _ _ _ Hs) as Hc. rewrite Hk in Hc.
      destruct (is_consumer (nd_branching n)) eqn:E; [|discriminate].
      unfold continue_. rewrite (consider_no_message _ _ E).
      eexists. split; [reflexivity|]. cbn. repeat split.
  Qed.


  (** without a message: either the step does not depend on what is pending
      at all, or the node waits for a message and nothing happens *)
  Lemma step_none_cases st :
    (forall p, step s st p = step s st None) \/
    (exists sd', step s st None = mk_step_out (Some sd') None false /\
                 sd_to sd' = None /\ sd_consumed sd' = None /\ sd_emitted sd' = []).
  Proof.
    rewrite step_unfold.
    destruct (negb (sp_compiled s)) eqn:E1; [left; intros p; rewrite step_unfold, E1; reflexivity|].
    destruct (find_node (st_node st) (sp_nodes s)) as [n|] eqn:E2;
      [|left; intros p; rewrite step_unfold, E1, E2; reflexivity].
    cbv zeta.
    destruct (negb _ && nd_uncompiled n) eqn:E3;
      [left; intros p; rewrite step_unfold, E1, E2; cbv zeta; rewrite E3; reflexivity|].
    destruct (_ && is_consumer (nd_branching n)) eqn:E4;
      [left; intros p; rewrite step_unfold, E1, E2; cbv zeta; rewrite E3, E4; reflexivity|].
    destruct (is_consumer (nd_branching n)) eqn:E.
    - (* a consumer: no action *)
      destruct (nd_action n) as [a|] eqn:Ea; [cbn in E4; discriminate|].
      right. unfold continue_. rewrite (consider_no_message _ _ E).
      eexists. split; [reflexivity|]. cbn. repeat split.
    - left. intros p. rewrite step_unfold, E1, E2. cbv zeta. rewrite E3, E, E4.
      destruct (nd_action n) as [a|].
      + destruct (func_exec action run a (st_bs st)) as [[ob em] err].
        destruct (negb err); [apply continue_nonconsumer; exact E|].
        destruct (negb (sp_err_branches s)); [reflexivity|]. apply continue_nonconsumer; exact E.
      + apply continue_nonconsumer; exact E.
  Qed.

  (** a stride that went nowhere emitted nothing *)
  Lemma step_idle_silent st pending sd :
    so_stride (step s st pending) = Some sd -> sd_to sd = None -> sd_emitted sd = [].
  Proof.
    rewrite step_unfold.
    destruct (negb (sp_compiled s)); [discriminate|].
    destruct (find_node (st_node st) (sp_nodes s)) as [n|]; [|discriminate].
    cbv zeta.
    destruct (negb _ && nd_uncompiled n); [discriminate|].
    destruct (_ && is_consumer (nd_branching n)); [discriminate|].
    destruct (nd_action n) as [a|].
    - destruct (func_exec action run a (st_bs st)) as [[ob em] err].
      destruct (negb err).
      + intros H Hto. exfalso. exact (continue_have_to _ _ _ _ _ _ H Hto).
      + destruct (negb (sp_err_branches s)).
        * destruct (String.eqb (sp_err_node s) ""); [discriminate|].
          intros H. inversion H. cbn. discriminate.
        * intros H Hto. exfalso. exact (continue_have_to _ _ _ _ _ _ H Hto).
    - intros H _. exact (continue_emitted _ _ _ _ _ _ _ H).
  Qed.

  (** * The stride [walk] records *)
  Lemma walk_stride_peek st p p' :
    peek p = peek p' -> walk_stride st p = walk_stride st p'.
  Proof. intros H. unfold Step.walk_stride. rewrite H. reflexivity. Qed.

  Lemma walk_stride_from st p : sd_from (fst (walk_stride st p)) = copy_state st.
  Proof.
    unfold Step.walk_stride.
    destruct (so_stride (step s st (peek p))) as [sd|] eqn:Es.
    - pose proof (step_from _ _ _ Es) as Hf.
      destruct (so_err _); [destruct (String.eqb _ _)|]; cbn; exact Hf.
    - destruct (so_err _); [destruct (String.eqb _ _)|]; reflexivity.
  Qed.

  Lemma walk_stride_consumed st p :
    sd_consumed (fst (walk_stride st p)) = None \/
    sd_consumed (fst (walk_stride st p)) = peek p.
  Proof.
    unfold Step.walk_stride.
    destruct (so_stride (step s st (peek p))) as [sd|] eqn:Es.
    - pose proof (step_consumed _ _ _ Es) as Hc.
      destruct (so_err _); [destruct (String.eqb _ _)|]; cbn; exact Hc.
    - destruct (so_err _); [destruct (String.eqb _ _)|]; left; reflexivity.
  Qed.

  Lemma peek_some p m : peek p = Some m -> p = m :: tl p.
  Proof.
    destruct p as [|x r]; [discriminate|]. cbn.
    destruct x; intros H; inversion H; reflexivity.
  Qed.

  Lemma peek_cons m r : m <> JNull -> peek (m :: r) = Some m.
  Proof. destruct m; intros H; try reflexivity. contradiction. Qed.

  (** offered a message and not consuming it: the recorded stride is the same
      for every pending list *)
  Lemma walk_stride_unconsumed_indep st p m :
    peek p = Some m -> sd_consumed (fst (walk_stride st p)) = None ->
    forall p', walk_stride st p' = walk_stride st p.
  Proof.
    intros Hp Hc p'. unfold Step.walk_stride in *. rewrite Hp in *.
    rewrite (step_unconsumed_indep st m); [reflexivity|].
    intros sd Hs. rewrite Hs in Hc.
    destruct (so_err _); [destruct (String.eqb _ _)|]; cbn in Hc; exact Hc.
  Qed.

  (** consuming: without a message the machine stays where it is, silently *)
  Lemma walk_stride_consumer_waits st p m :
    sd_consumed (fst (walk_stride st p)) = Some m ->
    let sd' := fst (walk_stride st []) in
    sd_to sd' = None /\ sd_consumed sd' = None /\ sd_emitted sd' = [] /\ snd (walk_stride st []) = false.
  Proof.
    intros Hc.
    destruct (walk_stride_consumed st p) as [H | H]; [rewrite H in Hc; discriminate|].
    rewrite Hc in H. symmetry in H.
    unfold Step.walk_stride in Hc. rewrite H in Hc.
    destruct (so_stride (step s st (Some m))) as [sd|] eqn:Es.
    - assert (Hk : sd_consumed sd = Some m).
      { destruct (so_err _); [destruct (String.eqb _ _)|]; cbn in Hc; exact Hc. }
      destruct (step_consumer_waits _ _ _ Es Hk) as [sd' [Hs [Hto [Hcs [Hem _]]]]].
      unfold Step.walk_stride. cbn [peek]. rewrite Hs. cbn. auto.
    - destruct (so_err _); [destruct (String.eqb _ _)|]; cbn in Hc; discriminate.
  Qed.

  Lemma walk_stride_idle_silent st p :
    sd_to (fst (walk_stride st p)) = None -> sd_emitted (fst (walk_stride st p)) = [].
  Proof.
    unfold Step.walk_stride.
    destruct (so_stride (step s st (peek p))) as [sd|] eqn:Es.
    - pose proof (step_idle_silent _ _ _ Es) as Hi.
      destruct (so_err _); [destruct (String.eqb _ _)|]; cbn; try exact Hi. discriminate.
    - destruct (so_err _); [destruct (String.eqb _ _)|]; reflexivity.
  Qed.

  Lemma walk_stride_none_cases st :
    (forall p, walk_stride st p = walk_stride st []) \/
    (let sd' := fst (walk_stride st []) in
     sd_to sd' = None /\ sd_consumed sd' = None /\ sd_emitted sd' = []).
  Proof.
    destruct (step_none_cases st) as [H | [sd' [Hs [Hto [Hc Hem]]]]].
    - left. intros p. unfold Step.walk_stride. rewrite (H (peek p)). reflexivity.
    - right. unfold Step.walk_stride. cbn [peek]. rewrite Hs. cbn. auto.
  Qed.
End Facts.

(** ---- the names the engine model writes on an error ---------------------------------
    [error_bindings], the bindings of a failed action in [step] and
    [error_node_literal] use the names harness/cmd/genconsts reads from
    Spec.Step and Spec.Walk in the source of the tree under test
    (Gen/Names.v).  They are the names the rule of Spec/StepRule.v and the
    statements of Properties/C07.v and C18.v are written with (core/spec.go
    documents "actionError" and the node named 'error').  An edit of one of
    the literals in the source changes Gen/Names.v and this proof (with the
    proofs of Proofs/StepRuleProofs.v and Proofs/EngineFacts.v) no longer
    goes through. *)
Theorem error_names_documented :
  step_action_error_key = "actionError" /\ step_error_key = "error"
  /\ step_last_node_key = "lastNode" /\ step_last_bindings_key = "lastBindings"
  /\ error_node_literal = "error".
Proof. repeat split; reflexivity. Qed.

Theorem error_bindings_documented : forall base text from,
  error_bindings base text from
  = bset "lastBindings" (JObj (copy_bs (st_bs from)))
      (bset "lastNode" (JStr (st_node from)) (bset "error" text base)).
Proof. reflexivity. Qed.
