(** Representation independence of [compile]: patterns written as JSON text
    under the json syntax compile to the same Spec value as the same
    patterns written inline, for every JSON shape. *)
From Sheens Require Import Model.Compile Proofs.CanonFacts Proofs.JsonTextFacts Proofs.CompileBase.

Definition plain_doc (a : adoc) : Prop := Forall (fun p => plain_json p = true) (doc_patterns a).

(** a selection of the patterns to be written as text is admissible when it
    contains every Go string (a string has no inline form under "json") *)
Definition covers_strings (sel : json -> bool) : Prop := forall s, sel (JStr s) = true.

Lemma parse_pattern_textify : forall sel p,
  covers_strings sel -> plain_json p = true ->
  parse_pattern "json" (textify sel p) = parse_pattern "none" p.
Proof.
  intros sel p Hsel Hp. unfold parse_pattern, textify, default_pattern_parser.
  change (String.eqb "json" "none" || String.eqb "json" "")%bool with false.
  change (String.eqb "json" "json") with true.
  change (String.eqb "none" "none" || String.eqb "none" "")%bool with true.
  cbv iota.
  destruct (sel p) eqn:E.
  - rewrite (parse_print p Hp). reflexivity.
  - destruct p; try reflexivity. rewrite (Hsel s) in E. discriminate E.
Qed.

Lemma parse_patterns_text_inline : forall sel a,
  covers_strings sel -> plain_doc a ->
  parse_patterns (with_text sel a) = parse_patterns (with_inline a).
Proof.
  intros sel a Hsel Hp. unfold parse_patterns, with_text, with_inline.
  assert (Hn : ad_nodes (with_syntax "json" (map_patterns (textify sel) a))
               = map (map_node (textify sel)) (ad_nodes a)).
  { rewrite <- map_patterns_nodes. reflexivity. }
  change (ad_syntax (with_syntax "json" (map_patterns (textify sel) a))) with "json".
  change (ad_syntax (with_syntax "none" a)) with "none".
  change (ad_nodes (with_syntax "none" a)) with (ad_nodes a).
  rewrite Hn. rewrite tr_nodes_map.
  rewrite (tr_nodes_ext _ (parse_pattern "none") (ad_nodes a)).
  - destruct (tr_nodes (parse_pattern "none") (ad_nodes a)) as [e | ns]; [reflexivity |].
    simpl. f_equal. unfold map_patterns. rewrite tr_nodes_pure. destruct a; reflexivity.
  - intros p Hin. apply parse_pattern_textify; [exact Hsel |].
    unfold plain_doc in Hp. rewrite Forall_forall in Hp. apply Hp. exact Hin.
Qed.

Theorem compile_text_inline : forall I force sel a,
  covers_strings sel -> plain_doc a ->
  compile I force (with_text sel a) = compile I force (with_inline a).
Proof.
  intros I force sel a Hsel Hp. unfold compile.
  rewrite (parse_patterns_text_inline sel a Hsel Hp). reflexivity.
Qed.

(** the empty syntax is the "none" syntax: same machine (the Spec values
    differ in the PatternSyntax field only) *)
Lemma parse_pattern_empty : forall p, parse_pattern "" p = parse_pattern "none" p.
Proof. reflexivity. Qed.

Theorem compile_empty_syntax : forall I force a,
  match compile I force (with_syntax "" a), compile I force (with_syntax "none" a) with
  | inr x, inr y => spec_of x = spec_of y
  | inl e, inl e' => e = e'
  | _, _ => False
  end.
Proof.
  intros I force a. unfold compile, parse_patterns.
  change (ad_syntax (with_syntax "" a)) with "". change (ad_syntax (with_syntax "none" a)) with "none".
  change (ad_nodes (with_syntax "" a)) with (ad_nodes a).
  change (ad_nodes (with_syntax "none" a)) with (ad_nodes a).
  rewrite (tr_nodes_ext (parse_pattern "") (parse_pattern "none") (ad_nodes a) (fun p _ => parse_pattern_empty p)).
  destruct (tr_nodes (parse_pattern "none") (ad_nodes a)) as [e | ns]; [reflexivity |].
  destruct a as [nodes syn en na eb aen boot boots toob toobs c]. simpl.
  destruct (compile_opt I force boots boot) as [e | b]; [reflexivity |]. simpl.
  destruct (compile_opt I force toobs toob) as [e | t]; [reflexivity |]. simpl.
  destruct (mapM (compile_node I force) _) as [e | ns']; reflexivity.
Qed.

(** behaviour is a function of the compiled Spec value (congruence) *)
Theorem walk_congruence : forall a b,
  spec_of a = spec_of b ->
  forall bp limit st msgs, doc_walk a bp limit st msgs = doc_walk b bp limit st msgs.
Proof. intros a b H bp limit st msgs. unfold doc_walk. rewrite H. reflexivity. Qed.

Theorem step_congruence : forall a b,
  spec_of a = spec_of b -> forall st pending, doc_step a st pending = doc_step b st pending.
Proof. intros a b H st pending. unfold doc_step. rewrite H. reflexivity. Qed.

(** the two together: whichever way the patterns were written, the machines
    behave identically on every message sequence (or neither compiles) *)
Theorem text_inline_behaviour : forall I force sel a,
  covers_strings sel -> plain_doc a ->
  match compile I force (with_text sel a), compile I force (with_inline a) with
  | inr x, inr y =>
      forall bp limit st msgs, doc_walk x bp limit st msgs = doc_walk y bp limit st msgs
  | inl e, inl e' => e = e'
  | _, _ => False
  end.
Proof.
  intros I force sel a Hsel Hp. rewrite (compile_text_inline I force sel a Hsel Hp).
  destruct (compile I force (with_inline a)); [reflexivity |]. intros; reflexivity.
Qed.

(** boolean form of [plain_doc], for concrete documents *)
Lemma plain_doc_of_bool : forall a, forallb plain_json (doc_patterns a) = true -> plain_doc a.
Proof.
  intros a H. unfold plain_doc. apply Forall_forall. intros p Hp.
  rewrite forallb_forall in H. exact (H p Hp).
Qed.
