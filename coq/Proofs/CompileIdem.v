(** Compiling is idempotent, and a compiled Spec value that is serialised
    and reloaded compiles to the same value.

    Both follow from one invariant of what [compile] returns ([fixform]):
    the pattern syntax says "native", every pattern is canonical, the error
    node name is set and the node exists (unless it was declined), every
    node and branch is present, every branching type is known, and every
    action position satisfies a predicate [Q] that [compile_opt] establishes.
    A value in that form is a fixed point of [compile] ([compile_fixform]). *)
From Sheens Require Import Model.Compile Proofs.CanonFacts Proofs.CompileBase.

(** * The form of a compiled Spec value *)
Definition known_type (t : string) : Prop := t = "message" \/ t = "bindings".
Definition native_syntax (s : string) : Prop := s = "" \/ s = "none".

Section FixForm.
  Variable Q : option asource -> option act -> Prop.
  Definition branch_ff (ob : option dbranch) : Prop :=
    match ob with
    | None => False
    | Some b => canonical (db_pattern b) /\ Q (db_guard_src b) (db_guard b)
    end.
  Definition node_ff (kn : string * option dnode) : Prop :=
    match snd kn with
    | None => False
    | Some n =>
        Q (dn_source n) (dn_action n) /\
        match dn_branching n with
        | None => True
        | Some bg => known_type (dg_type bg) /\ Forall branch_ff (dg_branches bg)
        end
    end.
  Definition fixform (a : adoc) : Prop :=
    native_syntax (ad_syntax a) /\
    String.eqb (ad_error_node a) "" = false /\
    (has_node (ad_error_node a) (ad_nodes a) || ad_no_auto_error a)%bool = true /\
    Forall node_ff (ad_nodes a) /\
    Q (ad_boot_src a) (ad_boot a) /\ Q (ad_toob_src a) (ad_toob a) /\
    ad_compiled a = true.
End FixForm.

(** the same Spec value with every compiled action replaced ([pre]) and the
    compiled flag set to [fl]: [pre := id] is "the value itself",
    [pre := fun _ => None] is what serialisation keeps *)
Definition retouch_branch (pre : option act -> option act) (ob : option dbranch) : option dbranch :=
  option_map (fun b => mk_dbranch (db_pattern b) (pre (db_guard b)) (db_guard_src b) (db_target b)) ob.
Definition retouch_node (pre : option act -> option act) (kn : string * option dnode)
  : string * option dnode :=
  (fst kn,
   option_map (fun n => mk_dnode (pre (dn_action n)) (dn_source n)
                          (option_map (fun bg => mk_dbranching (dg_type bg)
                                                   (map (retouch_branch pre) (dg_branches bg)))
                                      (dn_branching n)))
              (snd kn)).
Definition retouch (pre : option act -> option act) (fl : bool) (a : adoc) : adoc :=
  mk_adoc (map (retouch_node pre) (ad_nodes a)) (ad_syntax a) (ad_error_node a) (ad_no_auto_error a)
          (ad_err_branches a) (ad_action_err_node a) (pre (ad_boot a)) (ad_boot_src a)
          (pre (ad_toob a)) (ad_toob_src a) fl.

Lemma reload_retouch : forall a, reload a = retouch (fun _ => None) false a.
Proof. reflexivity. Qed.

Lemma retouch_branch_id : forall ob, retouch_branch (fun c => c) ob = ob.
Proof. intros [[p g s t] |]; reflexivity. Qed.

Lemma retouch_node_id : forall kn, retouch_node (fun c => c) kn = kn.
Proof.
  intros [k [[a s [[t brs] |]] |]]; unfold retouch_node; simpl; try reflexivity.
  rewrite (map_id_in _ _ brs (fun ob _ => retouch_branch_id ob)). reflexivity.
Qed.

Lemma retouch_id : forall a, retouch (fun c => c) (ad_compiled a) a = a.
Proof.
  intros a. unfold retouch.
  rewrite (map_id_in _ _ (ad_nodes a) (fun kn _ => retouch_node_id kn)).
  destruct a; reflexivity.
Qed.

(** * A value in that form is a fixed point *)
Lemma native_parse : forall s p, native_syntax s -> canonical p -> parse_pattern s p = inr p.
Proof.
  intros s p [E | E] Hc; subst s; unfold parse_pattern; simpl; rewrite Hc; reflexivity.
Qed.

Lemma known_type_ok : forall t, known_type t -> known_branch_type t = inr t.
Proof. intros t [E | E]; subst t; reflexivity. Qed.

Lemma has_node_retouch : forall pre k ns, has_node k (map (retouch_node pre) ns) = has_node k ns.
Proof.
  intros pre k ns. induction ns as [| [k0 n0] r IH]; [reflexivity |].
  simpl. rewrite IH. reflexivity.
Qed.

Section Fixed.
  Variable I : interps.
  Variable f2 : bool.
  Variable pre : option act -> option act.
  Definition Qfix (s : option asource) (c : option act) : Prop :=
    compile_opt I f2 s (pre c) = inr c.

  Lemma tr_branch_ff : forall s ob,
    native_syntax s -> branch_ff Qfix ob ->
    tr_branch (parse_pattern s) (retouch_branch pre ob) = inr (retouch_branch pre ob).
  Proof.
    intros s [b |] Hs H; [| contradiction]. destruct H as [Hc _].
    simpl. rewrite (native_parse s _ Hs Hc). reflexivity.
  Qed.

  Lemma tr_node_ff : forall s kn,
    native_syntax s -> node_ff Qfix kn ->
    tr_node (parse_pattern s) (retouch_node pre kn) = inr (retouch_node pre kn).
  Proof.
    intros s [k [[a so [[t brs] |]] |]] Hs H; unfold node_ff in H; simpl in H;
      [| reflexivity | contradiction].
    destruct H as [_ [_ Hb]]. unfold tr_node, retouch_node. simpl.
    rewrite (mapM_inr_id _ (tr_branch (parse_pattern s)) (map (retouch_branch pre) brs)).
    - reflexivity.
    - intros x Hx. apply in_map_iff in Hx. destruct Hx as [ob [E Hin]]. subst x.
      apply tr_branch_ff; [exact Hs |]. rewrite Forall_forall in Hb. exact (Hb ob Hin).
  Qed.

  Lemma compile_branch_ff : forall ob,
    branch_ff Qfix ob -> compile_branch I f2 (retouch_branch pre ob) = inr ob.
  Proof.
    intros [b |] H; [| contradiction]. destruct H as [_ HQ]. unfold Qfix in HQ.
    simpl. rewrite HQ. simpl. destruct b; reflexivity.
  Qed.

  Lemma compile_node_ff : forall kn,
    node_ff Qfix kn -> compile_node I f2 (retouch_node pre kn) = inr kn.
  Proof.
    intros [k [[a so [[t brs] |]] |]] H; unfold node_ff in H; simpl in H; [| | contradiction].
    - destruct H as [HQ [Ht Hb]]. unfold Qfix in HQ. simpl in HQ.
      unfold compile_node, retouch_node. simpl. rewrite HQ. simpl.
      rewrite (known_type_ok t Ht). simpl.
      rewrite (mapM_map_inr _ _ (retouch_branch pre) (compile_branch I f2) brs).
      + reflexivity.
      + intros ob Hin. apply compile_branch_ff. rewrite Forall_forall in Hb. exact (Hb ob Hin).
    - destruct H as [HQ _]. unfold Qfix in HQ. simpl in HQ.
      unfold compile_node, retouch_node. simpl. rewrite HQ. reflexivity.
  Qed.

  Theorem compile_fixform : forall fl a,
    fixform Qfix a -> compile I f2 (retouch pre fl a) = inr a.
  Proof.
    intros fl a [Hs [Hen [Hhas [Hns [Hboot [Htoob Hc]]]]]].
    unfold compile, parse_patterns.
    change (ad_syntax (retouch pre fl a)) with (ad_syntax a).
    change (ad_nodes (retouch pre fl a)) with (map (retouch_node pre) (ad_nodes a)).
    assert (Htr : tr_nodes (parse_pattern (ad_syntax a)) (map (retouch_node pre) (ad_nodes a))
                  = inr (map (retouch_node pre) (ad_nodes a))).
    { unfold tr_nodes. apply mapM_inr_id. intros x Hx. apply in_map_iff in Hx.
      destruct Hx as [kn [E Hin]]. subst x. apply tr_node_ff; [exact Hs |].
      rewrite Forall_forall in Hns. exact (Hns kn Hin). }
    rewrite Htr. simpl cbind.
    assert (Hsyn : (if String.eqb (ad_syntax a) "" then "" else "none") = ad_syntax a).
    { destruct Hs as [E | E]; rewrite E; reflexivity. }
    rewrite Hsyn.
    unfold Qfix in Hboot, Htoob.
    destruct a as [nodes syn en na eb aen boot boots toob toobs c]. simpl in *.
    rewrite Hboot. simpl. rewrite Htoob. simpl. rewrite Hen.
    rewrite has_node_retouch. rewrite Hhas.
    rewrite (mapM_map_inr _ _ (retouch_node pre) (compile_node I f2) nodes).
    - simpl. subst c. reflexivity.
    - intros kn Hin. apply compile_node_ff. rewrite Forall_forall in Hns. exact (Hns kn Hin).
  Qed.
End Fixed.

(** * What [compile] returns is in that form *)
Lemma parse_pattern_canonical : forall s p p1, parse_pattern s p = inr p1 -> canonical p1.
Proof.
  intros s p p1 H. unfold parse_pattern in H.
  destruct (default_pattern_parser s p) as [x |]; [| discriminate].
  inversion H; subst. apply canonicalize_canonical.
Qed.

Lemma default_branch_type_known : known_type default_branch_type.
Proof. unfold known_type, default_branch_type. first [left; reflexivity | right; reflexivity]. Qed.

Lemma known_branch_type_known : forall t typ, known_branch_type t = inr typ -> known_type typ.
Proof.
  intros t typ H. unfold known_branch_type in H.
  destruct (String.eqb t "") eqn:E0.
  - inversion H; subst. exact default_branch_type_known.
  - destruct (String.eqb t "message") eqn:E1.
    + inversion H; subst. apply String.eqb_eq in E1. left. exact E1.
    + destruct (String.eqb t "bindings") eqn:E2; simpl in H; [| discriminate].
      inversion H; subst. apply String.eqb_eq in E2. right. exact E2.
Qed.

Lemma default_error_node_nonempty : String.eqb default_error_node "" = false.
Proof. reflexivity. Qed.

Lemma has_node_insert : forall k n l, has_node k (insert_node k n l) = true.
Proof.
  intros k n l. induction l as [| [k0 m] r IH]; simpl.
  - rewrite String.eqb_refl. reflexivity.
  - destruct (String.compare k k0) eqn:E; simpl.
    + rewrite String.eqb_refl. reflexivity.
    + rewrite String.eqb_refl. reflexivity.
    + rewrite IH. apply Bool.orb_true_r.
Qed.

Lemma insert_node_Forall : forall (P : string * option dnode -> Prop) k n l,
  Forall P l -> P (k, n) -> Forall P (insert_node k n l).
Proof.
  intros P k n l Hl Hk. induction l as [| [k0 m] r IH]; simpl.
  - constructor; [exact Hk | constructor].
  - inversion Hl as [| x y Hx Hr]; subst.
    destruct (String.compare k k0).
    + constructor; [exact Hk | exact Hr].
    + constructor; [exact Hk | exact Hl].
    + constructor; [exact Hx | exact (IH Hr)].
Qed.

Lemma has_node_names : forall k (l l' : list (string * option dnode)),
  Forall2 (fun x y => fst y = fst x) l l' -> has_node k l' = has_node k l.
Proof.
  intros k l l' H. induction H as [| [k1 n1] [k2 n2] l l' Hxy Hl IH]; [reflexivity |].
  simpl in *. subst k2. rewrite IH. reflexivity.
Qed.

Section Established.
  Variable I : interps.
  Variable f : bool.
  Variable okpos : option act -> Prop.
  Variable Q : option asource -> option act -> Prop.
  Hypothesis HQ : forall s c0 c, okpos c0 -> compile_opt I f s c0 = inr c -> Q s c.
  Hypothesis Hnone : okpos None.

  (** the compiled actions a Spec value comes with *)
  Definition branch_pos (ob : option dbranch) : Prop :=
    match ob with None => True | Some b => okpos (db_guard b) end.
  Definition node_pos (kn : string * option dnode) : Prop :=
    match snd kn with
    | None => True
    | Some n =>
        okpos (dn_action n) /\
        match dn_branching n with
        | None => True
        | Some bg => Forall branch_pos (dg_branches bg)
        end
    end.
  Definition doc_pos (a : adoc) : Prop :=
    Forall node_pos (ad_nodes a) /\ okpos (ad_boot a) /\ okpos (ad_toob a).

  (** after ParsePatterns *)
  Definition branch_pre (ob : option dbranch) : Prop :=
    match ob with None => True | Some b => canonical (db_pattern b) /\ okpos (db_guard b) end.
  Definition node_pre (kn : string * option dnode) : Prop :=
    match snd kn with
    | None => True
    | Some n =>
        okpos (dn_action n) /\
        match dn_branching n with
        | None => True
        | Some bg => Forall branch_pre (dg_branches bg)
        end
    end.

  Lemma tr_branch_pre : forall s ob ob1,
    branch_pos ob -> tr_branch (parse_pattern s) ob = inr ob1 -> branch_pre ob1.
  Proof.
    intros s ob ob1 Hp H. apply tr_branch_inv in H.
    destruct ob as [b |], ob1 as [b1 |]; try contradiction; [| exact Logic.I].
    destruct H as [Hpat [Hg _]]. simpl. split.
    - exact (parse_pattern_canonical _ _ _ Hpat).
    - rewrite Hg. exact Hp.
  Qed.

  Lemma tr_node_pre : forall s kn kn1,
    node_pos kn -> tr_node (parse_pattern s) kn = inr kn1 -> node_pre kn1.
  Proof.
    intros s kn kn1 Hp H. apply tr_node_inv in H. destruct H as [_ H].
    unfold node_pos in Hp. unfold node_pre.
    destruct (snd kn) as [n |], (snd kn1) as [n1 |]; try contradiction; [| exact Logic.I].
    destruct H as [Ha [_ Hb]]. destruct Hp as [Hpa Hpb]. split; [rewrite Ha; exact Hpa |].
    destruct (dn_branching n) as [bg |], (dn_branching n1) as [bg1 |]; try contradiction; [| exact Logic.I].
    destruct Hb as [_ Hb].
    eapply Forall2_Forall_r; [exact Hb | exact Hpb |].
    intros ob ob1 Hob Htr. exact (tr_branch_pre s ob ob1 Hob Htr).
  Qed.

  Lemma compile_branch_est : forall ob ob2,
    branch_pre ob -> compile_branch I f ob = inr ob2 -> branch_ff Q ob2.
  Proof.
    intros [b |] ob2 Hp H; simpl in H; [| discriminate].
    destruct Hp as [Hc Hg].
    destruct (compile_opt I f (db_guard_src b) (db_guard b)) as [e | g] eqn:E; simpl in H; [discriminate |].
    inversion H; subst. simpl. split; [exact Hc | exact (HQ _ _ _ Hg E)].
  Qed.

  Lemma compile_node_est : forall kn kn2,
    node_pre kn -> compile_node I f kn = inr kn2 -> node_ff Q kn2 /\ fst kn2 = fst kn.
  Proof.
    intros [k on] kn2 Hp H. unfold compile_node in H. simpl in H.
    set (n := match on with Some n => n | None => empty_node end) in *.
    assert (Hn : okpos (dn_action n) /\
                 match dn_branching n with
                 | None => True
                 | Some bg => Forall branch_pre (dg_branches bg)
                 end).
    { unfold node_pre in Hp. simpl in Hp. destruct on as [n0 |]; [exact Hp |].
      subst n. simpl. split; [exact Hnone | exact Logic.I]. }
    destruct Hn as [Ha Hb].
    destruct (compile_opt I f (dn_source n) (dn_action n)) as [e | action] eqn:Ea; simpl in H; [discriminate |].
    pose proof (HQ _ _ _ Ha Ea) as HQa.
    destruct (dn_branching n) as [bg |].
    - destruct (known_branch_type (dg_type bg)) as [e | typ] eqn:Et; simpl in H; [discriminate |].
      destruct (mapM (compile_branch I f) (dg_branches bg)) as [e | brs] eqn:Em; simpl in H; [discriminate |].
      inversion H; subst. unfold node_ff. simpl. split; [| reflexivity].
      split; [exact HQa |]. split; [exact (known_branch_type_known _ _ Et) |].
      apply mapM_Forall2 in Em.
      eapply Forall2_Forall_r; [exact Em | exact Hb |].
      intros ob ob2 Hob Hc. exact (compile_branch_est ob ob2 Hob Hc).
    - inversion H; subst. unfold node_ff. simpl. split; [| reflexivity]. split; [exact HQa | exact Logic.I].
  Qed.

  Theorem compile_establishes : forall a a',
    doc_pos a -> compile I f a = inr a' -> fixform Q a'.
  Proof.
    intros a a' [Hpn [Hpb Hpt]] H. unfold compile, parse_patterns in H.
    destruct (tr_nodes (parse_pattern (ad_syntax a)) (ad_nodes a)) as [e | ns1] eqn:Etr; simpl in H; [discriminate |].
    assert (Hpre : Forall node_pre ns1).
    { unfold tr_nodes in Etr. apply mapM_Forall2 in Etr.
      eapply Forall2_Forall_r; [exact Etr | exact Hpn |].
      intros kn kn1 Hk Ht. exact (tr_node_pre _ kn kn1 Hk Ht). }
    destruct a as [nodes syn en na eb aen boot boots toob toobs c]. simpl in *.
    destruct (compile_opt I f boots boot) as [e | boot'] eqn:Eb; simpl in H; [discriminate |].
    destruct (compile_opt I f toobs toob) as [e | toob'] eqn:Et; simpl in H; [discriminate |].
    set (en' := if String.eqb en "" then default_error_node else en) in *.
    set (ns := if (has_node en' ns1 || na)%bool then ns1 else insert_node en' (Some empty_node) ns1) in *.
    destruct (mapM (compile_node I f) ns) as [e | ns'] eqn:Em; simpl in H; [discriminate |].
    inversion H; subst a'. clear H.
    assert (Hpre' : Forall node_pre ns).
    { subst ns. destruct (has_node en' ns1 || na)%bool; [exact Hpre |].
      apply insert_node_Forall; [exact Hpre |]. unfold node_pre. simpl. split; [exact Hnone | exact Logic.I]. }
    apply mapM_Forall2 in Em.
    unfold fixform. simpl. repeat split.
    - unfold native_syntax. destruct (String.eqb syn ""); auto.
    - subst en'. destruct (String.eqb en "") eqn:E; [exact default_error_node_nonempty | exact E].
    - assert (Hnames : Forall2 (fun x y => fst y = fst x) ns ns').
      { clear -Em Hpre' HQ Hnone. induction Em as [| x y l l' Hxy Hl IH]; [constructor |].
        inversion Hpre'; subst. constructor; [| apply IH; assumption].
        exact (proj2 (compile_node_est x y H1 Hxy)). }
      rewrite (has_node_names en' ns ns' Hnames). subst ns.
      destruct (has_node en' ns1 || na)%bool eqn:E; [exact E |].
      rewrite has_node_insert. reflexivity.
    - eapply Forall2_Forall_r; [exact Em | exact Hpre' |].
      intros x y Hx Hc. exact (proj1 (compile_node_est x y Hx Hc)).
    - exact (HQ _ _ _ Hpb Eb).
    - exact (HQ _ _ _ Hpt Et).
  Qed.
End Established.

(** * The three facts about [compile_opt] *)
Lemma compile_opt_again : forall I f s c0 c,
  compile_opt I f s c0 = inr c -> compile_opt I false s c = inr c.
Proof.
  intros I f [so |] c0 c H; simpl in *.
  - destruct (f || is_none c0)%bool eqn:E.
    + destruct (compile_source I so) as [e | x]; simpl in H; [discriminate |].
      inversion H; subst. reflexivity.
    + inversion H; subst. apply Bool.orb_false_elim in E. destruct E as [_ E].
      rewrite E. reflexivity.
  - reflexivity.
Qed.

Lemma compile_opt_forced : forall I f2 s c0 c,
  compile_opt I true s c0 = inr c -> compile_opt I f2 s c = inr c.
Proof.
  intros I f2 [so |] c0 c H; simpl in *; [| reflexivity].
  destruct (compile_source I so) as [e | x] eqn:E; simpl in H; [discriminate |].
  inversion H; subst. simpl. try rewrite Bool.orb_false_r. try rewrite E.
  destruct f2; reflexivity.
Qed.

Lemma compile_opt_fresh : forall I f f2 s c,
  compile_opt I f s None = inr c ->
  compile_opt I f2 s c = inr c /\ compile_opt I f2 s None = inr c.
Proof.
  intros I f f2 [so |] c H; simpl in *.
  - rewrite Bool.orb_true_r in *.
    destruct (compile_source I so) as [e | x] eqn:E; simpl in H; [discriminate |].
    inversion H; subst. simpl. try rewrite Bool.orb_false_r. try rewrite E. split; [| reflexivity].
    destruct f2; reflexivity.
  - inversion H; subst. auto.
Qed.

(** a Spec value as a document loader produces it: nothing compiled yet *)
Definition pristine (a : adoc) : Prop := doc_pos (fun c => c = None) a.

Lemma doc_pos_true : forall a, doc_pos (fun _ => True) a.
Proof.
  intros a. unfold doc_pos. repeat split.
  apply Forall_forall. intros [k [n |]] _; unfold node_pos; simpl; [| exact Logic.I].
  split; [exact Logic.I |]. destruct (dn_branching n) as [bg |]; [| exact Logic.I].
  apply Forall_forall. intros [b |] _; exact Logic.I.
Qed.

(** * Idempotence *)

(** compiling a compiled Spec value again (without [force]) changes nothing *)
Theorem compile_idempotent : forall I f a a',
  compile I f a = inr a' -> compile I false a' = inr a'.
Proof.
  intros I f a a' H.
  pose proof (compile_establishes I f (fun _ => True) (Qfix I false (fun c => c))
                (fun s c0 c _ Hc => compile_opt_again I f s c0 c Hc) Logic.I a a' (doc_pos_true a) H) as Hff.
  pose proof (compile_fixform I false (fun c => c) (ad_compiled a') a' Hff) as Hc.
  rewrite retouch_id in Hc. exact Hc.
Qed.

(** after a forced compilation (what every host does), compiling again -
    forced or not - changes nothing *)
Theorem compile_idempotent_forced : forall I f2 a a',
  compile I true a = inr a' -> compile I f2 a' = inr a'.
Proof.
  intros I f2 a a' H.
  pose proof (compile_establishes I true (fun _ => True) (Qfix I f2 (fun c => c))
                (fun s c0 c _ Hc => compile_opt_forced I f2 s c0 c Hc) Logic.I a a' (doc_pos_true a) H) as Hff.
  pose proof (compile_fixform I f2 (fun c => c) (ad_compiled a') a' Hff) as Hc.
  rewrite retouch_id in Hc. exact Hc.
Qed.

(** a loaded document, compiled any way, is a fixed point of every later compilation *)
Theorem compile_idempotent_pristine : forall I f f2 a a',
  pristine a -> compile I f a = inr a' -> compile I f2 a' = inr a'.
Proof.
  intros I f f2 a a' Hp H.
  pose proof (compile_establishes I f (fun c => c = None) (Qfix I f2 (fun c => c))
                (fun s c0 c (E : c0 = None) Hc =>
                   proj1 (compile_opt_fresh I f f2 s c
                            (eq_ind c0 (fun x => compile_opt I f s x = inr c) Hc None E)))
                eq_refl a a' Hp H) as Hff.
  pose proof (compile_fixform I f2 (fun c => c) (ad_compiled a') a' Hff) as Hc.
  rewrite retouch_id in Hc. exact Hc.
Qed.

(** * Reload: serialise the compiled value, load it, compile it *)
Theorem compile_reload : forall I f f2 a a',
  pristine a -> compile I f a = inr a' -> compile I f2 (reload a') = inr a'.
Proof.
  intros I f f2 a a' Hp H.
  pose proof (compile_establishes I f (fun c => c = None) (Qfix I f2 (fun _ => None))
                (fun s c0 c (E : c0 = None) Hc =>
                   proj2 (compile_opt_fresh I f f2 s c
                            (eq_ind c0 (fun x => compile_opt I f s x = inr c) Hc None E)))
                eq_refl a a' Hp H) as Hff.
  rewrite reload_retouch. exact (compile_fixform I f2 (fun _ => None) false a' Hff).
Qed.

(** the same after a forced compilation of any Spec value whose actions all
    have sources is covered by [compile_reload] through [pristine]; for a
    value with native actions serialisation loses them, which no host does *)

(** what is serialised is itself a loaded document *)
Lemma reload_pristine : forall a, pristine (reload a).
Proof.
  intros a. unfold pristine, doc_pos, reload. simpl. repeat split.
  apply Forall_forall. intros kn Hin. apply in_map_iff in Hin. destruct Hin as [[k [n |]] [E _]]; subst kn;
    unfold node_pos, strip_node; simpl; [| exact Logic.I].
  split; [reflexivity |]. destruct (dn_branching n) as [bg |]; simpl; [| exact Logic.I].
  apply Forall_forall. intros ob Hob. apply in_map_iff in Hob. destruct Hob as [[b |] [E _]]; subst ob; simpl; auto.
Qed.

(** boolean form of [pristine], for concrete documents *)
Definition branch_pristine_b (ob : option dbranch) : bool :=
  match ob with None => true | Some b => is_none (db_guard b) end.
Definition node_pristine_b (kn : string * option dnode) : bool :=
  match snd kn with
  | None => true
  | Some n =>
      is_none (dn_action n)
      && match dn_branching n with
         | None => true
         | Some bg => forallb branch_pristine_b (dg_branches bg)
         end
  end.
Definition pristine_b (a : adoc) : bool :=
  forallb node_pristine_b (ad_nodes a) && is_none (ad_boot a) && is_none (ad_toob a).

Lemma is_none_eq : forall A (o : option A), is_none o = true -> o = None.
Proof. intros A [x |] H; [discriminate | reflexivity]. Qed.

Lemma pristine_of_bool : forall a, pristine_b a = true -> pristine a.
Proof.
  intros a H. unfold pristine_b in H.
  apply andb_prop in H. destruct H as [H Ht]. apply andb_prop in H. destruct H as [Hn Hb].
  unfold pristine, doc_pos. split; [| split; apply is_none_eq; assumption].
  apply Forall_forall. intros kn Hin. rewrite forallb_forall in Hn. specialize (Hn kn Hin).
  unfold node_pristine_b in Hn. unfold node_pos. destruct (snd kn) as [n |]; [| exact Logic.I].
  apply andb_prop in Hn. destruct Hn as [Ha Hbr]. split; [apply is_none_eq; exact Ha |].
  destruct (dn_branching n) as [bg |]; [| exact Logic.I].
  apply Forall_forall. intros ob Hob. rewrite forallb_forall in Hbr. specialize (Hbr ob Hob).
  destruct ob as [b |]; [| exact Logic.I]. simpl. apply is_none_eq. exact Hbr.
Qed.
