(** C18 over histories: permanent bindings survive an accepting guard and any
    chain of completing actions (state handed from one execution to the
    next), for every wrapped behaviour [run]. *)
From Sheens Require Import Model.Step Model.Action Proofs.SndBasics Proofs.SndSorted Proofs.StepFacts Proofs.EngineFacts.

Lemma restore_sorted perm : forall b, sorted_keys b = true -> sorted_keys (restore perm b) = true.
Proof.
  unfold restore. induction perm as [|[k v] r IH]; intros b Hb; [exact Hb|].
  cbn [fold_left fst snd]. apply IH. apply bset_sorted. exact Hb.
Qed.

Section PermChain.
  Variable action : Type.
  Variable run : action -> option bindings -> exec_raw.

  (** the guard loop hands on a result of the guard run on one of the
      candidates; that result keeps the candidate's permanent bindings *)
  Theorem guard_accept_keeps g : forall cs b,
    guard_loop action run g cs = Some (Some b) ->
    exists c, In c cs /\
      (nodup_keys (map fst (copy_bs c)) = true ->
       forall k v, is_permanent k = true -> lookup k (copy_bs c) = Some v -> lookup k b = Some v).
  Proof.
    induction cs as [|c r IH]; intros b H; cbn [guard_loop] in H; [discriminate|].
    destruct (func_exec action run g c) as [[ob em] err] eqn:E.
    destruct err; [discriminate|].
    destruct ob as [b'|].
    - inversion H. subst b'. exists c. split; [left; reflexivity|].
      intros Hnd k v Hp Hl. exact (func_exec_restores action run g c b em false k v E Hnd Hp Hl).
    - destruct (IH b H) as [c' [Hin Hk]]. exists c'. split; [right; exact Hin | exact Hk].
  Qed.

  (** a chain of executions, each given what the previous one returned *)
  Fixpoint exec_chain (l : list action) (bs : bindings) : option bindings :=
    match l with
    | [] => Some bs
    | a :: r =>
        match func_exec action run a (Some bs) with
        | ((Some out, _), _) => exec_chain r out
        | ((None, _), _) => None
        end
    end.

  (** representation invariant of a Go map: what the wrapped function
      returns has unique keys (kept in key order in the model) *)
  Definition run_sorted : Prop :=
    forall a bs ob em, xr_exe (run a bs) = Some (Some ob, em) -> sorted_keys ob = true.

  Lemma func_exec_sorted a bs out em err :
    run_sorted -> func_exec action run a bs = ((Some out, em), err) -> sorted_keys out = true.
  Proof.
    unfold func_exec. intros Hr H.
    destruct (xr_exe (run a bs)) as [[ob em']|] eqn:E; [|discriminate].
    destruct ob as [b|]; [|discriminate]. cbn in H. inversion H. subst.
    apply restore_sorted. eapply Hr. exact E.
  Qed.

  Theorem chain_keeps_permanent : run_sorted -> forall l bs out k v,
    sorted_keys bs = true -> exec_chain l bs = Some out ->
    is_permanent k = true -> lookup k bs = Some v ->
    lookup k out = Some v /\ sorted_keys out = true.
  Proof.
    intros Hr. induction l as [|a r IH]; intros bs out k v Hs H Hp Hl; cbn [exec_chain] in H.
    - inversion H. subst. split; assumption.
    - destruct (func_exec action run a (Some bs)) as [[ob em] err] eqn:E.
      destruct ob as [o|]; [|discriminate].
      apply (IH o out k v); [exact (func_exec_sorted a (Some bs) o em err Hr E) | exact H | exact Hp |].
      apply (func_exec_restores action run a (Some bs) o em err k v E); [|exact Hp|exact Hl].
      cbn [copy_bs]. apply sorted_nodup. exact Hs.
  Qed.
End PermChain.
