(** C14, mcrew / mdb half, with the store DOWN: routing, reporting and the
    feedback of emitted messages go on all the same (a failed write is logged,
    not a reason to stop); only no machine state advances.

    - [process_down], [process_down_reports]: one Process call with the store
      down changes nothing and still reports every walk - the very walks the
      same call computes when the store is up;
    - [feed_one_reports_indep], [feed_one_store_independent],
      [feed_store_independent]: what one round of the feedback loop logs,
      reports and re-submits is a function of the in-memory crew alone; when
      the walks leave every recipient where it is ([stays]) the crew after the
      round is the same too, and so are all later rounds;
    - [first_round_store_independent]: the first round never depends on the store;
    - [second_round_store_dependent], [feed_store_independent_unconditional_refuted]:
      later rounds do (a machine that did not advance reacts differently);
    - [feed_down_frozen], [feed_iter_down_frozen]: with the store down
      throughout, the whole run is the run of a crew frozen at its initial
      states: nothing is ever written, every message is walked from the
      initial states ([feed_one_down]).

    [feed_iter] is Corr/MCrewCorr.v's [feed_fifo] for any machine behaviour
    ([feed_fifo_is_iter]). *)
From Sheens Require Import Spec.MCrewSpec Proofs.SndBasics Proofs.SndSorted Proofs.MCrewMaps
     Proofs.MCrewFacts Proofs.MCrewRouting Corr.MCrewCorr.
From Coq Require Import Permutation.

(** writing the record a machine already has changes nothing *)
Lemma mset_same : forall m k v, msorted m -> mget k m = Some v -> mset k v m = m.
Proof.
  induction m as [| [k1 v1] r IH]; intros k v Hs Hg; [discriminate|].
  cbn [mset]. destruct (String.compare k k1) eqn:C.
  - apply String.compare_eq_iff in C. subst k1. cbn [mget] in Hg.
    rewrite String.eqb_refl in Hg. inversion Hg. reflexivity.
  - exfalso.
    assert (Hh : mhas k ((k1, v1) :: r) = true) by (unfold mhas; rewrite Hg; reflexivity).
    apply mhas_in in Hh. cbn [map fst] in Hh. destruct Hh as [Hh | Hh].
    + subst k1. rewrite string_compare_refl in C. discriminate.
    + assert (Hlt : String.ltb k k1 = true) by (unfold String.ltb; rewrite C; reflexivity).
      unfold msorted in Hs. cbn [mkeys map fst] in Hs. fold (mkeys r) in Hs.
      pose proof (sorted_lt_all k1 JNull (mkeys r) Hs k) as H.
      rewrite mkeys_fst in H. specialize (H Hh). eapply ltb_asym; eassumption.
  - f_equal. apply IH.
    + unfold msorted in *. cbn [mkeys map fst] in Hs. fold (mkeys r) in Hs.
      eapply sorted_keys_tail. eassumption.
    + cbn [mget] in Hg. rewrite eqb_of_compare_ne in Hg by (rewrite C; discriminate). exact Hg.
Qed.

Lemma changes_in_to : forall ws c,
    In c (changes ws) -> exists w, In (fst c, w) ws /\ wo_to w = Some (snd c).
Proof.
  intros ws c H. unfold changes in H. apply in_flat_map in H.
  destruct H as [[mid w] [Hin H]]. cbn [fst snd] in H.
  destruct (wo_to w) as [t |] eqn:E; [|destruct H]. destruct H as [<- | []].
  exists w. split; [exact Hin | exact E].
Qed.

(** FIFO feedback with fuel, for any machine behaviour *)
Fixpoint feed_iter (spec_ok : string -> bool)
         (wk : string -> string -> mrec -> json -> option (string * bindings) * list json)
         (services : list string) (fuel : nat) (f : fed) : fed :=
  match fuel with
  | O => f
  | S n =>
      match fd_pending f with
      | [] => f
      | _ :: _ => feed_iter spec_ok wk services n (feed_one spec_ok wk services 0 f)
      end
  end.

(** it is the iteration the correspondence run compares with *)
Lemma feed_fifo_is_iter : forall services fuel f,
    feed_fifo services fuel f = feed_iter spec_ok_m wk_m services fuel f.
Proof.
  intros services fuel. induction fuel as [| n IH]; intros f; [reflexivity|].
  cbn [feed_fifo feed_iter]. destruct (fd_pending f); [reflexivity | apply IH].
Qed.

Section RouteDown.
  Variable spec_ok : string -> bool.
  Variable wk : string -> string -> mrec -> json -> option (string * bindings) * list json.
  Variable services : list string.

  Notation process := (do_process spec_ok wk services).
  Notation feed1 := (feed_one spec_ok wk services).
  Notation feedn := (feed spec_ok wk services).
  Notation feedi := (feed_iter spec_ok wk services).
  (* the recipients of [msg] in crew [m], their walks, what those emitted *)
  Notation rcp m msg := (recipients (route services msg) m).
  Notation wsof m msg := (walks wk m (recipients (route services msg) m) msg).
  Notation emof ws := (flat_map (fun mw : string * wobs => wo_emitted (snd mw)) ws).
  Notation pick i f := (take_nth (Nat.modulo i (Nat.max 1 (List.length (fd_pending f)))) (fd_pending f)).

  (** ---- what [walks] gives ------------------------------------------------------ *)

  Lemma walks_eq : forall m mids msg,
      walks wk m mids msg
      = flat_map (fun mid =>
                    match mget mid m with
                    | Some rc => [(mid, mk_wobs (r_node rc, r_bs rc)
                                                (fst (wk (r_spec rc) mid rc msg))
                                                (snd (wk (r_spec rc) mid rc msg)))]
                    | None => []
                    end) mids.
  Proof.
    intros m mids msg. unfold walks. apply flat_map_ext. intros mid.
    destruct (mget mid m) as [rc |]; [|reflexivity].
    destruct (wk (r_spec rc) mid rc msg); reflexivity.
  Qed.

  Lemma walks_recipients : forall m msg, map fst (wsof m msg) = rcp m msg.
  Proof. intros m msg. rewrite walks_fst. apply recipients_present. Qed.

  (** ---- T1: one Process call with the store down ----------------------------------- *)

  Theorem process_down : forall msg s,
      up s = false ->
      let mids := recipients (route services msg) (mem s) in
      let ws := walks wk (mem s) mids msg in
      process msg s
      = if specs_ok spec_ok (mem s) mids
        then (s, PProcessed (negb (is_nil (changes ws))) ws)
        else (s, PSpecErr).
  Proof.
    intros msg s Hup mids ws. subst mids ws. unfold do_process, do_process_to.
    destruct (specs_ok spec_ok (mem s) (rcp (mem s) msg)); [|reflexivity].
    destruct (changes (wsof (mem s) msg)) as [| c ch]; [reflexivity|].
    rewrite Hup. reflexivity.
  Qed.

  (** whatever the store: the response carries the walks computed from memory *)
  Lemma process_resp : forall msg s,
      specs_ok spec_ok (mem s) (rcp (mem s) msg) = true ->
      exists err, snd (process msg s) = PProcessed err (wsof (mem s) msg).
  Proof.
    intros msg s H. unfold do_process, do_process_to. rewrite H.
    destruct (changes (wsof (mem s) msg)) as [| c ch]; [eexists; reflexivity|].
    destruct (up s && all_serialisable (c :: ch)); eexists; reflexivity.
  Qed.

  Theorem process_down_reports : forall msg s,
      up s = false ->
      specs_ok spec_ok (mem s) (recipients (route services msg) (mem s)) = true ->
      let mids := recipients (route services msg) (mem s) in
      let ws := walks wk (mem s) mids msg in
      exists r,
        process msg s = (s, r)
        /\ walked_of r = mids
        /\ emitted_of r = flat_map (fun mw : string * wobs => wo_emitted (snd mw)) ws
        /\ ws = flat_map (fun mid =>
                            match mget mid (mem s) with
                            | Some rc => [(mid, mk_wobs (r_node rc, r_bs rc)
                                                        (fst (wk (r_spec rc) mid rc msg))
                                                        (snd (wk (r_spec rc) mid rc msg)))]
                            | None => []
                            end) mids
        /\ (forall st, exists err,
               snd (process msg (mk_svc (mem s) st true)) = PProcessed err ws).
  Proof.
    intros msg s Hup Hok mids ws.
    exists (PProcessed (negb (is_nil (changes ws))) ws).
    split; [| split; [| split; [| split]]].
    - pose proof (process_down msg s Hup) as H. cbv zeta in H. rewrite Hok in H. exact H.
    - cbn [walked_of]. apply walks_recipients.
    - reflexivity.
    - apply walks_eq.
    - intros st. apply (process_resp msg (mk_svc (mem s) st true)). exact Hok.
  Qed.

  Lemma process_down_svc : forall msg s, up s = false -> fst (process msg s) = s.
  Proof.
    intros msg s Hup. pose proof (process_down msg s Hup) as H. cbv zeta in H. rewrite H.
    destruct (specs_ok spec_ok (mem s) (rcp (mem s) msg)); reflexivity.
  Qed.

  (** ---- the response as a function of the in-memory crew ------------------------------ *)

  Lemma process_reports_mem : forall msg s s',
      mem s = mem s' ->
      walked_of (snd (process msg s)) = walked_of (snd (process msg s'))
      /\ emitted_of (snd (process msg s)) = emitted_of (snd (process msg s')).
  Proof.
    intros msg [m st u] [m' st' u'] H. cbn [mem] in H. subst m'.
    unfold do_process, do_process_to. cbn [mem up sto].
    destruct (specs_ok spec_ok m (rcp m msg)); [| split; reflexivity].
    destruct (changes (wsof m msg)) as [| c ch]; [split; reflexivity|].
    destruct (u && all_serialisable (c :: ch)), (u' && all_serialisable (c :: ch)); split; reflexivity.
  Qed.

  Lemma process_emitted_in : forall msg s e,
      In e (emitted_of (snd (process msg s))) -> In e (emof (wsof (mem s) msg)).
  Proof.
    intros msg s e. unfold do_process, do_process_to.
    destruct (specs_ok spec_ok (mem s) (rcp (mem s) msg)); [| intros []].
    destruct (changes (wsof (mem s) msg)) as [| c ch]; [intros H; exact H|].
    destruct (up s && all_serialisable (c :: ch)); intros H; exact H.
  Qed.

  Lemma process_up : forall msg s, up (fst (process msg s)) = up s.
  Proof.
    intros msg s. unfold do_process, do_process_to.
    destruct (specs_ok spec_ok (mem s) (rcp (mem s) msg)); [| reflexivity].
    destruct (changes (wsof (mem s) msg)) as [| c ch]; [reflexivity|].
    destruct (up s && all_serialisable (c :: ch)); reflexivity.
  Qed.

  (** the state after a Process call: untouched, or the batch written and written back *)
  Lemma process_svc : forall msg s,
      fst (process msg s) = s
      \/ fst (process msg s)
         = mk_svc (set_states (changes (wsof (mem s) msg)) (mem s))
                  (write_states (mem s) (changes (wsof (mem s) msg)) (sto s)) (up s).
  Proof.
    intros msg s. unfold do_process, do_process_to.
    destruct (specs_ok spec_ok (mem s) (rcp (mem s) msg)); [| left; reflexivity].
    destruct (changes (wsof (mem s) msg)) as [| c ch]; [left; reflexivity|].
    destruct (up s && all_serialisable (c :: ch)); [right | left]; reflexivity.
  Qed.

  (** ---- "the walks of [m] on [msg] leave every recipient where it is" ------------------
      the write-back of the end states reached on [msg] is the identity on
      [m]: no recipient moves (no end state at all), or each moves to the
      state it is in *)
  Definition stays (m : mmap) (msg : json) : Prop :=
    set_states (changes (walks wk m (recipients (route services msg) m) msg)) m = m.

  Lemma stays_means : forall m msg,
      stays m msg
      <-> set_states (changes (walks wk m (recipients (route services msg) m) msg)) m = m.
  Proof. intros m msg. apply iff_refl. Qed.

  Lemma stays_no_change : forall m msg,
      changes (walks wk m (recipients (route services msg) m) msg) = [] -> stays m msg.
  Proof. intros m msg H. unfold stays. rewrite H. reflexivity. Qed.

  Lemma stays_same_state : forall m msg,
      msorted m ->
      (forall mid w, In (mid, w) (walks wk m (recipients (route services msg) m) msg) ->
                     wo_to w = None \/ wo_to w = Some (wo_from w)) ->
      stays m msg.
  Proof.
    intros m msg Hs H. unfold stays.
    assert (Hc : forall c, In c (changes (wsof m msg)) ->
                           exists r, mget (fst c) m = Some r /\ snd c = (r_node r, r_bs r)).
    { intros c Hc. apply changes_in_to in Hc. destruct Hc as [w [Hin Ht]].
      destruct (H _ _ Hin) as [Hn | Hn]; [congruence|].
      apply walks_in in Hin. destruct Hin as [r [Hg Hf]]. exists r. split; [exact Hg|]. congruence. }
    induction (changes (wsof m msg)) as [| [mid [node bs]] ch IH]; [reflexivity|].
    unfold set_states. cbn [fold_left fst snd].
    destruct (Hc (mid, (node, bs)) (or_introl eq_refl)) as [r [Hg He]]. cbn [fst snd] in Hg, He.
    rewrite Hg. inversion He; subst node bs.
    replace (mk_mrec (r_spec r) (r_node r) (r_bs r)) with r by (destruct r; reflexivity).
    rewrite (mset_same m mid r Hs Hg). apply IH. intros c Hin. apply Hc. right. exact Hin.
  Qed.

  Lemma process_stays_mem : forall msg s, stays (mem s) msg -> mem (fst (process msg s)) = mem s.
  Proof.
    intros msg s H. destruct (process_svc msg s) as [E | E]; rewrite E; [reflexivity|]. exact H.
  Qed.

  (** memory equal to the store: such a call changes nothing at all *)
  Lemma process_stays_inv : forall msg s,
      stays (mem s) msg -> sto s = mem s -> fst (process msg s) = s.
  Proof.
    intros msg s H Hi. destruct (process_svc msg s) as [E | E]; rewrite E; [reflexivity|].
    rewrite Hi.
    rewrite <- (set_write_agree (changes (wsof (mem s) msg)) (mem s) (mem s)).
    - unfold stays in H. rewrite H. destruct s as [m st u]. cbn [mem sto up] in *. subst st. reflexivity.
    - intros c Hc. eapply changes_present. eassumption.
    - intros k. reflexivity.
  Qed.

  (** ---- one round of the feedback loop ------------------------------------------------ *)

  Lemma feed_one_svc : forall i f,
      fd_svc (feed1 i f)
      = match pick i f with
        | None => fd_svc f
        | Some (msg, _) => fst (process msg (fd_svc f))
        end.
  Proof.
    intros i f. unfold feed_one. destruct (pick i f) as [[msg rest] |]; [|reflexivity].
    destruct (process msg (fd_svc f)); reflexivity.
  Qed.

  (** what a round logs, reports and re-submits depends on the in-memory crew
      only - not on the store's contents, not on whether it is up *)
  Theorem feed_one_reports_indep : forall i f g,
      mem (fd_svc f) = mem (fd_svc g) ->
      fd_pending f = fd_pending g -> fd_log f = fd_log g -> fd_reported f = fd_reported g ->
      fd_pending (feed1 i f) = fd_pending (feed1 i g)
      /\ fd_log (feed1 i f) = fd_log (feed1 i g)
      /\ fd_reported (feed1 i f) = fd_reported (feed1 i g).
  Proof.
    intros i f g Hm Hp Hl Hr. unfold feed_one. rewrite <- Hp.
    destruct (pick i f) as [[msg rest] |]; [| auto].
    pose proof (process_reports_mem msg _ _ Hm) as [A B].
    destruct (process msg (fd_svc f)) as [s1 r1], (process msg (fd_svc g)) as [s2 r2].
    cbn [fst snd fd_pending fd_log fd_reported] in *. rewrite A, B, Hl, Hr. auto.
  Qed.

  (** T2, minimal hypothesis: the message this round takes leaves every recipient where it is *)
  Theorem feed_one_store_independent_pick : forall i m st st' u pend log rep,
      (forall msg rest,
          take_nth (Nat.modulo i (Nat.max 1 (List.length pend))) pend = Some (msg, rest) ->
          stays m msg) ->
      let fu := feed1 i (mk_fed (mk_svc m st u) pend log rep) in
      let fd := feed1 i (mk_fed (mk_svc m st' false) pend log rep) in
      fd_pending fu = fd_pending fd /\ fd_log fu = fd_log fd /\ fd_reported fu = fd_reported fd
      /\ mem (fd_svc fu) = mem (fd_svc fd) /\ mem (fd_svc fd) = m.
  Proof.
    intros i m st st' u pend log rep H fu fd. subst fu fd.
    pose proof (feed_one_reports_indep i (mk_fed (mk_svc m st u) pend log rep)
                                       (mk_fed (mk_svc m st' false) pend log rep)
                                       eq_refl eq_refl eq_refl eq_refl) as [A [B C]].
    assert (D : mem (fd_svc (feed1 i (mk_fed (mk_svc m st' false) pend log rep))) = m).
    { rewrite feed_one_svc. cbn [fd_pending fd_svc].
      destruct (take_nth (Nat.modulo i (Nat.max 1 (List.length pend))) pend) as [[msg rest] |];
        [| reflexivity].
      rewrite process_down_svc by reflexivity. reflexivity. }
    repeat split; try assumption.
    rewrite D. rewrite feed_one_svc. cbn [fd_pending fd_svc].
    destruct (take_nth (Nat.modulo i (Nat.max 1 (List.length pend))) pend) as [[msg rest] |] eqn:E;
      [| reflexivity].
    apply (process_stays_mem msg (mk_svc m st u)). cbn [mem]. eapply H. reflexivity.
  Qed.

  (** T2 *)
  Theorem feed_one_store_independent : forall i m st st' u pend log rep,
      (forall msg, In msg pend -> stays m msg) ->
      let fu := feed1 i (mk_fed (mk_svc m st u) pend log rep) in
      let fd := feed1 i (mk_fed (mk_svc m st' false) pend log rep) in
      fd_pending fu = fd_pending fd /\ fd_log fu = fd_log fd /\ fd_reported fu = fd_reported fd
      /\ mem (fd_svc fu) = mem (fd_svc fd) /\ mem (fd_svc fd) = m.
  Proof.
    intros i m st st' u pend log rep H. apply feed_one_store_independent_pick.
    intros msg rest E. apply H. apply take_nth_perm in E.
    eapply Permutation_in; [apply Permutation_sym; exact E | left; reflexivity].
  Qed.

  (** the mem-equality above needs the hypothesis, and only it: with the
      store up, every specification loading and every end state
      serialisable, memory after the round is the write-back *)
  Lemma feed_one_up_mem : forall m st msg log rep,
      specs_ok spec_ok m (recipients (route services msg) m) = true ->
      all_serialisable (changes (walks wk m (recipients (route services msg) m) msg)) = true ->
      mem (fd_svc (feed1 0 (mk_fed (mk_svc m st true) [msg] log rep)))
      = set_states (changes (walks wk m (recipients (route services msg) m) msg)) m.
  Proof.
    intros m st msg log rep Hok Hser. rewrite feed_one_svc. cbn [fd_pending fd_svc].
    change (take_nth (Nat.modulo 0 (Nat.max 1 (List.length [msg]))) [msg]) with (Some (msg, @nil json)).
    cbv iota beta.
    unfold do_process, do_process_to. cbn [mem up sto]. rewrite Hok.
    destruct (changes (wsof m msg)) as [| c ch] eqn:E; [reflexivity|].
    rewrite Hser. reflexivity.
  Qed.

  (** T3: the first round never depends on the store *)
  Theorem first_round_store_independent : forall i msg m st st' u u',
      let f := feed1 i (submit msg (mk_svc m st u)) in
      let g := feed1 i (submit msg (mk_svc m st' u')) in
      fd_log f = fd_log g /\ fd_reported f = fd_reported g /\ fd_pending f = fd_pending g.
  Proof.
    intros i msg m st st' u u' f g. subst f g.
    pose proof (feed_one_reports_indep i (submit msg (mk_svc m st u)) (submit msg (mk_svc m st' u'))
                                       eq_refl eq_refl eq_refl eq_refl) as [A [B C]].
    auto.
  Qed.

  (** ---- all rounds, for a crew that stays put on every message that can occur ---------- *)

  Lemma feed_one_pending_closed : forall (P : json -> Prop) i f,
      (forall msg, P msg -> forall e, In e (emof (wsof (mem (fd_svc f)) msg)) -> P e) ->
      Forall P (fd_pending f) -> Forall P (fd_pending (feed1 i f)).
  Proof.
    intros P i f Hc Hp. unfold feed_one.
    destruct (pick i f) as [[msg rest] |] eqn:E; [| exact Hp].
    apply take_nth_perm in E.
    assert (Hmr : Forall P (msg :: rest)) by (eapply Permutation_Forall; eassumption).
    pose proof (process_emitted_in msg (fd_svc f)) as He.
    destruct (process msg (fd_svc f)) as [s' r]. cbn [snd fd_pending] in *.
    apply Forall_app. split.
    - inversion Hmr; assumption.
    - apply Forall_forall. intros e Hin. eapply Hc; [inversion Hmr; eassumption|]. apply He. exact Hin.
  Qed.

  (** [P]: a set of messages that holds the pending ones, is closed under
      what the crew [m] emits, and on which [m] stays put *)
  Theorem feed_store_independent : forall (P : json -> Prop) m,
      (forall msg, P msg -> stays m msg) ->
      (forall msg, P msg ->
                   forall e, In e (flat_map (fun mw : string * wobs => wo_emitted (snd mw))
                                            (walks wk m (recipients (route services msg) m) msg)) -> P e) ->
      forall choose st st' u pend log rep,
        Forall P pend ->
        let fu := feedn choose (mk_fed (mk_svc m st u) pend log rep) in
        let fd := feedn choose (mk_fed (mk_svc m st' false) pend log rep) in
        fd_pending fu = fd_pending fd /\ fd_log fu = fd_log fd /\ fd_reported fu = fd_reported fd
        /\ mem (fd_svc fu) = mem (fd_svc fd) /\ mem (fd_svc fd) = m.
  Proof.
    intros P m Hstay Hclosed choose.
    induction choose as [| i r IH]; intros st st' u pend log rep Hp; [cbn; auto 6|].
    cbn [feed]. cbv zeta.
    assert (Hall : forall msg, In msg pend -> stays m msg).
    { intros msg Hin. apply Hstay. eapply Forall_forall; eassumption. }
    pose proof (feed_one_store_independent i m st st' u pend log rep Hall) as H. cbv zeta in H.
    destruct H as [A [B [C [D E]]]].
    assert (Hp' : Forall P (fd_pending (feed1 i (mk_fed (mk_svc m st' false) pend log rep)))).
    { apply feed_one_pending_closed; [| exact Hp]. cbn [fd_svc mem]. exact Hclosed. }
    assert (U : up (fd_svc (feed1 i (mk_fed (mk_svc m st u) pend log rep))) = u).
    { rewrite feed_one_svc. cbn [fd_pending fd_svc].
      destruct (take_nth (Nat.modulo i (Nat.max 1 (List.length pend))) pend) as [[msg rest] |];
        [| reflexivity].
      apply process_up. }
    assert (U' : fd_svc (feed1 i (mk_fed (mk_svc m st' false) pend log rep)) = mk_svc m st' false).
    { rewrite feed_one_svc. cbn [fd_pending fd_svc].
      destruct (take_nth (Nat.modulo i (Nat.max 1 (List.length pend))) pend) as [[msg rest] |];
        [| reflexivity].
      apply process_down_svc. reflexivity. }
    set (F := feed1 i (mk_fed (mk_svc m st u) pend log rep)) in *.
    set (G := feed1 i (mk_fed (mk_svc m st' false) pend log rep)) in *.
    clearbody F G. destruct F as [[m1 st1 u1] p1 l1 r1]. destruct G as [sg p2 l2 r2].
    cbn [fd_svc fd_pending fd_log fd_reported mem up] in *. subst sg. cbn [mem] in D, E.
    subst m1 u1 p1 l1 r1.
    apply IH. exact Hp'.
  Qed.

  (** ---- T4: the store down throughout --------------------------------------------------- *)

  Lemma feed_one_down_svc : forall i f, up (fd_svc f) = false -> fd_svc (feed1 i f) = fd_svc f.
  Proof.
    intros i f H. rewrite feed_one_svc.
    destruct (pick i f) as [[msg rest] |]; [| reflexivity]. apply process_down_svc. exact H.
  Qed.

  (** a round with the store down: the message is walked by its recipients
      in the states they are in, all they emit is reported and re-submitted,
      the service is left as it was *)
  Theorem feed_one_down : forall i f msg rest,
      up (fd_svc f) = false ->
      take_nth (Nat.modulo i (Nat.max 1 (List.length (fd_pending f)))) (fd_pending f) = Some (msg, rest) ->
      specs_ok spec_ok (mem (fd_svc f)) (recipients (route services msg) (mem (fd_svc f))) = true ->
      let mids := recipients (route services msg) (mem (fd_svc f)) in
      let em := flat_map (fun mw : string * wobs => wo_emitted (snd mw))
                         (walks wk (mem (fd_svc f)) mids msg) in
      feed1 i f = mk_fed (fd_svc f) (rest ++ em) (fd_log f ++ [(msg, mids)]) (fd_reported f ++ em).
  Proof.
    intros i f msg rest Hup Ht Hok mids em. subst mids em. unfold feed_one. rewrite Ht.
    pose proof (process_down msg (fd_svc f) Hup) as H. cbv zeta in H. rewrite Hok in H. rewrite H.
    cbn [walked_of emitted_of]. rewrite walks_recipients. reflexivity.
  Qed.

  (** under every schedule *)
  Theorem feed_down_frozen : forall choose f,
      up (fd_svc f) = false -> fd_svc (feedn choose f) = fd_svc f.
  Proof.
    induction choose as [| i r IH]; intros f H; [reflexivity|].
    cbn [feed]. rewrite IH by (rewrite feed_one_down_svc; exact H).
    apply feed_one_down_svc. exact H.
  Qed.

  (** and for the FIFO iteration of the correspondence run *)
  Theorem feed_iter_down_frozen : forall fuel f,
      up (fd_svc f) = false -> fd_svc (feedi fuel f) = fd_svc f.
  Proof.
    induction fuel as [| n IH]; intros f H; [reflexivity|].
    cbn [feed_iter]. destruct (fd_pending f); [reflexivity|].
    rewrite IH by (rewrite feed_one_down_svc; exact H).
    apply feed_one_down_svc. exact H.
  Qed.

  Theorem feed_iter_down_mem_sto : forall fuel msg m st,
      let f := feedi fuel (submit msg (mk_svc m st false)) in
      mem (fd_svc f) = m /\ sto (fd_svc f) = st /\ up (fd_svc f) = false.
  Proof.
    intros fuel msg m st f. subst f. rewrite feed_iter_down_frozen by reflexivity.
    repeat split; reflexivity.
  Qed.
End RouteDown.

(** the same for [feed_fifo] itself *)
Theorem feed_fifo_down_mem_sto : forall services fuel msg m st,
    let f := feed_fifo services fuel (submit msg (mk_svc m st false)) in
    mem (fd_svc f) = m /\ sto (fd_svc f) = st /\ up (fd_svc f) = false.
Proof.
  intros services fuel msg m st. rewrite feed_fifo_is_iter. apply feed_iter_down_mem_sto.
Qed.

(** ---- later rounds do depend on the store -------------------------------------------------
    m0 ("rec") holds a binding "?id" = "a": it reacts to the message with id
    "a" only, and its action drops that binding.  With the store up it then
    reacts to "x" (and emits "y"); with the store down it is still where it
    was and does not. *)
Definition dep_crew : mmap := [("m0", mk_mrec "rec" "start" [("?id", JStr "a")])].
Definition dep_root : json :=
  JObj [("fwd", JArr [JObj [("fwd", JArr [leaf "y" "m0"]); ("id", JStr "x"); ("to", JStr "m0")]]);
        ("id", JStr "a"); ("to", JStr "m0")].

Lemma second_round_store_dependent :
  let f u := feed_m [0; 0] (submit dep_root (mk_svc dep_crew dep_crew u)) in
  map msg_id (fd_reported (f true)) = [JStr "x"; JStr "y"]
  /\ map msg_id (fd_reported (f false)) = [JStr "x"]
  /\ map (fun e : json * list string => (msg_id (fst e), snd e)) (fd_log (f true))
     = [(JStr "a", ["m0"]); (JStr "x", ["m0"])]
  /\ map (fun e : json * list string => (msg_id (fst e), snd e)) (fd_log (f false))
     = [(JStr "a", ["m0"]); (JStr "x", ["m0"])].
Proof. vm_compute. repeat split; reflexivity. Qed.

(** T2 / [feed_store_independent] without the hypothesis: false *)
Lemma feed_store_independent_unconditional_refuted :
  ~ (forall choose root m st,
        fd_reported (feed_m choose (submit root (mk_svc m st true)))
        = fd_reported (feed_m choose (submit root (mk_svc m st false)))).
Proof.
  intros H. specialize (H [0; 0] dep_root dep_crew dep_crew).
  apply (f_equal (map msg_id)) in H. vm_compute in H. discriminate H.
Qed.

(** nor is the memory after ONE round the same without it *)
Lemma feed_one_mem_unconditional_refuted :
  ~ (forall i m st pend log rep,
        mem (fd_svc (feed_one spec_ok_m wk_m mcrew_services i (mk_fed (mk_svc m st true) pend log rep)))
        = mem (fd_svc (feed_one spec_ok_m wk_m mcrew_services i (mk_fed (mk_svc m st false) pend log rep)))).
Proof.
  intros H. specialize (H 0 dep_crew dep_crew [dep_root] [] []). vm_compute in H. discriminate H.
Qed.
