(** C14 (sio host): routing, feedback and reporting of [process_msg], for
    every specification-source type, reaction function, decoder and order
    oracle. *)
From Coq Require Import List String Bool Arith Lia Permutation.
From Sheens Require Import Model.SioCrew Spec.SioSpec Proofs.SioBasics.
Import ListNotations.
Open Scope string_scope.
Open Scope list_scope.

Section Routing.
Variable S : Type.
Variable react : S -> mid -> mstate -> json -> option mstate * list json.
Variable decode_src : json -> option S.
Variable resolves : S -> bool.
Variable src_eqb : S -> S -> bool.
Variable ord : forall A : Type, list (mid * A) -> list (mid * A).
Hypothesis ord_perm : forall A l, Permutation (ord A l) l.

Local Notation crew := (crew S).
Local Notation round := (round S).
Local Notation present := (present S react decode_src resolves).
Local Notation run_list := (run_list S react decode_src resolves).
Local Notation run_machines := (run_machines S react decode_src resolves ord).
Local Notation process := (process S react decode_src resolves ord).
Local Notation process_msg := (process_msg S react decode_src resolves src_eqb ord).
Local Notation set_machine := (set_machine S resolves).
Local Notation delete_machine := (delete_machine S).
Local Notation can_see := (can_see S).

(** no ordinary machine carries the id of a service machine *)
Definition wf_crew (c : crew) : Prop :=
  forall m, is_service m = true -> aget m (machines S c) = None.

Lemma init_wf : wf_crew (init_crew S).
Proof. intros m _. reflexivity. Qed.

Lemma set_machine_machines c m src st :
  exists mc, machines S (set_machine c m src st) = aset m mc (machines S c).
Proof.
  unfold SioCrew.set_machine.
  match goal with |- context [aset m ?x (machines S c)] => exists x end.
  destruct (negb _ || _ || _); reflexivity.
Qed.

Lemma set_machine_wedged c m src st : wedged S (set_machine c m src st) = wedged S c.
Proof. unfold SioCrew.set_machine. destruct (negb _ || _ || _); reflexivity. Qed.

Lemma set_machine_wf c m src st : is_service m = false -> wf_crew c -> wf_crew (set_machine c m src st).
Proof.
  intros NS W m' Hs. destruct (set_machine_machines c m src st) as [mc ->].
  rewrite aget_aset_neq; auto. intros ->. congruence.
Qed.

Lemma delete_machine_wf c m : wf_crew c -> wf_crew (delete_machine c m).
Proof.
  intros W m' Hs. unfold SioCrew.delete_machine. simpl.
  rewrite aget_adel. destruct (String.eqb m' m); auto.
Qed.

Lemma do_op_wf c op : op_ordinary S op = true -> wf_crew c -> wf_crew (do_op S resolves c op).
Proof.
  unfold op_ordinary, do_op. intros H W. apply andb_true_iff in H as [Hu Hd].
  rewrite forallb_forall in Hu, Hd.
  assert (W1 : wf_crew (fold_left (fun c0 u => set_machine c0 (fst u) (u_src S (snd u)) (u_state S (snd u)))
                                  (op_update S op) c)).
  { revert c W. induction (op_update S op) as [|u r IH]; simpl; intros c W; auto.
    apply IH.
    - intros x Hx. apply Hu. right. exact Hx.
    - apply set_machine_wf; auto. apply negb_true_iff. apply Hu. left. reflexivity. }
  revert W1. generalize (fold_left (fun c0 u => set_machine c0 (fst u) (u_src S (snd u)) (u_state S (snd u)))
                                   (op_update S op) c).
  induction (op_delete S op) as [|d r IH]; simpl; intros c0 W0; auto.
  apply IH.
  - intros x Hx. apply Hd. right. exact Hx.
  - apply delete_machine_wf. exact W0.
Qed.

Lemma record_state_machines c m mc st :
  machines S (record_state S c m mc st) = aset m (mk_mach (m_src S mc) st) (machines S c).
Proof. reflexivity. Qed.

(** ** one recipient *)
Lemma present_wf c msg m c1 got b :
  wf_crew c -> present c msg m = Done (c1, got, b) -> wf_crew c1.
Proof.
  intros W. unfold SioCrew.present.
  destruct (String.eqb m captain_id) eqn:Ec.
  - destruct (wedged S c).
    + intros [= <- <- <-]. exact W.
    + destruct (as_crew_op S decode_src msg) as [| |op0]; try discriminate.
      * intros [= <- <- <-]. exact W.
      * set (op := strip_op S op0) in *; destruct (op_ordinary S op) eqn:Eo; try discriminate.
        intros [= <- <- <-]. apply do_op_wf; auto.
  - destruct (String.eqb m timers_id) eqn:Et.
    + intros [= <- <- <-]. destruct (tm_shape msg); exact W.
    + destruct (aget m (machines S c)) as [mc|] eqn:Em.
      * destruct (m_src S mc) as [s|].
        -- destruct (react s m (m_state S mc) msg) as [st ems].
           intros [= <- <- <-]. destruct st as [st1|]; auto.
           intros m' Hs. rewrite record_state_machines, aget_aset_neq; auto.
           intros ->. unfold is_service in Hs. rewrite Ec, Et in Hs. discriminate.
        -- intros [= <- <- <-]. exact W.
      * intros [= <- <- <-]. exact W.
Qed.

(** a recipient other than the captain: it is presented the message iff it
    can see messages at all; nobody else's machine changes; nobody's ability
    to see messages changes *)
Lemma present_static c msg m c1 got b :
  wf_crew c -> m <> captain_id -> present c msg m = Done (c1, got, b) ->
  got = can_see c m
  /\ (forall m', m' <> m -> aget m' (machines S c1) = aget m' (machines S c))
  /\ (forall m', can_see c1 m' = can_see c m')
  /\ b = (if is_service m then None
          else match aget m (machines S c) with
               | Some mc => match m_src S mc with
                            | Some s => Some (snd (react s m (m_state S mc) msg))
                            | None => None
                            end
               | None => None
               end).
Proof.
  intros W N. unfold SioCrew.present.
  destruct (String.eqb m captain_id) eqn:Ec.
  { apply String.eqb_eq in Ec. contradiction. }
  destruct (String.eqb m timers_id) eqn:Et.
  - intros [= <- <- <-]. unfold SioSpec.can_see, is_service. rewrite Et. simpl.
    repeat split; auto; destruct (tm_shape msg); reflexivity.
  - assert (NS : is_service m = false) by (unfold is_service; rewrite Ec, Et; reflexivity).
    unfold SioSpec.can_see. rewrite NS. simpl.
    destruct (aget m (machines S c)) as [mc|] eqn:Em.
    + destruct (m_src S mc) as [s|] eqn:Es.
      * destruct (react s m (m_state S mc) msg) as [st ems] eqn:Er.
        intros [= <- <- <-]. simpl. split; [reflexivity|].
        destruct st as [st1|]; [|repeat split; auto].
        repeat split.
        -- intros m' Hm'. rewrite record_state_machines. apply aget_aset_neq. exact Hm'.
        -- intros m'. rewrite record_state_machines, aget_aset.
           destruct (String.eqb m' m) eqn:E; auto.
           apply String.eqb_eq in E. subst m'. rewrite Em. simpl. rewrite Es. reflexivity.
      * intros [= <- <- <-]. repeat split; auto.
    + intros [= <- <- <-]. repeat split; auto.
Qed.

(** the captain is always presented the message and emits nothing *)
Lemma present_captain c msg c1 got b :
  present c msg captain_id = Done (c1, got, b) -> got = true /\ b = None.
Proof.
  unfold SioCrew.present. rewrite eqb_refl'.
  destruct (wedged S c).
  - intros [= <- <- <-]. auto.
  - destruct (as_crew_op S decode_src msg) as [| |op0]; try discriminate.
    + intros [= <- <- <-]. auto.
    + set (op := strip_op S op0) in *; destruct (op_ordinary S op); try discriminate. intros [= <- <- <-]. auto.
Qed.

(** ** the recipients of one round *)
Lemma run_list_cons c msg m rest r :
  run_list c msg (m :: rest) = Done r ->
  exists c1 got b c2 rs bs,
    present c msg m = Done (c1, got, b) /\ run_list c1 msg rest = Done (c2, rs, bs)
    /\ r = (c2, (if got then m :: rs else rs), match b with Some x => (m, x) :: bs | None => bs end).
Proof.
  simpl. destruct (present c msg m) as [[[c1 got] b]| |] eqn:E1; simpl; try discriminate.
  destruct (run_list c1 msg rest) as [[[c2 rs] bs]| |] eqn:E2; simpl; try discriminate.
  intros [= <-]. exists c1, got, b, c2, rs, bs. auto.
Qed.

Lemma run_list_wf c msg mids c1 rs bs :
  wf_crew c -> run_list c msg mids = Done (c1, rs, bs) -> wf_crew c1.
Proof.
  revert c c1 rs bs. induction mids as [|m rest IH]; intros c c1 rs bs W H.
  - simpl in H. injection H as <- <- <-. exact W.
  - apply run_list_cons in H as (c2 & got & b & c3 & rs' & bs' & Hp & Hr & E).
    injection E as -> -> ->. eapply IH; [|exact Hr]. eapply present_wf; eauto.
Qed.

(** presented only to listed machines, in the listed order *)
Lemma run_list_incl c msg mids c1 rs bs :
  run_list c msg mids = Done (c1, rs, bs) ->
  (forall m, In m rs -> In m mids) /\ (NoDup mids -> NoDup rs)
  /\ (forall m, In m (map fst bs) -> In m rs).
Proof.
  revert c c1 rs bs. induction mids as [|m rest IH]; intros c c1 rs bs H.
  - simpl in H. injection H as <- <- <-. simpl. repeat split; auto.
  - apply run_list_cons in H as (c2 & got & b & c3 & rs' & bs' & Hp & Hr & E).
    injection E as -> -> ->. destruct (IH _ _ _ _ Hr) as (I1 & I2 & I3).
    assert (G : b <> None -> got = true).
    { unfold SioCrew.present in Hp.
      destruct (String.eqb m captain_id).
      - destruct (wedged S c); [injection Hp as <- <- <-; congruence|].
        destruct (as_crew_op S decode_src msg) as [| |op0]; try discriminate.
        + injection Hp as <- <- <-; congruence.
        + set (op := strip_op S op0) in *; destruct (op_ordinary S op); try discriminate. injection Hp as <- <- <-; congruence.
      - destruct (String.eqb m timers_id); [injection Hp as <- <- <-; congruence|].
        destruct (aget m (machines S c)) as [mc|]; [|injection Hp as <- <- <-; congruence].
        destruct (m_src S mc) as [s|]; [|injection Hp as <- <- <-; congruence].
        destruct (react s m (m_state S mc) msg). injection Hp as <- <- <-. auto. }
    repeat split.
    + intros x Hx. destruct got; simpl in *; intuition.
    + intros ND. inversion ND as [|? ? NI ND']; subst.
      destruct got; auto. constructor; auto.
    + intros x Hx. destruct b as [e|]; simpl in Hx.
      * rewrite G by congruence. destruct Hx as [<-|Hx]; simpl; auto.
      * destruct got; simpl; auto.
Qed.

Definition emissions_of (c : crew) (m : mid) (msg : json) : list json :=
  match aget m (machines S c) with
  | Some mc => match m_src S mc with
               | Some s => snd (react s m (m_state S mc) msg)
               | None => []
               end
  | None => []
  end.

(** a round that does not involve the captain *)
Lemma run_list_static c0 c msg mids c1 rs bs :
  wf_crew c -> ~ In captain_id mids -> NoDup mids ->
  (forall m, In m mids -> aget m (machines S c) = aget m (machines S c0)) ->
  (forall m, can_see c m = can_see c0 m) ->
  run_list c msg mids = Done (c1, rs, bs) ->
  rs = filter (can_see c0) mids
  /\ (forall m, can_see c1 m = can_see c0 m)
  /\ bs = map (fun m => (m, emissions_of c0 m msg)) (filter (fun m => negb (is_service m)) rs).
Proof.
  revert c c1 rs bs. induction mids as [|m rest IH]; intros c c1 rs bs W NC ND A CS H.
  - simpl in H. injection H as <- <- <-. simpl. auto.
  - apply run_list_cons in H as (c2 & got & b & c3 & rs' & bs' & Hp & Hr & E).
    injection E as -> -> ->.
    inversion ND as [|? ? NI ND']; subst.
    assert (Nm : m <> captain_id) by (intros ->; apply NC; left; reflexivity).
    destruct (present_static _ _ _ _ _ _ W Nm Hp) as (G & K & CS2 & B).
    destruct (IH c2 c3 rs' bs') as (R1 & R2 & R3); auto.
    + eapply present_wf; eauto.
    + intros H. apply NC. right. exact H.
    + intros m' Hm'. rewrite K; [apply A; right; exact Hm'|]. intros ->. contradiction.
    + intros m'. rewrite CS2. apply CS.
    + split; [|split; [exact R2|]].
      * simpl. rewrite <- CS, <- G. destruct got; rewrite R1; reflexivity.
      * subst b. rewrite (A m) in * by (left; reflexivity).
        pose proof G as G'. unfold SioSpec.can_see in G'. rewrite (A m) in G' by (left; reflexivity).
        destruct (is_service m) eqn:Es.
        -- simpl in G'. rewrite G'. simpl. rewrite Es. simpl. exact R3.
        -- simpl in G'.
           destruct (aget m (machines S c0)) as [mc|] eqn:Ea; [|rewrite G'; exact R3].
           destruct (m_src S mc) as [s|] eqn:Esrc; simpl in G'; rewrite G'; [|exact R3].
           simpl. rewrite Es. simpl. f_equal; [|exact R3].
           unfold emissions_of. rewrite Ea, Esrc. reflexivity.
Qed.

Lemma to_machines_target c msg :
  to_machines S ord c msg =
  match routing_target msg with
  | TNone | TAll => all_machines S ord c
  | TOne s => [s]
  | TMany l => l
  end.
Proof.
  unfold to_machines, routing_target. destruct msg; auto.
  destruct (assoc "to" kvs) as [[| | |s| |]|]; auto.
  destruct (String.eqb s "*"); auto.
Qed.

Lemma all_machines_in c m : In m (all_machines S ord c) <-> aget m (machines S c) <> None.
Proof.
  unfold all_machines. rewrite aget_in_keys. split; intros H.
  - eapply Permutation_in; [|exact H]. apply Permutation_map. apply ord_perm.
  - eapply Permutation_in; [|exact H]. apply Permutation_map. apply Permutation_sym. apply ord_perm.
Qed.

Lemma dedup_all_same (a : string) l : l <> [] -> (forall x, In x l -> x = a) -> dedup l = [a].
Proof.
  induction l as [|x r IH]; [congruence|]. intros _ H. simpl.
  rewrite (H x) by (left; reflexivity). f_equal.
  destruct r as [|y r']; [reflexivity|].
  rewrite IH; [|congruence|intros z Hz; apply H; right; exact Hz].
  simpl. rewrite eqb_refl'. reflexivity.
Qed.

Lemma mixes_false_all_captain l :
  smem captain_id l = true ->
  existsb (fun s => negb (String.eqb s captain_id)) l = false ->
  forall x, In x l -> x = captain_id.
Proof.
  intros _ H x Hx. destruct (String.eqb x captain_id) eqn:E.
  - apply String.eqb_eq. exact E.
  - exfalso. assert (T : existsb (fun s => negb (String.eqb s captain_id)) l = true).
    { apply existsb_exists. exists x. rewrite E. auto. }
    congruence.
Qed.

(** one round: who the message was presented to *)
Lemma round_exactly_once c msg c1 rd :
  wf_crew c -> run_machines c msg = Done (c1, rd) -> mixes_captain msg = false ->
  forall m, count_occ string_dec (rd_recips S rd) m = if addressed (can_see c) msg m then 1 else 0.
Proof.
  intros W H MX m. unfold SioCrew.run_machines in H.
  destruct (run_list c msg (dedup (to_machines S ord c msg))) as [[[c2 rs] bs]| |] eqn:HR;
    simpl in H; try discriminate.
  injection H as <- <-. simpl.
  pose proof (dedup_nodup (to_machines S ord c msg)) as ND.
  destruct (in_dec string_dec captain_id (dedup (to_machines S ord c msg))) as [IC|NC].
  - (* the captain is named: it is named alone *)
    assert (E : dedup (to_machines S ord c msg) = [captain_id]
                /\ forall x, addressed (can_see c) msg x = String.eqb x captain_id).
    { rewrite dedup_in in IC. rewrite to_machines_target in *. unfold addressed, mixes_captain in *.
      destruct (routing_target msg) as [| |s|l] eqn:ET.
      - apply all_machines_in in IC. exfalso. apply IC. apply W. reflexivity.
      - apply all_machines_in in IC. exfalso. apply IC. apply W. reflexivity.
      - destruct IC as [->|[]]. split; [reflexivity|]. intros x.
        destruct (String.eqb x captain_id) eqn:E; [|apply andb_false_r].
        apply String.eqb_eq in E. subst. reflexivity.
      - assert (SM : smem captain_id l = true) by (apply smem_in; exact IC).
        rewrite SM in MX. simpl in MX.
        pose proof (mixes_false_all_captain l SM MX) as AC.
        split.
        + apply dedup_all_same; auto. intros ->. destruct IC.
        + intros x. destruct (String.eqb x captain_id) eqn:E.
          * apply String.eqb_eq in E. subst. rewrite SM. reflexivity.
          * destruct (smem x l) eqn:Sx; [|apply andb_false_r].
            apply smem_in in Sx. apply AC in Sx. subst. rewrite eqb_refl' in E. discriminate. }
    destruct E as [E EA]. rewrite E in HR. rewrite EA.
    apply run_list_cons in HR as (c3 & got & b & c4 & rs' & bs' & Hp & Hr & E2).
    simpl in Hr. injection Hr as <- <- <-. injection E2 as -> -> ->.
    apply present_captain in Hp as [-> ->]. cbn [count_occ].
    destruct (string_dec captain_id m) as [<-|N].
    + rewrite eqb_refl'. reflexivity.
    + destruct (String.eqb m captain_id) eqn:E3; auto. apply String.eqb_eq in E3. congruence.
  - (* the captain is not involved: the crew does not change shape during the round *)
    destruct (run_list_static c c msg _ _ _ _ W NC ND (fun _ _ => eq_refl) (fun _ => eq_refl) HR)
      as (R1 & _ & _).
    subst rs. rewrite count_occ_nodup by (apply NoDup_filter; exact ND).
    assert (EQ : smem m (filter (can_see c) (dedup (to_machines S ord c msg))) = addressed (can_see c) msg m);
      [|rewrite EQ; reflexivity].
    apply eq_true_iff_eq. rewrite smem_in, filter_In, dedup_in.
    unfold addressed. rewrite andb_true_iff. rewrite to_machines_target.
    split; intros [H1 H2]; split; auto.
    + destruct (routing_target msg) as [| |s|l].
      * apply all_machines_in in H1. apply negb_true_iff.
        destruct (is_service m) eqn:Es; auto. exfalso. apply H1. apply W. exact Es.
      * apply all_machines_in in H1. apply negb_true_iff.
        destruct (is_service m) eqn:Es; auto. exfalso. apply H1. apply W. exact Es.
      * destruct H1 as [<-|[]]. apply eqb_refl'.
      * apply smem_in. exact H1.
    + destruct (routing_target msg) as [| |s|l].
      * apply all_machines_in. unfold SioSpec.can_see in H1. apply negb_true_iff in H2.
        rewrite H2 in H1. simpl in H1. destruct (aget m (machines S c)); [congruence|discriminate].
      * apply all_machines_in. unfold SioSpec.can_see in H1. apply negb_true_iff in H2.
        rewrite H2 in H1. simpl in H1. destruct (aget m (machines S c)); [congruence|discriminate].
      * apply String.eqb_eq in H2. left. auto.
      * apply smem_in. exact H2.
Qed.

(** one round, unconditionally: never twice, and only to machines the
    message names (everybody, for a message without a target) *)
Lemma round_at_most_once c msg c1 rd :
  run_machines c msg = Done (c1, rd) ->
  NoDup (rd_recips S rd)
  /\ (forall m, In m (rd_recips S rd) -> In m (to_machines S ord c msg))
  /\ (forall m, In m (map fst (rd_batches S rd)) -> In m (rd_recips S rd)).
Proof.
  intros H. unfold SioCrew.run_machines in H.
  destruct (run_list c msg (dedup (to_machines S ord c msg))) as [[[c2 rs] bs]| |] eqn:HR;
    simpl in H; try discriminate.
  injection H as <- <-. simpl.
  destruct (run_list_incl _ _ _ _ _ _ HR) as (I1 & I2 & I3).
  repeat split; auto.
  - apply I2. apply dedup_nodup.
  - intros m Hm. apply dedup_in. apply I1. exact Hm.
  - intros m Hm. apply I3. eapply Permutation_in; [|exact Hm].
    apply Permutation_map. apply ord_perm.
Qed.

(** one round without the captain: the reported batches are, up to the map
    order, the reactions of the ordinary recipients to the message in the
    state they were in when the message was taken from the queue *)
Lemma round_batches c msg c1 rd :
  wf_crew c -> run_machines c msg = Done (c1, rd) -> mixes_captain msg = false ->
  Permutation (rd_batches S rd)
              (map (fun m => (m, emissions_of c m msg))
                   (filter (fun m => negb (is_service m)) (rd_recips S rd))).
Proof.
  intros W H MX. unfold SioCrew.run_machines in H.
  destruct (run_list c msg (dedup (to_machines S ord c msg))) as [[[c2 rs] bs]| |] eqn:HR;
    simpl in H; try discriminate.
  injection H as <- <-. simpl.
  eapply Permutation_trans; [apply ord_perm|].
  pose proof (dedup_nodup (to_machines S ord c msg)) as ND.
  destruct (in_dec string_dec captain_id (dedup (to_machines S ord c msg))) as [IC|NC].
  - assert (E : dedup (to_machines S ord c msg) = [captain_id]).
    { rewrite dedup_in in IC. rewrite to_machines_target in *. unfold mixes_captain in *.
      destruct (routing_target msg) as [| |s|l] eqn:ET.
      - apply all_machines_in in IC. exfalso. apply IC. apply W. reflexivity.
      - apply all_machines_in in IC. exfalso. apply IC. apply W. reflexivity.
      - destruct IC as [->|[]]. reflexivity.
      - assert (SM : smem captain_id l = true) by (apply smem_in; exact IC).
        rewrite SM in MX. simpl in MX.
        apply dedup_all_same; [intros ->; destruct IC|].
        apply mixes_false_all_captain; auto. }
    rewrite E in HR.
    apply run_list_cons in HR as (c3 & got & b & c4 & rs' & bs' & Hp & Hr & E2).
    simpl in Hr. injection Hr as <- <- <-. injection E2 as -> -> ->.
    apply present_captain in Hp as [-> ->]. simpl. constructor.
  - destruct (run_list_static c c msg _ _ _ _ W NC ND (fun _ _ => eq_refl) (fun _ => eq_refl) HR)
      as (_ & _ & R3).
    rewrite R3. apply Permutation_refl.
Qed.

(** ** the queue *)
Definition round_ok (rd : round) : Prop :=
  wf_crew (rd_before S rd) /\ exists c1, run_machines (rd_before S rd) (rd_msg S rd) = Done (c1, rd).

Lemma run_machines_round c msg c1 rd :
  run_machines c msg = Done (c1, rd) -> rd_msg S rd = msg /\ rd_before S rd = c.
Proof.
  unfold SioCrew.run_machines.
  destruct (run_list c msg (dedup (to_machines S ord c msg))) as [[[c2 rs] bs]| |]; simpl; try discriminate.
  intros [= <- <-]. auto.
Qed.

Lemma run_machines_wf c msg c1 rd : wf_crew c -> run_machines c msg = Done (c1, rd) -> wf_crew c1.
Proof.
  unfold SioCrew.run_machines. intros W.
  destruct (run_list c msg (dedup (to_machines S ord c msg))) as [[[c2 rs] bs]| |] eqn:HR; simpl; try discriminate.
  intros [= <- <-]. eapply run_list_wf; eauto.
Qed.

(** the FIFO invariant: the rounds added by [process] handle exactly the
    queue followed by everything those rounds emit, in that order *)
Lemma process_fifo fuel : forall c q tr c' trf,
  wf_crew c -> process fuel c q tr = Done (c', trf) ->
  exists new, trf = rev tr ++ new
              /\ map (rd_msg S) new = q ++ flat_map (batch_msgs S) new
              /\ Forall round_ok new /\ wf_crew c'.
Proof.
  induction fuel as [|f IH]; intros c q tr c' trf W H.
  - destruct q; simpl in H; [|discriminate].
    injection H as <- <-. exists []. simpl. rewrite app_nil_r. auto.
  - destruct q as [|msg rest]; simpl in H.
    + injection H as <- <-. exists []. simpl. rewrite app_nil_r. auto.
    + destruct (run_machines c msg) as [[c1 rd]| |] eqn:HR; simpl in H; try discriminate.
      destruct (run_machines_round _ _ _ _ HR) as [Em Eb].
      apply IH in H as (new & E1 & E2 & F & W'); [|eapply run_machines_wf; eauto].
      exists (rd :: new). repeat split; auto.
      * rewrite E1. simpl. rewrite <- app_assoc. reflexivity.
      * simpl. rewrite E2, Em. rewrite <- app_assoc. reflexivity.
      * constructor; auto. split; [rewrite Eb; exact W|]. exists c1. rewrite Eb, Em. exact HR.
Qed.

Lemma process_msg_trace fuel c msg c' res :
  wf_crew c -> process_msg fuel c msg = Done (c', res) ->
  map (rd_msg S) (res_trace S res) = msg :: flat_map (batch_msgs S) (res_trace S res)
  /\ Forall round_ok (res_trace S res)
  /\ res_emitted S res = emitted_of S (res_trace S res).
Proof.
  intros W H. unfold SioCrew.process_msg in H.
  destruct (process fuel c [msg] []) as [[c1 tr]| |] eqn:HP; simpl in H; try discriminate.
  destruct (get_changed S src_eqb ord c1) as [[c2 ch] tm]. injection H as <- <-. simpl.
  apply process_fifo in HP as (new & E1 & E2 & F & _); auto.
  simpl in E1. subst tr. auto.
Qed.

(** dropping the empty batches loses no message *)
Lemma concat_emitted tr : List.concat (emitted_of S tr) = flat_map (batch_msgs S) tr.
Proof.
  unfold emitted_of. induction tr as [|rd r IH]; simpl; auto.
  rewrite filter_app, concat_app, IH. f_equal.
  unfold batch_msgs. induction (rd_batches S rd) as [|[m b] bs IHb]; simpl; auto.
  destruct b as [|x b']; simpl; rewrite IHb; reflexivity.
Qed.

(** ** the theorems *)
Theorem exactly_once : forall fuel c msg c' res,
  wf_crew c -> process_msg fuel c msg = Done (c', res) ->
  forall rd, In rd (res_trace S res) -> mixes_captain (rd_msg S rd) = false ->
  forall m, count_occ string_dec (rd_recips S rd) m
            = if addressed (can_see (rd_before S rd)) (rd_msg S rd) m then 1 else 0.
Proof.
  intros fuel c msg c' res W H rd Hin MX m.
  destruct (process_msg_trace _ _ _ _ _ W H) as (_ & F & _).
  rewrite Forall_forall in F. destruct (F rd Hin) as [Wb [c1 HR]].
  eapply round_exactly_once; eauto.
Qed.

Theorem at_most_once_only_named : forall fuel c msg c' res,
  wf_crew c -> process_msg fuel c msg = Done (c', res) ->
  forall rd, In rd (res_trace S res) ->
  NoDup (rd_recips S rd)
  /\ (forall m, In m (rd_recips S rd) -> In m (to_machines S ord (rd_before S rd) (rd_msg S rd)))
  /\ (forall m, In m (map fst (rd_batches S rd)) -> In m (rd_recips S rd)).
Proof.
  intros fuel c msg c' res W H rd Hin.
  destruct (process_msg_trace _ _ _ _ _ W H) as (_ & F & _).
  rewrite Forall_forall in F. destruct (F rd Hin) as [Wb [c1 HR]].
  destruct (round_at_most_once _ _ _ _ HR) as (A & B & D). auto.
Qed.

Theorem feedback : forall fuel c msg c' res,
  wf_crew c -> process_msg fuel c msg = Done (c', res) ->
  map (rd_msg S) (res_trace S res) = msg :: flat_map (batch_msgs S) (res_trace S res).
Proof.
  intros fuel c msg c' res W H. apply (process_msg_trace _ _ _ _ _ W H).
Qed.

Theorem reported_once : forall fuel c msg c' res,
  wf_crew c -> process_msg fuel c msg = Done (c', res) ->
  List.concat (res_emitted S res) = flat_map (batch_msgs S) (res_trace S res)
  /\ map (rd_msg S) (res_trace S res) = msg :: List.concat (res_emitted S res)
  /\ Forall (fun b => b <> []) (res_emitted S res)
  /\ forall rd, In rd (res_trace S res) -> mixes_captain (rd_msg S rd) = false ->
     Permutation (rd_batches S rd)
                 (map (fun m => (m, emissions_of (rd_before S rd) m (rd_msg S rd)))
                      (filter (fun m => negb (is_service m)) (rd_recips S rd))).
Proof.
  intros fuel c msg c' res W H.
  destruct (process_msg_trace _ _ _ _ _ W H) as (E & F & EM).
  rewrite EM, concat_emitted. repeat split; auto.
  - unfold emitted_of. apply Forall_forall. intros b Hb. apply filter_In in Hb as [_ Hb].
    destruct b; [discriminate|congruence].
  - intros rd Hin MX. rewrite Forall_forall in F. destruct (F rd Hin) as [Wb [c1 HR]].
    eapply round_batches; eauto.
Qed.

(** the crew stays well formed *)
Theorem process_msg_wf : forall fuel c msg c' res,
  wf_crew c -> process_msg fuel c msg = Done (c', res) -> wf_crew c'.
Proof.
  intros fuel c msg c' res W H. unfold SioCrew.process_msg in H.
  destruct (process fuel c [msg] []) as [[c1 tr]| |] eqn:HP; simpl in H; try discriminate.
  apply process_fifo in HP as (new & _ & _ & _ & W1); auto.
  unfold get_changed in H.
  destruct (suppress S src_eqb _ _) as [prev out]. injection H as <- <-. exact W1.
Qed.

(** every crew reached by a history from the initial crew is well formed *)
Lemma hstep_wf fuel c store h c1 store1 r :
  wf_crew c -> hstep S react decode_src resolves src_eqb ord fuel (c, store) h = Done (c1, store1, r) -> wf_crew c1.
Proof.
  intros W. destruct h as [msg|m src st|m]; simpl.
  - destruct (process_msg fuel c msg) as [[c2 r2]| |] eqn:HP; simpl; try discriminate.
    intros [= <- <- <-]. eapply process_msg_wf; eauto.
  - destruct (is_service m) eqn:Es; try discriminate. intros [= <- <- <-]. apply set_machine_wf; auto.
  - destruct (is_service m) eqn:Es; try discriminate. intros [= <- <- <-]. apply delete_machine_wf; auto.
Qed.

Theorem run_history_wf fuel h : forall c store c1 store1,
  wf_crew c -> run_history S react decode_src resolves src_eqb ord fuel (c, store) h = Done (c1, store1) -> wf_crew c1.
Proof.
  induction h as [|x r IH]; intros c store c1 store1 W H.
  - simpl in H. injection H as <- <-. exact W.
  - change (obind (hstep S react decode_src resolves src_eqb ord fuel (c, store) x)
                  (fun '(c1, s1, _) => run_history S react decode_src resolves src_eqb ord fuel (c1, s1) r)
            = Done (c1, store1)) in H.
    destruct (hstep S react decode_src resolves src_eqb ord fuel (c, store) x) as [[[c2 s2] r2]| |] eqn:HS;
      simpl in H; try discriminate.
    eapply IH; [|exact H]. eapply hstep_wf; eauto.
Qed.

End Routing.
