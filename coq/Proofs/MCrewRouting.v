(** C14, mcrew / mdb half: in the model of Service.Process (Host.Process)
    with asynchronous re-submission of emitted messages, under every order
    in which the scheduler takes the pending Process calls,
    - every processed message is presented exactly once to each machine the
      container's routing rule selects and to no other ([mcrew_rule]);
    - that rule is the documented one ([addressed]) for every message whose
      target is absent, a machine id, a reserved name or not a list - and is
      not for lists of ids and "*" (D12);
    - every emitted message is reported once and processed once (or is still
      pending). *)
From Sheens Require Import Spec.MCrewSpec Proofs.SndBasics Proofs.SndSorted Proofs.MCrewMaps
     Proofs.MCrewFacts.
From Coq Require Import Permutation.

Lemma filter_eqb_nodup : forall s l,
    nodup_keys l = true ->
    filter (String.eqb s) l = if existsb (String.eqb s) l then [s] else [].
Proof.
  induction l as [| k r IH]; intros H; [reflexivity|].
  cbn in H. apply andb_true_iff in H. destruct H as [H1 H2]. cbn [filter existsb].
  destruct (String.eqb s k) eqn:E.
  - apply String.eqb_eq in E. subst k. cbn [orb].
    rewrite (IH H2). apply negb_true_iff in H1. rewrite H1. reflexivity.
  - cbn [orb]. apply IH. exact H2.
Qed.

Lemma existsb_eqb_mhas : forall m k, existsb (String.eqb k) (map fst m) = mhas k m.
Proof.
  intros m k. destruct (mhas k m) eqn:E.
  - apply existsb_eqb_in. apply mhas_in. exact E.
  - destruct (existsb (String.eqb k) (map fst m)) eqn:E2; [|reflexivity].
    apply existsb_eqb_in in E2. apply mhas_in in E2. congruence.
Qed.

Lemma ltb_asym : forall a b, String.ltb a b = true -> String.ltb b a = true -> False.
Proof.
  intros a b H1 H2. pose proof (ltb_trans _ _ _ H1 H2) as H. rewrite ltb_irrefl in H. discriminate.
Qed.

(** replacing the record of an existing machine keeps the ids *)
Lemma mset_present_keys : forall m k v,
    msorted m -> mhas k m = true -> map fst (mset k v m) = map fst m.
Proof.
  induction m as [| [k1 v1] r IH]; intros k v Hs Hh; [discriminate|].
  cbn [mset]. destruct (String.compare k k1) eqn:C.
  - apply String.compare_eq_iff in C. subst k1. reflexivity.
  - exfalso. apply mhas_in in Hh. cbn [map fst] in Hh. destruct Hh as [Hh | Hh].
    + subst k1. rewrite string_compare_refl in C. discriminate.
    + assert (Hlt : String.ltb k k1 = true) by (unfold String.ltb; rewrite C; reflexivity).
      unfold msorted in Hs. cbn [mkeys map fst] in Hs. fold (mkeys r) in Hs.
      pose proof (sorted_lt_all k1 JNull (mkeys r) Hs k) as H.
      rewrite mkeys_fst in H. specialize (H Hh). eapply ltb_asym; eassumption.
  - cbn [map fst]. f_equal. apply IH.
    + unfold msorted in *. cbn [mkeys map fst] in Hs. fold (mkeys r) in Hs.
      eapply sorted_keys_tail. eassumption.
    + unfold mhas in *. cbn [mget] in Hh.
      rewrite eqb_of_compare_ne in Hh by (rewrite C; discriminate). exact Hh.
Qed.

Lemma set_states_ids : forall ch m, msorted m -> map fst (set_states ch m) = map fst m.
Proof.
  induction ch as [| [mid [node bs]] ch IH]; intros m H; [reflexivity|].
  unfold set_states. cbn [fold_left fst snd].
  destruct (mget mid m) as [r |] eqn:E; [| apply IH; exact H].
  fold (set_states ch (mset mid (mk_mrec (r_spec r) node bs) m)).
  rewrite IH by (apply msorted_mset; exact H).
  apply mset_present_keys; [exact H|]. unfold mhas. rewrite E. reflexivity.
Qed.

Lemma take_nth_perm {A : Type} : forall (l : list A) i x r,
    take_nth i l = Some (x, r) -> Permutation l (x :: r).
Proof.
  induction l as [| y l IH]; intros [| i] x r H; cbn in H; try discriminate.
  - inversion H; subst. apply Permutation_refl.
  - destruct (take_nth i l) as [[z r'] |] eqn:E; [|discriminate]. inversion H; subst.
    eapply perm_trans; [apply perm_skip; eapply IH; eassumption | apply perm_swap].
Qed.

Section Routing.
  Variable spec_ok : string -> bool.
  Variable wk : string -> string -> mrec -> json -> option (string * bindings) * list json.
  Variable services : list string.

  Notation process := (do_process spec_ok wk services).

  (** the model's choice of recipients is [mcrew_rule] *)
  Lemma recipients_rule : forall m msg,
      msorted m -> recipients (route services msg) m = mcrew_rule services (map fst m) msg.
  Proof.
    intros m msg Hs. unfold route, mcrew_rule.
    (* the key the containers look at (Gen/Names.v) is the key of the documented rule *)
    change mcrew_route_key with "to".
    destruct msg as [| b | z | s | l | kvs]; try reflexivity.
    destruct (assoc "to" kvs) as [[| b | z | s | l | kvs'] |]; try reflexivity.
    destruct (existsb (String.eqb s) services); [reflexivity|]. cbn [recipients].
    rewrite filter_eqb_nodup by (apply msorted_nodup; exact Hs).
    rewrite existsb_eqb_mhas. reflexivity.
  Qed.

  Lemma recipients_present : forall d m,
      filter (fun mid => mhas mid m) (recipients d m) = recipients d m.
  Proof.
    intros [| mid | name] m; cbn [recipients].
    - induction m as [| [k v] r IH]; [reflexivity|]. cbn [map fst filter].
      unfold mhas at 1. cbn [mget]. rewrite String.eqb_refl. f_equal.
      rewrite <- IH at 2. apply filter_ext_in. intros a Ha.
      unfold mhas. cbn [mget]. destruct (String.eqb a k); [|reflexivity].
      apply mhas_in in Ha. unfold mhas in Ha. destruct (mget a r); [reflexivity | discriminate].
    - destruct (mhas mid m) eqn:E; [| reflexivity]. cbn [filter]. rewrite E. reflexivity.
    - reflexivity.
  Qed.

  (** every machine's specification loads *)
  Definition all_specs_ok (m : mmap) : Prop :=
    forall k r, mget k m = Some r -> spec_ok (r_spec r) = true.

  Lemma specs_ok_all : forall m mids, all_specs_ok m -> specs_ok spec_ok m mids = true.
  Proof.
    intros m mids H. unfold specs_ok. apply forallb_forall. intros mid _.
    destruct (mget mid m) eqn:E; [eapply H; eassumption | reflexivity].
  Qed.

  Lemma set_states_specs : forall ch m, all_specs_ok m -> all_specs_ok (set_states ch m).
  Proof.
    induction ch as [| [mid [node bs]] ch IH]; intros m H; [exact H|].
    unfold set_states. cbn [fold_left fst snd].
    destruct (mget mid m) as [r |] eqn:E; [| apply IH; exact H].
    apply IH. intros k r0 Hk. destruct (String.eqb_spec k mid) as [-> | Hne].
    - rewrite mget_mset_same in Hk. inversion Hk; subst. cbn. eapply H. eassumption.
    - rewrite mget_mset_other in Hk by exact Hne. eapply H. eassumption.
  Qed.

  (** one Process call: who was walked, and what stays the same *)
  Lemma process_facts : forall msg s,
      wf s -> all_specs_ok (mem s) ->
      walked_of (snd (process msg s)) = mcrew_rule services (map fst (mem s)) msg
      /\ map fst (mem (fst (process msg s))) = map fst (mem s)
      /\ wf (fst (process msg s)) /\ all_specs_ok (mem (fst (process msg s))).
  Proof.
    intros msg s Hw Hok. unfold do_process, do_process_to.
    rewrite (specs_ok_all _ _ Hok).
    set (mids := recipients (route services msg) (mem s)).
    assert (Hwalked : map fst (walks wk (mem s) mids msg) = mcrew_rule services (map fst (mem s)) msg).
    { rewrite walks_fst. unfold mids. rewrite recipients_present. apply recipients_rule. exact Hw. }
    destruct (changes (walks wk (mem s) mids msg)) as [| c ch] eqn:Ec.
    - cbn [fst snd walked_of]. repeat split; assumption.
    - destruct (up s && all_serialisable (c :: ch)); cbn [fst snd walked_of mem].
      + repeat split; try assumption.
        * apply set_states_ids. exact Hw.
        * unfold wf. cbn [mem]. apply set_states_sorted. exact Hw.
        * apply set_states_specs. exact Hok.
      + repeat split; assumption.
  Qed.

  (** ---- the feedback loop under any schedule --------------------------------------- *)

  Notation feed1 := (feed_one spec_ok wk services).
  Notation feedn := (feed spec_ok wk services).

  (** what holds of a feed state started from [root] in crew [ids] *)
  Record feed_inv (ids : list string) (root : json) (f : fed) : Prop := mk_feed_inv {
    fi_wf : wf (fd_svc f);
    fi_specs : all_specs_ok (mem (fd_svc f));
    fi_ids : map fst (mem (fd_svc f)) = ids;
    fi_log : forall msg mids, In (msg, mids) (fd_log f) -> mids = mcrew_rule services ids msg;
    fi_bag : Permutation (map fst (fd_log f) ++ fd_pending f) (root :: fd_reported f)
  }.

  Lemma feed_one_inv : forall ids root i f, feed_inv ids root f -> feed_inv ids root (feed1 i f).
  Proof.
    intros ids root i f [Hw Hs Hi Hl Hb]. unfold feed_one.
    destruct (take_nth (Nat.modulo i (Nat.max 1 (List.length (fd_pending f)))) (fd_pending f))
      as [[msg rest] |] eqn:Et; [| constructor; assumption].
    pose proof (process_facts msg (fd_svc f) Hw Hs) as [P1 [P2 [P3 P4]]].
    destruct (process msg (fd_svc f)) as [s' r] eqn:Ep. cbn [fst snd] in *.
    constructor; cbn [fd_svc fd_pending fd_log fd_reported].
    - exact P3.
    - exact P4.
    - rewrite P2. exact Hi.
    - intros m mids Hin. apply in_app_or in Hin. destruct Hin as [Hin | [Hin | []]].
      + apply Hl. exact Hin.
      + injection Hin as <- <-. rewrite P1, Hi. reflexivity.
    - apply take_nth_perm in Et.
      rewrite map_app. cbn [map fst].
      replace ((map fst (fd_log f) ++ [msg]) ++ rest ++ emitted_of r)
        with ((map fst (fd_log f) ++ msg :: rest) ++ emitted_of r)
        by (rewrite <- !app_assoc; reflexivity).
      replace (root :: fd_reported f ++ emitted_of r) with ((root :: fd_reported f) ++ emitted_of r)
        by reflexivity.
      apply Permutation_app_tail.
      eapply perm_trans; [| exact Hb].
      apply Permutation_app_head. apply Permutation_sym. exact Et.
  Qed.

  Lemma feed_inv_all : forall choose ids root f, feed_inv ids root f -> feed_inv ids root (feedn choose f).
  Proof.
    induction choose as [| i r IH]; intros ids root f H; [exact H|].
    cbn [feed]. apply IH. apply feed_one_inv. exact H.
  Qed.

  Lemma submit_inv : forall root s,
      wf s -> all_specs_ok (mem s) -> feed_inv (map fst (mem s)) root (submit root s).
  Proof.
    intros root s Hw Hs. constructor; cbn; try assumption; try reflexivity.
    intros msg mids [].
  Qed.

  Lemma count_rule : forall ids msg mid,
      nodup_keys ids = true ->
      count_occ string_dec (mcrew_rule services ids msg) mid
      = if existsb (String.eqb mid) (mcrew_rule services ids msg) then 1 else 0.
  Proof.
    intros ids msg mid Hnd.
    assert (Hn : NoDup (mcrew_rule services ids msg)).
    { apply nodup_keys_NoDup. unfold mcrew_rule.
      destruct msg as [| b | z | s | l | kvs]; try exact Hnd.
      destruct (assoc "to" kvs) as [[| b | z | s | l | kvs'] |]; try exact Hnd.
      destruct (existsb (String.eqb s) services); [reflexivity|].
      apply nodup_keys_filter. exact Hnd. }
    destruct (existsb (String.eqb mid) (mcrew_rule services ids msg)) eqn:E.
    - apply existsb_eqb_in in E. apply NoDup_count_occ' ; assumption.
    - apply count_occ_not_In. intros Hin. apply existsb_eqb_in in Hin. congruence.
  Qed.

  (** C14 (mcrew): exactly once to each machine the rule selects, to nobody
      else, for every message processed, under every schedule *)
  Theorem mcrew_exactly_once : forall choose root s,
      wf s -> all_specs_ok (mem s) ->
      forall msg mids, In (msg, mids) (fd_log (feedn choose (submit root s))) ->
      forall mid,
        count_occ string_dec mids mid
        = if existsb (String.eqb mid) (mcrew_rule services (map fst (mem s)) msg) then 1 else 0.
  Proof.
    intros choose root s Hw Hs msg mids Hin mid.
    pose proof (feed_inv_all choose _ root _ (submit_inv root s Hw Hs)) as [_ _ _ Hl _].
    rewrite (Hl msg mids Hin). apply count_rule. apply msorted_nodup. exact Hw.
  Qed.

  (** every emitted message is reported once and is processed once or still
      pending; nothing else is processed *)
  Theorem mcrew_feedback : forall choose root s,
      wf s -> all_specs_ok (mem s) ->
      let f := feedn choose (submit root s) in
      Permutation (map fst (fd_log f) ++ fd_pending f) (root :: fd_reported f).
  Proof.
    intros choose root s Hw Hs.
    apply (fi_bag _ _ _ (feed_inv_all choose _ root _ (submit_inv root s Hw Hs))).
  Qed.
End Routing.

(** the container's rule is the documented one unless the target is a list or "*" *)
Theorem rule_is_addressed : forall services ids msg,
    d12_target msg = false -> mcrew_rule services ids msg = addressed services ids msg.
Proof.
  intros services ids msg H. unfold mcrew_rule, addressed, d12_target in *.
  destruct msg as [| b | z | s | l | kvs]; try reflexivity.
  destruct (assoc "to" kvs) as [[| b | z | s | l | kvs'] |]; try reflexivity; try discriminate.
  rewrite H. reflexivity.
Qed.

(** D12: a list of ids goes to every machine *)
Definition d12_msg : json := JObj [("fwd", JArr []); ("id", JStr "a"); ("to", JArr [JStr "m0"])].
Definition d12_crew : mmap :=
  [("m0", mk_mrec "rec" "start" []); ("m1", mk_mrec "rec" "start" []); ("m2", mk_mrec "rec" "start" [])].

Lemma list_target_goes_to_all :
  addressed mcrew_services ["m0"; "m1"; "m2"] d12_msg = ["m0"]
  /\ fd_log (feed_m [0] (submit d12_msg (mk_svc d12_crew d12_crew true)))
     = [(d12_msg, ["m0"; "m1"; "m2"])].
Proof. vm_compute. split; reflexivity. Qed.

Lemma star_is_not_a_wildcard :
  addressed mcrew_services ["m0"; "m1"; "m2"] (leaf "a" "*") = ["m0"; "m1"; "m2"]
  /\ fd_log (feed_m [0] (submit (leaf "a" "*") (mk_svc d12_crew d12_crew true)))
     = [(leaf "a" "*", [])].
Proof. vm_compute. split; reflexivity. Qed.

(** the counting statement with the documented rule is false of the model *)
Lemma full_statement_refuted :
  ~ (forall choose root s msg mids,
        msorted (mem s) ->
        In (msg, mids) (fd_log (feed_m choose (submit root s))) ->
        mids = addressed mcrew_services (map fst (mem s)) msg).
Proof.
  intros H.
  specialize (H [0] d12_msg (mk_svc d12_crew d12_crew true) d12_msg ["m0"; "m1"; "m2"]).
  assert (Hs : msorted (mem (mk_svc d12_crew d12_crew true))) by reflexivity.
  assert (Hin : In (d12_msg, ["m0"; "m1"; "m2"])
                   (fd_log (feed_m [0] (submit d12_msg (mk_svc d12_crew d12_crew true)))))
    by (vm_compute; left; reflexivity).
  specialize (H Hs Hin). vm_compute in H. discriminate H.
Qed.

(** ---- the names the model routes by ---------------------------------------------
    [mcrew_services], [mdb_services] and the key [route] looks at are read
    from the source of the tree under test (Gen/Names.v: the case labels of
    the switch in Service.Route / Host.Route and the literal of the one map
    index).  They are the documented ones (Spec/MCrewSpec.v), as sets: the
    order of the case clauses does not matter.  An edit of a label or of the
    key in the source changes Gen/Names.v and this proof (and
    [recipients_rule] above) no longer goes through. *)
Theorem reserved_names_documented :
  (forall s, In s mcrew_services <-> In s documented_services)
  /\ mdb_services = documented_mdb_services
  /\ mcrew_route_key = "to"
  /\ mdb_route_key = mcrew_route_key.
Proof.
  split; [|repeat split; reflexivity].
  intros s. unfold mcrew_services, mcrew_route_services, documented_services. simpl. tauto.
Qed.

Lemma existsb_eqb_set : forall (a b : list string) s,
    (forall x, In x a <-> In x b) ->
    existsb (String.eqb s) a = existsb (String.eqb s) b.
Proof.
  intros a b s H.
  destruct (existsb (String.eqb s) a) eqn:Ea, (existsb (String.eqb s) b) eqn:Eb; try reflexivity.
  - apply existsb_exists in Ea. destruct Ea as [x [Hx Ex]]. apply String.eqb_eq in Ex. subst x.
    apply H in Hx. assert (T : existsb (String.eqb s) b = true)
      by (apply existsb_exists; exists s; split; [exact Hx | apply String.eqb_refl]).
    congruence.
  - apply existsb_exists in Eb. destruct Eb as [x [Hx Ex]]. apply String.eqb_eq in Ex. subst x.
    apply H in Hx. assert (T : existsb (String.eqb s) a = true)
      by (apply existsb_exists; exists s; split; [exact Hx | apply String.eqb_refl]).
    congruence.
Qed.

(** hence the model routes, and the two rules address, exactly as with the documented names *)
Theorem route_by_documented_names : forall ids msg,
    route mcrew_services msg = route documented_services msg
    /\ mcrew_rule mcrew_services ids msg = mcrew_rule documented_services ids msg
    /\ addressed mcrew_services ids msg = addressed documented_services ids msg.
Proof.
  intros ids msg. destruct reserved_names_documented as [H _].
  unfold route, mcrew_rule, addressed.
  (* no conversion of [mcrew_services] with [documented_services]: only the set equality [H] is used *)
  destruct msg as [| b | z | s | l | kvs];
    [repeat split; reflexivity .. | ].
  change mcrew_route_key with "to".
  destruct (assoc "to" kvs) as [[| b | z | s | l | kvs'] |];
    [repeat split; reflexivity | repeat split; reflexivity | repeat split; reflexivity |
     | repeat split; reflexivity | repeat split; reflexivity | repeat split; reflexivity].
  rewrite (existsb_eqb_set mcrew_services documented_services s H).
  repeat split; reflexivity.
Qed.
