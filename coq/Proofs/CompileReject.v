(** Early rejection: unknown interpreters, pattern syntaxes and branching
    types make [compile] fail; and a Spec value that did compile never makes
    [step] report that it is not compiled or that an action is not compiled,
    and only has known branching types. *)
From Sheens Require Import Model.Compile Proofs.CanonFacts Proofs.CompileBase Proofs.CompileIdem.

(** * Unknown pattern syntax *)
Definition known_syntax (s : string) : Prop := s = "none" \/ s = "" \/ s = "json".

Lemma parse_pattern_unknown : forall s p, ~ known_syntax s -> parse_pattern s p = inl CPattern.
Proof.
  intros s p H. unfold parse_pattern, default_pattern_parser.
  destruct (String.eqb_spec s "none") as [E | _]; [exfalso; apply H; left; exact E |].
  destruct (String.eqb_spec s "") as [E | _]; [exfalso; apply H; right; left; exact E |].
  destruct (String.eqb_spec s "json") as [E | _]; [exfalso; apply H; right; right; exact E |].
  reflexivity.
Qed.

Section AlwaysFails.
  Variable f : json -> cres json.
  Variable e : cerr.
  Hypothesis Hf : forall p, f p = inl e.

  Lemma tr_branch_fail_only : forall ob e', tr_branch f ob = inl e' -> e' = e.
  Proof.
    intros [b |] e' H; simpl in H; [| discriminate]. rewrite Hf in H. simpl in H. congruence.
  Qed.

  Lemma tr_node_fail_only : forall kn e', tr_node f kn = inl e' -> e' = e.
  Proof.
    intros [k [n |]] e' H; unfold tr_node in H; simpl in H; [| discriminate].
    destruct (dn_branching n) as [bg |]; [| discriminate].
    destruct (mapM (tr_branch f) (dg_branches bg)) as [e1 | brs] eqn:Em; simpl in H; [| discriminate].
    inversion H; subst e1. clear H.
    revert Em. generalize (dg_branches bg). induction l as [| ob r IH]; intros Em; simpl in Em; [discriminate |].
    destruct (tr_branch f ob) as [e1 | ob1] eqn:Eb.
    - inversion Em; subst. exact (tr_branch_fail_only ob e' Eb).
    - destruct (mapM (tr_branch f) r) as [e2 | r1]; [| discriminate]. inversion Em; subst. apply IH. reflexivity.
  Qed.

  Lemma tr_node_fails : forall kn, node_patterns kn <> [] -> tr_node f kn = inl e.
  Proof.
    intros [k [n |]] H; unfold node_patterns in H; simpl in H; [| congruence].
    unfold tr_node. simpl. destruct (dn_branching n) as [bg |]; [| congruence].
    assert (Hex : exists ob, In ob (dg_branches bg) /\ tr_branch f ob = inl e).
    { destruct (flat_map branch_patterns (dg_branches bg)) as [| p ps] eqn:E; [congruence |].
      assert (Hin : In p (flat_map branch_patterns (dg_branches bg))) by (rewrite E; left; reflexivity).
      apply in_flat_map in Hin. destruct Hin as [ob [Hob Hp]]. exists ob. split; [exact Hob |].
      destruct ob as [b |]; [| contradiction]. simpl. rewrite Hf. reflexivity. }
    rewrite (mapM_all_inl _ _ (tr_branch f) (dg_branches bg) e tr_branch_fail_only Hex). reflexivity.
  Qed.

  Lemma tr_nodes_fails : forall ns, nodes_patterns ns <> [] -> tr_nodes f ns = inl e.
  Proof.
    intros ns H. unfold tr_nodes. apply mapM_all_inl; [exact tr_node_fail_only |].
    unfold nodes_patterns in H.
    destruct (flat_map node_patterns ns) as [| p ps] eqn:E; [congruence |].
    assert (Hin : In p (flat_map node_patterns ns)) by (rewrite E; left; reflexivity).
    apply in_flat_map in Hin. destruct Hin as [kn [Hkn Hp]]. exists kn. split; [exact Hkn |].
    apply tr_node_fails. intros E0. rewrite E0 in Hp. contradiction.
  Qed.
End AlwaysFails.

(** an unknown pattern syntax is rejected as soon as there is a pattern *)
Theorem reject_unknown_syntax : forall I f a,
  ~ known_syntax (ad_syntax a) -> doc_patterns a <> [] -> compile I f a = inl CPattern.
Proof.
  intros I f a Hs Hp. unfold compile, parse_patterns.
  rewrite (tr_nodes_fails (parse_pattern (ad_syntax a)) CPattern
             (fun p => parse_pattern_unknown (ad_syntax a) p Hs) (ad_nodes a) Hp).
  reflexivity.
Qed.

(** * What a successful compilation says about the document *)
Definition needs_compile (force : bool) (cur : option act) : Prop := force = true \/ cur = None.

Lemma compile_opt_needs : forall I f so cur c,
  compile_opt I f (Some so) cur = inr c -> needs_compile f cur ->
  exists x, compile_source I so = inr x.
Proof.
  intros I f so cur c H Hn. simpl in H.
  assert (E : (f || is_none cur)%bool = true).
  { destruct Hn as [E | E]; subst; [reflexivity | apply Bool.orb_true_r]. }
  rewrite E in H. destruct (compile_source I so) as [e | x]; [discriminate |]. exists x. reflexivity.
Qed.

Lemma insert_node_incl : forall k n l x,
  has_node k l = false -> In x l -> In x (insert_node k n l).
Proof.
  intros k n l x. induction l as [| [k0 m] r IH]; intros Hh Hin; [contradiction |].
  simpl in Hh. apply Bool.orb_false_elim in Hh. destruct Hh as [Hk Hr].
  simpl. destruct (String.compare k k0) eqn:E.
  - apply String.compare_eq_iff in E. subst k0. rewrite String.eqb_refl in Hk. discriminate.
  - right. exact Hin.
  - destruct Hin as [Hin | Hin]; [left; exact Hin | right; exact (IH Hr Hin)].
Qed.

(** every node of the document is, after ParsePatterns, a node that
    [compile_node] accepted *)
Lemma compile_node_reached : forall I f a a' kn,
  compile I f a = inr a' -> In kn (ad_nodes a) ->
  exists kn1 kn2,
    tr_node (parse_pattern (ad_syntax a)) kn = inr kn1 /\ compile_node I f kn1 = inr kn2.
Proof.
  intros I f a a' kn H Hin. unfold compile, parse_patterns in H.
  destruct (tr_nodes (parse_pattern (ad_syntax a)) (ad_nodes a)) as [e | ns1] eqn:Etr; simpl in H; [discriminate |].
  unfold tr_nodes in Etr. apply mapM_Forall2 in Etr.
  destruct (Forall2_in_l _ _ _ _ _ kn Etr Hin) as [kn1 [Hin1 Hk1]].
  destruct a as [nodes syn en na eb aen boot boots toob toobs c]. simpl in *.
  destruct (compile_opt I f boots boot) as [e | boot']; simpl in H; [discriminate |].
  destruct (compile_opt I f toobs toob) as [e | toob']; simpl in H; [discriminate |].
  set (en' := if String.eqb en "" then default_error_node else en) in *.
  destruct (mapM (compile_node I f) _) as [e | ns'] eqn:Em; simpl in H; [discriminate |].
  apply mapM_Forall2 in Em.
  assert (Hin2 : In kn1 (if (has_node en' ns1 || na)%bool then ns1
                         else insert_node en' (Some empty_node) ns1)).
  { destruct (has_node en' ns1 || na)%bool eqn:E; [exact Hin1 |].
    apply Bool.orb_false_elim in E. destruct E as [E _]. exact (insert_node_incl _ _ _ _ E Hin1). }
  destruct (Forall2_in_l _ _ _ _ _ kn1 Em Hin2) as [kn2 [_ Hk2]].
  exists kn1, kn2. split; [exact Hk1 | exact Hk2].
Qed.

Theorem compiled_action_sources : forall I f a a' k n so,
  compile I f a = inr a' ->
  In (k, Some n) (ad_nodes a) -> dn_source n = Some so -> needs_compile f (dn_action n) ->
  exists x, compile_source I so = inr x.
Proof.
  intros I f a a' k n so H Hin Hs Hn.
  destruct (compile_node_reached I f a a' _ H Hin) as [kn1 [kn2 [Ht Hc]]].
  apply tr_node_inv in Ht. destruct Ht as [_ Ht]. simpl in Ht.
  destruct kn1 as [k1 [n1 |]]; simpl in Ht; [| contradiction].
  destruct Ht as [Ha [Hsrc _]].
  unfold compile_node in Hc. simpl in Hc. rewrite Ha, Hsrc, Hs in Hc.
  destruct (compile_opt I f (Some so) (dn_action n)) as [e | c] eqn:E; simpl in Hc; [discriminate |].
  exact (compile_opt_needs I f so _ c E Hn).
Qed.

Theorem compiled_guard_sources : forall I f a a' k n bg b so,
  compile I f a = inr a' ->
  In (k, Some n) (ad_nodes a) -> dn_branching n = Some bg -> In (Some b) (dg_branches bg) ->
  db_guard_src b = Some so -> needs_compile f (db_guard b) ->
  exists x, compile_source I so = inr x.
Proof.
  intros I f a a' k n bg b so H Hin Hbg Hb Hs Hn.
  destruct (compile_node_reached I f a a' _ H Hin) as [kn1 [kn2 [Ht Hc]]].
  apply tr_node_inv in Ht. destruct Ht as [_ Ht]. simpl in Ht.
  destruct kn1 as [k1 [n1 |]]; simpl in Ht; [| contradiction].
  destruct Ht as [_ [_ Hbr]]. rewrite Hbg in Hbr.
  destruct (dn_branching n1) as [bg1 |] eqn:Ebg1; [| contradiction].
  destruct Hbr as [_ Hbr].
  destruct (Forall2_in_l _ _ _ _ _ (Some b) Hbr Hb) as [ob1 [Hin1 Hob1]].
  apply tr_branch_inv in Hob1. destruct ob1 as [b1 |]; [| contradiction].
  destruct Hob1 as [_ [Hg [Hgs _]]].
  unfold compile_node in Hc. simpl in Hc.
  destruct (compile_opt I f (dn_source n1) (dn_action n1)) as [e | c]; simpl in Hc; [discriminate |].
  rewrite Ebg1 in Hc.
  destruct (known_branch_type (dg_type bg1)) as [e | typ]; simpl in Hc; [discriminate |].
  destruct (mapM (compile_branch I f) (dg_branches bg1)) as [e | brs] eqn:Em; simpl in Hc; [discriminate |].
  apply mapM_Forall2 in Em.
  destruct (Forall2_in_l _ _ _ _ _ (Some b1) Em Hin1) as [ob2 [_ Hob2]].
  simpl in Hob2. rewrite Hg, Hgs, Hs in Hob2.
  destruct (compile_opt I f (Some so) (db_guard b)) as [e | g] eqn:E; simpl in Hob2; [discriminate |].
  exact (compile_opt_needs I f so _ g E Hn).
Qed.

Theorem compiled_branch_types : forall I f a a' k n bg,
  compile I f a = inr a' ->
  In (k, Some n) (ad_nodes a) -> dn_branching n = Some bg ->
  dg_type bg = "" \/ dg_type bg = "message" \/ dg_type bg = "bindings".
Proof.
  intros I f a a' k n bg H Hin Hbg.
  destruct (compile_node_reached I f a a' _ H Hin) as [kn1 [kn2 [Ht Hc]]].
  apply tr_node_inv in Ht. destruct Ht as [_ Ht]. simpl in Ht.
  destruct kn1 as [k1 [n1 |]]; simpl in Ht; [| contradiction].
  destruct Ht as [_ [_ Hbr]]. rewrite Hbg in Hbr.
  destruct (dn_branching n1) as [bg1 |] eqn:Ebg1; [| contradiction].
  destruct Hbr as [Hty _].
  unfold compile_node in Hc. simpl in Hc.
  destruct (compile_opt I f (dn_source n1) (dn_action n1)) as [e | c]; simpl in Hc; [discriminate |].
  rewrite Ebg1 in Hc. rewrite Hty in Hc.
  unfold known_branch_type in Hc.
  destruct (String.eqb_spec (dg_type bg) "") as [E | _]; [left; exact E |].
  destruct (String.eqb_spec (dg_type bg) "message") as [E | _]; [right; left; exact E |].
  destruct (String.eqb_spec (dg_type bg) "bindings") as [E | _]; [right; right; exact E |].
  simpl in Hc. discriminate.
Qed.

Theorem compiled_boot_toob_sources : forall I f a a',
  compile I f a = inr a' ->
  (forall so, ad_boot_src a = Some so -> needs_compile f (ad_boot a) -> exists x, compile_source I so = inr x)
  /\ (forall so, ad_toob_src a = Some so -> needs_compile f (ad_toob a) -> exists x, compile_source I so = inr x).
Proof.
  intros I f a a' H. unfold compile, parse_patterns in H.
  destruct (tr_nodes (parse_pattern (ad_syntax a)) (ad_nodes a)) as [e | ns1]; simpl in H; [discriminate |].
  destruct a as [nodes syn en na eb aen boot boots toob toobs c]. simpl in *.
  destruct (compile_opt I f boots boot) as [e | boot'] eqn:Eb; simpl in H; [discriminate |].
  destruct (compile_opt I f toobs toob) as [e | toob'] eqn:Et; simpl in H; [discriminate |].
  split; intros so Hs Hn; subst.
  - exact (compile_opt_needs I f so _ _ Eb Hn).
  - exact (compile_opt_needs I f so _ _ Et Hn).
Qed.

(** the three rejections as the property states them *)
Lemma unknown_interpreter_fails : forall I so,
  I (as_interp so) = None -> forall x, compile_source I so <> inr x.
Proof. intros I so H x E. unfold compile_source in E. rewrite H in E. discriminate. Qed.

Theorem reject_unknown_interpreter_action : forall I f a k n so,
  In (k, Some n) (ad_nodes a) -> dn_source n = Some so -> needs_compile f (dn_action n) ->
  I (as_interp so) = None -> exists e, compile I f a = inl e.
Proof.
  intros I f a k n so Hin Hs Hn Hi. destruct (compile I f a) as [e | a'] eqn:E; [exists e; reflexivity |].
  destruct (compiled_action_sources I f a a' k n so E Hin Hs Hn) as [x Hx].
  exfalso. exact (unknown_interpreter_fails I so Hi x Hx).
Qed.

Theorem reject_unknown_interpreter_guard : forall I f a k n bg b so,
  In (k, Some n) (ad_nodes a) -> dn_branching n = Some bg -> In (Some b) (dg_branches bg) ->
  db_guard_src b = Some so -> needs_compile f (db_guard b) ->
  I (as_interp so) = None -> exists e, compile I f a = inl e.
Proof.
  intros I f a k n bg b so Hin Hbg Hb Hs Hn Hi.
  destruct (compile I f a) as [e | a'] eqn:E; [exists e; reflexivity |].
  destruct (compiled_guard_sources I f a a' k n bg b so E Hin Hbg Hb Hs Hn) as [x Hx].
  exfalso. exact (unknown_interpreter_fails I so Hi x Hx).
Qed.

Theorem reject_unknown_branch_type : forall I f a k n bg,
  In (k, Some n) (ad_nodes a) -> dn_branching n = Some bg ->
  dg_type bg <> "" -> dg_type bg <> "message" -> dg_type bg <> "bindings" ->
  exists e, compile I f a = inl e.
Proof.
  intros I f a k n bg Hin Hbg H0 H1 H2.
  destruct (compile I f a) as [e | a'] eqn:E; [exists e; reflexivity |].
  destruct (compiled_branch_types I f a a' k n bg E Hin Hbg) as [H | [H | H]]; contradiction.
Qed.

(** * Nothing is left for run time *)
Definition late_ok (e : step_err) : Prop := e <> ENotCompiled /\ e <> EUncompiledAction.

Lemma try_branch_err : forall b bs against e amb,
  try_branch act run_act b bs against = (TErr e, amb) -> late_ok e.
Proof.
  intros b bs against e amb H. unfold try_branch in H.
  repeat match type of H with
         | context [match ?x with _ => _ end] => destruct x
         end; inversion H; subst; split; discriminate.
Qed.

Lemma first_branch_err : forall brs bs against e amb,
  first_branch act run_act brs bs against = (TErr e, amb) -> late_ok e.
Proof.
  induction brs as [| b r IH]; intros bs against e amb H; simpl in H; [discriminate |].
  destruct (try_branch act run_act b bs against) as [t a0] eqn:Et.
  destruct t as [| s | e0].
  - destruct (first_branch act run_act r bs against) as [t' a'] eqn:Ef.
    inversion H; subst. exact (IH bs against e a' Ef).
  - discriminate.
  - inversion H; subst. exact (try_branch_err b bs against e amb Et).
Qed.

Lemma consider_err : forall bg bs pending e c amb,
  consider act run_act bg bs pending = (TErr e, c, amb) -> late_ok e.
Proof.
  intros bg bs pending e c amb H. unfold consider in H.
  destruct bg as [b |]; [| discriminate].
  destruct (String.eqb (bg_type b) "message").
  - destruct pending as [m |]; [| discriminate].
    destruct (first_branch act run_act (bg_branches b) bs m) as [t a0] eqn:Ef.
    inversion H; subst. exact (first_branch_err _ _ _ _ _ Ef).
  - destruct (first_branch act run_act (bg_branches b) bs (JObj (copy_bs bs))) as [t a0] eqn:Ef.
    inversion H; subst. exact (first_branch_err _ _ _ _ _ Ef).
Qed.

Definition Qdone (s : option asource) (c : option act) : Prop := s <> None -> c <> None.

Lemma compile_opt_done : forall I f s c0 c, compile_opt I f s c0 = inr c -> Qdone s c.
Proof.
  intros I f [so |] c0 c H Hs; [| exfalso; apply Hs; reflexivity]. simpl in H.
  destruct (f || is_none c0)%bool eqn:E.
  - destruct (compile_source I so) as [e | x]; simpl in H; [discriminate |]. inversion H. discriminate.
  - inversion H; subst. apply Bool.orb_false_elim in E. destruct E as [_ E].
    destruct c; [discriminate | discriminate E].
Qed.

Lemma compiled_fixform_done : forall I f a a', compile I f a = inr a' -> fixform Qdone a'.
Proof.
  intros I f a a' H.
  exact (compile_establishes I f (fun _ => True) Qdone
           (fun s c0 c _ Hc => compile_opt_done I f s c0 c Hc) Logic.I a a' (doc_pos_true a) H).
Qed.

Lemma find_node_of : forall name ns nd,
  find_node name (map node_of ns) = Some nd -> exists kn, In kn ns /\ nd = snd (node_of kn).
Proof.
  intros name ns nd. induction ns as [| kn r IH]; intros H; simpl in H; [discriminate |].
  destruct (String.eqb name (fst kn)).
  - inversion H; subst. exists kn. split; [left; reflexivity | reflexivity].
  - destruct (IH H) as [kn' [Hin E]]. exists kn'. split; [right; exact Hin | exact E].
Qed.

(** a compiled Spec value never makes a step report that the specification
    or an action is not compiled *)
Theorem compiled_no_late_errors : forall I f a a',
  compile I f a = inr a' ->
  forall st pending e, so_err (doc_step a' st pending) = Some e -> late_ok e.
Proof.
  intros I f a a' H st pending e He.
  destruct (compiled_fixform_done I f a a' H) as [_ [_ [_ [Hns [_ [_ Hc]]]]]].
  unfold doc_step, astep, step, spec_of in He. simpl in He. rewrite Hc in He. simpl in He.
  destruct (find_node (st_node st) (map node_of (ad_nodes a'))) as [nd |] eqn:Ef.
  2:{ simpl in He. inversion He. split; discriminate. }
  destruct (find_node_of _ _ _ Ef) as [kn [Hin End]].
  rewrite Forall_forall in Hns. pose proof (Hns kn Hin) as Hff.
  unfold node_ff in Hff. destruct kn as [k [n |]]; simpl in Hff; [| contradiction].
  destruct Hff as [HQ _]. unfold node_of in End. simpl in End. subst nd. simpl in He.
  assert (Hun : (negb (match dn_action n with Some _ => true | None => false end)
                 && (is_some (dn_source n) && is_none (dn_action n)))%bool = false).
  { destruct (dn_action n) as [x |]; [reflexivity |].
    destruct (dn_source n) as [so |]; [| reflexivity].
    exfalso. apply HQ; [discriminate | reflexivity]. }
  rewrite Hun in He.
  match type of He with
  | context [if ?c then _ else _] => destruct c
  end; [simpl in He; inversion He; split; discriminate |].
  destruct (dn_action n) as [x |].
  - destruct (func_exec act run_act x (st_bs st)) as [[ob emitted] err].
    destruct (negb err).
    + destruct (consider act run_act (option_map branching_of (dn_branching n)) (Some (copy_bs ob)) pending)
        as [[tr consumer] amb] eqn:Ec.
      destruct tr as [| s' | e']; simpl in He; try discriminate.
      inversion He; subst. exact (consider_err _ _ _ _ _ _ Ec).
    + destruct (negb (ad_err_branches a')).
      * destruct (String.eqb (ad_action_err_node a') ""); simpl in He; [| discriminate].
        inversion He. split; discriminate.
      * match type of He with
        | context [consider act run_act ?bg ?bs ?p] =>
            destruct (consider act run_act bg bs p) as [[tr consumer] amb] eqn:Ec
        end.
        destruct tr as [| s' | e']; simpl in He; try discriminate.
        inversion He; subst. exact (consider_err _ _ _ _ _ _ Ec).
  - destruct (consider act run_act (option_map branching_of (dn_branching n)) (st_bs st) pending)
      as [[tr consumer] amb] eqn:Ec.
    destruct tr as [| s' | e']; simpl in He; try discriminate.
    inversion He; subst. exact (consider_err _ _ _ _ _ _ Ec).
Qed.

(** ... and every branching type it carries is one that Step knows *)
Theorem compiled_types_known : forall I f a a' name nd bg,
  compile I f a = inr a' ->
  find_node name (sp_nodes (spec_of a')) = Some nd -> nd_branching nd = Some bg ->
  known_type (bg_type bg).
Proof.
  intros I f a a' name nd bg H Hf Hb.
  destruct (compiled_fixform_done I f a a' H) as [_ [_ [_ [Hns _]]]].
  unfold spec_of in Hf. simpl in Hf. destruct (find_node_of _ _ _ Hf) as [kn [Hin End]].
  rewrite Forall_forall in Hns. pose proof (Hns kn Hin) as Hff.
  unfold node_ff in Hff. destruct kn as [k [n |]]; simpl in Hff; [| contradiction].
  destruct Hff as [_ Hbg]. unfold node_of in End. simpl in End. subst nd. simpl in Hb.
  destruct (dn_branching n) as [bg0 |]; simpl in Hb; [| discriminate].
  inversion Hb; subst bg. simpl. exact (proj1 Hbg).
Qed.

(** and it is marked compiled *)
Theorem compiled_flag : forall I f a a', compile I f a = inr a' -> sp_compiled (spec_of a') = true.
Proof.
  intros I f a a' H. destruct (compiled_fixform_done I f a a' H) as [_ [_ [_ [_ [_ [_ Hc]]]]]]. exact Hc.
Qed.
