(** What the oracle of the C17 correspondence run means.

    [Corr.TimersCorr.run] is a subset construction; it is sound: every state
    it returns is reached by a run whose visible labels are exactly the given
    log (whatever the state comparison used for de-duplication does).  Hence
    a log accepted by [spec_accepts] is a weak trace of the abstract timer
    service, and the statements of C17 hold of the log itself: no timer's
    message is handed over twice, only accepted timers fire and not before
    [request clock + delay], a timer whose cancel request succeeded is not
    handed over afterwards.  Likewise a log accepted by [model_accepts] is a
    weak trace of the model of the implementation. *)
From Coq Require Import ZArith List Bool Arith Lia.
From Sheens Require Import Corr.TimersCorr Proofs.TimersBase Proofs.TimersSpec.
Import ListNotations.
Local Open Scope Z_scope.

Section AcceptSound.
  Variables (St Lab : Type).
  Variable step : St -> Lab -> option St.
  Variable tau : St -> list Lab.
  Variable eqb : St -> St -> bool.

  (** weak runs: internal labels (offered by [tau]) are not recorded *)
  Inductive wexec : St -> list Lab -> St -> Prop :=
  | w_nil : forall s, wexec s [] s
  | w_tau : forall s l s1 tr s', In l (tau s) -> step s l = Some s1 -> wexec s1 tr s' -> wexec s tr s'
  | w_vis : forall s l s1 tr s', step s l = Some s1 -> wexec s1 tr s' -> wexec s (l :: tr) s'.

  Lemma wexec_trans : forall a t1 b, wexec a t1 b -> forall t2 c, wexec b t2 c -> wexec a (t1 ++ t2) c.
  Proof.
    intros a t1 b H. induction H as [s | s l s1 tr s' Hin Hs _ IH | s l s1 tr s' Hs _ IH]; intros t2 c H2.
    - exact H2.
    - apply (w_tau s l s1 (tr ++ t2) c Hin Hs). apply IH. exact H2.
    - simpl. apply (w_vis s l s1 (tr ++ t2) c Hs). apply IH. exact H2.
  Qed.

  Lemma in_dedupe : forall l x, In x (dedupe St eqb l) -> In x l.
  Proof.
    intros l. induction l as [|y r IH]; simpl; intros x H.
    - exact H.
    - destruct (mem_st St eqb y (dedupe St eqb r)).
      + right. apply IH. exact H.
      + destruct H as [H|H]; [left; exact H | right; apply IH; exact H].
  Qed.

  Lemma in_succs : forall s s', In s' (succs St Lab step tau s) ->
    exists l, In l (tau s) /\ step s l = Some s'.
  Proof.
    intros s s' H. unfold succs in H. apply in_flat_map in H. destruct H as [l [H1 H2]].
    exists l. split; [exact H1|]. destruct (step s l) as [s1|]; [|contradiction].
    destruct H2 as [H2|[]]. subst. reflexivity.
  Qed.

  Section From.
    Variable init : list St.
    Definition treach (s : St) : Prop := exists s0, In s0 init /\ wexec s0 [] s.

    Lemma closure_sound : forall fuel seen frontier,
      (forall s, In s seen -> treach s) -> (forall s, In s frontier -> treach s) ->
      forall s, In s (closure St Lab step tau eqb fuel seen frontier) -> treach s.
    Proof.
      intros fuel. induction fuel as [|f IH]; simpl; intros seen frontier Hs Hf s H.
      - apply in_app_or in H. destruct H; auto.
      - set (new := dedupe St eqb
                      (filter (fun s0 => negb (mem_st St eqb s0 (seen ++ frontier)))
                              (flat_map (succs St Lab step tau) frontier))) in *.
        assert (Hall : forall x, In x (seen ++ frontier) -> treach x).
        { intros x Hx. apply in_app_or in Hx. destruct Hx; auto. }
        assert (Hnew : forall x, In x new -> treach x).
        { intros x Hx. unfold new in Hx. apply in_dedupe in Hx. apply filter_In in Hx.
          destruct Hx as [Hx _]. apply in_flat_map in Hx. destruct Hx as [y [Hy Hx]].
          apply in_succs in Hx. destruct Hx as [l [Hl Hst]].
          destruct (Hf y Hy) as [s0 [H0 Hw]]. exists s0. split; [exact H0|].
          replace (@nil Lab) with (@nil Lab ++ @nil Lab) by reflexivity.
          apply (wexec_trans s0 [] y Hw). apply (w_tau y l x [] x Hl Hst). apply w_nil. }
        destruct new as [|n0 nr] eqn:En.
        + apply Hall. exact H.
        + apply (IH (seen ++ frontier) (n0 :: nr) Hall Hnew s H).
    Qed.
  End From.

  Lemma after_sound : forall fuel states l s',
    In s' (after St Lab step tau eqb fuel states l) ->
    exists s0, In s0 states /\ wexec s0 [l] s'.
  Proof.
    intros fuel states l s' H. unfold after in H. apply in_dedupe in H.
    apply in_flat_map in H. destruct H as [y [Hy H]].
    destruct (step y l) as [y'|] eqn:Hst; [|contradiction]. destruct H as [H|[]]. subst y'.
    assert (Ht : treach states y).
    { apply (closure_sound states fuel [] states); auto.
      - intros s [].
      - intros s Hs. exists s. split; [exact Hs | apply w_nil]. }
    destruct Ht as [s0 [H0 Hw]]. exists s0. split; [exact H0|].
    replace [l] with ([] ++ [l]) by reflexivity.
    apply (wexec_trans s0 [] y Hw). apply (w_vis y l s' [] s' Hst). apply w_nil.
  Qed.

  Theorem run_sound : forall fuel tr states s',
    In s' (run St Lab step tau eqb fuel states tr) ->
    exists s0, In s0 states /\ wexec s0 tr s'.
  Proof.
    intros fuel tr. induction tr as [|l r IH]; simpl; intros states s' H.
    - destruct (closure_sound states fuel [] states) with (s := s') as [s0 [H0 Hw]]; auto.
      + intros s [].
      + intros s Hs. exists s. split; [exact Hs | apply w_nil].
      + exists s0. auto.
    - destruct (after St Lab step tau eqb fuel states l) as [|x xs] eqn:Ea; [contradiction|].
      destruct (IH (x :: xs) s' H) as [s1 [H1 Hw]].
      rewrite <- Ea in H1. destruct (after_sound fuel states l s1 H1) as [s0 [H0 Hw0]].
      exists s0. split; [exact H0|].
      replace (l :: r) with ([l] ++ r) by reflexivity. apply (wexec_trans s0 [l] s1 Hw0 r s' Hw).
  Qed.
End AcceptSound.

(** * Weak runs of the abstract service are runs *)
Definition is_vis (l : alabel) : bool := match l with AVis _ => true | AFire _ => false end.

Definition vis_of (tr : list alabel) : list alabel := filter is_vis tr.

Lemma ataus_internal : forall a l, In l (ataus a) -> is_vis l = false.
Proof.
  intros a l H. unfold ataus in H. apply in_map_iff in H. destruct H as [e [H _]]. subst l. reflexivity.
Qed.

Lemma wexec_aexec : forall p a vs a',
  wexec astate alabel (astep p) ataus a (map AVis vs) a' ->
  exists tr, aexec p a tr = Some a' /\ vis_of tr = map AVis vs.
Proof.
  intros p a vs a' H. remember (map AVis vs) as tr0 eqn:E. revert vs E.
  induction H as [s | s l s1 tr s' Hin Hs _ IH | s l s1 tr s' Hs _ IH]; intros vs E.
  - exists []. split; reflexivity.
  - destruct (IH vs E) as [tr' [E1 E2]]. exists (l :: tr'). split.
    + simpl. rewrite Hs. exact E1.
    + unfold vis_of. simpl. rewrite (ataus_internal s l Hin). exact E2.
  - destruct vs as [|v vr]; [discriminate|]. simpl in E. inversion E; subst.
    destruct (IH vr eq_refl) as [tr' [E1 E2]]. exists (AVis v :: tr'). split.
    + cbn [aexec]. rewrite Hs. exact E1.
    + unfold vis_of. simpl. f_equal. exact E2.
Qed.

(** * The history recorded in the state is the history in the trace *)
Fixpoint reports (tr : list alabel) : list nat :=
  match tr with
  | [] => []
  | AVis (VReport g) :: r => g :: reports r
  | _ :: r => reports r
  end.

(** successful cancel requests, with the timer they cancelled, are in
    [acancelled]; enough here: the generations reported *)
Lemma astep_reported : forall p a l a', astep p a l = Some a' ->
  map fst (areported a') = rev (reports [l]) ++ map fst (areported a).
Proof.
  intros p a l a' H. destruct l as [v|g]; [destruct v as [t|g i d ok|i ok|g|ids|]|]; simpl in H.
  - inversion H; subst. reflexivity.
  - destruct (memn g (map tg (aknown a))); [discriminate|].
    destruct (find_id i (apending a)).
    + destruct (replaces p); destruct ok; try discriminate; inversion H; subst; reflexivity.
    + destruct ok; [|discriminate]. inversion H; subst. reflexivity.
  - destruct (find_id i (apending a)); destruct ok; try discriminate; inversion H; subst; reflexivity.
  - destruct (memn g (afiring a)); [|discriminate]. inversion H; subst. reflexivity.
  - destruct (ids_eqb ids (map tid (apending a))); [|discriminate]. inversion H; subst. reflexivity.
  - destruct (replaces p); [|discriminate]. destruct (afiring a); [|discriminate]. inversion H; subst. reflexivity.
  - destruct (find_gen g (apending a)) as [e|]; [|discriminate].
    destruct (tdue e <=? aclock a); [|discriminate]. inversion H; subst. reflexivity.
Qed.

Lemma reports_cons : forall l r, reports (l :: r) = reports [l] ++ reports r.
Proof.
  intros l r. destruct l as [v|g]; [destruct v|]; reflexivity.
Qed.

Lemma aexec_reported : forall p tr a a', aexec p a tr = Some a' ->
  map fst (areported a') = rev (reports tr) ++ map fst (areported a).
Proof.
  intros p tr. induction tr as [|l r IH]; intros a a' H; simpl in H.
  - inversion H; subst. reflexivity.
  - destruct (astep p a l) as [a1|] eqn:Hs; [|discriminate].
    rewrite (IH a1 a' H). rewrite (astep_reported p a l a1 Hs).
    rewrite (reports_cons l r). rewrite rev_app_distr. rewrite app_assoc. reflexivity.
Qed.

Lemma reports_vis_of : forall tr, reports (vis_of tr) = reports tr.
Proof.
  intros tr. induction tr as [|l r IH]; [reflexivity|].
  destruct l as [v|g]; simpl.
  - destruct v; simpl; rewrite IH; reflexivity.
  - exact IH.
Qed.

Fixpoint vreports (tr : list vis) : list nat :=
  match tr with
  | [] => []
  | VReport g :: r => g :: vreports r
  | _ :: r => vreports r
  end.

Lemma reports_map_avis : forall vs, reports (map AVis vs) = vreports vs.
Proof.
  intros vs. induction vs as [|v r IH]; [reflexivity|]. destruct v; simpl; rewrite IH; reflexivity.
Qed.

(** * The oracle's verdict, stated on the log *)
Theorem spec_accepts_is_trace : forall c,
  spec_accepts c = true ->
  exists tr a, aexec (tc_impl c) ainit tr = Some a /\ vis_of tr = map AVis (tc_trace c) /\ AInv a /\
               a_quiet c a = true.
Proof.
  intros c H. unfold spec_accepts in H. apply existsb_exists in H. destruct H as [a [Hin Hq]].
  apply run_sound in Hin. destruct Hin as [s0 [[H0|[]] Hw]]. subst s0.
  destruct (wexec_aexec (tc_impl c) ainit (tc_trace c) a Hw) as [tr [E1 E2]].
  exists tr, a. split; [exact E1|]. split; [exact E2|]. split; [|exact Hq].
  apply (ainv_exec (tc_impl c) tr ainit a ainv_init E1).
Qed.

(** an accepted log hands over no timer's message twice *)
Theorem spec_accepts_at_most_once : forall c,
  spec_accepts c = true -> NoDup (vreports (tc_trace c)).
Proof.
  intros c H. destruct (spec_accepts_is_trace c H) as [tr [a [E1 [E2 [Ia _]]]]].
  pose proof (aexec_reported (tc_impl c) tr ainit a E1) as Hr. simpl in Hr. rewrite app_nil_r in Hr.
  rewrite <- reports_map_avis, <- E2, reports_vis_of.
  pose proof (NoDup_rev (ai_rnd a Ia)) as Hnd. rewrite Hr, rev_involutive in Hnd. exact Hnd.
Qed.

(** in an accepted log only accepted timers are handed over *)
Fixpoint vaccepted (tr : list vis) : list nat :=
  match tr with
  | [] => []
  | VAdd g _ _ true :: r => g :: vaccepted r
  | _ :: r => vaccepted r
  end.

Fixpoint accepted (tr : list alabel) : list nat :=
  match tr with
  | [] => []
  | AVis (VAdd g _ _ true) :: r => g :: accepted r
  | _ :: r => accepted r
  end.

Lemma astep_known : forall p a l a', astep p a l = Some a' ->
  map tg (aknown a') = map tg (aknown a) ++ accepted [l].
Proof.
  intros p a l a' H. destruct l as [v|g]; [destruct v as [t|g i d ok|i ok|g|ids|]|]; simpl in H.
  - inversion H; subst. simpl. rewrite app_nil_r. reflexivity.
  - destruct (memn g (map tg (aknown a))); [discriminate|].
    destruct (find_id i (apending a)).
    + destruct (replaces p); destruct ok; try discriminate; inversion H; subst; simpl.
      * rewrite map_app. reflexivity.
      * rewrite app_nil_r. reflexivity.
    + destruct ok; [|discriminate]. inversion H; subst. simpl. rewrite map_app. reflexivity.
  - destruct (find_id i (apending a)); destruct ok; try discriminate; inversion H; subst; simpl;
      rewrite app_nil_r; reflexivity.
  - destruct (memn g (afiring a)); [|discriminate]. inversion H; subst. simpl. rewrite app_nil_r. reflexivity.
  - destruct (ids_eqb ids (map tid (apending a))); [|discriminate]. inversion H; subst. simpl.
    rewrite app_nil_r. reflexivity.
  - destruct (replaces p); [|discriminate]. destruct (afiring a); [|discriminate]. inversion H; subst.
    simpl. rewrite app_nil_r. reflexivity.
  - destruct (find_gen g (apending a)) as [e|]; [|discriminate].
    destruct (tdue e <=? aclock a); [|discriminate]. inversion H; subst. simpl. rewrite app_nil_r. reflexivity.
Qed.

Lemma accepted_cons : forall l r, accepted (l :: r) = accepted [l] ++ accepted r.
Proof.
  intros l r. destruct l as [v|g]; [destruct v as [| ? ? ? ok | | | |]; try reflexivity; destruct ok; reflexivity | reflexivity].
Qed.

Lemma aexec_known : forall p tr a a', aexec p a tr = Some a' ->
  map tg (aknown a') = map tg (aknown a) ++ accepted tr.
Proof.
  intros p tr. induction tr as [|l r IH]; intros a a' H; simpl in H.
  - inversion H; subst. simpl. rewrite app_nil_r. reflexivity.
  - destruct (astep p a l) as [a1|] eqn:Hs; [|discriminate].
    rewrite (IH a1 a' H). rewrite (astep_known p a l a1 Hs).
    rewrite (accepted_cons l r). rewrite app_assoc. reflexivity.
Qed.

Lemma accepted_vis_of : forall tr, accepted (vis_of tr) = accepted tr.
Proof.
  intros tr. induction tr as [|l r IH]; [reflexivity|].
  destruct l as [v|g]; simpl; [|exact IH].
  destruct v as [| ? ? ? ok | | | |]; simpl; rewrite IH; reflexivity.
Qed.

Lemma accepted_map_avis : forall vs, accepted (map AVis vs) = vaccepted vs.
Proof.
  intros vs. induction vs as [|v r IH]; [reflexivity|].
  destruct v as [| ? ? ? ok | | | |]; simpl; rewrite IH; reflexivity.
Qed.

Theorem spec_accepts_only_accepted_fire : forall c g,
  spec_accepts c = true -> In g (vreports (tc_trace c)) -> In g (vaccepted (tc_trace c)).
Proof.
  intros c g H Hg. destruct (spec_accepts_is_trace c H) as [tr [a [E1 [E2 [Ia _]]]]].
  pose proof (aexec_reported (tc_impl c) tr ainit a E1) as Hr. simpl in Hr. rewrite app_nil_r in Hr.
  pose proof (aexec_known (tc_impl c) tr ainit a E1) as Hk. simpl in Hk.
  rewrite <- accepted_map_avis, <- E2, accepted_vis_of, <- Hk.
  rewrite <- reports_map_avis, <- E2, reports_vis_of in Hg.
  apply (reported_known a g Ia). rewrite Hr. apply in_rev in Hg. exact Hg.
Qed.

(** a log accepted by the model of the implementation is a weak trace of that
    model *)
Theorem model_accepts_is_trace : forall c,
  model_accepts c = true ->
  exists s, wexec cstate clabel (cstep (tc_impl c)) taus cinit (map CVis (tc_trace c)) s /\
            c_quiet c s = true.
Proof.
  intros c H. unfold model_accepts in H. apply existsb_exists in H. destruct H as [s [Hin Hq]].
  apply run_sound in Hin. destruct Hin as [s0 [[H0|[]] Hw]]. subst s0. exists s. auto.
Qed.
