(** Go ranges over the map Spec.Nodes in an unspecified order.  The model
    takes the nodes as a list; every list with the same entries is a possible
    order.  The analysis report does not depend on it (but for the order of
    the terminal nodes, which is the iteration order itself). *)
From Sheens Require Import Spec.Graph Proofs.ToolsSets Proofs.ToolsSpec Proofs.ToolsAnalysis
  Proofs.ToolsRender.
From Coq Require Import Permutation Sorted.

Lemma filter_perm : forall (A : Type) (f : A -> bool) (l l' : list A),
  Permutation l l' -> Permutation (filter f l) (filter f l').
Proof.
  intros A f l l' H. induction H as [| x l l' H IH | x y l | l l' l'' H1 IH1 H2 IH2]; cbn.
  - constructor.
  - destruct (f x); [apply perm_skip |]; exact IH.
  - destruct (f x), (f y); try apply Permutation_refl. apply perm_swap.
  - eapply perm_trans; eassumption.
Qed.

Section Perm.
  Variables g g' : gspec.
  Hypothesis Hp : Permutation g g'.

  Lemma perm_in_nodes : forall p, In p g <-> In p g'.
  Proof.
    intros p. split; apply Permutation_in; [exact Hp | apply Permutation_sym, Hp].
  Qed.
  Lemma perm_is_node : forall x, is_node g x <-> is_node g' x.
  Proof.
    intros x. unfold is_node. split; apply Permutation_in;
      [apply names_perm, Hp | apply Permutation_sym, names_perm, Hp].
  Qed.
  Lemma perm_has_branch : forall x b, has_branch g x b <-> has_branch g' x b.
  Proof.
    intros x b. unfold has_branch. split; apply Permutation_in;
      [apply all_branches_perm, Hp | apply Permutation_sym, all_branches_perm, Hp].
  Qed.
  Lemma perm_is_target : forall t, is_target g t <-> is_target g' t.
  Proof.
    intros t. unfold is_target. split; intros (x & b & H & E); exists x, b;
      (split; [apply perm_has_branch, H | exact E]).
  Qed.

  Lemma perm_g_missing : same_set (g_missing g) (g_missing g').
  Proof.
    intros t. rewrite !g_missing_spec. unfold missing_target.
    rewrite perm_is_target, perm_is_node. tauto.
  Qed.
  Lemma perm_g_tvars : same_set (g_tvars g) (g_tvars g').
  Proof.
    intros t. rewrite !g_tvars_spec. unfold target_variable. rewrite perm_is_target. tauto.
  Qed.
  Lemma perm_g_orphans : same_set (g_orphans g) (g_orphans g').
  Proof.
    intros t. rewrite !g_orphans_spec. unfold orphan_node.
    rewrite perm_is_target, perm_is_node. tauto.
  Qed.
  Lemma perm_g_empty : same_set (g_empty g) (g_empty g').
  Proof.
    intros x. rewrite !g_empty_spec. unfold has_empty_target.
    split; intros (b & H & E); exists b; (split; [apply perm_has_branch, H | exact E]).
  Qed.
  Lemma perm_uses_interpreter : forall i, uses_interpreter g i <-> uses_interpreter g' i.
  Proof.
    intros i. unfold uses_interpreter. split.
    - intros [(x & o & H & E) | (x & b & H & E)];
        [left; exists x, o; split; [apply perm_in_nodes, H | exact E]
        | right; exists x, b; split; [apply perm_has_branch, H | exact E]].
    - intros [(x & o & H & E) | (x & b & H & E)];
        [left; exists x, o; split; [apply perm_in_nodes, H | exact E]
        | right; exists x, b; split; [apply perm_has_branch, H | exact E]].
  Qed.
  Lemma perm_g_interpreters : same_set (g_interpreters g) (g_interpreters g').
  Proof.
    intros i.
    destruct (g_interpreters_spec g) as [(Hno & E) | (Hex & Hall)];
    destruct (g_interpreters_spec g') as [(Hno' & E') | (Hex' & Hall')].
    - rewrite E, E'. tauto.
    - destruct Hex' as (j & Hj). exfalso. apply (Hno j), perm_uses_interpreter, Hj.
    - destruct Hex as (j & Hj). exfalso. apply (Hno' j), perm_uses_interpreter, Hj.
    - rewrite Hall, Hall'. apply perm_uses_interpreter.
  Qed.
  Lemma perm_g_terminal : Permutation (g_terminal g) (g_terminal g').
  Proof. unfold g_terminal. apply Permutation_map, filter_perm, Hp. Qed.
  Lemma perm_counts :
    g_nodecount g = g_nodecount g' /\ g_branches g = g_branches g' /\
    g_actions g = g_actions g' /\ g_guards g = g_guards g'.
  Proof.
    unfold g_nodecount, g_branches, g_actions, g_guards. repeat split; apply Permutation_length.
    - exact Hp.
    - apply all_branches_perm, Hp.
    - apply filter_perm, Hp.
    - apply filter_perm, all_branches_perm, Hp.
  Qed.
End Perm.

Lemma reports_same_set : forall a s s', reports a s -> same_set s s' -> reports a s'.
Proof.
  intros a s s' (H & Hn & Hs) He. split; [| split; assumption].
  intros x. rewrite (H x). apply He.
Qed.

Theorem analyze_order_independent : forall g g',
  NoDup (names g) -> Permutation g g' ->
  a_nodecount (analyze g) = a_nodecount (analyze g') /\
  a_branches (analyze g) = a_branches (analyze g') /\
  a_actions (analyze g) = a_actions (analyze g') /\
  a_guards (analyze g) = a_guards (analyze g') /\
  Permutation (a_terminal (analyze g)) (a_terminal (analyze g')) /\
  a_orphans (analyze g) = a_orphans (analyze g') /\
  a_empty (analyze g) = a_empty (analyze g') /\
  a_missing (analyze g) = a_missing (analyze g') /\
  a_tvars (analyze g) = a_tvars (analyze g') /\
  a_interpreters (analyze g) = a_interpreters (analyze g').
Proof.
  intros g g' Hg Hp.
  assert (Hg' : NoDup (names g')) by (eapply Permutation_NoDup; [apply names_perm, Hp | exact Hg]).
  destruct (analyze_faithful g Hg) as (A1 & A2 & A3 & A4 & A5 & A6 & A7 & A8 & A9 & A10).
  destruct (analyze_faithful g' Hg') as (B1 & B2 & B3 & B4 & B5 & B6 & B7 & B8 & B9 & B10).
  destruct (perm_counts g g' Hp) as (C1 & C2 & C3 & C4).
  split; [congruence |]. split; [congruence |]. split; [congruence |]. split; [congruence |].
  split.
  { eapply perm_trans; [exact A5 |]. eapply perm_trans; [apply perm_g_terminal, Hp |].
    apply Permutation_sym, B5. }
  assert (Hp' : Permutation g' g) by (apply Permutation_sym, Hp).
  split; [eapply reports_unique; [exact A6 | eapply reports_same_set; [exact B6 | apply perm_g_orphans, Hp']] |].
  split; [eapply reports_unique; [exact A7 | eapply reports_same_set; [exact B7 | apply perm_g_empty, Hp']] |].
  split; [eapply reports_unique; [exact A8 | eapply reports_same_set; [exact B8 | apply perm_g_missing, Hp']] |].
  split; [eapply reports_unique; [exact A9 | eapply reports_same_set; [exact B9 | apply perm_g_tvars, Hp']] |].
  eapply reports_unique; [exact A10 | eapply reports_same_set; [exact B10 | apply perm_g_interpreters, Hp']].
Qed.
