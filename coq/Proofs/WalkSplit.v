(** C05, last clause: delivering messages in consecutive batches gives the
    same final state and the same emitted messages as delivering them at
    once, as long as neither the limit nor a breakpoint intervenes.

    [wl] is [walk_loop] without accumulators; [walk_loop_wl] ties the two. *)
From Coq Require Import Lia.
From Sheens Require Import Model.Step Spec.WalkSpec Proofs.SndBasics Proofs.StepFacts Proofs.WalkProofs.

Definition emitted_of (sds : list stride) : list json := List.concat (map sd_emitted sds).

Lemma emitted_of_app a b : emitted_of (a ++ b) = emitted_of a ++ emitted_of b.
Proof. unfold emitted_of. rewrite map_app, concat_app. reflexivity. Qed.

Section Split.
  Variable action : Type.
  Variable run : action -> option bindings -> exec_raw.
  Variable s : spec action.
  Variable bp : state -> bool.

  Notation walk_stride := (walk_stride action run s).
  Notation walk_loop := (walk_loop action run s bp).
  Notation walk := (walk action run s bp).

  Definition wres : Type := (list stride * list json * stop_reason)%type.
  Definition wcons (sd : stride) (r : wres) : wres :=
    let '(sds, rem, stop) := r in (sd :: sds, rem, stop).

  Fixpoint wl (limit : nat) (st : state) (pendings : list json) : wres :=
    match limit with
    | O => ([], pendings, Limited)
    | S n =>
        if bp st then ([], pendings, BreakpointReached)
        else
          let sd := fst (walk_stride st pendings) in
          let pendings' := pendings_after sd pendings in
          match sd_to sd with
          | None =>
              match pendings' with
              | [] => ([sd], [], Done)
              | _ =>
                  match sd_consumed sd with
                  | None => ([sd], [], Done)
                  | Some _ => wcons sd (wl n st pendings')
                  end
              end
          | Some t => wcons sd (wl n (copy_state t) pendings')
          end
    end.

  Lemma walk_loop_wl limit : forall st pendings acc amb,
    fst (walk_loop limit st pendings acc amb) =
    let '(sds, rem, stop) := wl limit st pendings in mk_walked (rev acc ++ sds) rem stop.
  Proof.
    induction limit as [|n IH]; intros st pendings acc amb.
    - cbn. rewrite app_nil_r. reflexivity.
    - cbn [Step.walk_loop wl]. destruct (bp st).
      { cbn. rewrite app_nil_r. reflexivity. }
      destruct (walk_stride st pendings) as [sd a] eqn:Ews. cbn [fst].
      unfold pendings_after.
      assert (Hacc : forall r : wres,
                 (let '(sds, rem, stop) := r in mk_walked (rev (sd :: acc) ++ sds) rem stop) =
                 (let '(sds, rem, stop) := wcons sd r in mk_walked (rev acc ++ sds) rem stop)).
      { intros [[sds rem] stop]. cbn. rewrite <- app_assoc. reflexivity. }
      destruct (sd_to sd) as [t|].
      + rewrite IH. apply Hacc.
      + destruct (match sd_consumed sd with Some _ => tl pendings | None => pendings end) as [|m' r'].
        * cbn. reflexivity.
        * destruct (sd_consumed sd).
          -- rewrite IH. apply Hacc.
          -- cbn. reflexivity.
  Qed.

  Lemma walk_wl limit st msgs :
    fst (walk limit st msgs) =
    let '(sds, rem, stop) := wl limit st msgs in mk_walked sds rem stop.
  Proof. unfold Step.walk. rewrite walk_loop_wl. reflexivity. Qed.

  (** a walk that is Done is unchanged by a larger limit *)
  Lemma wl_done_mono n : forall st p sds rem L,
    wl n st p = (sds, rem, Done) -> n <= L -> wl L st p = (sds, rem, Done).
  Proof.
    induction n as [|n IH]; intros st p sds rem L Hw Hle; [discriminate|].
    destruct L as [|L]; [lia|]. cbn [wl] in *.
    destruct (bp st); [discriminate|].
    set (sd := fst (walk_stride st p)) in *.
    assert (Hc : forall st' p',
               wcons sd (wl n st' p') = (sds, rem, Done) -> wcons sd (wl L st' p') = (sds, rem, Done)).
    { intros st' p' H. destruct (wl n st' p') as [[sds' rem'] stop'] eqn:E. cbn in H. inversion H. subst.
      rewrite (IH _ _ _ _ L E); [reflexivity | lia]. }
    destruct (sd_to sd) as [t|].
    - apply Hc. exact Hw.
    - destruct (pendings_after sd p) as [|m' r']; [exact Hw|].
      destruct (sd_consumed sd); [apply Hc|]; exact Hw.
  Qed.

  Lemma wl_done_rem n : forall st p sds rem, wl n st p = (sds, rem, Done) -> rem = [].
  Proof.
    induction n as [|n IH]; intros st p sds rem Hw; [discriminate|].
    cbn [wl] in Hw. destruct (bp st); [discriminate|].
    set (sd := fst (walk_stride st p)) in *.
    assert (Hc : forall st' p', wcons sd (wl n st' p') = (sds, rem, Done) -> rem = []).
    { intros st' p' H. destruct (wl n st' p') as [[sds' rem'] stop'] eqn:E. cbn in H. inversion H. subst.
      exact (IH _ _ _ _ E). }
    destruct (sd_to sd) as [t|]; [exact (Hc _ _ Hw)|].
    destruct (pendings_after sd p) as [|m' r']; [inversion Hw; reflexivity|].
    destruct (sd_consumed sd); [exact (Hc _ _ Hw) | inversion Hw; reflexivity].
  Qed.

  Lemma final_state_cons st sd sds :
    final_state st (sd :: sds) =
    final_state (match sd_to sd with Some t => copy_state t | None => st end) sds.
  Proof. reflexivity. Qed.

  Lemma fs_idle st sd : sd_to sd = None -> final_state st [sd] = st.
  Proof. intros H. rewrite final_state_cons, H. reflexivity. Qed.

  (** one idle stride: the walk from a quiescent state with nothing to offer *)
  Lemma wl_idle L st :
    0 < L -> bp st = false -> sd_to (fst (walk_stride st [])) = None ->
    wl L st [] = ([fst (walk_stride st [])], [], Done).
  Proof.
    intros HL Hbp Hto. destruct L as [|L]; [lia|]. cbn [wl]. rewrite Hbp. cbv zeta. rewrite Hto.
    unfold pendings_after.
    destruct (walk_stride_consumed action run s st []) as [H | H]; rewrite H; reflexivity.
  Qed.

  Definition nonnull (l : list json) : Prop := Forall (fun m => m <> JNull) l.

  Lemma nonnull_after sd p : nonnull p -> nonnull (pendings_after sd p).
  Proof.
    unfold pendings_after, nonnull. intros H. destruct (sd_consumed sd); [|exact H].
    destruct p; [exact H | inversion H; assumption].
  Qed.

  Lemma wcons_inv sd r sds rem stop :
    wcons sd r = (sds, rem, stop) -> exists sds', sds = sd :: sds' /\ r = (sds', rem, stop).
  Proof. destruct r as [[a b] c]. cbn. intros H. inversion H. eauto. Qed.

  (** where a Done walk ends: no breakpoint there, and nothing happens without a message *)
  Lemma wl_done_final n : forall st p s1 r1,
    nonnull p -> wl n st p = (s1, r1, Done) ->
    bp (final_state st s1) = false /\
    sd_to (fst (walk_stride (final_state st s1) [])) = None.
  Proof.
    induction n as [|n IH]; intros st p s1 r1 Hnn H1; [discriminate|].
    cbn [wl] in H1. destruct (bp st) eqn:Hbp; [discriminate|]. cbv zeta in H1.
    set (sd := fst (walk_stride st p)) in *.
    pose proof (nonnull_after sd p Hnn) as Hnn'.
    destruct (sd_to sd) as [t|] eqn:Eto.
    - apply wcons_inv in H1. destruct H1 as [s1' [-> H1]].
      rewrite final_state_cons, Eto. exact (IH _ _ _ _ Hnn' H1).
    - assert (Hhere : s1 = [sd] -> sd_to (fst (walk_stride st [])) = None ->
                      bp (final_state st s1) = false /\
                      sd_to (fst (walk_stride (final_state st s1) [])) = None).
      { intros -> Hq. rewrite final_state_cons, Eto. cbn. auto. }
      unfold pendings_after in *.
      destruct (sd_consumed sd) as [m|] eqn:Ec.
      + (* consumed: the node waits *)
        pose proof (proj1 (walk_stride_consumer_waits action run s st p m Ec)) as Hq.
        destruct (tl p) as [|m' r'].
        * inversion H1. subst. apply Hhere; [reflexivity | exact Hq].
        * apply wcons_inv in H1. destruct H1 as [s1' [-> H1]].
          rewrite final_state_cons, Eto. exact (IH _ _ _ _ Hnn' H1).
      + destruct p as [|m' r'].
        * inversion H1. subst. apply Hhere; [reflexivity | exact Eto].
        * inversion H1. subst. apply Hhere; [reflexivity|].
          assert (Hpk : peek (m' :: r') = Some m').
          { apply peek_cons. inversion Hnn. assumption. }
          rewrite (walk_stride_unconsumed_indep action run s st _ m' Hpk Ec []). exact Eto.
  Qed.

  Variable ms2 : list json.
  Hypothesis ms2_nonnull : nonnull ms2.

  (** the walk of the second batch from a state where a stride that neither
      moved nor consumed was just recorded for a non-null message *)
  Lemma wl_stuck L st q m r :
    0 < L -> bp st = false -> m <> JNull ->
    let sd := fst (walk_stride st (m :: r)) in
    sd_to sd = None -> sd_consumed sd = None ->
    wl L st q = ([sd], [], Done).
  Proof.
    intros HL Hbp Hm sd Hto Hc. destruct L as [|L]; [lia|]. cbn [wl]. rewrite Hbp. cbv zeta.
    rewrite (walk_stride_unconsumed_indep action run s st (m :: r) m (peek_cons m r Hm) Hc q).
    fold sd. rewrite Hto. unfold pendings_after. rewrite Hc.
    destruct q; reflexivity.
  Qed.

  (** the heart: both walks run in lock step until the first one is done *)
  Lemma wl_split n : forall st p s1 r1 s12 r12 L,
    nonnull p ->
    wl n st p = (s1, r1, Done) ->
    wl n st (p ++ ms2) = (s12, r12, Done) ->
    n <= L ->
    exists s2,
      wl L (final_state st s1) ms2 = (s2, [], Done) /\
      final_state st s12 = final_state (final_state st s1) s2 /\
      emitted_of s12 = emitted_of s1 ++ emitted_of s2.
  Proof.
    induction n as [|n IH]; intros st p s1 r1 s12 r12 L Hnn H1 H12 Hle; [discriminate|].
    assert (HL : 0 < L) by lia.
    destruct p as [|m r].
    - (* the first batch is exhausted *)
      cbn [app] in H12.
      destruct ms2 as [|m2 r2] eqn:Ems2.
      { (* nothing more: the two walks coincide; the third is one idle stride *)
        rewrite H1 in H12. inversion H12. subst s12 r12.
        destruct (wl_done_final _ _ _ _ _ Hnn H1) as [Hbp' Hq].
        exists [fst (walk_stride (final_state st s1) [])]. split; [apply wl_idle; assumption|].
        split.
        - rewrite final_state_cons, Hq. reflexivity.
        - unfold emitted_of at 3. cbn. rewrite (walk_stride_idle_silent action run s _ _ Hq).
          rewrite !app_nil_r. reflexivity. }
      assert (Hm2 : m2 <> JNull) by (inversion ms2_nonnull; assumption).
      cbn [wl] in H1. destruct (bp st) eqn:Hbp; [discriminate|]. cbv zeta in H1.
      set (sd1 := fst (walk_stride st [])) in *.
      assert (Hc1 : sd_consumed sd1 = None).
      { destruct (walk_stride_consumed action run s st []) as [H | H]; exact H. }
      unfold pendings_after in H1. rewrite Hc1 in H1.
      destruct (walk_stride_none_cases action run s st) as [Hind | [Hto [_ Hem]]].
      + (* the node does not look at messages: same stride in both walks *)
        cbn [wl] in H12. rewrite Hbp in H12. cbv zeta in H12.
        rewrite (Hind (m2 :: r2)) in H12. fold sd1 in H12.
        unfold pendings_after in H12. rewrite Hc1 in H12.
        destruct (sd_to sd1) as [t|] eqn:Eto.
        * apply wcons_inv in H1. destruct H1 as [s1' [-> H1]].
          apply wcons_inv in H12. destruct H12 as [s12' [-> H12]].
          destruct (IH (copy_state t) [] s1' r1 s12' r12 L Hnn H1 H12 ltac:(lia)) as [s2 [Hw2 [Hf Hem]]].
          exists s2. rewrite !final_state_cons, Eto. split; [exact Hw2|]. split; [exact Hf|].
          unfold emitted_of in *. cbn. rewrite Hem, app_assoc. reflexivity.
        * inversion H1. inversion H12. subst.
          exists [sd1]. rewrite !(fs_idle st sd1 Eto).
          assert (Hs : sd1 = fst (walk_stride st (m2 :: r2))) by (rewrite (Hind (m2 :: r2)); reflexivity).
          split.
          -- rewrite Hs. apply wl_stuck; try assumption; rewrite <- Hs; assumption.
          -- split; [reflexivity|]. unfold emitted_of. cbn.
             assert (He : sd_emitted sd1 = []) by (apply walk_stride_idle_silent; exact Eto).
             rewrite He. reflexivity.
      + (* the node waits for a message: the first walk stops here *)
        fold sd1 in Hto, Hem. rewrite Hto in H1. inversion H1. subst s1 r1.
        rewrite final_state_cons, Hto.
        exists s12. split.
        * rewrite (wl_done_rem _ _ _ _ _ H12) in H12. exact (wl_done_mono _ _ _ _ _ L H12 Hle).
        * split; [reflexivity|]. unfold emitted_of at 2. cbn. rewrite Hem. reflexivity.
    - (* both walks offer the same message *)
      assert (Hm : m <> JNull) by (inversion Hnn; assumption).
      cbn [wl app] in H1, H12. destruct (bp st) eqn:Hbp; [discriminate|]. cbv zeta in H1, H12.
      rewrite (walk_stride_peek action run s st (m :: r ++ ms2) (m :: r)) in H12
        by (rewrite !peek_cons by exact Hm; reflexivity).
      set (sd := fst (walk_stride st (m :: r))) in *.
      pose proof (nonnull_after sd (m :: r) Hnn) as Hnn'.
      assert (Hpa : pendings_after sd (m :: r ++ ms2) = pendings_after sd (m :: r) ++ ms2).
      { unfold pendings_after. destruct (sd_consumed sd); reflexivity. }
      rewrite Hpa in H12.
      destruct (sd_to sd) as [t|] eqn:Eto.
      + apply wcons_inv in H1. destruct H1 as [s1' [-> H1]].
        apply wcons_inv in H12. destruct H12 as [s12' [-> H12]].
        destruct (IH _ _ s1' r1 s12' r12 L Hnn' H1 H12 ltac:(lia)) as [s2 [Hw2 [Hf Hem]]].
        exists s2. rewrite !final_state_cons, Eto. split; [exact Hw2|]. split; [exact Hf|].
        unfold emitted_of in *. cbn. rewrite Hem, app_assoc. reflexivity.
      + destruct (sd_consumed sd) as [mc|] eqn:Ec.
        * (* consumed, stayed *)
          unfold pendings_after in *. rewrite Ec in *. cbn [tl] in *.
          destruct r as [|m' r'].
          -- (* the last message of the first batch *)
             inversion H1. subst s1 r1. rewrite final_state_cons, Eto. cbn [app] in H12.
             destruct (walk_stride_consumer_waits action run s st (m :: []) mc Ec) as [Hq [_ [Hqe _]]].
             destruct ms2 as [|m2 r2] eqn:Ems2.
             ++ inversion H12. subst s12 r12.
                exists [fst (walk_stride st [])]. split; [apply wl_idle; assumption|].
                split; [rewrite !final_state_cons, Eto, Hq; reflexivity|].
                unfold emitted_of. cbn. rewrite Hqe, !app_nil_r. reflexivity.
             ++ apply wcons_inv in H12. destruct H12 as [s12' [-> H12]].
                exists s12'. split.
                ** rewrite (wl_done_rem _ _ _ _ _ H12) in H12. exact (wl_done_mono _ _ _ _ _ L H12 ltac:(lia)).
                ** split; [rewrite final_state_cons, Eto; reflexivity|].
                   unfold emitted_of. cbn. rewrite app_nil_r. reflexivity.
          -- cbn [app] in H12.
             apply wcons_inv in H1. destruct H1 as [s1' [-> H1]].
             apply wcons_inv in H12. destruct H12 as [s12' [-> H12]].
             destruct (IH _ _ s1' r1 s12' r12 L Hnn' H1 H12 ltac:(lia)) as [s2 [Hw2 [Hf Hem]]].
             exists s2. rewrite !final_state_cons, Eto. split; [exact Hw2|]. split; [exact Hf|].
             unfold emitted_of in *. cbn. rewrite Hem, app_assoc. reflexivity.
        * (* neither moved nor consumed: both walks are done here *)
          unfold pendings_after in *. rewrite Ec in *. cbn [app] in H12.
          inversion H1. inversion H12. subst.
          exists [sd]. rewrite !(fs_idle st sd Eto). split.
          -- apply wl_stuck; assumption.
          -- split; [reflexivity|]. unfold emitted_of. cbn.
             assert (He : sd_emitted sd = []) by (apply walk_stride_idle_silent; exact Eto).
             rewrite He. reflexivity.
  Qed.
End Split.

(** * The statements used by Properties/C05.v *)
Section SplitThm.
  Variable action : Type.
  Variable run : action -> option bindings -> exec_raw.
  Variable s : spec action.
  Variable bp : state -> bool.
  Notation walk := (walk action run s bp).

  Definition walked_final (st : state) (w : walked) : state := final_state st (w_strides w).
  Definition walked_emitted (w : walked) : list json := emitted_of (w_strides w).

  Lemma walk_done_wl limit st msgs w :
    fst (walk limit st msgs) = w -> w_stopped w = Done ->
    wl action run s bp limit st msgs = (w_strides w, w_remaining w, Done).
  Proof.
    rewrite walk_wl. destruct (wl action run s bp limit st msgs) as [[sds rem] stop].
    intros <-. cbn. intros ->. reflexivity.
  Qed.

  (** two batches *)
  Theorem walk_split limit st ms1 ms2 :
    Forall (fun m => m <> JNull) ms1 -> Forall (fun m => m <> JNull) ms2 ->
    let w1 := fst (walk limit st ms1) in
    let w12 := fst (walk limit st (ms1 ++ ms2)) in
    w_stopped w1 = Done -> w_stopped w12 = Done ->
    let w2 := fst (walk limit (walked_final st w1) ms2) in
    w_stopped w2 = Done /\
    walked_final st w12 = walked_final (walked_final st w1) w2 /\
    walked_emitted w12 = walked_emitted w1 ++ walked_emitted w2.
  Proof.
    intros Hn1 Hn2 w1 w12 Hd1 Hd12 w2.
    pose proof (walk_done_wl limit st ms1 w1 eq_refl Hd1) as H1.
    pose proof (walk_done_wl limit st (ms1 ++ ms2) w12 eq_refl Hd12) as H12.
    destruct (wl_split action run s bp ms2 Hn2 limit st ms1 _ _ _ _ limit Hn1 H1 H12 (le_n _))
      as [s2 [Hw2 [Hf Hem]]].
    unfold w2, walked_final, walked_emitted. rewrite walk_wl.
    unfold walked_final in Hw2. fold w1 in Hw2. rewrite Hw2. cbn. auto.
  Qed.

  (** any split into consecutive batches, down to one message at a time *)
  Definition is_done (w : walked) : bool :=
    match w_stopped w with Done => true | _ => false end.

  Fixpoint walk_batches (limit : nat) (st : state) (batches : list (list json))
    : option (state * list json) :=
    match batches with
    | [] => Some (st, [])
    | b :: r =>
        let w := fst (walk limit st b) in
        if is_done w then
          match walk_batches limit (walked_final st w) r with
          | Some (st', em) => Some (st', walked_emitted w ++ em)
          | None => None
          end
        else None
    end.

  Lemma walk_batches_cons limit st b r :
    walk_batches limit st (b :: r) =
    let w := fst (walk limit st b) in
    if is_done w then
      match walk_batches limit (walked_final st w) r with
      | Some (st', em) => Some (st', walked_emitted w ++ em)
      | None => None
      end
    else None.
  Proof. reflexivity. Qed.

  Theorem walk_any_split limit : forall rest st b fin em,
    Forall (fun m => m <> JNull) (List.concat (b :: rest)) ->
    let whole := fst (walk limit st (List.concat (b :: rest))) in
    w_stopped whole = Done ->
    walk_batches limit st (b :: rest) = Some (fin, em) ->
    fin = walked_final st whole /\ em = walked_emitted whole.
  Proof.
    induction rest as [|b2 r' IH]; intros st b fin em Hnn whole Hd Hb.
    - unfold whole in *. clear whole. cbn [List.concat] in *. rewrite app_nil_r in *.
      cbn [walk_batches] in Hb.
      destruct (is_done (fst (walk limit st b))); [|discriminate].
      inversion Hb. rewrite app_nil_r. auto.
    - rewrite walk_batches_cons in Hb. cbv zeta in Hb.
      destruct (is_done (fst (walk limit st b))) eqn:Ed1; [|discriminate].
      assert (Hd1 : w_stopped (fst (walk limit st b)) = Done).
      { unfold is_done in Ed1. destruct (w_stopped (fst (walk limit st b))); try discriminate. reflexivity. }
      change (List.concat (b :: b2 :: r')) with (b ++ List.concat (b2 :: r')) in *.
      apply Forall_app in Hnn. destruct Hnn as [Hn1 Hn2].
      destruct (walk_split limit st b (List.concat (b2 :: r')) Hn1 Hn2 Hd1 Hd) as [Hd2 [Hf Hem]].
      set (fin1 := walked_final st (fst (walk limit st b))) in *.
      destruct (walk_batches limit fin1 (b2 :: r')) as [[st' em']|] eqn:Eb; [|discriminate].
      inversion Hb. subst fin em.
      destruct (IH fin1 b2 st' em' Hn2 Hd2 Eb) as [-> ->].
      fold whole in Hf, Hem. rewrite Hf, Hem. auto.
  Qed.
End SplitThm.
