(** C12: (a) threads whose steps leave the shared state unchanged obtain, in
    every interleaving, exactly what they obtain alone - instantiated with
    walkers over one specification (Spec.Walk's loop as atomic steps, the
    specification as the shared part); (b) against an UpdatableSpec every
    finished walk equals the sequential walk under one version that was in
    the register; the re-reading alternative yields a mixture. *)
From Sheens Require Import Model.Specter Model.Action Proofs.ConcBase.
From Coq Require Import Lia.

(** * Spec.Walk's loop as atomic steps *)

Section Walkers.
  Variable action : Type.
  Variable run : action -> option bindings -> exec_raw.
  Variable s : spec action.

  Notation step1 bp := (walk_step1 action run s bp).

  Lemma step1_done : forall bp w r, ws_res w = Some r -> step1 bp w = w.
  Proof. intros bp w r H. unfold walk_step1. rewrite H. reflexivity. Qed.

  Lemma iterate_done : forall bp k w r, ws_res w = Some r -> iterate k (step1 bp) w = w.
  Proof.
    intros bp k. induction k as [|k IH]; intros w r H; simpl; [reflexivity|].
    rewrite (step1_done bp w r H). eapply IH. exact H.
  Qed.

  Lemma walk_steps :
    forall bp limit st pend acc amb k, limit < k ->
    ws_res (iterate k (step1 bp) (mk_wst limit st pend acc amb None))
    = Some (walk_loop action run s bp limit st pend acc amb).
  Proof.
    intros bp limit. induction limit as [|n IH]; intros st pend acc amb k Hk;
      (destruct k as [|k]; [lia|]); simpl iterate; unfold walk_step1 at 2; simpl ws_res; simpl ws_limit.
    - unfold wst_done. simpl. erewrite iterate_done by reflexivity. reflexivity.
    - simpl ws_st. simpl ws_pend. simpl ws_acc. simpl ws_amb. simpl walk_loop.
      destruct (bp st).
      + unfold wst_done. simpl. erewrite iterate_done by reflexivity. reflexivity.
      + destruct (walk_stride action run s st pend) as [sd a].
        destruct (sd_to sd) as [t|].
        * apply IH. lia.
        * destruct (match sd_consumed sd with Some _ => tl pend | None => pend end) as [|m pend'] eqn:Ep.
          -- unfold wst_done. simpl. erewrite iterate_done by reflexivity. reflexivity.
          -- destruct (sd_consumed sd).
             ++ apply IH. lia.
             ++ unfold wst_done. simpl. erewrite iterate_done by reflexivity. reflexivity.
  Qed.

  Lemma walk_result_unique :
    forall bp limit st pend k res,
    ws_res (iterate k (step1 bp) (wst_init limit st pend)) = Some res ->
    res = walk action run s bp limit st pend.
  Proof.
    intros bp limit st pend k res H.
    pose proof (walk_steps bp limit st pend [] false (k + S limit) ltac:(lia)) as Hw.
    fold (wst_init limit st pend) in Hw. rewrite iterate_add in Hw.
    rewrite (iterate_done bp (S limit) _ res H) in Hw. rewrite H in Hw. inversion Hw. reflexivity.
  Qed.

  (** ** any number of walkers over one specification *)

  Theorem walkers_parallel_eq_alone :
    forall sched (cfg : list walker) i bp limit st pend,
    nth_error cfg i = Some (bp, wst_init limit st pend) ->
    limit < turns i sched ->
    fst (interleave (spec_step action run) sched s cfg) = s /\
    option_map (fun t : walker => ws_res (snd t)) (nth_error (snd (interleave (spec_step action run) sched s cfg)) i)
    = Some (Some (walk action run s bp limit st pend)).
  Proof.
    intros sched cfg i bp limit st pend Hi Ht.
    destruct (ro_run _ _ (spec_step action run) (fun sh l => eq_refl) sched s cfg) as [H1 H2].
    split; [exact H1|]. rewrite H2, Hi. simpl. f_equal.
    assert (forall k (t : walker),
               iterate k (fun l : walker => snd (spec_step action run s l)) t
               = (fst t, iterate k (step1 (fst t)) (snd t))) as Hit.
    { induction k as [|k IHk]; intros [b w]; simpl; [reflexivity|]. rewrite IHk. reflexivity. }
    rewrite Hit. simpl. unfold wst_init. rewrite walk_steps by exact Ht. reflexivity.
  Qed.
End Walkers.

(** * (b) the updatable specification *)

Section Swap.
  Variable action : Type.
  Variable run : action -> option bindings -> exec_raw.

  Notation rstep := (reg_step action run).

  (** how a thread's current form relates to its initial form, given the
      versions the register has held so far *)
  Inductive thr_rel (vs : list (spec action)) : thr action -> thr action -> Prop :=
  | rel_unloaded : forall bp w, thr_rel vs (Walker action None bp w) (Walker action None bp w)
  | rel_loaded : forall bp w v k,
      In v vs ->
      thr_rel vs (Walker action None bp w) (Walker action (Some v) bp (iterate k (walk_step1 action run v bp) w))
  | rel_preloaded : forall bp w v k,
      thr_rel vs (Walker action (Some v) bp w) (Walker action (Some v) bp (iterate k (walk_step1 action run v bp) w))
  | rel_writer : forall pre todo, thr_rel vs (Writer action (pre ++ todo)) (Writer action todo).

  Lemma thr_rel_mono :
    forall vs vs' t0 t, incl vs vs' -> thr_rel vs t0 t -> thr_rel vs' t0 t.
  Proof.
    intros vs vs' t0 t Hincl H. destruct H; try constructor. apply Hincl. assumption.
  Qed.

  Lemma Forall2_nth :
    forall (A B : Type) (R : A -> B -> Prop) l0 l i t,
    Forall2 R l0 l -> nth_error l i = Some t -> exists t0, nth_error l0 i = Some t0 /\ R t0 t.
  Proof.
    intros A B R l0 l i t H. revert i. induction H as [|a b r0 r Hab Hr IH]; intros i Hi; destruct i; simpl in *; try discriminate.
    - inversion Hi; subst. exists a. split; [reflexivity | assumption].
    - apply IH. exact Hi.
  Qed.

  Lemma Forall2_set_nth :
    forall (A B : Type) (R : A -> B -> Prop) l0 (l : list B) i t0 t',
    Forall2 R l0 l -> nth_error l0 i = Some t0 -> R t0 t' -> Forall2 R l0 (set_nth i t' l).
  Proof.
    intros A B R l0 l i t0 t' H. revert i. induction H as [|a b r0 r Hab Hr IH]; intros i Hi Ht; destruct i; simpl in *; try discriminate.
    - inversion Hi; subst. constructor; assumption.
    - constructor; [assumption | apply IH; assumption].
  Qed.

  Lemma Forall2_mono :
    forall (A B : Type) (R R' : A -> B -> Prop) l0 l,
    (forall a b, R a b -> R' a b) -> Forall2 R l0 l -> Forall2 R' l0 l.
  Proof. intros A B R R' l0 l HR H. induction H; constructor; auto. Qed.

  Lemma in_flat_map_nth :
    forall (A B : Type) (f : A -> list B) l i a b, nth_error l i = Some a -> In b (f a) -> In b (flat_map f l).
  Proof.
    intros A B f l i a b Hn Hb. apply in_flat_map. exists a. split; [|exact Hb]. eapply nth_error_In. exact Hn.
  Qed.

  Definition swap_inv (r0 : reg action) (cfg0 : list (thr action)) (r : reg action) (cfg : list (thr action)) : Prop :=
    Forall2 (thr_rel (reg_versions action r)) cfg0 cfg /\
    incl (reg_versions action r) (reg_versions action r0 ++ flat_map (stored_by action) cfg0).

  Lemma swap_inv_step :
    forall r0 cfg0 r cfg i t,
    swap_inv r0 cfg0 r cfg -> nth_error cfg i = Some t ->
    swap_inv r0 cfg0 (fst (rstep r t)) (set_nth i (snd (rstep r t)) cfg).
  Proof.
    intros r0 cfg0 r cfg i t [HF Hincl] Hi.
    destruct (Forall2_nth _ _ _ _ _ _ _ HF Hi) as [t0 [Hi0 Hrel]].
    destruct t as [[v|] bp w | [|v rest]]; simpl.
    - (* a loaded walker steps *)
      split; [|exact Hincl]. eapply Forall2_set_nth; [exact HF | exact Hi0 |].
      inversion Hrel; subst.
      + rewrite iterate_succ_r. constructor. assumption.
      + rewrite iterate_succ_r. constructor.
    - (* load *)
      split; [|exact Hincl]. eapply Forall2_set_nth; [exact HF | exact Hi0 |].
      inversion Hrel; subst. apply (rel_loaded _ bp w (fst r) 0). left. reflexivity.
    - (* an idle writer *)
      split; [|exact Hincl]. eapply Forall2_set_nth; [exact HF | exact Hi0 | exact Hrel].
    - (* store *)
      inversion Hrel as [| | |pre todo Hp Ht]; subst.
      assert (incl (reg_versions action r) (reg_versions action (v, fst r :: snd r))) as Hgrow.
      { intros x Hx. right. exact Hx. }
      split.
      + eapply Forall2_set_nth; [| exact Hi0 |].
        * eapply Forall2_mono; [|exact HF]. intros a b Hab. eapply thr_rel_mono; [exact Hgrow | exact Hab].
        * replace (pre ++ v :: rest) with ((pre ++ [v]) ++ rest) by (rewrite <- app_assoc; reflexivity).
          constructor.
      + intros x [Hx|Hx].
        * subst x. apply in_or_app. right.
          eapply in_flat_map_nth; [exact Hi0|]. simpl. apply in_or_app. right. left. reflexivity.
        * apply Hincl. exact Hx.
  Qed.

  Lemma swap_inv_run :
    forall sched r0 cfg0 r cfg,
    swap_inv r0 cfg0 r cfg ->
    swap_inv r0 cfg0 (fst (interleave rstep sched r cfg)) (snd (interleave rstep sched r cfg)).
  Proof.
    induction sched as [|i rest IH]; intros r0 cfg0 r cfg H; simpl; [exact H|].
    destruct (nth_error cfg i) as [t|] eqn:Ei; [|apply IH; exact H].
    pose proof (swap_inv_step r0 cfg0 r cfg i t H Ei) as Hs.
    destruct (rstep r t) as [r' t']. simpl in Hs. apply IH. exact Hs.
  Qed.

  Lemma swap_inv_init : forall r0 cfg0, Forall (fun t => match t with Walker _ (Some _) _ _ => False | _ => True end) cfg0 ->
                                        swap_inv r0 cfg0 r0 cfg0.
  Proof.
    intros r0 cfg0 H. split.
    - induction H as [|t l Ht Hl IH]; constructor; [|exact IH].
      destruct t as [[v|] bp w | todo]; [contradiction | constructor | apply (rel_writer _ [] todo)].
    - intros x Hx. apply in_or_app. left. exact Hx.
  Qed.

  (** every processing call (load ; walk) that has finished returns the walk
      under one version that the register held: the initial one or a stored one *)
  Theorem swap_atomic :
    forall sched r0 cfg0 i bp limit st pend t res,
    Forall (fun t => match t with Walker _ (Some _) _ _ => False | _ => True end) cfg0 ->
    nth_error cfg0 i = Some (Walker action None bp (wst_init limit st pend)) ->
    nth_error (snd (interleave rstep sched r0 cfg0)) i = Some t ->
    thr_result action t = Some res ->
    exists v, In v (reg_versions action r0 ++ flat_map (stored_by action) cfg0)
              /\ In v (reg_versions action (fst (interleave rstep sched r0 cfg0)))
              /\ res = walk action run v bp limit st pend.
  Proof.
    intros sched r0 cfg0 i bp limit st pend t res Hun Hi0 Hi Hres.
    destruct (swap_inv_run sched r0 cfg0 r0 cfg0 (swap_inv_init r0 cfg0 Hun)) as [HF Hincl].
    destruct (Forall2_nth _ _ _ _ _ _ _ HF Hi) as [t0 [Hi0' Hrel]].
    rewrite Hi0 in Hi0'. inversion Hi0'; subst t0. clear Hi0'.
    inversion Hrel; subst; simpl in Hres.
    - discriminate.
    - exists v. split; [apply Hincl; assumption|]. split; [assumption|].
      eapply walk_result_unique. exact Hres.
  Qed.
End Swap.

(** * The re-reading alternative mixes versions *)

Definition any_to (target : string) : branching act :=
  mk_branching "message" [mk_branch None None target].
Definition version_a : aspec :=
  mk_spec [("start", mk_node None false (Some (any_to "mid")));
           ("mid", mk_node None false (Some (any_to "enda")));
           ("midb", mk_node None false (Some (any_to "endb")));
           ("enda", mk_node None false None); ("endb", mk_node None false None);
           ("mixed", mk_node None false None)] false "" true.
Definition version_b : aspec :=
  mk_spec [("start", mk_node None false (Some (any_to "midb")));
           ("mid", mk_node None false (Some (any_to "mixed")));
           ("midb", mk_node None false (Some (any_to "endb")));
           ("enda", mk_node None false None); ("endb", mk_node None false None);
           ("mixed", mk_node None false None)] false "" true.

Definition final_node (r : option (walked * bool)) : string :=
  match r with
  | Some (w, _) =>
      fold_left (fun acc sd => match sd_to sd with Some t => st_node t | None => acc end) (w_strides w) "start"
  | None => "unfinished"
  end.

Definition two_msgs : list json := [JObj [("n", JNum 4)]; JObj [("n", JNum 8)]].
Definition swap_cfg : list (thr act) :=
  [Walker act None (fun _ => false) (wst_init 5 (mk_state "start" (Some [])) two_msgs); Writer act [version_b]].
Definition swap_sched : list nat := [0; 1; 0; 0; 0; 0; 0].

Definition final_of (cfg : list (thr act)) : string :=
  match nth_error cfg 0 with Some t => final_node (thr_result act t) | None => "none" end.

Lemma sequential_versions :
  final_node (Some (awalk version_a (fun _ => false) 5 (mk_state "start" (Some [])) two_msgs)) = "enda"
  /\ final_node (Some (awalk version_b (fun _ => false) 5 (mk_state "start" (Some [])) two_msgs)) = "endb".
Proof. vm_compute. split; reflexivity. Qed.

(** load-once: the walk that started under A finishes under A although B is
    stored in the middle *)
Lemma load_once_example :
  final_of (snd (interleave (reg_step act run_act) swap_sched (version_a, []) swap_cfg)) = "enda".
Proof. vm_compute. reflexivity. Qed.

(** re-reading at every iteration: neither A's nor B's walk *)
Lemma reload_mixes_versions :
  final_of (snd (interleave (reload_step act run_act) swap_sched (version_a, []) swap_cfg)) = "mixed".
Proof. vm_compute. reflexivity. Qed.

Definition swap_atomic_for (stepf : reg act -> thr act -> reg act * thr act) : Prop :=
  forall sched r0 cfg0 i bp limit st pend t res,
  Forall (fun t => match t with Walker _ (Some _) _ _ => False | _ => True end) cfg0 ->
  nth_error cfg0 i = Some (Walker act None bp (wst_init limit st pend)) ->
  nth_error (snd (interleave stepf sched r0 cfg0)) i = Some t ->
  thr_result act t = Some res ->
  exists v, In v (reg_versions act r0 ++ flat_map (stored_by act) cfg0)
            /\ res = awalk v bp limit st pend.

Lemma reload_refuted : ~ swap_atomic_for (reload_step act run_act).
Proof.
  intro H.
  remember (snd (interleave (reload_step act run_act) swap_sched (version_a, []) swap_cfg)) as cfg eqn:Ecfg.
  destruct (nth_error cfg 0) as [t|] eqn:Et; [|subst cfg; vm_compute in Et; discriminate].
  destruct (thr_result act t) as [res|] eqn:Er;
    [|subst cfg; vm_compute in Et; inversion Et; subst t; vm_compute in Er; discriminate].
  specialize (H swap_sched (version_a, []) swap_cfg 0 (fun _ => false) 5 (mk_state "start" (Some [])) two_msgs t res).
  assert (final_node (Some res) = "mixed") as Hm.
  { pose proof reload_mixes_versions as Hx. unfold final_of in Hx. rewrite <- Ecfg, Et, Er in Hx. exact Hx. }
  destruct H as [v [Hv Hres]].
  - repeat constructor.
  - reflexivity.
  - rewrite <- Ecfg. exact Et.
  - exact Er.
  - destruct sequential_versions as [Ha Hb].
    simpl in Hv. destruct Hv as [Hv|[Hv|[]]]; subst v res; rewrite Hm in *; discriminate.
Qed.
