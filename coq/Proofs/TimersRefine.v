(** Refinement: every run of the model of an implementation (all
    interleavings of requester steps and goroutine steps) is, label for
    label, a run of the abstract timer service, with the implementation's map
    equal to the abstract pending set and the same histories.  The statements
    of C17 therefore hold in every reachable state of the models. *)
From Coq Require Import ZArith List Bool Arith Lia.
From Sheens Require Import Model.Timers Proofs.TimersBase Proofs.TimersSpec Proofs.TimersInv.
Import ListNotations.
Local Open Scope Z_scope.

Record R (s : cstate) (a : astate) : Prop := mkR {
  r_map : apending a = cmap s;
  r_clock : aclock a = cclock s;
  r_known : aknown a = cknown s;
  r_fired : areported a = cfired s;
  r_canc : acancelled a = ccancelled s;
  r_firing : forall g, In g (afiring a) <-> In g (claimed_gens s)
}.

Definition claimed_of (l : list gor) : list nat :=
  map gg (filter (fun r => pc_eqb (gpc r) Claimed) l).

Lemma claimed_gens_of : forall s, claimed_gens s = claimed_of (cgors s).
Proof. reflexivity. Qed.

Lemma pc_eqb_claimed : forall x, pc_eqb x Claimed = true <-> x = Claimed.
Proof. intros x. destruct x; simpl; split; intros H; try reflexivity; try discriminate. Qed.

Lemma in_claimed : forall l g,
  In g (claimed_of l) <-> exists r, In r l /\ gg r = g /\ gpc r = Claimed.
Proof.
  intros l g. unfold claimed_of. rewrite in_map_iff. split.
  - intros [r [H1 H2]]. apply filter_In in H2. destruct H2 as [H2 H3].
    exists r. repeat split; auto. apply pc_eqb_claimed. exact H3.
  - intros [r [H1 [H2 H3]]]. exists r. split; [exact H2|]. apply filter_In. split; [exact H1|].
    apply pc_eqb_claimed. exact H3.
Qed.

Lemma claimed_close : forall l g g',
  In g' (claimed_of (upd_gor g close_ctl l)) <-> In g' (claimed_of l).
Proof.
  intros l g g'. rewrite !in_claimed. split.
  - intros [r' [H1 [H2 H3]]]. apply in_upd_gor in H1. destruct H1 as [r [Hr Heq]].
    exists r. split; [exact Hr|]. destruct (Nat.eqb (gg r) g); subst r'; auto.
  - intros [r [H1 [H2 H3]]].
    exists (if Nat.eqb (gg r) g then close_ctl r else r). split.
    + apply in_upd_gor. exists r. auto.
    + destruct (Nat.eqb (gg r) g); auto.
Qed.

Lemma claimed_snoc_waiting : forall l e g',
  In g' (claimed_of (l ++ [mkGor e Waiting false])) <-> In g' (claimed_of l).
Proof.
  intros l e g'. rewrite !in_claimed. split.
  - intros [r [H1 [H2 H3]]]. apply in_app_or in H1. destruct H1 as [H1|[H1|[]]].
    + exists r. auto.
    + subst r. simpl in H3. discriminate.
  - intros [r [H1 H2]]. exists r. split; [apply in_or_app; left; exact H1 | exact H2].
Qed.

Lemma claimed_set_pc : forall l g r0 x g',
  NoDup (map gg l) -> In r0 l -> gg r0 = g ->
  (In g' (claimed_of (upd_gor g (set_pc x) l)) <->
   (g' <> g /\ In g' (claimed_of l)) \/ (g' = g /\ x = Claimed)).
Proof.
  intros l g r0 x g' Hnd H0 Hg. rewrite !in_claimed. split.
  - intros [r' [H1 [H2 H3]]].
    destruct (upd_cases l g (set_pc x) r0 r' Hnd H0 Hg H1) as [[A B]|A].
    + left. split; [congruence|]. exists r'. auto.
    + right. subst r'. simpl in H3. unfold gg in H2. simpl in H2. split; [|exact H3].
      unfold gg in Hg. congruence.
  - intros [[Hne [r [H1 [H2 H3]]]]|[He Hx]].
    + exists r. split; [|auto]. apply upd_keeps; [exact H1 | congruence].
    + exists (set_pc x r0). split; [apply upd_image; assumption|]. simpl. split; [|exact Hx].
      unfold gg. simpl. unfold gg in Hg. congruence.
Qed.

Lemma r_init : R cinit ainit.
Proof. constructor; simpl; auto. intros g. tauto. Qed.

(** steps that only move a goroutine between states other than Claimed *)
Lemma r_set_pc_other : forall s a g r x,
  NoDup (map gg (cgors s)) -> R s a -> find_gor g (cgors s) = Some r ->
  gpc r <> Claimed -> x <> Claimed ->
  R (set_gors s (upd_gor g (set_pc x) (cgors s))) a.
Proof.
  intros s a g r x Hnd Hr Hf Hpc Hx. destruct Hr. apply find_gor_some in Hf. destruct Hf as [Hin Hg].
  constructor; simpl; auto.
  intros g'. rewrite (r_firing0 g'). rewrite !claimed_gens_of. simpl.
  rewrite (claimed_set_pc (cgors s) g r x g' Hnd Hin Hg). split.
  - intros H. left. split; [|exact H]. intros E. subst g'.
    apply in_claimed in H. destruct H as [r2 [A [B C]]].
    assert (r2 = r) as -> by (apply (gor_unique (cgors s) r2 r Hnd A Hin); congruence).
    exact (Hpc C).
  - intros [[_ H]|[_ H]]; [exact H | contradiction].
Qed.

Theorem sim_step : forall p s a l s',
  CInv p s -> R s a -> cstep p s l = Some s' ->
  exists a', aexec p a (abs_label p l) = Some a' /\ R s' a'.
Proof.
  intros p s a l s' I Hr H. pose proof Hr as Hr0. destruct Hr.
  pose proof (ci_gens p s I) as Hnd.
  destruct l as [v|g|g|g|g|g|g]; [destruct v as [t|g i d ok|i ok|g|ids|]| | | | | |]; simpl in H.
  - (* tick *)
    inversion H; subst. eexists. split; [simpl; reflexivity|].
    constructor; simpl; auto. rewrite r_clock0. reflexivity.
  - (* add *)
    destruct (memn g (map tg (cknown s))) eqn:Hm; [discriminate|].
    unfold abs_label. simpl. rewrite r_known0, Hm, r_map0.
    destruct (find_id i (cmap s)) as [old|] eqn:Hf.
    + destruct p; simpl.
      * destruct ok; [discriminate|]. inversion H; subst. exists a. split; [reflexivity | exact Hr0].
      * destruct ok; [|discriminate]. inversion H; subst. eexists. split; [reflexivity|].
        unfold a_accept, c_insert. constructor; simpl; try congruence.
        intros g'. rewrite (r_firing0 g'). rewrite !claimed_gens_of. simpl.
        rewrite claimed_snoc_waiting. rewrite claimed_close. tauto.
    + destruct ok; [|discriminate]. inversion H; subst. eexists. split; [reflexivity|].
      unfold a_accept, c_insert. constructor; simpl; try congruence.
      intros g'. rewrite (r_firing0 g'). rewrite !claimed_gens_of. simpl.
      rewrite claimed_snoc_waiting. tauto.
  - (* rem *)
    unfold c_rem in H. unfold abs_label. simpl. rewrite r_map0.
    destruct (find_id i (cmap s)) as [old|] eqn:Hf.
    + destruct ok; [|discriminate]. inversion H; subst. eexists. split; [reflexivity|].
      constructor; simpl; try congruence.
      intros g'. rewrite (r_firing0 g'). rewrite !claimed_gens_of. simpl.
      rewrite claimed_close. tauto.
    + destruct ok; [discriminate|]. inversion H; subst. exists a. split; [reflexivity | exact Hr0].
  - (* report *)
    unfold with_gor in H. destruct (find_gor g (cgors s)) as [r|] eqn:Hf; [|discriminate].
    pose proof (find_gor_some _ _ _ Hf) as [Hin Hg].
    destruct p.
    + (* mcrew: the claimed goroutine calls emit *)
      destruct (gpc r) eqn:Hpc; try discriminate. inversion H; subst.
      assert (Hfi : In (gg r) (afiring a)).
      { apply r_firing0. rewrite claimed_gens_of. apply in_claimed. exists r. auto. }
      simpl. apply memn_in in Hfi. rewrite Hfi. eexists. split; [reflexivity|].
      constructor; simpl; try congruence.
      intros g'. rewrite in_rmn. rewrite (r_firing0 g'). rewrite !claimed_gens_of. simpl.
      rewrite (claimed_set_pc (cgors s) (gg r) r Emitting g' Hnd Hin eq_refl). split.
      * intros [A B]. left. split; assumption.
      * intros [[A B]|[_ B]]; [split; assumption | discriminate].
    + (* sio: the crew loop claims and hands over in one step *)
      destruct (gpc r) eqn:Hpc; try discriminate.
      destruct (mine r (cmap s)) eqn:Hmine; [|discriminate]. inversion H; subst.
      pose proof (mine_true Sio s I r Hin Hmine) as Hmap.
      assert (Hnone : forall g', ~ In g' (claimed_gens s)).
      { intros g' Hc. rewrite claimed_gens_of in Hc. apply in_claimed in Hc.
        destruct Hc as [r2 [A [_ C]]]. exact (proj1 (proj2 (ci_sio Sio s I eq_refl) r2 A) C). }
      simpl. rewrite r_map0. unfold gg. rewrite (find_gen_entry Sio s I (gtm r) Hmap).
      rewrite r_clock0.
      assert (Hd : tdue (gtm r) <=? cclock s = true).
      { apply Z.leb_le. apply (ci_due Sio s I r Hin). left. exact Hpc. }
      rewrite Hd. simpl. rewrite Nat.eqb_refl. simpl. eexists. split; [reflexivity|].
      constructor; simpl; try congruence.
      * rewrite (rm_id_is_rm_gen Sio s I (gtm r) Hmap). reflexivity.
      * intros g'. rewrite in_rmn. rewrite (r_firing0 g').
        rewrite claimed_gens_of. simpl.
        rewrite (claimed_set_pc (cgors s) (tg (gtm r)) r Gone g' Hnd Hin eq_refl).
        rewrite <- claimed_gens_of. split.
        -- intros [A _]. exfalso. exact (Hnone g' A).
        -- intros [[_ A]|[_ A]]; [exfalso; exact (Hnone g' A) | discriminate].
  - (* snap *)
    unfold c_snap in H. simpl. rewrite r_map0.
    destruct (ids_eqb ids (map tid (cmap s))); [|discriminate]. inversion H; subst.
    exists a. split; [reflexivity | exact Hr0].
  - (* boot *)
    destruct p; [discriminate|]. inversion H; subst. simpl.
    assert (Hnil : afiring a = []).
    { destruct (afiring a) as [|g0 rest] eqn:E; [reflexivity|]. exfalso.
      assert (Hc : In g0 (claimed_gens s)) by (apply r_firing0; left; reflexivity).
      rewrite claimed_gens_of in Hc. apply in_claimed in Hc. destruct Hc as [r2 [A [_ C]]].
      exact (proj1 (proj2 (ci_sio Sio s I eq_refl) r2 A) C). }
    rewrite Hnil. exists a. split; [reflexivity|].
    destruct (ci_sio Sio s I eq_refl) as [Hsaved _].
    constructor; unfold c_boot; simpl; try congruence.
    intros g'. rewrite Hnil. split; [intros []|].
    intros Hc. apply in_claimed in Hc. destruct Hc as [r' [A [_ C]]].
    apply in_map_iff in A. destruct A as [r2 [A1 A2]]. subst r'.
    destruct (existsb (tm_eqb (gtm r2)) (csaved s)); simpl in C; discriminate.
  - (* timer.C *)
    unfold c_timerc, with_gor in H. destruct (find_gor g (cgors s)) as [r|] eqn:Hf; [|discriminate].
    destruct (gpc r) eqn:Hpc; try discriminate.
    destruct (tdue (gtm r) <=? cclock s); [|discriminate]. inversion H; subst.
    exists a. split; [reflexivity|].
    apply (r_set_pc_other s a g r Due Hnd Hr0 Hf); [rewrite Hpc|]; discriminate.
  - (* ctl *)
    unfold c_ctl, with_gor in H. destruct (find_gor g (cgors s)) as [r|] eqn:Hf; [|discriminate].
    destruct (gpc r) eqn:Hpc; try discriminate.
    destruct (gclosed r); [|discriminate]. inversion H; subst.
    exists a. split; [reflexivity|].
    apply (r_set_pc_other s a g r Gone Hnd Hr0 Hf); [rewrite Hpc|]; discriminate.
  - (* claim *)
    destruct p; [|discriminate].
    unfold with_gor in H. destruct (find_gor g (cgors s)) as [r|] eqn:Hf; [|discriminate].
    pose proof (find_gor_some _ _ _ Hf) as [Hin Hg].
    destruct (gpc r) eqn:Hpc; try discriminate.
    destruct (mine r (cmap s)) eqn:Hmine; [|discriminate]. inversion H; subst.
    pose proof (mine_true Mcrew s I r Hin Hmine) as Hmap.
    simpl. rewrite r_map0. unfold gg. rewrite (find_gen_entry Mcrew s I (gtm r) Hmap).
    rewrite r_clock0.
    assert (Hd : tdue (gtm r) <=? cclock s = true).
    { apply Z.leb_le. apply (ci_due Mcrew s I r Hin). left. exact Hpc. }
    rewrite Hd. eexists. split; [reflexivity|].
    constructor; simpl; try congruence.
    + rewrite (rm_id_is_rm_gen Mcrew s I (gtm r) Hmap). reflexivity.
    + intros g'. rewrite claimed_gens_of. simpl.
      rewrite (claimed_set_pc (cgors s) (tg (gtm r)) r Claimed g' Hnd Hin eq_refl).
      rewrite <- claimed_gens_of. rewrite <- (r_firing0 g'). split.
      * intros [A|A]; [right; split; [symmetry; exact A | reflexivity]|].
        destruct (Nat.eq_dec g' (tg (gtm r))) as [E|E]; [right; split; [exact E|reflexivity] | left; split; assumption].
      * intros [[_ A]|[A _]]; [right; exact A | left; symmetry; exact A].
  - (* skip *)
    unfold with_gor in H. destruct (find_gor g (cgors s)) as [r|] eqn:Hf; [|discriminate].
    destruct (gpc r) eqn:Hpc; try discriminate.
    destruct (mine r (cmap s)); [discriminate|]. inversion H; subst.
    exists a. split; [reflexivity|].
    apply (r_set_pc_other s a g r Gone Hnd Hr0 Hf); [rewrite Hpc|]; discriminate.
  - (* emit returns *)
    destruct p; [|discriminate].
    unfold with_gor in H. destruct (find_gor g (cgors s)) as [r|] eqn:Hf; [|discriminate].
    destruct (gpc r) eqn:Hpc; try discriminate. inversion H; subst.
    exists a. split; [reflexivity|].
    apply (r_set_pc_other s a g r Gone Hnd Hr0 Hf); [rewrite Hpc|]; discriminate.
  - discriminate.
Qed.

Lemma aexec_app : forall p t1 t2 a a1,
  aexec p a t1 = Some a1 -> aexec p a (t1 ++ t2) = aexec p a1 t2.
Proof.
  intros p t1. induction t1 as [|l r IH]; simpl; intros t2 a a1 H.
  - inversion H; subst. reflexivity.
  - destruct (astep p a l) as [a'|]; [|discriminate]. apply IH. exact H.
Qed.

(** the abstract run of a run of the model *)
Definition abs_trace (p : impl) (tr : list clabel) : list alabel := flat_map (abs_label p) tr.

Theorem refinement : forall p tr s a s',
  CInv p s -> R s a -> cexec p s tr = Some s' ->
  exists a', aexec p a (abs_trace p tr) = Some a' /\ R s' a'.
Proof.
  intros p tr. induction tr as [|l r IH]; simpl; intros s a s' I Hr H.
  - inversion H; subst. exists a. split; [reflexivity | exact Hr].
  - destruct (cstep p s l) as [s1|] eqn:Hs; [|discriminate].
    destruct (sim_step p s a l s1 I Hr Hs) as [a1 [E1 R1]].
    destruct (IH s1 a1 s' (cinv_step p s l s1 I Hs) R1 H) as [a' [E2 R2]].
    exists a'. split; [|exact R2].
    rewrite (aexec_app p _ _ a a1 E1). exact E2.
Qed.

Theorem refinement_init : forall p tr s,
  cexec p cinit tr = Some s ->
  exists a, aexec p ainit (abs_trace p tr) = Some a /\ R s a /\ AInv a /\ CInv p s.
Proof.
  intros p tr s H.
  destruct (refinement p tr cinit ainit s (cinv_init p) r_init H) as [a [E Hr]].
  exists a. split; [exact E|]. split; [exact Hr|]. split.
  - apply (ainv_exec p _ ainit a ainv_init E).
  - apply (cinv_reachable p tr s H).
Qed.

(** * C17 for the models, in every reachable state *)
Section Reachable.
  Variable p : impl.
  Variable tr : list clabel.
  Variable s : cstate.
  Hypothesis Hreach : cexec p cinit tr = Some s.

  Theorem model_at_most_once : c_at_most_once s.
  Proof.
    destruct (refinement_init p tr s Hreach) as [a [_ [Hr [Ia _]]]].
    unfold c_at_most_once. rewrite <- (r_fired s a Hr). exact (spec_at_most_once a Ia).
  Qed.

  Theorem model_never_early : c_never_early s.
  Proof.
    destruct (refinement_init p tr s Hreach) as [a [_ [Hr [Ia _]]]].
    unfold c_never_early. rewrite <- (r_fired s a Hr), <- (r_known s a Hr). exact (spec_never_early a Ia).
  Qed.

  Theorem model_not_after_cancel : c_not_after_cancel s.
  Proof.
    destruct (refinement_init p tr s Hreach) as [a [_ [Hr [Ia _]]]].
    intros g Hg. rewrite <- (r_canc s a Hr) in Hg.
    destruct (spec_not_after_cancel a Ia g Hg) as [A B]. split.
    - rewrite <- (r_fired s a Hr). exact A.
    - intros Hc. apply B. apply (r_firing s a Hr). exact Hc.
  Qed.

  Theorem model_map_is_pending : c_map_is_pending s.
  Proof.
    destruct (refinement_init p tr s Hreach) as [a [_ [Hr [Ia _]]]].
    intros e. pose proof (spec_pending_exact a Ia e) as H.
    rewrite (r_map s a Hr), (r_known s a Hr), (r_canc s a Hr), (r_fired s a Hr) in H.
    rewrite H. split; intros [A [B [C D]]]; repeat split; auto; intros X; apply C; apply (r_firing s a Hr); exact X.
  Qed.

  Theorem model_ids_unique : st_ids_unique (cmap s).
  Proof. exact (ci_ids p s (cinv_reachable p tr s Hreach)). Qed.
End Reachable.
