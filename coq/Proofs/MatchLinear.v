(** Exactness, the half decidable per result: for a linear plain pattern
    (each non-anonymous variable occurs once) and no initial bindings every
    returned binding set is an embedding whose domain is exactly the
    pattern's variables. *)
From Sheens Require Export Proofs.MatchComplete.
From Coq Require Import Lia.

(** * Lists *)
Lemma existsb_ext_in : forall (A : Type) (f g : A -> bool) l,
  (forall x, In x l -> f x = g x) -> existsb f l = existsb g l.
Proof.
  intros A f g l; induction l as [|x l IH]; intros H; [reflexivity|].
  cbn [existsb]. rewrite (H x (or_introl eq_refl)), IH; [reflexivity|].
  intros y Hy; apply H; right; exact Hy.
Qed.

Lemma forallb_ext_in : forall (A : Type) (f g : A -> bool) l,
  (forall x, In x l -> f x = g x) -> forallb f l = forallb g l.
Proof.
  intros A f g l; induction l as [|x l IH]; intros H; [reflexivity|].
  cbn [forallb]. rewrite (H x (or_introl eq_refl)), IH; [reflexivity|].
  intros y Hy; apply H; right; exact Hy.
Qed.

Lemma inj_assign_ext_in : forall (A : Type) (P Q : A -> json -> bool) skip xs fa,
  (forall x, In x xs -> forall y, P x y = Q x y) ->
  inj_assign P skip xs fa = inj_assign Q skip xs fa.
Proof.
  intros A P Q skip xs; induction xs as [|x xs IH]; intros fa H; [reflexivity|].
  cbn [inj_assign].
  assert (Hr : forall fa', inj_assign P skip xs fa' = inj_assign Q skip xs fa')
    by (intros fa'; apply IH; intros x' Hx'; apply H; right; exact Hx').
  rewrite Hr. destruct (skip x); [reflexivity|].
  apply existsb_ext_in. intros [y rest] _. cbn [fst snd].
  rewrite (H x (or_introl eq_refl)), Hr. reflexivity.
Qed.

(** from pairwise distinct positions back to an injective assignment *)
Section InjAssignOfIdx.
  Context {A : Type}.
  Variable P : A -> json -> bool.

  Lemma inj_assign_of_idx : forall (xs : list A) (l ws : list ijson),
    NoDup (map fst l) ->
    Forall2 (fun x w => P x (snd w) = true) xs ws ->
    NoDup (map fst ws) -> incl ws l ->
    inj_assign P (fun _ => false) xs (map snd l) = true.
  Proof.
    induction xs as [|x xs IH]; intros l ws Hnd HF Hnw Hinc; [reflexivity|].
    inversion HF as [|x0 w xs0 ws' HP HF']; subst.
    cbn [inj_assign]. apply existsb_exists.
    assert (Hw : In w l) by (apply Hinc; left; reflexivity).
    destruct (picks_complete _ l w Hw) as [r Hr].
    exists (snd w, map snd r). split.
    - rewrite picks_map. apply in_map_iff. exists (w, r). split; [reflexivity | exact Hr].
    - cbn [fst snd]. rewrite HP. cbn [andb].
      pose proof (picks_perm _ _ _ _ Hr) as Hperm.
      cbn [map] in Hnw. inversion Hnw as [|a b Hnotin Hnw']; subst.
      apply (IH r ws').
      + assert (Hnd' : NoDup (map fst (w :: r))).
        { eapply Permutation_NoDup; [|exact Hnd]. apply Permutation_map. apply Permutation_sym; exact Hperm. }
        cbn [map] in Hnd'. inversion Hnd'; assumption.
      + exact HF'.
      + exact Hnw'.
      + intros w' Hw'. assert (Hin : In w' (w :: r)).
        { eapply Permutation_in; [apply Permutation_sym; exact Hperm | apply Hinc; right; exact Hw']. }
        destruct Hin as [<-|Hin]; [|exact Hin].
        exfalso. apply Hnotin. apply in_map. exact Hw'.
  Qed.
End InjAssignOfIdx.

Lemma NoDup_fst_of_incl : forall (l ws : list ijson),
  NoDup (map fst l) -> NoDup ws -> incl ws l -> NoDup (map fst ws).
Proof.
  intros l ws Hnd; induction ws as [|w ws IH]; intros Hnw Hinc; [constructor|].
  inversion Hnw as [|a b Hnotin Hnw']; subst. cbn [map]. constructor.
  - intros Hc. apply in_map_iff in Hc. destruct Hc as [w' [Hf Hw']].
    assert (w' = w); [|subst; contradiction].
    assert (H1 : In w' l) by (apply Hinc; right; exact Hw').
    assert (H2 : In w l) by (apply Hinc; left; reflexivity).
    clear - Hnd Hf H1 H2. induction l as [|e l IHl]; [contradiction|].
    cbn [map] in Hnd. inversion Hnd as [|a b Hn Hnd']; subst.
    destruct H1 as [->|H1]; destruct H2 as [->|H2].
    + reflexivity.
    + exfalso. apply Hn. rewrite Hf. apply in_map; exact H2.
    + exfalso. apply Hn. rewrite <- Hf. apply in_map; exact H1.
    + auto.
  - apply IH; [exact Hnw' | intros w' Hw'; apply Hinc; right; exact Hw'].
Qed.

(** * Bindings *)
Lemma lookup_bset : forall k s v bs,
  lookup k (bset s v bs) = if String.eqb k s then Some v else lookup k bs.
Proof.
  intros k s v bs; induction bs as [|[k' v'] r IH]; cbn [bset lookup]; [reflexivity|].
  destruct (String.compare s k') eqn:Ec; cbn [lookup].
  - apply String.compare_eq_iff in Ec; subst k'. destruct (String.eqb k s); reflexivity.
  - reflexivity.
  - rewrite IH. destruct (String.eqb k k') eqn:E1; [|reflexivity].
    apply String.eqb_eq in E1; subst k'.
    destruct (String.eqb k s) eqn:E2; [|reflexivity].
    apply String.eqb_eq in E2; subst s. rewrite string_compare_refl in Ec. discriminate.
Qed.

Lemma In_map_fst_lookup : forall k (bs : bindings), In k (map fst bs) <-> lookup k bs <> None.
Proof.
  intros k bs; induction bs as [|[k' v] r IH]; cbn [map fst lookup In].
  - split; [intros [] | intros H; apply H; reflexivity].
  - destruct (String.eqb k k') eqn:E.
    + apply String.eqb_eq in E; subst. split; [discriminate | auto].
    + apply String.eqb_neq in E. rewrite <- IH. split; [intros [Heq|H]; [congruence | exact H] | auto].
Qed.

(** * Optional variables are variables *)
Lemma is_optional_is_var : forall s, is_optional s = true -> is_var s = true.
Proof.
  intros s H. unfold is_optional, is_var, opt_sigil, var_sigil in *.
  destruct s as [|a s]; cbn [String.prefix] in *; [discriminate|].
  destruct (ascii_dec "?" a); [|discriminate]. destruct s; reflexivity.
Qed.

Lemma aplain_not_optional : forall v, aplain v -> is_optional_json v = false.
Proof.
  intros v H. destruct v as [| | | s | |]; try reflexivity. cbn [is_optional_json].
  destruct (is_optional s) eqn:E; [|reflexivity].
  pose proof (is_optional_is_var s E) as Hv.
  specialize (H s). cbn [pvars] in H. rewrite Hv in H. specialize (H (or_introl eq_refl)).
  apply orb_true_iff in H. destruct H as [H|H].
  - rewrite (is_anon_not_optional s H) in E. discriminate.
  - unfold is_plain_var in H. rewrite E in H. rewrite andb_false_r in H. discriminate.
Qed.

(** * Linearity, frames *)
Definition nvl (vs : list string) (k : string) : Prop := In k vs /\ is_anon k = false.

Lemma nvl_dec : forall vs k, nvl vs k \/ ~ nvl vs k.
Proof.
  intros vs k. unfold nvl. destruct (in_dec string_dec k vs) as [Hi|Hi]; [|right; tauto].
  destruct (is_anon k); [right; intros [_ H]; discriminate | left; auto].
Qed.

Lemma nvl_app : forall a b k, nvl (a ++ b) k <-> nvl a k \/ nvl b k.
Proof. intros a b k; unfold nvl; rewrite in_app_iff; tauto. Qed.

Definition lin (vs : list string) : Prop :=
  forall v, In v vs -> is_anon v = false -> count_occ_str v vs = 1.

Lemma lin_app_l : forall a b, lin (a ++ b) -> lin a.
Proof.
  intros a b H v Hin Ha. specialize (H v (in_or_app _ _ _ (or_introl Hin)) Ha).
  rewrite count_occ_str_app in H. pose proof (count_occ_str_in v a Hin). lia.
Qed.

Lemma lin_app_r : forall a b, lin (a ++ b) -> lin b.
Proof.
  intros a b H v Hin Ha. specialize (H v (in_or_app _ _ _ (or_intror Hin)) Ha).
  rewrite count_occ_str_app in H. pose proof (count_occ_str_in v b Hin). lia.
Qed.

Lemma lin_app_disj : forall a b k, lin (a ++ b) -> nvl a k -> nvl b k -> False.
Proof.
  intros a b k H [Ha Hk] [Hb _]. specialize (H k (in_or_app _ _ _ (or_introl Ha)) Hk).
  rewrite count_occ_str_app in H.
  pose proof (count_occ_str_in k a Ha). pose proof (count_occ_str_in k b Hb). lia.
Qed.

Lemma lin_perm : forall a b, Permutation a b -> lin a -> lin b.
Proof.
  intros a b Hp H v Hin Ha. rewrite <- (count_occ_str_perm v a b Hp). apply H; [|exact Ha].
  eapply Permutation_in; [apply Permutation_sym; exact Hp | exact Hin].
Qed.

Lemma linear_lin : forall p, linear p = true -> lin (pvars p).
Proof.
  intros p H v Hin Ha. unfold linear in H. rewrite forallb_forall in H. specialize (H v Hin).
  rewrite Ha in H. cbn [orb] in H. apply Nat.eqb_eq in H. exact H.
Qed.

(** nothing of [vs] is bound yet *)
Definition pre (bs : bindings) (vs : list string) : Prop :=
  forall k, nvl vs k -> lookup k bs = None.

(** [bs'] is [bs] plus bindings for exactly the variables [vs] *)
Definition Inv (bs : bindings) (vs : list string) (bs' : bindings) : Prop :=
  (forall k, ~ nvl vs k -> lookup k bs' = lookup k bs) /\
  (forall k, nvl vs k -> lookup k bs' <> None).

Lemma Inv_nil : forall bs, Inv bs [] bs.
Proof. intros bs; split; [reflexivity | intros k [[] _]]. Qed.

Lemma Inv_trans : forall bs A bs1 B bs2, Inv bs A bs1 -> Inv bs1 B bs2 -> Inv bs (B ++ A) bs2.
Proof.
  intros bs A bs1 B bs2 [F1 D1] [F2 D2]. split.
  - intros k Hk. rewrite nvl_app in Hk. rewrite F2, F1; tauto.
  - intros k Hk. destruct (nvl_dec B k) as [HB|HB]; [apply D2; exact HB|].
    rewrite F2; [|exact HB]. apply D1. rewrite nvl_app in Hk. tauto.
Qed.

Lemma Inv_eqv : forall bs A B bs', eqv A B -> Inv bs A bs' -> Inv bs B bs'.
Proof.
  intros bs A B bs' He [F D]. split.
  - intros k Hk. apply F. intros [Hi Ha]. apply Hk. split; [apply He; exact Hi | exact Ha].
  - intros k [Hi Ha]. apply D. split; [apply He; exact Hi | exact Ha].
Qed.

Lemma pre_Inv : forall bs A bs1 B, pre bs B -> Inv bs A bs1 ->
  (forall k, nvl A k -> nvl B k -> False) -> pre bs1 B.
Proof.
  intros bs A bs1 B Hp [F _] Hd k Hk. rewrite F; [apply Hp; exact Hk|]. intros HA; eapply Hd; eauto.
Qed.

(** * [embeds] only looks at the pattern's variables *)
Lemma embeds_agree : forall p f bs1 bs2,
  (forall k, nvl (pvars p) k -> lookup k bs2 = lookup k bs1) ->
  embeds bs2 p f = embeds bs1 p f.
Proof.
  induction p as [| b | z | s | xs IH | kvs IH] using json_ind'; intros f bs1 bs2 H; try reflexivity.
  - cbn [embeds]. destruct (is_var s) eqn:Es; [|reflexivity].
    unfold var_embeds. destruct (is_anon s) eqn:Ea; [reflexivity|].
    rewrite (H s); [reflexivity|]. split; [cbn [pvars]; rewrite Es; left; reflexivity | exact Ea].
  - cbn [embeds]. destruct f as [| | | | fa |]; try reflexivity.
    apply inj_assign_ext_in. intros x Hx y. rewrite Forall_forall in IH. apply (IH x Hx).
    intros k [Hk Ha]. apply H. split; [eapply pvars_arr_in; eauto | exact Ha].
  - destruct f as [| | | | | fkvs]; try reflexivity.
    rewrite Forall_forall in IH.
    assert (Hsub : forall k q y, In (k, q) kvs -> embeds bs2 q y = embeds bs1 q y).
    { intros k q y Hin. apply (IH (k, q) Hin). intros k' [Hk' Ha]. apply H.
      split; [eapply pvars_obj_in; eauto | exact Ha]. }
    assert (Hall :
              forallb (fun kv : string * json =>
                         negb (is_var (fst kv)) &&
                         match assoc (fst kv) fkvs with
                         | Some y => embeds bs2 (snd kv) y
                         | None => false
                         end) kvs =
              forallb (fun kv : string * json =>
                         negb (is_var (fst kv)) &&
                         match assoc (fst kv) fkvs with
                         | Some y => embeds bs1 (snd kv) y
                         | None => false
                         end) kvs).
    { apply forallb_ext_in. intros [k q] Hin. cbn [fst snd].
      destruct (assoc k fkvs) as [y|]; [|reflexivity]. rewrite (Hsub k q y Hin). reflexivity. }
    rewrite !embeds_obj_eq. destruct kvs as [|[k q] [|kv2 r]]; try exact Hall.
    destruct (is_var k) eqn:Ek.
    + apply existsb_ext_in. intros [fk fv] _. cbn [fst snd].
      rewrite (Hsub k q fv (or_introl eq_refl)). f_equal.
      unfold var_embeds. destruct (is_anon k) eqn:Ea; [reflexivity|].
      rewrite (H k); [reflexivity|]. split; [|exact Ea].
      eapply pvars_obj_key; [left; reflexivity | exact Ek].
    + destruct (assoc k fkvs) as [y|]; [|reflexivity]. apply (Hsub k q y (or_introl eq_refl)).
Qed.

Lemma embeds_transport : forall p f bs1 B bs2,
  embeds bs1 p f = true -> Inv bs1 B bs2 ->
  (forall k, nvl (pvars p) k -> nvl B k -> False) ->
  embeds bs2 p f = true.
Proof.
  intros p f bs1 B bs2 He [F _] Hd. rewrite (embeds_agree p f bs1 bs2); [exact He|].
  intros k Hk. apply F. intros HB. eapply Hd; eauto.
Qed.

(** * More about the indexing of an array *)
Lemma index_facts_fxa_inv : forall fa i fxs fxa, index_facts i fa = (fxs, fxa) ->
  forall e, In e fxa -> In e (number_from i fa) /\ is_scalar (snd e) = false.
Proof.
  induction fa as [|y r IH]; intros i fxs fxa H e He; cbn [index_facts] in H.
  - inversion H; subst. contradiction.
  - destruct (index_facts (S i) r) as [fxs0 fxa0] eqn:E. cbn [number_from].
    destruct (is_scalar y) eqn:Ey; inversion H; subst.
    + destruct (IH _ _ _ E e He) as [H1 H2]. split; [right; exact H1 | exact H2].
    + destruct He as [<-|He]; [split; [left; reflexivity | exact Ey]|].
      destruct (IH _ _ _ E e He) as [H1 H2]. split; [right; exact H1 | exact H2].
Qed.

Lemma index_facts_fxs_inv : forall fa i fxs fxa, index_facts i fa = (fxs, fxa) ->
  forall y, In y fxs -> In y fa /\ is_scalar y = true.
Proof.
  induction fa as [|x r IH]; intros i fxs fxa H y Hy; cbn [index_facts] in H.
  - inversion H; subst. contradiction.
  - destruct (index_facts (S i) r) as [fxs0 fxa0] eqn:E.
    destruct (is_scalar x) eqn:Ex; inversion H; subst.
    + destruct (jmem x fxs0).
      * destruct (IH _ _ _ E y Hy) as [H1 H2]. split; [right; exact H1 | exact H2].
      * destruct Hy as [<-|Hy]; [split; [left; reflexivity | exact Ex]|].
        destruct (IH _ _ _ E y Hy) as [H1 H2]. split; [right; exact H1 | exact H2].
    + destruct (IH _ _ _ E y Hy) as [H1 H2]. split; [right; exact H1 | exact H2].
Qed.

Lemma scalar_embeds_refl : forall bs c,
  is_scalar c = true -> is_var_json c = false -> embeds bs c c = true.
Proof.
  intros bs c Hs Hv. destruct c as [| b | z | s | |]; try discriminate; cbn [embeds].
  - reflexivity.
  - apply Bool.eqb_reflx.
  - apply Z.eqb_refl.
  - cbn [is_var_json] in Hv. rewrite Hv. apply String.eqb_refl.
Qed.

Section Sound.
  Variable ord : order_oracle.
  Hypothesis Hord : perm_oracle ord.

  Section WithRec.
    Variable rec : rec_t.
    Definition rec_snd : Prop :=
      forall p f bs r bs', rec p f bs = Ok r -> In bs' r ->
                           aplain p -> lin (pvars p) -> pre bs (pvars p) ->
                           Inv bs (pvars p) bs' /\ embeds bs' p f = true.
    Hypothesis Hrec : rec_snd.

    Lemma mwb_inv : forall bss p f r bs', mwb rec bss p f = Ok r -> In bs' r ->
      exists bs a, In bs bss /\ rec p f bs = Ok a /\ In bs' a.
    Proof.
      induction bss as [|b0 bss IH]; intros p f r bs' H Hin; cbn [mwb] in H.
      - inversion H; subst. contradiction.
      - destruct (rec p f b0) as [a| |] eqn:E1; try discriminate.
        destruct (mwb rec bss p f) as [b| |] eqn:E2; try discriminate.
        inversion H; subst. apply in_app_or in Hin. destruct Hin as [Hin|Hin].
        + exists b0, a. split; [left; reflexivity | split; assumption].
        + destruct (IH p f b bs' E2 Hin) as [bs [a' [H1 [H2 H3]]]].
          exists bs, a'. split; [right; exact H1 | split; assumption].
    Qed.

    Lemma mwb_snd : forall bss p f r bs', mwb rec bss p f = Ok r -> In bs' r ->
      aplain p -> lin (pvars p) -> (forall bs, In bs bss -> pre bs (pvars p)) ->
      exists bs, In bs bss /\ Inv bs (pvars p) bs' /\ embeds bs' p f = true.
    Proof.
      intros bss p f r bs' H Hin Hp Hl Hpre.
      destruct (mwb_inv bss p f r bs' H Hin) as [bs [a [H1 [H2 H3]]]].
      exists bs. split; [exact H1|]. eapply Hrec; eauto.
    Qed.

    (** ** objects *)
    Lemma mapcat_snd : forall kvs bss fkvs r bs2,
      mapcat rec bss kvs fkvs = Ok r -> In bs2 r ->
      (forall k v, In (k, v) kvs -> is_var k = false /\ aplain v) ->
      lin (pvars (JObj kvs)) ->
      (forall bs, In bs bss -> pre bs (pvars (JObj kvs))) ->
      exists bs1, In bs1 bss /\ Inv bs1 (pvars (JObj kvs)) bs2 /\
        forall k v, In (k, v) kvs -> exists y, assoc k fkvs = Some y /\ embeds bs2 v y = true.
    Proof.
      induction kvs as [|[k v] kvs IH]; intros bss fkvs r bs2 H Hin Hpl Hl Hpre; cbn [mapcat] in H.
      - inversion H; subst. exists bs2. split; [exact Hin|]. split; [apply Inv_nil | intros k v []].
      - rewrite pvars_obj_cons in Hl, Hpre |- *.
        destruct (Hpl k v (or_introl eq_refl)) as [Hk Hpv]. rewrite Hk in Hl, Hpre |- *.
        cbn [app] in Hl, Hpre |- *.
        assert (Hlv : lin (pvars v)) by (eapply lin_app_l; exact Hl).
        assert (Hlr : lin (pvars (JObj kvs))) by (eapply lin_app_r; exact Hl).
        destruct (assoc k fkvs) as [fv|] eqn:Ea.
        + destruct (mwb rec bss v fv) as [acc| |] eqn:E1; try discriminate.
          assert (Hacc : mapcat rec acc kvs fkvs = Ok r).
          { destruct acc; [|exact H]. inversion H; subst. contradiction. }
          assert (Hmid : forall bsm, In bsm acc ->
                     exists bs1, In bs1 bss /\ Inv bs1 (pvars v) bsm /\ embeds bsm v fv = true).
          { intros bsm Hbsm. eapply mwb_snd; eauto.
            intros bs Hbs k' Hk'. apply (Hpre bs Hbs). apply nvl_app; left. exact Hk'. }
          destruct (IH acc fkvs r bs2 Hacc Hin (fun k' v' Hi => Hpl k' v' (or_intror Hi)) Hlr)
            as [bsm [Hbsm [Hinv2 Hemb2]]].
          { intros bsm Hbsm. destruct (Hmid bsm Hbsm) as [bs1 [Hbs1 [Hinv1 _]]].
            eapply pre_Inv; [|exact Hinv1|].
            - intros k' Hk'. apply (Hpre bs1 Hbs1). apply nvl_app; right; exact Hk'.
            - intros k' H1 H2. eapply (lin_app_disj _ _ k' Hl); [exact H1 | exact H2]. }
          destruct (Hmid bsm Hbsm) as [bs1 [Hbs1 [Hinv1 Hemb1]]].
          exists bs1. split; [exact Hbs1|]. split.
          * pose proof (Inv_trans _ _ _ _ _ Hinv1 Hinv2) as Hi.
            eapply Inv_eqv; [|exact Hi]. intros s. rewrite !in_app_iff. tauto.
          * intros k' v' [Heq|Hi'].
            -- inversion Heq; subst k' v'. exists fv. split; [exact Ea|].
               eapply embeds_transport; [exact Hemb1 | exact Hinv2 |].
               intros k' H1 H2. eapply (lin_app_disj _ _ k' Hl); [exact H1 | exact H2].
            -- apply Hemb2; exact Hi'.
        + rewrite (aplain_not_optional v Hpv) in H. inversion H; subst. contradiction.
    Qed.

    Lemma propvar_loop_snd : forall fkvs bss k v r bs2,
      propvar_loop rec bss k v fkvs = Ok r -> In bs2 r ->
      is_var k = true -> aplain (JStr k) -> aplain v ->
      lin (k :: pvars v) ->
      (forall bs, In bs bss -> pre bs (k :: pvars v)) ->
      exists bs1 fk fv, In bs1 bss /\ In (fk, fv) fkvs /\ Inv bs1 (k :: pvars v) bs2 /\
        var_embeds bs2 k (JStr fk) = true /\ embeds bs2 v fv = true.
    Proof.
      induction fkvs as [|[fk0 fv0] fkvs IH]; intros bss k v r bs2 H Hin Hk Hpk Hpv Hl Hpre;
        cbn [propvar_loop] in H.
      - inversion H; subst. contradiction.
      - assert (Hpk' : pvars (JStr k) = [k]) by (cbn [pvars]; rewrite Hk; reflexivity).
        assert (Htail : forall r', propvar_loop rec bss k v fkvs = Ok r' -> In bs2 r' ->
                   exists bs1 fk fv, In bs1 bss /\ In (fk, fv) ((fk0, fv0) :: fkvs) /\
                     Inv bs1 (k :: pvars v) bs2 /\
                     var_embeds bs2 k (JStr fk) = true /\ embeds bs2 v fv = true).
        { intros r' Hr' Hin'. destruct (IH bss k v r' bs2 Hr' Hin' Hk Hpk Hpv Hl Hpre)
            as [bs1 [fk [fv [H1 [H2 H3]]]]].
          exists bs1, fk, fv. split; [exact H1|]. split; [right; exact H2 | exact H3]. }
        destruct (mwb rec bss (JStr k) (JStr fk0)) as [ext| |] eqn:E1; try discriminate.
        destruct ext as [|e0 ext]; [apply (Htail r H Hin)|].
        destruct (mwb rec (e0 :: ext) v fv0) as [ext2| |] eqn:E2; try discriminate.
        destruct (propvar_loop rec bss k v fkvs) as [g| |] eqn:E3; try discriminate.
        inversion H; subst. apply in_app_or in Hin. destruct Hin as [Hin|Hin]; [|apply (Htail g eq_refl Hin)].
        assert (Hmid : forall bsm, In bsm (e0 :: ext) ->
                   exists bs1, In bs1 bss /\ Inv bs1 [k] bsm /\ embeds bsm (JStr k) (JStr fk0) = true).
        { intros bsm Hbsm. rewrite <- Hpk'. eapply mwb_snd; eauto.
          - rewrite Hpk'. apply (lin_app_l [k] (pvars v)). exact Hl.
          - intros bs Hbs k' Hk'. rewrite Hpk' in Hk'. apply (Hpre bs Hbs).
            apply (nvl_app [k] (pvars v)). left; exact Hk'. }
        destruct (mwb_snd (e0 :: ext) v fv0 ext2 bs2 E2 Hin Hpv (lin_app_r [k] _ Hl)) as [bsm [Hbsm [Hinv2 Hemb2]]].
        { intros bsm Hbsm. destruct (Hmid bsm Hbsm) as [bs1 [Hbs1 [Hinv1 _]]].
          eapply pre_Inv; [|exact Hinv1|].
          - intros k' Hk'. apply (Hpre bs1 Hbs1). apply (nvl_app [k] (pvars v)). right; exact Hk'.
          - intros k' H1 H2. eapply (lin_app_disj [k] (pvars v) k' Hl); [exact H1 | exact H2]. }
        destruct (Hmid bsm Hbsm) as [bs1 [Hbs1 [Hinv1 Hemb1]]].
        exists bs1, fk0, fv0. split; [exact Hbs1|]. split; [left; reflexivity|]. split; [|split; [|exact Hemb2]].
        + pose proof (Inv_trans _ _ _ _ _ Hinv1 Hinv2) as Hi.
          eapply Inv_eqv; [|exact Hi]. intros s. cbn [In]. rewrite !in_app_iff. cbn [In]. tauto.
        + assert (He : embeds bs2 (JStr k) (JStr fk0) = true).
          { eapply embeds_transport; [exact Hemb1 | exact Hinv2 |].
            intros k' H1 H2. rewrite Hpk' in H1.
            eapply (lin_app_disj [k] (pvars v) k' Hl); [exact H1 | exact H2]. }
          cbn [embeds] in He. rewrite Hk in He. exact He.
    Qed.

    Lemma match_obj_snd : forall kvs fkvs bs r bs2,
      match_obj ord rec bs kvs fkvs = Ok r -> In bs2 r ->
      aplain (JObj kvs) -> lin (pvars (JObj kvs)) -> pre bs (pvars (JObj kvs)) ->
      Inv bs (pvars (JObj kvs)) bs2 /\ embeds bs2 (JObj kvs) (JObj fkvs) = true.
    Proof.
      intros kvs fkvs bs r bs2 H Hin Hp Hl Hpre.
      assert (Hpre1 : forall V, pre bs V -> forall b, In b [bs] -> pre b V)
        by (intros V HV b [<-|[]]; exact HV).
      (* the constant-key case, for any reordering of the entries *)
      assert (Hgen : forall kvs', Permutation kvs' kvs -> has_var_key kvs = false ->
                 mapcat rec [bs] kvs' fkvs = Ok r ->
                 Inv bs (pvars (JObj kvs)) bs2 /\
                 forallb (fun kv : string * json =>
                            negb (is_var (fst kv)) &&
                            match assoc (fst kv) fkvs with
                            | Some y => embeds bs2 (snd kv) y
                            | None => false
                            end) kvs = true).
      { intros kvs' Hperm Hnv Hm.
        assert (Hpp : Permutation (pvars (JObj kvs')) (pvars (JObj kvs)))
          by (cbn [pvars]; apply Permutation_flat_map; exact Hperm).
        assert (Hkey : forall k v, In (k, v) kvs -> is_var k = false).
        { intros k v Hi. unfold has_var_key in Hnv.
          destruct (is_var k) eqn:Ek; [|reflexivity].
          assert (Hex : existsb (fun kv : string * json => is_var (fst kv)) kvs = true)
            by (apply existsb_exists; exists (k, v); split; [exact Hi | exact Ek]).
          congruence. }
        destruct (mapcat_snd kvs' [bs] fkvs r bs2 Hm Hin) as [bs1 [Hbs1 [Hinv Hemb]]].
        - intros k v Hi. apply (Permutation_in _ Hperm) in Hi.
          split; [eapply Hkey; eauto | eapply aplain_obj_in; eauto].
        - eapply lin_perm; [apply Permutation_sym; exact Hpp | exact Hl].
        - apply Hpre1. intros k [Hk Ha]. apply Hpre. split; [|exact Ha].
          eapply Permutation_in; [exact Hpp | exact Hk].
        - destruct Hbs1 as [<-|[]]. split.
          + eapply Inv_eqv; [|exact Hinv]. intros s. split; apply Permutation_in; [|apply Permutation_sym]; exact Hpp.
          + apply forallb_forall. intros [k v] Hi. cbn [fst snd].
            rewrite (Hkey k v Hi). cbn [negb]. rewrite Bool.andb_true_l.
            destruct (Hemb k v (Permutation_in _ (Permutation_sym Hperm) Hi)) as [y [Ey Hy]].
            rewrite Ey. exact Hy. }
      rewrite embeds_obj_eq. unfold match_obj in H. destruct kvs as [|[k v] [|kv2 kvs]].
      - inversion H; subst. destruct Hin as [<-|[]]. split; [apply Inv_nil | reflexivity].
      - destruct (is_var k) eqn:Ek.
        + rewrite allow_property_variables_true in H. unfold propvar in H.
          rewrite pvars_obj_cons, Ek in Hl, Hpre |- *. cbn [pvars flat_map] in Hl, Hpre |- *.
          rewrite app_nil_r in Hl, Hpre |- *. cbn [app] in Hl, Hpre |- *.
          destruct (propvar_loop_snd _ _ _ _ _ _ H Hin Ek) as [bs1 [fk [fv [Hbs1 [Hfin [Hinv [He1 He2]]]]]]].
          * intros s Hs. apply Hp. cbn [pvars] in Hs. rewrite Ek in Hs. destruct Hs as [<-|[]].
            eapply pvars_obj_key; [left; reflexivity | exact Ek].
          * eapply aplain_obj_in; [exact Hp | left; reflexivity].
          * exact Hl.
          * apply Hpre1; exact Hpre.
          * destruct Hbs1 as [<-|[]]. split; [exact Hinv|].
            apply existsb_exists. exists (fk, fv). split.
            -- eapply Permutation_in; [apply Hord | exact Hfin].
            -- cbn [fst snd]. rewrite He1, He2. reflexivity.
        + destruct (Hgen [(k, v)] (Permutation_refl _)) as [Hinv Hall]; [|exact H|].
          * unfold has_var_key. cbn [existsb fst]. rewrite Ek. reflexivity.
          * split; [exact Hinv|]. cbn [forallb fst snd] in Hall. rewrite Ek, andb_true_r in Hall.
            cbn [negb] in Hall. rewrite Bool.andb_true_l in Hall. exact Hall.
      - destruct (has_var_key ((k, v) :: kv2 :: kvs)) eqn:Eh;
          [rewrite andb_true_r in H; destruct check_bad_property_variables; discriminate|].
        rewrite andb_false_r in H.
        apply (Hgen _ (sort_kvs_perm _) eq_refl H).
    Qed.

    (** ** arrays *)
    Lemma try_each_inv : forall mm bss x mm_all r acc mm',
      try_each rec bss x mm_all mm = Ok r -> In (acc, mm') r ->
      exists j fact, In (j, fact) mm /\ mm' = remove_idx j mm_all /\ mwb rec bss x fact = Ok acc.
    Proof.
      induction mm as [|[j0 fact0] mm IH]; intros bss x mm_all r acc mm' H Hin; cbn [try_each] in H.
      - inversion H; subst; contradiction.
      - destruct (mwb rec bss x fact0) as [acc0| |] eqn:E1; try discriminate.
        destruct (try_each rec bss x mm_all mm) as [rest| |] eqn:E2; try discriminate.
        inversion H; subst.
        assert (Hrest : In (acc, mm') rest ->
                  exists j fact, In (j, fact) ((j0, fact0) :: mm) /\ mm' = remove_idx j mm_all /\
                                 mwb rec bss x fact = Ok acc).
        { intros Hi. destruct (IH _ _ _ _ _ _ E2 Hi) as [j [fact [H1 H2]]].
          exists j, fact; split; [right; exact H1 | exact H2]. }
        destruct acc0 as [|a0 acc0]; [apply Hrest; exact Hin|].
        destruct Hin as [Heq|Hin]; [|apply Hrest; exact Hin].
        inversion Heq; subst. exists j0, fact0. split; [left; reflexivity | split; [reflexivity | exact E1]].
    Qed.

    Lemma arraycat_inv : forall pairs x r acc mm',
      arraycat ord rec pairs x = Ok r -> In (acc, mm') r ->
      exists bss mm j fact, In (bss, mm) pairs /\ In (j, fact) mm /\ mm' = remove_idx j mm /\
                            mwb rec bss x fact = Ok acc.
    Proof.
      induction pairs as [|[bss0 mm0] pairs IH]; intros x r acc mm' H Hin; cbn [arraycat] in H.
      - inversion H; subst; contradiction.
      - destruct (try_each rec bss0 x mm0 (ord _ mm0)) as [a| |] eqn:E1; try discriminate.
        destruct (arraycat ord rec pairs x) as [b| |] eqn:E2; try discriminate.
        inversion H; subst. apply in_app_or in Hin. destruct Hin as [Hin|Hin].
        + destruct (try_each_inv _ _ _ _ _ _ _ E1 Hin) as [j [fact [H1 [H2 H3]]]].
          exists bss0, mm0, j, fact. split; [left; reflexivity|]. split; [|split; assumption].
          eapply Permutation_in; [apply Hord | exact H1].
        + destruct (IH _ _ _ _ E2 Hin) as [bss [mm [j [fact [H1 H2]]]]].
          exists bss, mm, j, fact. split; [right; exact H1 | exact H2].
    Qed.

    Lemma In_combine_pairs_inv : forall (ps : list pair_t) bs,
      In bs (combine_pairs ps) -> exists bss mm, In (bss, mm) ps /\ In bs bss.
    Proof.
      intros ps bs H. unfold combine_pairs in H. apply in_concat in H. destruct H as [bss [H1 H2]].
      apply in_map_iff in H1. destruct H1 as [[bss' mm] [Heq H1]]. cbn [fst] in Heq. subst bss'.
      exists bss, mm. split; assumption.
    Qed.

    Section Arr.
      Variable fa : list json.
      Variables (fxs0 : list json) (fxa : list ijson).
      Hypothesis Hidx : index_facts 0 fa = (fxs0, fxa).
      Variable bs : bindings.
      Let idx := number_from 0 fa.

      Definition PI (done fxs : list json) (pairs : list pair_t) : Prop :=
        forall bss mm bs', In (bss, mm) pairs -> In bs' bss ->
          exists ws, Forall2 (fun c w => embeds bs' c (snd w) = true) done ws /\
            NoDup ws /\ incl ws idx /\
            (forall e, In e mm -> In e fxa /\ ~ In e ws) /\
            (forall y, In y fxs -> forall w, In w ws -> snd w <> y) /\
            Inv bs (pvars (JArr done)) bs'.

      Lemma PI_extend : forall done bs1 (ws : list ijson) c (w : ijson) bs2,
        Forall2 (fun c w => embeds bs1 c (snd w) = true) done ws ->
        Inv bs (pvars (JArr done)) bs1 ->
        Inv bs1 (pvars c) bs2 -> embeds bs2 c (snd w) = true ->
        (forall k, nvl (pvars (JArr done)) k -> nvl (pvars c) k -> False) ->
        Forall2 (fun c w => embeds bs2 c (snd w) = true) (c :: done) (w :: ws) /\
        Inv bs (pvars (JArr (c :: done))) bs2.
      Proof.
        intros done bs1 ws c w bs2 HF Hi1 Hi2 He Hd. split.
        - constructor; [exact He|]. clear Hi1. induction HF as [|c' w' done ws Hc' HF IH]; constructor.
          + eapply embeds_transport; [exact Hc' | exact Hi2 |].
            intros k H1 H2. apply (Hd k); [|exact H2]. rewrite pvars_arr_cons. apply nvl_app; left; exact H1.
          + apply IH. intros k H1 H2. apply (Hd k); [|exact H2]. rewrite pvars_arr_cons. apply nvl_app; right; exact H1.
        - rewrite pvars_arr_cons. eapply Inv_trans; eauto.
      Qed.

      Lemma fxa_idx : forall e, In e fxa -> In e idx /\ is_scalar (snd e) = false.
      Proof. intros e He. eapply index_facts_fxa_inv; eauto. Qed.

      Lemma fxs0_idx : forall y, In y fxs0 -> is_scalar y = true /\ exists j, In (j, y) idx.
      Proof.
        intros y Hy. destruct (index_facts_fxs_inv _ _ _ _ Hidx y Hy) as [H1 H2].
        split; [exact H2 | apply In_number_from; exact H1].
      Qed.

      Lemma PI_scalar : forall done fxs pairs c,
        PI done fxs pairs -> incl fxs fxs0 ->
        is_scalar c = true -> is_var_json c = false -> In c fxs ->
        PI (c :: done) (jremove c fxs) pairs.
      Proof.
        intros done fxs pairs c HPI Hinc Hsc Hnv Hc bss mm bs' Hp Hb.
        destruct (HPI bss mm bs' Hp Hb) as [ws [HF [Hnd [Hi [Hmm [Hfx Hinv]]]]]].
        destruct (fxs0_idx c (Hinc c Hc)) as [_ [j0 Hj0]].
        exists ((j0, c) :: ws).
        split; [constructor; [cbn [snd]; apply scalar_embeds_refl; assumption | exact HF]|].
        split; [constructor; [|exact Hnd]; intros Hin; apply (Hfx c Hc _ Hin); reflexivity|].
        split; [intros w [<-|Hw]; [exact Hj0 | apply Hi; exact Hw]|].
        split; [|split].
        - intros e He. destruct (Hmm e He) as [He1 He2]. split; [exact He1|].
          intros [Heq|Hin]; [|contradiction]. destruct (fxa_idx e He1) as [_ Hs].
          subst e. cbn [snd] in Hs. congruence.
        - intros y Hy w Hw. apply In_jremove in Hy. destruct Hy as [Hy Hne].
          destruct Hw as [<-|Hw]; [cbn [snd]; congruence | apply (Hfx y Hy w Hw)].
        - rewrite pvars_arr_cons, (pvars_scalar_nonvar c Hsc Hnv). exact Hinv.
      Qed.

      Lemma PI_struct : forall done fxs pairs c np,
        PI done fxs pairs -> incl fxs fxs0 ->
        arraycat ord rec pairs c = Ok np ->
        aplain c -> lin (pvars c) -> pre bs (pvars c) ->
        (forall k, nvl (pvars (JArr done)) k -> nvl (pvars c) k -> False) ->
        PI (c :: done) fxs np.
      Proof.
        intros done fxs pairs c np HPI Hinc Hac Hpc Hlc Hprec Hd acc mm' bs2 Hp Hb.
        destruct (arraycat_inv _ _ _ _ _ Hac Hp) as [bss [mm [j [fact [H1 [H2 [H3 H4]]]]]]].
        destruct (mwb_inv _ _ _ _ _ H4 Hb) as [bs1 [a [Hb1 [Ha Hb2]]]].
        destruct (HPI bss mm bs1 H1 Hb1) as [ws [HF [Hnd [Hi [Hmm [Hfx Hinv]]]]]].
        assert (Hpre1 : pre bs1 (pvars c)) by (eapply pre_Inv; eauto).
        destruct (Hrec c fact bs1 a bs2 Ha Hb2 Hpc Hlc Hpre1) as [Hinv2 Hemb].
        destruct (PI_extend done bs1 ws c (j, fact) bs2 HF Hinv Hinv2 Hemb Hd) as [HF' Hinv'].
        destruct (Hmm _ H2) as [Hjf Hjn]. destruct (fxa_idx _ Hjf) as [Hjidx Hjs]. cbn [snd] in Hjs.
        exists ((j, fact) :: ws). split; [exact HF'|]. split; [constructor; assumption|].
        split; [intros w [<-|Hw]; [exact Hjidx | apply Hi; exact Hw]|].
        split; [|split; [|exact Hinv']].
        - intros e He. subst mm'. unfold remove_idx in He. apply filter_In in He. destruct He as [He Hne].
          destruct (Hmm e He) as [He1 He2]. split; [exact He1|]. intros [Heq|Hin]; [|contradiction].
          subst e. cbn [fst] in Hne. rewrite Nat.eqb_refl in Hne. discriminate.
        - intros y Hy w [<-|Hw]; [|apply (Hfx y Hy w Hw)]. cbn [snd]. intros ->.
          destruct (fxs0_idx y (Hinc y Hy)) as [Hys _]. congruence.
      Qed.

      Lemma arr_loop_snd : forall cs done fe fxs pairs fxs' pairs',
        arr_loop ord rec fe cs fxs pairs = Ok (Some (fxs', pairs')) ->
        Forall (fun c => is_var_json c = false) cs -> Forall aplain cs ->
        lin (pvars (JArr cs) ++ pvars (JArr done)) ->
        pre bs (pvars (JArr cs)) ->
        incl fxs fxs0 -> PI done fxs pairs ->
        incl fxs' fxs0 /\ PI (rev cs ++ done) fxs' pairs'.
      Proof.
        induction cs as [|c cs IH]; intros done fe fxs pairs fxs' pairs' H Hnv Hpl Hl Hpre Hinc HPI;
          cbn [arr_loop] in H.
        - inversion H; subst. split; assumption.
        - inversion Hnv as [|c0 cs0 Hcv Hnv']; subst. inversion Hpl as [|c0 cs0 Hcp Hpl']; subst.
          rewrite pvars_arr_cons in Hl, Hpre.
          assert (Hl' : lin (pvars (JArr cs) ++ pvars (JArr (c :: done)))).
          { rewrite pvars_arr_cons. eapply lin_perm; [|exact Hl].
            rewrite <- app_assoc. apply Permutation_app_swap_app. }
          assert (Hpre' : pre bs (pvars (JArr cs)))
            by (intros k Hk; apply Hpre; apply nvl_app; right; exact Hk).
          assert (Hconc : forall P0 : list json -> Prop, P0 (rev cs ++ c :: done) -> P0 (rev (c :: cs) ++ done))
            by (intros P0 HP0; cbn [rev]; rewrite <- app_assoc; exact HP0).
          destruct (is_scalar c) eqn:Ec.
          + destruct (jmem c fxs) eqn:Em; [|discriminate]. apply jmem_In in Em.
            destruct (IH (c :: done) fe (jremove c fxs) pairs fxs' pairs' H Hnv' Hpl' Hl' Hpre') as [H1 H2].
            * intros y Hy. apply In_jremove in Hy. apply Hinc; tauto.
            * apply PI_scalar; assumption.
            * split; [exact H1|]. apply (Hconc (fun d => PI d fxs' pairs')). exact H2.
          + destruct fe; [discriminate|].
            destruct (arraycat ord rec pairs c) as [np| |] eqn:E1; try discriminate.
            destruct np as [|np0 np]; [discriminate|].
            destruct (IH (c :: done) false fxs (np0 :: np) fxs' pairs' H Hnv' Hpl' Hl' Hpre' Hinc) as [H1 H2].
            * eapply PI_struct; eauto.
              -- eapply lin_app_l, lin_app_l. exact Hl.
              -- intros k Hk. apply Hpre. apply nvl_app; left; exact Hk.
              -- intros k Hk1 Hk2. eapply (lin_app_disj _ _ k Hl); [apply nvl_app; left; exact Hk2 | exact Hk1].
            * split; [exact H1|]. apply (Hconc (fun d => PI d fxs' pairs')). exact H2.
      Qed.

      Lemma arr_finish : forall xs done (ws : list ijson) bs2,
        Permutation xs done ->
        Forall2 (fun c w => embeds bs2 c (snd w) = true) done ws ->
        NoDup ws -> incl ws idx ->
        Inv bs (pvars (JArr done)) bs2 ->
        Inv bs (pvars (JArr xs)) bs2 /\ embeds bs2 (JArr xs) (JArr fa) = true.
      Proof.
        intros xs done ws bs2 Hperm HF Hnd Hi Hinv.
        assert (Hpp : Permutation (pvars (JArr xs)) (pvars (JArr done)))
          by (cbn [pvars]; apply Permutation_flat_map; exact Hperm).
        split.
        - eapply Inv_eqv; [|exact Hinv]. intros s. split; apply Permutation_in; [apply Permutation_sym|]; exact Hpp.
        - destruct (Permutation_Forall2 (Permutation_sym Hperm) HF) as [ws2 [Hpw HF2]].
          cbn [embeds]. rewrite <- (number_from_snd fa 0).
          eapply (inj_assign_of_idx (embeds bs2) xs (number_from 0 fa) ws2).
          + apply number_from_NoDup.
          + exact HF2.
          + apply (NoDup_fst_of_incl (number_from 0 fa)).
            * apply number_from_NoDup.
            * eapply Permutation_NoDup; [exact Hpw | exact Hnd].
            * intros w Hw. apply Hi. eapply Permutation_in; [apply Permutation_sym; exact Hpw | exact Hw].
          + intros w Hw. apply Hi. eapply Permutation_in; [apply Permutation_sym; exact Hpw | exact Hw].
      Qed.
    End Arr.

    Lemma match_arr_snd : forall xs f bs r bs2,
      match_arr ord rec bs xs f = Ok r -> In bs2 r ->
      aplain (JArr xs) -> lin (pvars (JArr xs)) -> pre bs (pvars (JArr xs)) ->
      Inv bs (pvars (JArr xs)) bs2 /\ embeds bs2 (JArr xs) f = true.
    Proof.
      intros xs f bs r bs2 H Hin Hp Hl Hpre. unfold match_arr in H.
      destruct (get_var xs None) as [[v cs]|] eqn:Eg; [|discriminate].
      pose proof (get_var_perm _ _ _ _ Eg) as Hperm. cbn beta iota in Hperm.
      destruct (get_var_incl _ _ _ _ Eg) as [Hincl [Hv Hnv]].
      destruct f as [| | | | fa |]; try (inversion H; subst; contradiction).
      destruct (index_facts 0 fa) as [fxs0 fxa] eqn:Ei.
      assert (Hps : Permutation (pvars (JArr xs)) (pvars (JArr cs) ++ pvars (JArr (vlist v)))).
      { cbn [pvars]. rewrite <- flat_map_app. apply Permutation_flat_map. exact Hperm. }
      pose proof (lin_perm _ _ Hps Hl) as Hl2.
      assert (Hpre2 : pre bs (pvars (JArr cs) ++ pvars (JArr (vlist v)))).
      { intros k [Hk Ha]. apply Hpre. split; [|exact Ha].
        eapply Permutation_in; [apply Permutation_sym; exact Hps | exact Hk]. }
      destruct (arr_loop ord rec (match fxa with [] => true | _ => false end) cs fxs0 [([bs], fxa)])
        as [[[fxs' pairs']|]| |] eqn:El; try discriminate; [|inversion H; subst; contradiction].
      destruct (arr_loop_snd fa fxs0 fxa Ei bs cs [] _ fxs0 _ fxs' pairs' El Hnv) as [Hinc' HPI].
      - apply Forall_forall. intros c Hc. eapply aplain_arr_in; [exact Hp | apply Hincl; exact Hc].
      - cbn [pvars flat_map]. rewrite app_nil_r. eapply lin_app_l. exact Hl2.
      - intros k Hk. apply Hpre2. apply nvl_app; left; exact Hk.
      - apply incl_refl.
      - intros bss mm bs' [Heq|[]] Hb. inversion Heq; subst bss mm. destruct Hb as [<-|[]].
        exists []. split; [constructor|]. split; [constructor|]. split; [intros w []|].
        split; [intros e He; split; [exact He | intros []]|]. split; [intros y Hy w []|].
        cbn [pvars flat_map]. apply Inv_nil.
      - rewrite app_nil_r in HPI.
        set (merged := map (fun pr : pair_t => (fst pr, snd pr ++ number_from (List.length fa) fxs')) pairs') in H.
        assert (Hmerged : forall bss mmm, In (bss, mmm) merged ->
                   exists mm, In (bss, mm) pairs' /\ mmm = mm ++ number_from (List.length fa) fxs').
        { intros bss mmm Hm. apply in_map_iff in Hm. destruct Hm as [[bss0 mm0] [Heq Hm]].
          cbn [fst snd] in Heq. inversion Heq; subst. exists mm0. split; [exact Hm | reflexivity]. }
        destruct v as [s|].
        + (* the variable *)
          destruct (Hv s eq_refl) as [Habs|[Hsin Hsvar]]; [discriminate|].
          assert (Hps' : aplain (JStr s)) by (eapply aplain_arr_in; eauto).
          assert (Hpv : pvars (JArr [JStr s]) = pvars (JStr s)) by (cbn [pvars flat_map]; apply app_nil_r).
          cbn [vlist] in *. rewrite Hpv in *.
          destruct (arraycat ord rec merged (JStr s)) as [np| |] eqn:E2; try discriminate.
          assert (Hr : In bs2 (combine_pairs np)).
          { destruct np as [|np0 np]; [|inversion H; subst; exact Hin].
            pose proof (aplain_not_optional (JStr s) Hps') as Hno. cbn [is_optional_json] in Hno.
            rewrite Hno in H. inversion H; subst. contradiction. }
          destruct (In_combine_pairs_inv _ _ Hr) as [acc [mm' [Hacc Hb2]]].
          destruct (arraycat_inv _ _ _ _ _ E2 Hacc) as [bss [mmm [j [y [H1 [H2 [H3 H4]]]]]]].
          destruct (Hmerged _ _ H1) as [mm [Hpm ->]].
          destruct (mwb_inv _ _ _ _ _ H4 Hb2) as [bs1 [a [Hb1 [Ha Hb2']]]].
          destruct (HPI bss mm bs1 Hpm Hb1) as [ws [HF [Hnd [Hi [Hmm [Hfx Hinv]]]]]].
          assert (Hd : forall k, nvl (pvars (JArr (rev cs))) k -> nvl (pvars (JStr s)) k -> False).
          { intros k [Hk1 Hk1'] Hk2. eapply (lin_app_disj _ _ k Hl2); [|exact Hk2]. split; [|exact Hk1'].
            cbn [pvars] in *. apply in_flat_map in Hk1. destruct Hk1 as [c [Hc1 Hc2]].
            apply in_flat_map. exists c. split; [apply in_rev; exact Hc1 | exact Hc2]. }
          assert (Hpre1 : pre bs1 (pvars (JStr s))).
          { eapply pre_Inv; [|exact Hinv|exact Hd]. intros k Hk. apply Hpre2. apply nvl_app; right; exact Hk. }
          destruct (Hrec (JStr s) y bs1 a bs2 Ha Hb2' Hps' (lin_app_r _ _ Hl2) Hpre1) as [Hinv2 Hemb].
          (* a real position for the fact the variable stands for *)
          assert (Hpos : exists w, snd w = y /\ In w (number_from 0 fa) /\ ~ In w ws).
          { apply in_app_or in H2. destruct H2 as [H2|H2].
            - destruct (Hmm _ H2) as [Hf Hn]. exists (j, y). split; [reflexivity|]. split; [|exact Hn].
              apply (fxa_idx fa fxs0 fxa Ei _ Hf).
            - apply number_from_In_snd in H2.
              destruct (fxs0_idx fa fxs0 fxa Ei y (Hinc' y H2)) as [_ [j0 Hj0]].
              exists (j0, y). split; [reflexivity|]. split; [exact Hj0|].
              intros Hw. apply (Hfx y H2 _ Hw). reflexivity. }
          destruct Hpos as [w [Hwy [Hwi Hwn]]]. subst y.
          destruct (PI_extend bs (rev cs) bs1 ws (JStr s) w bs2 HF Hinv Hinv2 Hemb Hd) as [HF' Hinv'].
          apply (arr_finish fa bs xs (JStr s :: rev cs) (w :: ws) bs2); try assumption.
          * eapply perm_trans; [exact Hperm|]. eapply perm_trans; [apply Permutation_app_comm|].
            cbn [app]. apply perm_skip. apply Permutation_rev.
          * constructor; assumption.
          * intros w' [<-|Hw']; [exact Hwi | apply Hi; exact Hw'].
        + inversion H; subst.
          destruct (In_combine_pairs_inv _ _ Hin) as [bss [mmm [Hm Hb]]].
          destruct (Hmerged _ _ Hm) as [mm [Hpm _]].
          destruct (HPI bss mm bs2 Hpm Hb) as [ws [HF [Hnd [Hi [Hmm [Hfx Hinv]]]]]].
          apply (arr_finish fa bs xs (rev cs) ws bs2); try assumption.
          cbn [vlist] in Hperm. rewrite app_nil_r in Hperm.
          eapply perm_trans; [exact Hperm | apply Permutation_rev].
    Qed.
  End WithRec.

  (** * The matcher *)
  Theorem match_snd : forall fuel p f bs r bs',
    match_ ord fuel p f bs = Ok r -> In bs' r ->
    aplain p -> lin (pvars p) -> pre bs (pvars p) ->
    Inv bs (pvars p) bs' /\ embeds bs' p f = true.
  Proof.
    induction fuel as [|n IH]; intros p f bs r bs' H Hin Hp Hl Hpre; [discriminate|].
    assert (Hrec : rec_snd (match_ ord n)) by (intros p' f' bs0 r' bs0' H'; apply IH; exact H').
    cbn [match_] in H. destruct p as [| b | z | s | xs | kvs].
    - destruct f; inversion H; subst; try contradiction. destruct Hin as [<-|[]].
      split; [apply Inv_nil | reflexivity].
    - destruct f as [| y | | | |]; try (inversion H; subst; contradiction).
      destruct (Bool.eqb b y) eqn:E; inversion H; subst; [|contradiction]. destruct Hin as [<-|[]].
      split; [apply Inv_nil | exact E].
    - destruct f as [| | y | | |]; try (inversion H; subst; contradiction).
      destruct (Z.eqb z y) eqn:E; inversion H; subst; [|contradiction]. destruct Hin as [<-|[]].
      split; [apply Inv_nil | exact E].
    - cbn [pvars embeds] in *. destruct (is_var s) eqn:Es.
      + unfold var_embeds. destruct (is_anon s) eqn:Ea.
        * inversion H; subst. destruct Hin as [<-|[]]. split; [|reflexivity].
          split; [reflexivity|]. intros k [[<-|[]] Hak]. congruence.
        * assert (Hps : is_plain_var s = true).
          { specialize (Hp s). cbn [pvars] in Hp. rewrite Es in Hp. specialize (Hp (or_introl eq_refl)).
            rewrite Ea in Hp. exact Hp. }
          rewrite (plain_var_inequal s f bs Hps) in H.
          rewrite (Hpre s) in H; [|split; [left; reflexivity | exact Ea]].
          inversion H; subst. destruct Hin as [<-|[]]. split.
          -- split.
             ++ intros k Hk. rewrite lookup_bset. destruct (String.eqb k s) eqn:E; [|reflexivity].
                apply String.eqb_eq in E; subst k. exfalso. apply Hk. split; [left; reflexivity | exact Ea].
             ++ intros k [[<-|[]] _]. rewrite lookup_bset, String.eqb_refl. discriminate.
          -- rewrite lookup_bset, String.eqb_refl. apply json_eqb_refl.
      + destruct f as [| | | t | |]; try (inversion H; subst; contradiction).
        destruct (String.eqb s t) eqn:E; inversion H; subst; [|contradiction]. destruct Hin as [<-|[]].
        split; [apply Inv_nil | reflexivity].
    - eapply match_arr_snd; eauto.
    - destruct f as [| | | | | fkvs]; try (inversion H; subst; contradiction).
      eapply match_obj_snd; eauto.
  Qed.
End Sound.

(** * The theorem *)
(** only [all_plain] and [linear] are used; the other hypotheses of the
    requested statement are kept for the record *)
Theorem match_linear_results_embed_strong : forall ord, perm_oracle ord -> forall fuel p f bss bs',
  all_plain p = true -> linear p = true ->
  match_ ord fuel p f [] = Ok bss -> In bs' bss -> c02_result_is_embedding p f bs' = true.
Proof.
  intros ord Hord fuel p f bss bs' Hpl Hlin H Hin.
  destruct (match_snd ord Hord fuel p f [] bss bs' H Hin
              (proj1 (all_plain_aplain p) Hpl) (linear_lin p Hlin)) as [[F D] He].
  { intros k _. reflexivity. }
  unfold c02_result_is_embedding. rewrite He. cbn [andb]. unfold same_keys.
  apply andb_true_iff; split; apply forallb_forall; intros k Hk.
  - apply smem_In. apply filter_In. apply In_map_fst_lookup in Hk.
    destruct (nvl_dec (pvars p) k) as [[H1 H2]|Hn].
    + split; [exact H1 | rewrite H2; reflexivity].
    + rewrite (F k Hn) in Hk. cbn in Hk. congruence.
  - apply smem_In. apply filter_In in Hk. destruct Hk as [H1 H2]. apply negb_true_iff in H2.
    apply In_map_fst_lookup. apply D. split; assumption.
Qed.

Theorem match_linear_results_embed : forall ord, perm_oracle ord -> forall fuel p f bss bs',
  supported p = true -> all_plain p = true -> linear p = true -> wf_json p = true -> wf_json f = true ->
  var_free f = true -> (arrays_are_sets p = true) -> (arrays_are_sets f = true) ->
  match_ ord fuel p f [] = Ok bss -> In bs' bss -> c02_result_is_embedding p f bs' = true.
Proof.
  intros ord Hord fuel p f bss bs' _ Hpl Hlin _ _ _ _ _ H Hin.
  eapply match_linear_results_embed_strong; eauto.
Qed.

Print Assumptions match_linear_results_embed.
