(** Non-vacuity checks for the order-independence theorems. *)
From Sheens Require Import Model.Match Proofs.OrderBase Proofs.MatchOrder Proofs.EntryOrder.
From Coq Require Import List Permutation String ZArith.
Import ListNotations.
Open Scope string_scope.

Definition ord_rev : order_oracle := fun _ l => rev l.

Lemma ord_rev_perm : perm_oracle ord_rev.
Proof. intros A l. apply Permutation_sym. apply Permutation_rev. Qed.

Lemma ord_id_perm : perm_oracle ord_id.
Proof. intros A l. apply Permutation_refl. Qed.

(** the oracle does change the order of the results ... *)
Example oracle_matters :
  let p := JObj [("?k", JStr "?v")] in
  let f := JObj [("a", JNum 4); ("b", JNum 8)] in
  match_ ord_id 10 p f [] <> match_ ord_rev 10 p f [].
Proof. vm_compute. discriminate. Qed.

(** ... but only the order *)
Example oracle_matters_not :
  let p := JObj [("?k", JStr "?v")] in
  let f := JObj [("a", JNum 4); ("b", JNum 8)] in
  res_equiv (match_ ord_id 10 p f []) (match_ ord_rev 10 p f []).
Proof. apply match_order_independent; [apply ord_id_perm | apply ord_rev_perm]. Qed.

Example jperm_swap :
  jperm (JObj [("a", JNum 4); ("b", JArr [JObj [("c", JNull); ("d", JNull)]])])
        (JObj [("b", JArr [JObj [("d", JNull); ("c", JNull)]]); ("a", JNum 4)]).
Proof.
  eapply jp_obj; [apply perm_swap|].
  constructor; [split; [reflexivity|]|].
  - constructor. constructor; [|constructor].
    eapply jp_obj; [apply perm_swap|].
    repeat constructor.
  - repeat constructor.
Qed.

(** unique keys in the message are needed: with a duplicated key the first
    listed entry wins ([assoc]) *)
Example wf_message_needed :
  let p := JObj [("a", JStr "?x")] in
  let f := JObj [("a", JNum 4); ("a", JNum 8)] in
  let f' := JObj [("a", JNum 8); ("a", JNum 4)] in
  jperm f f' /\
  ~ res_equiv_up_to_jperm (match_ ord_id 10 p f []) (match_ ord_id 10 p f' []).
Proof.
  split.
  - eapply jp_obj; [apply perm_swap|]. repeat constructor.
  - vm_compute. intros [l' [HP HF]].
    apply Permutation_length_1_inv in HP. subst l'.
    inversion HF as [|? ? ? ? Hb _]; subst.
    inversion Hb as [|? ? ? ? [_ Hj] _]; subst.
    inversion Hj.
Qed.
