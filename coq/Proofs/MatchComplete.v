(** Part 2: whenever the matcher terminates normally from the bindings
    "[sg] restricted to the variables seen so far", the restriction of [sg]
    to these plus the pattern's variables is among the results.  With
    Part 1 (termination without error) this gives completeness. *)
From Sheens Require Export Proofs.MatchTotal.
From Coq Require Import Lia.
From Sheens Require Import Proofs.BoundMatch.

(** * Counting occurrences *)
Lemma count_occ_str_app : forall s a b,
  count_occ_str s (a ++ b) = count_occ_str s a + count_occ_str s b.
Proof.
  intros s a b; induction a as [|x a IH]; [reflexivity|].
  cbn [app count_occ_str]. rewrite IH. lia.
Qed.

Lemma count_occ_str_in : forall s a, In s a -> 1 <= count_occ_str s a.
Proof.
  intros s a; induction a as [|x a IH]; intros H; [contradiction|].
  cbn [count_occ_str]. destruct H as [->|H].
  - rewrite String.eqb_refl. lia.
  - specialize (IH H). lia.
Qed.

Lemma count_occ_str_perm : forall s a b, Permutation a b -> count_occ_str s a = count_occ_str s b.
Proof.
  intros s a b H; induction H; cbn [count_occ_str]; lia.
Qed.

(** * Small facts about [embeds] *)
Lemma scalar_embeds : forall sg c y,
  is_scalar c = true -> is_var_json c = false -> embeds sg c y = true -> y = c.
Proof.
  intros sg c y Hs Hv H. destruct c as [| b | z | s | |]; try discriminate; cbn [embeds] in H.
  - destruct y; congruence.
  - destruct y; try discriminate. apply Bool.eqb_prop in H. congruence.
  - destruct y; try discriminate. apply Z.eqb_eq in H. congruence.
  - cbn [is_var_json] in Hv. rewrite Hv in H. destruct y; try discriminate.
    apply String.eqb_eq in H. congruence.
Qed.

Lemma struct_embeds : forall sg c y,
  is_scalar c = false -> embeds sg c y = true -> is_scalar y = false.
Proof.
  intros sg c y Hs H. destruct c; try discriminate; cbn [embeds] in H; destruct y; try discriminate; reflexivity.
Qed.

Lemma pvars_scalar_nonvar : forall c, is_scalar c = true -> is_var_json c = false -> pvars c = [].
Proof.
  intros c Hs Hv. destruct c; try discriminate; try reflexivity.
  cbn in *. rewrite Hv. reflexivity.
Qed.

Lemma pvars_obj_cons : forall k v r,
  pvars (JObj ((k, v) :: r)) = ((if is_var k then [k] else []) ++ pvars v) ++ pvars (JObj r).
Proof. reflexivity. Qed.

Lemma pvars_arr_cons : forall x r, pvars (JArr (x :: r)) = pvars x ++ pvars (JArr r).
Proof. reflexivity. Qed.

Lemma embeds_obj_eq : forall sg kvs fkvs,
  embeds sg (JObj kvs) (JObj fkvs) =
  match kvs with
  | [(k, q)] =>
      if is_var k then
        existsb (fun fkv : string * json =>
                   var_embeds sg k (JStr (fst fkv)) && embeds sg q (snd fkv)) fkvs
      else
        match assoc k fkvs with
        | Some y => embeds sg q y
        | None => false
        end
  | _ =>
      forallb (fun kv : string * json =>
                 negb (is_var (fst kv)) &&
                 match assoc (fst kv) fkvs with
                 | Some y => embeds sg (snd kv) y
                 | None => false
                 end) kvs
  end.
Proof. intros sg kvs fkvs. destruct kvs as [|[k q] [|kv2 r]]; reflexivity. Qed.

(** * Facts about the indexing of an array *)
Lemma number_from_fst : forall l i, map fst (number_from i l) = seq i (List.length l).
Proof. induction l as [|x l IH]; intros i; cbn; [reflexivity | rewrite IH; reflexivity]. Qed.

Lemma number_from_snd : forall l i, map snd (number_from i l) = l.
Proof. induction l as [|x l IH]; intros i; cbn; [reflexivity | rewrite IH; reflexivity]. Qed.

Lemma number_from_In_snd : forall l i j y, In (j, y) (number_from i l) -> In y l.
Proof.
  intros l i j y H. rewrite <- (number_from_snd l i). apply in_map_iff. exists (j, y); auto.
Qed.

Lemma In_number_from : forall l i y, In y l -> exists j, In (j, y) (number_from i l).
Proof.
  induction l as [|x l IH]; intros i y H; [contradiction|].
  destruct H as [->|H]; [exists i; left; reflexivity|].
  destruct (IH (S i) y H) as [j Hj]. exists j; right; exact Hj.
Qed.

Lemma number_from_NoDup : forall l i, NoDup (map fst (number_from i l)).
Proof. intros l i; rewrite number_from_fst; apply seq_NoDup. Qed.

Lemma nodup_scalars_inj : forall fa i j j' y,
  nodup_scalars fa = true -> is_scalar y = true ->
  In (j, y) (number_from i fa) -> In (j', y) (number_from i fa) -> j = j'.
Proof.
  induction fa as [|x r IH]; intros i j j' y Hn Hs H1 H2; [contradiction|].
  cbn [nodup_scalars] in Hn. apply andb_true_iff in Hn. destruct Hn as [Hx Hr].
  cbn [number_from] in H1, H2.
  assert (Hno : forall j0, x = y -> In (j0, y) (number_from (S i) r) -> False).
  { intros j0 -> Hin. rewrite Hs in Hx. apply negb_true_iff in Hx. apply jmem_false in Hx.
    apply Hx. eapply number_from_In_snd; eauto. }
  destruct H1 as [E1|H1]; destruct H2 as [E2|H2].
  - congruence.
  - inversion E1; subst. exfalso; eauto.
  - inversion E2; subst. exfalso; eauto.
  - eapply IH; eauto.
Qed.

Lemma index_facts_fxa : forall fa i fxs fxa, index_facts i fa = (fxs, fxa) ->
  forall e, In e (number_from i fa) -> is_scalar (snd e) = false -> In e fxa.
Proof.
  induction fa as [|y r IH]; intros i fxs fxa H e He Hs; [contradiction|].
  cbn [index_facts] in H. destruct (index_facts (S i) r) as [fxs0 fxa0] eqn:E.
  cbn [number_from] in He.
  destruct (is_scalar y) eqn:Ey; inversion H; subst.
  - destruct He as [<-|He]; [cbn in Hs; congruence | eapply IH; eauto].
  - destruct He as [<-|He]; [left; reflexivity | right; eapply IH; eauto].
Qed.

Lemma index_facts_fxs : forall fa i fxs fxa, index_facts i fa = (fxs, fxa) ->
  forall y, In y fa -> is_scalar y = true -> In y fxs.
Proof.
  induction fa as [|x r IH]; intros i fxs fxa H y Hy Hs; [contradiction|].
  cbn [index_facts] in H. destruct (index_facts (S i) r) as [fxs0 fxa0] eqn:E.
  destruct (is_scalar x) eqn:Ex; inversion H; subst.
  - destruct Hy as [->|Hy].
    + destruct (jmem y fxs0) eqn:Em; [apply jmem_In; exact Em | left; reflexivity].
    + specialize (IH _ _ _ E y Hy Hs). destruct (jmem x fxs0); [exact IH | right; exact IH].
  - destruct Hy as [->|Hy]; [congruence | eapply IH; eauto].
Qed.

Lemma In_remove_idx : forall j mm e, In e mm -> fst e <> j -> In e (remove_idx j mm).
Proof.
  intros j mm e He Hn. unfold remove_idx. apply filter_In. split; [exact He|].
  apply negb_true_iff. apply Nat.eqb_neq. exact Hn.
Qed.

(** * [get_var] only moves the variable to the end *)
Definition vlist (v : option string) : list json :=
  match v with Some s => [JStr s] | None => [] end.

Lemma get_var_perm : forall xs v0 v cs, get_var xs v0 = Some (v, cs) ->
  match v0 with
  | Some _ => v = v0 /\ cs = xs
  | None => Permutation xs (cs ++ vlist v)
  end.
Proof.
  induction xs as [|x xs IH]; intros v0 v cs H.
  - cbn in H. inversion H; subst. destruct v; [split; reflexivity | apply Permutation_refl].
  - cbn [get_var] in H.
    assert (Hgen : match get_var xs v0 with Some (v', acc) => Some (v', x :: acc) | None => None end = Some (v, cs) ->
               match v0 with
               | Some _ => v = v0 /\ cs = x :: xs
               | None => Permutation (x :: xs) (cs ++ vlist v)
               end).
    { intros H'. destruct (get_var xs v0) as [[v' acc]|] eqn:E; [|discriminate].
      inversion H'; subst. specialize (IH _ _ _ E). destruct v0.
      - destruct IH as [-> ->]; split; reflexivity.
      - cbn [app]. apply perm_skip. exact IH. }
    destruct x as [| b | z | s | l | kvs]; try (apply Hgen; exact H).
    destruct (is_var s) eqn:Es; [|apply Hgen; exact H].
    destruct v0; [discriminate|]. specialize (IH _ _ _ H). cbn beta iota in IH.
    destruct IH as [-> ->]. cbn [vlist]. apply Permutation_cons_append.
Qed.

Section Witness.
  Variable ord : order_oracle.
  Hypothesis Hord : perm_oracle ord.
  Variable sg : bindings.
  Hypothesis Hsg_sorted : sorted_keys sg = true.
  Hypothesis Hsg_vf : var_free_bs sg = true.
  Hypothesis Hsg_anon : lookup anon_var sg = None.

  (** variables met again have scalar values *)
  Definition scal_ok (L vs : list string) : Prop :=
    forall s w, In s vs -> (In s L \/ 2 <= count_occ_str s vs) ->
                lookup s sg = Some w -> is_scalar w = true.

  Lemma scal_ok_app_l : forall L a b, scal_ok L (a ++ b) -> scal_ok L a.
  Proof.
    intros L a b H s w Hin Hc Hl. apply (H s w); [apply in_or_app; left; exact Hin | | exact Hl].
    destruct Hc as [Hc|Hc]; [left; exact Hc | right]. rewrite count_occ_str_app. lia.
  Qed.

  Lemma scal_ok_app_r : forall L a b, scal_ok L (a ++ b) -> scal_ok (a ++ L) b.
  Proof.
    intros L a b H s w Hin Hc Hl. apply (H s w); [apply in_or_app; right; exact Hin | | exact Hl].
    rewrite count_occ_str_app. pose proof (count_occ_str_in s b Hin).
    destruct Hc as [Hc|Hc]; [|right; lia].
    apply in_app_or in Hc. destruct Hc as [Hc|Hc]; [right | left; exact Hc].
    pose proof (count_occ_str_in s a Hc). lia.
  Qed.

  Lemma scal_ok_perm : forall L a b, Permutation a b -> scal_ok L a -> scal_ok L b.
  Proof.
    intros L a b Hp H s w Hin Hc Hl. apply (H s w); [| | exact Hl].
    - eapply Permutation_in; [apply Permutation_sym; exact Hp | exact Hin].
    - rewrite (count_occ_str_perm s a b Hp). exact Hc.
  Qed.

  Lemma scal_ok_eqv : forall L L' a, eqv L L' -> scal_ok L a -> scal_ok L' a.
  Proof.
    intros L L' a He H s w Hin Hc Hl. apply (H s w); [exact Hin | | exact Hl].
    destruct Hc as [Hc|Hc]; [left; apply He; exact Hc | right; exact Hc].
  Qed.

  (** conditions on message parts *)
  Definition fc (f : json) : Prop := arrays_are_sets f = true.

  Lemma fc_arr_in : forall fa y, fc (JArr fa) -> In y fa -> fc y.
  Proof.
    intros fa y H Hin. unfold fc in *. cbn [arrays_are_sets] in H. apply andb_true_iff in H.
    destruct H as [_ H]. rewrite forallb_forall in H. apply H; exact Hin.
  Qed.

  Lemma fc_arr_nodup : forall fa, fc (JArr fa) -> nodup_scalars fa = true.
  Proof.
    intros fa H. unfold fc in *. cbn [arrays_are_sets] in H. apply andb_true_iff in H. tauto.
  Qed.

  Lemma fc_obj_in : forall fkvs k y, fc (JObj fkvs) -> In (k, y) fkvs -> fc y.
  Proof.
    intros fkvs k y H Hin. unfold fc in *. cbn [arrays_are_sets] in H.
    rewrite forallb_forall in H. apply (H (k, y)); exact Hin.
  Qed.

  Lemma sg_value_var_free : forall s w, lookup s sg = Some w -> var_free w = true.
  Proof.
    intros s w H. apply lookup_In in H. unfold var_free_bs in Hsg_vf.
    rewrite forallb_forall in Hsg_vf. apply (Hsg_vf (s, w) H).
  Qed.

  Lemma scalar_self_match : forall n w bs r,
    is_scalar w = true -> var_free w = true -> match_ ord n w w bs = Ok r -> r = [bs].
  Proof.
    intros n w bs r Hs Hv H. destruct n as [|n]; [discriminate|].
    destruct w as [| b | z | s | |]; try discriminate; cbn [match_] in H.
    - congruence.
    - rewrite Bool.eqb_reflx in H. congruence.
    - rewrite Z.eqb_refl in H. congruence.
    - cbn [var_free] in Hv. apply negb_true_iff in Hv. rewrite Hv, String.eqb_refl in H. congruence.
  Qed.

  Ltac solve_eqv :=
    let s := fresh "s" in
    intros s; cbn [app In]; repeat rewrite in_app_iff; cbn [In]; tauto.

  Section WithRec.
    Variable rec : rec_t.
    Definition rec_wit : Prop :=
      forall p f L r, rec p f (restr L sg) = Ok r ->
                      aplain p -> fc f -> embeds sg p f = true -> scal_ok L (pvars p) ->
                      In (restr (pvars p ++ L) sg) r.
    Hypothesis Hrec : rec_wit.

    Lemma mwb_in : forall bss p f r bs, mwb rec bss p f = Ok r -> In bs bss ->
      exists a, rec p f bs = Ok a /\ incl a r.
    Proof.
      induction bss as [|b0 bss IH]; intros p f r bs H Hin; [contradiction|].
      cbn [mwb] in H. destruct (rec p f b0) as [a| |] eqn:E1; try discriminate.
      destruct (mwb rec bss p f) as [b| |] eqn:E2; try discriminate.
      inversion H; subst. destruct Hin as [->|Hin].
      - exists a; split; [exact E1 | apply incl_appl, incl_refl].
      - destruct (IH p f b bs E2 Hin) as [a' [Ha' Hi]]. exists a'; split; [exact Ha'|].
        apply incl_appr; exact Hi.
    Qed.

    Lemma mwb_wit : forall bss p f r L, mwb rec bss p f = Ok r -> In (restr L sg) bss ->
      aplain p -> fc f -> embeds sg p f = true -> scal_ok L (pvars p) ->
      In (restr (pvars p ++ L) sg) r.
    Proof.
      intros bss p f r L H Hin Hp Hf He Hs.
      destruct (mwb_in bss p f r _ H Hin) as [a [Ha Hi]]. apply Hi. eapply Hrec; eauto.
    Qed.

    Lemma mapcat_wit : forall kvs bss fkvs r L,
      mapcat rec bss kvs fkvs = Ok r -> In (restr L sg) bss ->
      (forall k v, In (k, v) kvs ->
         is_var k = false /\ aplain v /\
         exists y, assoc k fkvs = Some y /\ fc y /\ embeds sg v y = true) ->
      scal_ok L (pvars (JObj kvs)) ->
      In (restr (pvars (JObj kvs) ++ L) sg) r.
    Proof.
      induction kvs as [|[k v] kvs IH]; intros bss fkvs r L H Hin Hkv Hs.
      - cbn [mapcat] in H. inversion H; subst. exact Hin.
      - cbn [mapcat] in H.
        destruct (Hkv k v (or_introl eq_refl)) as [Hk [Hp [y [Ea [Hfy Hey]]]]].
        rewrite Ea in H. rewrite pvars_obj_cons, Hk in Hs |- *. cbn [app] in Hs |- *.
        destruct (mwb rec bss v y) as [acc| |] eqn:E1; try discriminate.
        pose proof (mwb_wit bss v y acc L E1 Hin Hp Hfy Hey (scal_ok_app_l _ _ _ Hs)) as Hw.
        destruct acc as [|a acc]; [contradiction|].
        specialize (IH (a :: acc) fkvs r (pvars v ++ L) H Hw
                      (fun k' v' Hin' => Hkv k' v' (or_intror Hin')) (scal_ok_app_r _ _ _ Hs)).
        rewrite (restr_ext ((pvars v ++ pvars (JObj kvs)) ++ L) (pvars (JObj kvs) ++ pvars v ++ L));
          [exact IH | solve_eqv].
    Qed.

    Lemma propvar_loop_wit : forall fkvs bss k v r L fk fv,
      propvar_loop rec bss k v fkvs = Ok r -> In (restr L sg) bss ->
      is_var k = true -> aplain (JStr k) -> aplain v ->
      In (fk, fv) fkvs -> var_embeds sg k (JStr fk) = true -> embeds sg v fv = true -> fc fv ->
      scal_ok L (k :: pvars v) ->
      In (restr (k :: pvars v ++ L) sg) r.
    Proof.
      induction fkvs as [|[fk0 fv0] fkvs IH]; intros bss k v r L fk fv H Hin Hk Hpk Hpv Hfin Hek Hev Hfc Hs;
        [contradiction|].
      cbn [propvar_loop] in H.
      destruct (mwb rec bss (JStr k) (JStr fk0)) as [ext| |] eqn:E1; try discriminate.
      destruct Hfin as [Heq|Hfin].
      - inversion Heq; subst fk0 fv0.
        assert (Hpk' : pvars (JStr k) = [k]) by (cbn [pvars]; rewrite Hk; reflexivity).
        assert (Hw : In (restr (pvars (JStr k) ++ L) sg) ext).
        { eapply mwb_wit; eauto.
          - reflexivity.
          - cbn [embeds]. rewrite Hk. exact Hek.
          - rewrite Hpk'. apply (scal_ok_app_l L [k] (pvars v)). exact Hs. }
        rewrite Hpk' in Hw.
        destruct ext as [|a ext]; [contradiction|].
        destruct (mwb rec (a :: ext) v fv) as [ext2| |] eqn:E2; try discriminate.
        assert (Hw2 : In (restr (pvars v ++ [k] ++ L) sg) ext2).
        { eapply mwb_wit; eauto. apply (scal_ok_app_r L [k] (pvars v)). exact Hs. }
        destruct (propvar_loop rec bss k v fkvs) as [g| |]; try discriminate.
        inversion H; subst. apply in_or_app; left.
        rewrite (restr_ext (k :: pvars v ++ L) (pvars v ++ [k] ++ L)); [exact Hw2 | solve_eqv].
      - destruct ext as [|a ext].
        + eapply IH; eauto.
        + destruct (mwb rec (a :: ext) v fv0) as [ext2| |]; try discriminate.
          destruct (propvar_loop rec bss k v fkvs) as [g| |] eqn:E3; try discriminate.
          inversion H; subst. apply in_or_app; right. eapply IH; eauto.
    Qed.

    Lemma aplain_obj_in : forall kvs k v, aplain (JObj kvs) -> In (k, v) kvs -> aplain v.
    Proof. intros kvs k v H Hin s Hs. apply H. eapply pvars_obj_in; eauto. Qed.

    Lemma aplain_arr_in : forall xs x, aplain (JArr xs) -> In x xs -> aplain x.
    Proof. intros xs x H Hin s Hs. apply H. eapply pvars_arr_in; eauto. Qed.

    Lemma match_obj_wit : forall kvs fkvs r L,
      match_obj ord rec (restr L sg) kvs fkvs = Ok r ->
      aplain (JObj kvs) -> fc (JObj fkvs) ->
      embeds sg (JObj kvs) (JObj fkvs) = true -> scal_ok L (pvars (JObj kvs)) ->
      In (restr (pvars (JObj kvs) ++ L) sg) r.
    Proof.
      intros kvs fkvs r L H Hp Hf He Hs.
      rewrite embeds_obj_eq in He.
      assert (Hone : In (restr L sg) [restr L sg]) by (left; reflexivity).
      (* the general constant-key case *)
      assert (Hgen : forall kvs',
                 (forall kv, In kv kvs' -> In kv kvs) ->
                 forallb (fun kv : string * json =>
                            negb (is_var (fst kv)) &&
                            match assoc (fst kv) fkvs with
                            | Some y => embeds sg (snd kv) y
                            | None => false
                            end) kvs = true ->
                 forall k v, In (k, v) kvs' ->
                   is_var k = false /\ aplain v /\
                   exists y, assoc k fkvs = Some y /\ fc y /\ embeds sg v y = true).
      { intros kvs' Hsub Hall k v Hin. rewrite forallb_forall in Hall.
        specialize (Hall (k, v) (Hsub _ Hin)). cbn [fst snd] in Hall.
        apply andb_true_iff in Hall. destruct Hall as [Hk Hy]. apply negb_true_iff in Hk.
        split; [exact Hk|]. split; [eapply aplain_obj_in; eauto|].
        destruct (assoc k fkvs) as [y|] eqn:Ea; [|discriminate].
        exists y; split; [reflexivity|]. split; [|exact Hy].
        eapply fc_obj_in; [exact Hf | apply assoc_In; exact Ea]. }
      unfold match_obj in H. destruct kvs as [|[k v] [|kv2 kvs]].
      - inversion H; subst. exact Hone.
      - destruct (is_var k) eqn:Ek.
        + rewrite allow_property_variables_true in H. unfold propvar in H.
          apply existsb_exists in He. destruct He as [[fk fv] [Hfin Hfe]]. cbn [fst snd] in Hfe.
          apply andb_true_iff in Hfe. destruct Hfe as [Hek Hev].
          rewrite pvars_obj_cons, Ek in Hs |- *. cbn [pvars flat_map] in Hs |- *.
          rewrite app_nil_r in Hs |- *. cbn [app] in Hs |- *.
          eapply propvar_loop_wit; eauto.
          * intros s Hin. apply Hp. cbn [pvars] in Hin. rewrite Ek in Hin. destruct Hin as [<-|[]].
            eapply pvars_obj_key; [left; reflexivity | exact Ek].
          * eapply aplain_obj_in; [exact Hp | left; reflexivity].
          * eapply Permutation_in; [apply Permutation_sym, Hord | exact Hfin].
          * eapply fc_obj_in; eauto.
        + eapply mapcat_wit; eauto. apply (Hgen [(k, v)]); [auto|].
          cbn [forallb fst snd]. rewrite Ek, andb_true_r. cbn [negb]. rewrite Bool.andb_true_l. exact He.
      - destruct (has_var_key ((k, v) :: kv2 :: kvs)) eqn:Eh;
          [rewrite andb_true_r in H; destruct check_bad_property_variables; discriminate|].
        rewrite andb_false_r in H.
        pose proof (sort_kvs_perm ((k, v) :: kv2 :: kvs)) as Hperm.
        assert (Hpp : Permutation (pvars (JObj (sort_kvs ((k, v) :: kv2 :: kvs))))
                                  (pvars (JObj ((k, v) :: kv2 :: kvs)))).
        { cbn [pvars]. apply Permutation_flat_map. exact Hperm. }
        rewrite (restr_ext (pvars (JObj ((k, v) :: kv2 :: kvs)) ++ L)
                           (pvars (JObj (sort_kvs ((k, v) :: kv2 :: kvs))) ++ L)).
        * eapply mapcat_wit; eauto.
          -- apply Hgen; [|exact He]. intros kv Hin. eapply Permutation_in; [exact Hperm | exact Hin].
          -- eapply scal_ok_perm; [apply Permutation_sym; exact Hpp | exact Hs].
        * intros s. rewrite !in_app_iff. split; intros [Hi|Hi]; auto; left.
          -- eapply Permutation_in; [apply Permutation_sym; exact Hpp | exact Hi].
          -- eapply Permutation_in; [exact Hpp | exact Hi].
    Qed.

    (** ** arrays *)
    Lemma try_each_in : forall mm bss x mm_all r j fact bs,
      try_each rec bss x mm_all mm = Ok r -> In (j, fact) mm -> In bs bss ->
      exists a, rec x fact bs = Ok a /\
        forall bs', In bs' a -> exists acc, In (acc, remove_idx j mm_all) r /\ In bs' acc.
    Proof.
      induction mm as [|[j0 fact0] mm IH]; intros bss x mm_all r j fact bs H Hin Hbs; [contradiction|].
      cbn [try_each] in H.
      destruct (mwb rec bss x fact0) as [acc| |] eqn:E1; try discriminate.
      destruct (try_each rec bss x mm_all mm) as [rest| |] eqn:E2; try discriminate.
      inversion H; subst. destruct Hin as [Heq|Hin].
      - inversion Heq; subst j0 fact0.
        destruct (mwb_in bss x fact acc bs E1 Hbs) as [a [Ha Hi]].
        exists a; split; [exact Ha|]. intros bs' Hbs'. apply Hi in Hbs'.
        destruct acc as [|a0 acc]; [contradiction|].
        exists (a0 :: acc); split; [left; reflexivity | exact Hbs'].
      - destruct (IH bss x mm_all rest j fact bs E2 Hin Hbs) as [a [Ha Hx]].
        exists a; split; [exact Ha|]. intros bs' Hbs'. destruct (Hx bs' Hbs') as [acc' [H1 H2]].
        exists acc'; split; [|exact H2]. destruct acc; [exact H1 | right; exact H1].
    Qed.

    Lemma arraycat_in : forall pairs x r bss mm j fact bs,
      arraycat ord rec pairs x = Ok r -> In (bss, mm) pairs -> In (j, fact) mm -> In bs bss ->
      exists a, rec x fact bs = Ok a /\
        forall bs', In bs' a -> exists acc, In (acc, remove_idx j mm) r /\ In bs' acc.
    Proof.
      induction pairs as [|[bss0 mm0] pairs IH]; intros x r bss mm j fact bs H Hin Hj Hbs; [contradiction|].
      cbn [arraycat] in H.
      destruct (try_each rec bss0 x mm0 (ord _ mm0)) as [a| |] eqn:E1; try discriminate.
      destruct (arraycat ord rec pairs x) as [b| |] eqn:E2; try discriminate.
      inversion H; subst. destruct Hin as [Heq|Hin].
      - inversion Heq; subst bss0 mm0.
        assert (Hj' : In (j, fact) (ord _ mm))
          by (eapply Permutation_in; [apply Permutation_sym, Hord | exact Hj]).
        destruct (try_each_in _ _ _ _ _ _ _ _ E1 Hj' Hbs) as [a' [Ha' Hx]].
        exists a'; split; [exact Ha'|]. intros bs' Hbs'. destruct (Hx bs' Hbs') as [acc [H1 H2]].
        exists acc; split; [apply in_or_app; left; exact H1 | exact H2].
      - destruct (IH x b bss mm j fact bs E2 Hin Hj Hbs) as [a' [Ha' Hx]].
        exists a'; split; [exact Ha'|]. intros bs' Hbs'. destruct (Hx bs' Hbs') as [acc [H1 H2]].
        exists acc; split; [apply in_or_app; right; exact H1 | exact H2].
    Qed.

    Definition has_wit (pairs : list pair_t) (L : list string) (ws : list ijson) : Prop :=
      exists bss mm, In (bss, mm) pairs /\ In (restr L sg) bss /\
        forall w, In w ws -> is_scalar (snd w) = false -> In w mm.

    Lemma arr_loop_wit : forall cs wcs keep fe fxs pairs L res,
      arr_loop ord rec fe cs fxs pairs = Ok res ->
      Forall2 (fun c w => embeds sg c (snd w) = true) cs wcs ->
      Forall (fun c => is_var_json c = false) cs ->
      Forall aplain cs ->
      Forall (fun w => fc (snd w)) wcs ->
      NoDup (map fst (wcs ++ keep)) ->
      (forall w w', In w (wcs ++ keep) -> In w' (wcs ++ keep) ->
                    is_scalar (snd w) = true -> snd w = snd w' -> fst w = fst w') ->
      (forall w, In w wcs -> is_scalar (snd w) = true -> In (snd w) fxs) ->
      (fe = true -> forall w, In w wcs -> is_scalar (snd w) = true) ->
      has_wit pairs L (wcs ++ keep) ->
      scal_ok L (pvars (JArr cs)) ->
      exists fxs' pairs', res = Some (fxs', pairs') /\
        has_wit pairs' (pvars (JArr cs) ++ L) keep /\
        (forall y, In y fxs -> (forall w, In w wcs -> snd w <> y) -> In y fxs').
    Proof.
      induction cs as [|c cs IH]; intros wcs keep fe fxs pairs L res H HF Hnv Hpl Hfc Hnd Hdist Hfxs Hfe Hw Hs.
      - inversion HF; subst. cbn [arr_loop] in H. inversion H; subst.
        exists fxs, pairs. split; [reflexivity|]. split; [exact Hw | auto].
      - inversion HF as [|c0 w cs0 wcs' Hcw HF']; subst.
        inversion Hnv as [|c0 cs0 Hcv Hnv']; subst.
        inversion Hpl as [|c0 cs0 Hcp Hpl']; subst.
        inversion Hfc as [|w0 ws0 Hwf Hfc']; subst.
        cbn [app map] in Hnd. inversion Hnd as [|j0 js0 Hjn Hnd']; subst.
        rewrite pvars_arr_cons in Hs |- *.
        cbn [arr_loop] in H. destruct (is_scalar c) eqn:Ec.
        + (* a scalar constant *)
          pose proof (scalar_embeds sg c (snd w) Ec Hcv Hcw) as Hy.
          assert (Hm : jmem c fxs = true).
          { apply jmem_In. rewrite <- Hy. apply Hfxs; [left; reflexivity | rewrite Hy; exact Ec]. }
          rewrite Hm in H.
          rewrite (pvars_scalar_nonvar c Ec Hcv) in Hs |- *. cbn [app] in Hs |- *.
          assert (Hne : forall w', In w' wcs' -> snd w' <> c).
          { intros w' Hin' Heq. apply Hjn.
            assert (Hf : fst w = fst w').
            { apply Hdist; [left; reflexivity | right; apply in_or_app; left; exact Hin' | rewrite Hy; exact Ec | congruence]. }
            rewrite Hf. apply in_map. apply in_or_app; left; exact Hin'. }
          destruct (IH wcs' keep fe (jremove c fxs) pairs L res H HF' Hnv' Hpl' Hfc' Hnd') as [fxs' [pairs' [Hres [Hw' Hk']]]].
          * intros w1 w2 H1 H2. apply Hdist; right; assumption.
          * intros w' Hin' Hsc. apply In_jremove. split; [apply Hfxs; [right; exact Hin' | exact Hsc] | apply Hne; exact Hin'].
          * intros Hfe' w' Hin'. apply Hfe; [exact Hfe' | right; exact Hin'].
          * destruct Hw as [bss [mm [Hp1 [Hp2 Hp3]]]]. exists bss, mm. split; [exact Hp1|]. split; [exact Hp2|].
            intros w' Hin'. apply Hp3. right; exact Hin'.
          * exact Hs.
          * exists fxs', pairs'. split; [exact Hres|]. split; [exact Hw'|].
            intros y Hy1 Hy2. apply Hk'.
            -- apply In_jremove. split; [exact Hy1|]. rewrite <- Hy. intros E. apply (Hy2 w (or_introl eq_refl)). congruence.
            -- intros w' Hin'. apply Hy2. right; exact Hin'.
        + (* a structured element *)
          pose proof (struct_embeds sg c (snd w) Ec Hcw) as Hys.
          destruct fe.
          { specialize (Hfe eq_refl w (or_introl eq_refl)). congruence. }
          destruct (arraycat ord rec pairs c) as [np| |] eqn:E1; try discriminate.
          destruct Hw as [bss [mm [Hp1 [Hp2 Hp3]]]].
          destruct w as [j fact]. cbn [fst snd] in *.
          assert (Hjm : In (j, fact) mm) by (apply Hp3; [left; reflexivity | exact Hys]).
          destruct (arraycat_in pairs c np bss mm j fact _ E1 Hp1 Hjm Hp2) as [a [Ha Hx]].
          pose proof (Hrec c fact L a Ha Hcp Hwf Hcw (scal_ok_app_l _ _ _ Hs)) as Hwa.
          destruct (Hx _ Hwa) as [acc [Hacc1 Hacc2]].
          destruct np as [|np0 np]; [contradiction|].
          destruct (IH wcs' keep false fxs (np0 :: np) (pvars c ++ L) res H HF' Hnv' Hpl' Hfc' Hnd') as [fxs' [pairs' [Hres [Hw' Hk']]]].
          * intros w1 w2 H1 H2. apply Hdist; right; assumption.
          * intros w' Hin' Hsc. apply Hfxs; [right; exact Hin' | exact Hsc].
          * discriminate.
          * exists acc, (remove_idx j mm). split; [exact Hacc1|]. split; [exact Hacc2|].
            intros w' Hin' Hsc. apply In_remove_idx; [apply Hp3; [right; exact Hin' | exact Hsc]|].
            intros E. apply Hjn. rewrite <- E. apply in_map. exact Hin'.
          * apply scal_ok_app_r. exact Hs.
          * exists fxs', pairs'. split; [exact Hres|]. split.
            -- destruct Hw' as [bss' [mm' [Hq1 [Hq2 Hq3]]]]. exists bss', mm'. split; [exact Hq1|]. split; [|exact Hq3].
               rewrite (restr_ext ((pvars c ++ pvars (JArr cs)) ++ L) (pvars (JArr cs) ++ pvars c ++ L));
                 [exact Hq2 | solve_eqv].
            -- intros y Hy1 Hy2. apply Hk'; [exact Hy1|]. intros w' Hin'. apply Hy2. right; exact Hin'.
    Qed.

    Lemma In_combine_pairs : forall (ps : list pair_t) bss mm bs,
      In (bss, mm) ps -> In bs bss -> In bs (combine_pairs ps).
    Proof.
      intros ps bss mm bs H1 H2. unfold combine_pairs. apply in_concat. exists bss; split; [|exact H2].
      apply in_map_iff. exists (bss, mm); split; [reflexivity | exact H1].
    Qed.

    Lemma NoDup_app_disjoint : forall (A : Type) (l1 l2 : list A) x,
      NoDup (l1 ++ l2) -> In x l1 -> In x l2 -> False.
    Proof.
      intros A l1 l2 x; induction l1 as [|y l1 IH]; intros Hnd H1 H2; [contradiction|].
      cbn [app] in Hnd. inversion Hnd as [|a b Hn Hnd']; subst.
      destruct H1 as [->|H1]; [apply Hn; apply in_or_app; right; exact H2 | eauto].
    Qed.

    Lemma match_arr_wit : forall xs f r L,
      match_arr ord rec (restr L sg) xs f = Ok r ->
      aplain (JArr xs) -> fc f -> embeds sg (JArr xs) f = true -> scal_ok L (pvars (JArr xs)) ->
      In (restr (pvars (JArr xs) ++ L) sg) r.
    Proof.
      intros xs f r L H Hp Hf He Hs.
      cbn [embeds] in He. destruct f as [| | | | fa0 |]; try discriminate.
      unfold match_arr in H.
      destruct (get_var xs None) as [[v cs]|] eqn:Eg; [|discriminate].
      pose proof (get_var_perm _ _ _ _ Eg) as Hperm. cbn beta iota in Hperm.
      destruct (get_var_incl _ _ _ _ Eg) as [Hincl [Hv Hnv]].
      (* the witness positions *)
      pose proof (fc_arr_nodup _ Hf) as Hnds.
      rewrite <- (number_from_snd fa0 0) in He.
      destruct (inj_assign_idx (embeds sg) xs (number_from 0 fa0) (number_from_NoDup fa0 0) He)
        as [ws [HF [Hnd Hinc]]].
      destruct (Permutation_Forall2 Hperm HF) as [ws' [Hpw HF']].
      apply Forall2_app_inv_l in HF'. destruct HF' as [wcs [wv [HFc [HFv ->]]]].
      assert (Hnd' : NoDup (map fst (wcs ++ wv)))
        by (eapply Permutation_NoDup; [apply Permutation_map; exact Hpw | exact Hnd]).
      assert (Hinc' : forall w, In w (wcs ++ wv) -> In w (number_from 0 fa0))
        by (intros w Hw; apply Hinc; eapply Permutation_in; [apply Permutation_sym; exact Hpw | exact Hw]).
      assert (Hinfa : forall j y, In (j, y) (wcs ++ wv) -> In y fa0)
        by (intros j y Hw; eapply number_from_In_snd; apply Hinc'; exact Hw).
      assert (Hps : Permutation (pvars (JArr xs)) (pvars (JArr cs) ++ pvars (JArr (vlist v)))).
      { cbn [pvars]. rewrite <- flat_map_app. apply Permutation_flat_map. exact Hperm. }
      pose proof (scal_ok_perm _ _ _ Hps Hs) as Hs'.
      assert (Heqv : eqv (pvars (JArr xs) ++ L) (pvars (JArr (vlist v)) ++ pvars (JArr cs) ++ L)).
      { intros s. rewrite !in_app_iff. split.
        - intros [Hi|Hi]; [|tauto]. apply (Permutation_in _ Hps) in Hi. apply in_app_or in Hi. tauto.
        - intros [Hi|[Hi|Hi]]; [left | left | tauto].
          + apply (Permutation_in _ (Permutation_sym Hps)). apply in_or_app; tauto.
          + apply (Permutation_in _ (Permutation_sym Hps)). apply in_or_app; tauto. }
      rewrite (restr_ext _ _ sg Heqv).
      destruct (index_facts 0 fa0) as [fxs fxa] eqn:Ei.
      destruct (arr_loop ord rec (match fxa with [] => true | _ => false end) cs fxs [([restr L sg], fxa)])
        as [res| |] eqn:El; try discriminate.
      destruct (arr_loop_wit cs wcs wv _ fxs _ L res El HFc) as [fxs' [pairs' [-> [Hw' Hk']]]].
      - exact Hnv.
      - apply Forall_forall. intros c Hc. eapply aplain_arr_in; [exact Hp | apply Hincl; exact Hc].
      - apply Forall_forall. intros [j y] Hw. cbn [snd]. eapply fc_arr_in; [exact Hf|].
        eapply Hinfa. apply in_or_app; left; exact Hw.
      - exact Hnd'.
      - intros [j y] [j' y'] H1 H2 Hsc Heq. cbn [fst snd] in *. subst y'.
        eapply nodup_scalars_inj; eauto.
      - intros [j y] Hw Hsc. cbn [snd] in *. eapply index_facts_fxs; eauto.
        eapply Hinfa. apply in_or_app; left; exact Hw.
      - intros Hfe w Hw. destruct (is_scalar (snd w)) eqn:Esc; [reflexivity|].
        assert (Hin : In w fxa)
          by (eapply index_facts_fxa; eauto; apply Hinc'; apply in_or_app; left; exact Hw).
        destruct fxa; [contradiction | discriminate].
      - exists [restr L sg], fxa. split; [left; reflexivity|]. split; [left; reflexivity|].
        intros w Hw Hsc. eapply index_facts_fxa; eauto.
      - eapply scal_ok_app_l; exact Hs'.
      - cbn beta iota in H.
        destruct Hw' as [bss [mm [Hq1 [Hq2 Hq3]]]].
        set (merged := map (fun pr : pair_t => (fst pr, snd pr ++ number_from (List.length fa0) fxs')) pairs') in H.
        assert (Hmer : In (bss, mm ++ number_from (List.length fa0) fxs') merged).
        { apply in_map_iff. exists (bss, mm). split; [reflexivity | exact Hq1]. }
        destruct v as [s|].
        + cbn [vlist] in *. inversion HFv as [|s0 wv0 l0 l1 Hev HFnil]; subst. inversion HFnil; subst.
          destruct wv0 as [j y]. cbn [snd] in Hev.
          destruct (Hv s eq_refl) as [Habs|[Hsin Hsvar]]; [discriminate|].
          assert (Hyin : In y fa0) by (eapply Hinfa; apply in_or_app; right; left; reflexivity).
          assert (Hcand : exists j', In (j', y) (mm ++ number_from (List.length fa0) fxs')).
          { destruct (is_scalar y) eqn:Esc.
            - assert (Hy' : In y fxs').
              { apply Hk'; [eapply index_facts_fxs; eauto|].
                intros [j1 y1] Hw Heq. cbn [snd] in Heq. subst y1.
                assert (Hjj : j1 = j).
                { eapply (nodup_scalars_inj fa0 0 j1 j y Hnds Esc); apply Hinc'; apply in_or_app;
                    [left; exact Hw | right; left; reflexivity]. }
                subst j1. rewrite map_app in Hnd'.
                eapply (NoDup_app_disjoint _ _ _ j Hnd'); [apply (in_map fst _ _ Hw) | left; reflexivity]. }
              destruct (In_number_from fxs' (List.length fa0) y Hy') as [j' Hj'].
              exists j'. apply in_or_app; right; exact Hj'.
            - exists j. apply in_or_app; left. apply Hq3; [left; reflexivity | exact Esc]. }
          destruct Hcand as [j' Hj'].
          destruct (arraycat ord rec merged (JStr s)) as [np| |] eqn:E2; try discriminate.
          destruct (arraycat_in merged (JStr s) np bss _ j' y _ E2 Hmer Hj' Hq2) as [a [Ha Hx]].
          assert (Hpv : pvars (JArr [JStr s]) = pvars (JStr s)) by (cbn [pvars flat_map]; apply app_nil_r).
          rewrite Hpv in *.
          assert (Hwa : In (restr (pvars (JStr s) ++ pvars (JArr cs) ++ L) sg) a).
          { apply (Hrec (JStr s) y _ a Ha).
            - eapply aplain_arr_in; [exact Hp | exact Hsin].
            - eapply fc_arr_in; [exact Hf | exact Hyin].
            - exact Hev.
            - apply scal_ok_app_r. exact Hs'. }
          destruct (Hx _ Hwa) as [acc [Hacc1 Hacc2]].
          destruct np as [|np0 np]; [contradiction|].
          inversion H; subst. eapply In_combine_pairs; eauto.
        + inversion H; subst. cbn [vlist pvars flat_map app].
          eapply In_combine_pairs; eauto.
    Qed.
  End WithRec.

  (** * The matcher *)
  Theorem match_wit : forall fuel p f L r,
    match_ ord fuel p f (restr L sg) = Ok r ->
    aplain p -> fc f -> embeds sg p f = true -> scal_ok L (pvars p) ->
    In (restr (pvars p ++ L) sg) r.
  Proof.
    induction fuel as [|n IH]; intros p f L r H Hp Hf He Hs; [discriminate|].
    assert (Hrec : rec_wit (match_ ord n)) by (intros p' f' L' r' H'; apply IH; exact H').
    cbn [match_] in H. destruct p as [| b | z | s | xs | kvs].
    - cbn [embeds] in He. destruct f; try discriminate. inversion H; subst. left; reflexivity.
    - cbn [embeds] in He. destruct f; try discriminate. rewrite He in H. inversion H; subst. left; reflexivity.
    - cbn [embeds] in He. destruct f; try discriminate. rewrite He in H. inversion H; subst. left; reflexivity.
    - cbn [embeds] in He. cbn [pvars]. destruct (is_var s) eqn:Es.
      + cbn [app]. unfold var_embeds in He. destruct (is_anon s) eqn:Ea.
        * inversion H; subst. left. apply is_anon_eq in Ea; subst.
          symmetry; apply restr_cons_absent; exact Hsg_anon.
        * destruct (lookup s sg) as [w|] eqn:El; [|discriminate]. apply json_eqb_eq in He; subst f.
          assert (Hpl : is_plain_var s = true).
          { specialize (Hp s). cbn [pvars] in Hp. rewrite Es in Hp. specialize (Hp (or_introl eq_refl)).
            rewrite Ea in Hp. exact Hp. }
          rewrite (plain_var_inequal s w _ Hpl) in H.
          rewrite lookup_restr, El in H. destruct (smem s L) eqn:Em.
          -- apply smem_In in Em.
             assert (Hsc : is_scalar w = true).
             { apply (Hs s w); [cbn [pvars]; rewrite Es; left; reflexivity | left; exact Em | exact El]. }
             assert (Hwvf : var_free w = true) by (eapply sg_value_var_free; eauto).
             rewrite (bound_match_var_free _ _ _ _ Hwvf) in H.
             apply scalar_self_match in H; [|exact Hsc | exact Hwvf]. subst r.
             left. apply restr_ext. intros s'; cbn [In]; split; [tauto|]. intros [<-|Hi]; assumption.
          -- inversion H; subst. left. apply bset_restr; [exact Hsg_sorted | exact El | apply smem_false; exact Em].
      + destruct f; try discriminate. rewrite He in H. inversion H; subst. left; reflexivity.
    - eapply match_arr_wit; eauto.
    - destruct f as [| | | | | fkvs]; try (cbn [embeds] in He; discriminate).
      eapply match_obj_wit; eauto.
  Qed.
End Witness.

Lemma restr_empty : forall sg, restr [] sg = [].
Proof. induction sg as [|[k v] r IH]; [reflexivity | rewrite restr_cons; cbn [smem existsb]; exact IH]. Qed.

(** * Completeness *)
(** The form with exactly the hypotheses the proof uses and an explicit fuel
    bound.  Of [c02_pre] it does not need: [wf_json p], [wf_json f],
    [arrays_are_sets p] and the half "every variable of [p] is in the domain
    of [sg]" of [same_keys] (implied by [embeds]). *)
Theorem match_complete_strong : forall ord, perm_oracle ord -> forall p f sg,
  supported p = true -> all_plain p = true -> var_free f = true ->
  arrays_are_sets f = true ->
  var_free_bs sg = true -> sorted_keys sg = true ->
  (forall k, In k (map fst sg) -> In k (pvars p) /\ is_anon k = false) ->
  (forall s w, lookup s sg = Some w -> 2 <= count_occ_str s (pvars p) -> is_scalar w = true) ->
  embeds sg p f = true ->
  forall fuel, need (json_depth f) p <= fuel ->
    exists bss, match_ ord fuel p f [] = Ok bss /\ In sg bss.
Proof.
  intros ord Hord p f sg Hsup Hpl Hvff Hasf Hvfs Hsort Hdom Hrep He fuel Hfuel.
  destruct (match_supported_ok ord Hord fuel p f Hsup Hpl Hvff Hfuel) as [bss Hb].
  exists bss; split; [exact Hb|].
  assert (Hanon : lookup anon_var sg = None).
  { destruct (lookup anon_var sg) as [w|] eqn:El; [|reflexivity].
    apply lookup_In in El. apply (in_map fst) in El. cbn [fst] in El.
    apply Hdom in El. destruct El as [_ El]. unfold is_anon in El. rewrite String.eqb_refl in El. discriminate. }
  pose proof (match_wit ord Hord sg Hsort Hvfs Hanon fuel p f [] bss) as Hw.
  rewrite restr_empty in Hw. rewrite restr_all in Hw.
  - apply Hw; [exact Hb | apply all_plain_aplain; exact Hpl | exact Hasf | exact He |].
    intros s w Hin Hc Hl. destruct Hc as [[]|Hc]. eapply Hrep; eauto.
  - intros k Hk. apply in_or_app; left. apply Hdom; exact Hk.
Qed.

Theorem match_complete : forall ord, perm_oracle ord -> forall p f sg,
  c02_pre p f sg = true -> embeds sg p f = true ->
  exists n0, forall fuel, n0 <= fuel ->
    exists bss, match_ ord fuel p f [] = Ok bss /\ In sg bss.
Proof.
  intros ord Hord p f sg Hpre He. unfold c02_pre in Hpre.
  repeat rewrite andb_true_iff in Hpre.
  destruct Hpre as [[[[[[[[[[Hsup Hpl] Hwfp] Hwff] Hvff] Hasp] Hasf] Hvfs] Hsort] Hkeys] Hrep].
  exists (need (json_depth f) p). intros fuel Hfuel.
  unfold same_keys in Hkeys. apply andb_true_iff in Hkeys. destruct Hkeys as [Hk1 _].
  rewrite forallb_forall in Hk1.
  apply (match_complete_strong ord Hord p f sg Hsup Hpl Hvff Hasf Hvfs Hsort); try assumption.
  - intros k Hk. specialize (Hk1 k Hk). apply smem_In in Hk1. apply filter_In in Hk1.
    destruct Hk1 as [H1 H2]. apply negb_true_iff in H2. tauto.
  - intros s w Hl Hc.
    rewrite forallb_forall in Hrep. specialize (Hrep (s, w) (lookup_In _ _ _ Hl)). cbn [fst snd] in Hrep.
    apply orb_true_iff in Hrep. destruct Hrep as [Hle|Hsc]; [|exact Hsc].
    apply Nat.leb_le in Hle. lia.
Qed.

Print Assumptions match_complete.
