(** tools/expect as it was before the repairs D18, D19 and D30, and the
    witnesses on which the old definition passes an unsound session.

    - D18: [for _, output := range iop.OutputSet] worked on a copy, so
      [output.Bindingss] was never remembered: every line that matched an
      output decremented [need] again.
    - D19: a guard that returned no bindings gave [bss = []Bindings{nil}],
      which is not nil: the output counted as matched.
    - D30: [match.Match] returns an empty but non-nil slice for a
      property-variable pattern that matches no key of an object; the test
      [bss != nil] counted that as a match (with a guard the old code
      indexed [bss[0]] and crashed the process; shown here as a failure). *)
From Sheens Require Import Spec.ExpectSpec Proofs.ExpectProofs.

(** match.go, mapcatMatch: a sole property variable gathers into
    [make([]Bindings, 0, 0)] *)
Definition nonnil_empty (p m : json) : bool :=
  match p, m with
  | JObj [(k, _)], JObj _ => is_var k
  | _, _ => false
  end.

Definition try_output_old (o : output) (m : json) : ores :=
  match Match (o_pat o) m [] with
  | Err => OFail WMatchError
  | Fuel => OFail WFuel
  | Ok [] =>
      if nonnil_empty (o_pat o) m
      then match o_guard o with GNone => OYes | _ => OFail WGuardError end
      else ONo
  | Ok (b :: _) =>
      match guard_exec (o_guard o) b with
      | GuardOk => OYes
      | GuardNo => OYes
      | GuardErr => OFail WGuardError
      end
  end.

(** nothing is remembered: the state is just the counter *)
Fixpoint line_outputs_old (m : json) (outs : list output) (need : Z) : option Z :=
  match outs with
  | [] => Some need
  | o :: r =>
      match try_output_old o m with
      | OFail _ => None
      | ONo => line_outputs_old m r need
      | OYes => if o_inv o then None else line_outputs_old m r (need - 1)
      end
  end.

Fixpoint read_loop_old (outs : list output) (need : Z) (ls : list line) : option (list line) :=
  match ls with
  | [] => None
  | None :: r => read_loop_old outs need r
  | Some m :: r =>
      match line_outputs_old m outs need with
      | None => None
      | Some need' => if Z.eqb need' 0 then Some r else read_loop_old outs need' r
      end
  end.

Fixpoint run_steps_old (steps : list (list output)) (chunks : list (list line))
         (pending : list line) : bool :=
  match steps with
  | [] => true
  | outs :: more =>
      match read_loop_old outs (init_need outs) (pending ++ hd [] chunks) with
      | Some rest => run_steps_old more (tl chunks) rest
      | None => false
      end
  end.

Definition expect_passes_old (steps : list (list output)) (chunks : list (list line)) : bool :=
  run_steps_old steps chunks [].

Definition old_verdict_sound : Prop :=
  forall steps chunks, expect_passes_old steps chunks = true -> session_sound steps chunks.

Definition d18_steps : list (list output) :=
  [[mk_output (JObj [("a", JNum 4)]) GNone false; mk_output (JObj [("b", JNum 4)]) GNone false]].
Definition d18_chunks : list (list line) :=
  [[Some (JObj [("a", JNum 4)]); Some (JObj [("a", JNum 4)])]].

Definition d19_steps : list (list output) :=
  [[mk_output (JObj [("a", JStr "?x")]) GReject false]].
Definition d19_chunks : list (list line) := [[Some (JObj [("a", JNum 4)])]].

Definition d30_steps : list (list output) :=
  [[mk_output (JObj [("?k", JNum 4)]) GNone false]].
Definition d30_chunks : list (list line) := [[Some (JObj [("a", JNum 8)])]].

Lemma not_sound_of_b :
  forall steps chunks, session_sound_b steps chunks = false -> ~ session_sound steps chunks.
Proof.
  intros steps chunks H Hs. apply session_sound_b_iff in Hs. congruence.
Qed.

Lemma old_passes_d18 :
  expect_passes_old d18_steps d18_chunks = true /\ ~ session_sound d18_steps d18_chunks.
Proof. split; [vm_compute; reflexivity | apply not_sound_of_b; vm_compute; reflexivity]. Qed.

Lemma old_passes_d19 :
  expect_passes_old d19_steps d19_chunks = true /\ ~ session_sound d19_steps d19_chunks.
Proof. split; [vm_compute; reflexivity | apply not_sound_of_b; vm_compute; reflexivity]. Qed.

Lemma old_passes_d30 :
  expect_passes_old d30_steps d30_chunks = true /\ ~ session_sound d30_steps d30_chunks.
Proof. split; [vm_compute; reflexivity | apply not_sound_of_b; vm_compute; reflexivity]. Qed.

Theorem old_verdict_unsound : ~ old_verdict_sound.
Proof.
  intros H. destruct old_passes_d18 as [Hp Hn]. apply Hn. apply H. exact Hp.
Qed.

(** the repaired definition fails all three *)
Lemma new_fails_witnesses :
  expect_run d18_steps d18_chunks = Fail WTimeout /\
  expect_run d19_steps d19_chunks = Fail WTimeout /\
  expect_run d30_steps d30_chunks = Fail WTimeout.
Proof. vm_compute. repeat split; reflexivity. Qed.
