(** Facts about the id -> machine maps of Model/MCrew.v ([mget], [mset],
    [mdel]): lookup after update, and that the keys stay strictly sorted
    (hence duplicate free).  Sortedness is transported from [bset] through
    the key projection [mkeys]. *)
From Sheens Require Import Spec.MCrewSpec Proofs.SndBasics Proofs.SndSorted.

Lemma eqb_of_compare_ne : forall k k', String.compare k k' <> Eq -> String.eqb k k' = false.
Proof.
  intros k k' H. apply String.eqb_neq. intros ->. apply H. apply string_compare_refl.
Qed.

Lemma mget_mset_same : forall m k v, mget k (mset k v m) = Some v.
Proof.
  induction m as [| [k1 v1] r IH]; intros k v; cbn [mset mget].
  - rewrite String.eqb_refl. reflexivity.
  - destruct (String.compare k k1) eqn:C; cbn [mget].
    + rewrite String.eqb_refl. reflexivity.
    + rewrite String.eqb_refl. reflexivity.
    + rewrite eqb_of_compare_ne by (rewrite C; discriminate). apply IH.
Qed.

Lemma mget_mset_other : forall m k k' v, k <> k' -> mget k (mset k' v m) = mget k m.
Proof.
  induction m as [| [k1 v1] r IH]; intros k k' v Hne; cbn [mset mget].
  - apply String.eqb_neq in Hne. rewrite Hne. reflexivity.
  - destruct (String.compare k' k1) eqn:C; cbn [mget].
    + apply String.compare_eq_iff in C. subst k1. apply String.eqb_neq in Hne. rewrite Hne. reflexivity.
    + apply String.eqb_neq in Hne. rewrite Hne. reflexivity.
    + rewrite IH by exact Hne. reflexivity.
Qed.

Lemma mget_mdel_same : forall m k, mget k (mdel k m) = None.
Proof.
  induction m as [| [k1 v1] r IH]; intros k; cbn [mdel mget]; [reflexivity|].
  destruct (String.eqb k k1) eqn:E; [apply IH|]. cbn [mget]. rewrite E. apply IH.
Qed.

Lemma mget_mdel_other : forall m k k', k <> k' -> mget k (mdel k' m) = mget k m.
Proof.
  induction m as [| [k1 v1] r IH]; intros k k' Hne; cbn [mdel mget]; [reflexivity|].
  destruct (String.eqb k' k1) eqn:E.
  - apply String.eqb_eq in E. subst k1. apply String.eqb_neq in Hne. rewrite Hne.
    apply IH. apply String.eqb_neq. exact Hne.
  - cbn [mget]. destruct (String.eqb k k1); [reflexivity|]. apply IH. exact Hne.
Qed.

Lemma mget_in : forall m k r, mget k m = Some r -> In k (map fst m).
Proof.
  induction m as [| [k1 v1] t IH]; intros k r H; cbn in *; [discriminate|].
  destruct (String.eqb k k1) eqn:E.
  - apply String.eqb_eq in E. left. symmetry. exact E.
  - right. eapply IH. eassumption.
Qed.

Lemma in_mget : forall m k, In k (map fst m) -> exists r, mget k m = Some r.
Proof.
  induction m as [| [k1 v1] t IH]; intros k H; cbn in *; [destruct H|].
  destruct (String.eqb k k1) eqn:E; [eexists; reflexivity|].
  destruct H as [H | H]; [subst k1; rewrite String.eqb_refl in E; discriminate|].
  apply IH. exact H.
Qed.

Lemma mhas_in : forall m k, mhas k m = true <-> In k (map fst m).
Proof.
  intros m k. unfold mhas. split.
  - destruct (mget k m) eqn:E; [|discriminate]. intros _. eapply mget_in. eassumption.
  - intros H. destruct (in_mget m k H) as [r ->]. reflexivity.
Qed.

(** ---- sortedness --------------------------------------------------------- *)


Lemma mkeys_fst : forall m, map fst (mkeys m) = map fst m.
Proof. unfold mkeys. intros m. rewrite map_map. reflexivity. Qed.

Lemma mkeys_mset : forall m k v, mkeys (mset k v m) = bset k JNull (mkeys m).
Proof.
  induction m as [| [k1 v1] r IH]; intros k v; cbn [mset mkeys map bset fst]; [reflexivity|].
  destruct (String.compare k k1); cbn [mkeys map fst]; try reflexivity.
  fold (mkeys (mset k v r)). fold (mkeys r). rewrite IH. reflexivity.
Qed.

Lemma mkeys_mdel : forall m k, mkeys (mdel k m) = bremove k (mkeys m).
Proof.
  induction m as [| [k1 v1] r IH]; intros k; cbn [mdel mkeys map bremove fst]; [reflexivity|].
  fold (mkeys r). destruct (String.eqb k k1); [apply IH|].
  cbn [mkeys map fst]. fold (mkeys (mdel k r)). rewrite IH. reflexivity.
Qed.

Lemma bremove_keys_in : forall (bs : bindings) k x,
    In x (map fst (bremove k bs)) -> In x (map fst bs).
Proof.
  induction bs as [| [k1 v1] r IH]; intros k x H; cbn in *; [exact H|].
  destruct (String.eqb k k1).
  - right. eapply IH. eassumption.
  - cbn in H. destruct H as [H | H]; [left; exact H | right; eapply IH; eassumption].
Qed.

Lemma bremove_sorted : forall (bs : bindings) k,
    sorted_keys bs = true -> sorted_keys (bremove k bs) = true.
Proof.
  induction bs as [| [k1 v1] r IH]; intros k Hs; cbn [bremove]; [reflexivity|].
  pose proof (sorted_keys_tail _ _ _ Hs) as Ht.
  destruct (String.eqb k k1); [apply IH; exact Ht|].
  destruct (bremove k r) as [| [k2 v2] t] eqn:Eb; [reflexivity|].
  rewrite sorted_cons2. rewrite <- Eb. rewrite (IH k Ht), andb_true_r.
  eapply sorted_lt_all; [exact Hs|]. eapply bremove_keys_in with (k := k).
  rewrite Eb. left. reflexivity.
Qed.

Lemma msorted_nil : msorted [].
Proof. reflexivity. Qed.

Lemma msorted_mset : forall m k v, msorted m -> msorted (mset k v m).
Proof. intros m k v H. unfold msorted. rewrite mkeys_mset. apply bset_sorted. exact H. Qed.

Lemma msorted_mdel : forall m k, msorted m -> msorted (mdel k m).
Proof. intros m k H. unfold msorted. rewrite mkeys_mdel. apply bremove_sorted. exact H. Qed.

Lemma msorted_nodup : forall m, msorted m -> nodup_keys (map fst m) = true.
Proof. intros m H. rewrite <- mkeys_fst. apply sorted_nodup. exact H. Qed.

Lemma nodup_keys_NoDup : forall l, nodup_keys l = true -> NoDup l.
Proof.
  induction l as [| k r IH]; intros H; [constructor|].
  cbn in H. apply andb_true_iff in H. destruct H as [H1 H2].
  constructor; [| apply IH; exact H2].
  intros Hin. apply existsb_eqb_in in Hin. rewrite Hin in H1. discriminate.
Qed.

Lemma nodup_keys_filter : forall (f : string -> bool) l,
    nodup_keys l = true -> nodup_keys (filter f l) = true.
Proof.
  induction l as [| k r IH]; intros H; [reflexivity|].
  cbn in H. apply andb_true_iff in H. destruct H as [H1 H2]. cbn [filter].
  destruct (f k); [| apply IH; exact H2].
  cbn [nodup_keys]. rewrite (IH H2), andb_true_r.
  apply negb_true_iff. apply negb_true_iff in H1.
  destruct (existsb (String.eqb k) (filter f r)) eqn:E; [|reflexivity].
  apply existsb_eqb_in in E. apply filter_In in E. destruct E as [E _].
  apply existsb_eqb_in in E. rewrite E in H1. discriminate.
Qed.

(** ---- boolean equalities are reflexive ----------------------------------------------- *)

Lemma bindings_eqb_refl : forall b, bindings_eqb b b = true.
Proof. intros b. unfold bindings_eqb. apply json_eqb_refl. Qed.

Lemma nb_eqb_refl : forall x, nb_eqb x x = true.
Proof. intros [n b]. unfold nb_eqb. cbn. rewrite String.eqb_refl, bindings_eqb_refl. reflexivity. Qed.

Lemma mrec_eqb_refl : forall r, mrec_eqb r r = true.
Proof.
  intros r. unfold mrec_eqb. rewrite !String.eqb_refl, bindings_eqb_refl. reflexivity.
Qed.

Lemma mmap_eqb_refl : forall m, mmap_eqb m m = true.
Proof.
  induction m as [| [k v] r IH]; [reflexivity|].
  unfold mmap_eqb in *. cbn [list_eqb]. unfold mentry_eqb at 1. cbn [fst snd].
  rewrite String.eqb_refl, mrec_eqb_refl, IH. reflexivity.
Qed.
