(** C01: soundness of the matcher model. *)
From Sheens Require Import Spec.Contain Proofs.SndBasics Proofs.SndSpecFacts Proofs.SndArrayFacts Proofs.SndSorted.
From Coq Require Import Lia.
From Sheens Require Import Proofs.BoundMatch.

(** * Relations between binding sets *)

Definition newkeys (a b : bindings) (L : list string) : Prop :=
  forall k, lookup k b <> None -> lookup k a <> None \/ In k L.

Lemma newkeys_refl a L : newkeys a a L.
Proof. intros k H. left. exact H. Qed.

Lemma newkeys_trans a b c L : newkeys a b L -> newkeys b c L -> newkeys a c L.
Proof.
  intros H1 H2 k H. destruct (H2 k H) as [H' | H']; [|right; exact H'].
  apply H1. exact H'.
Qed.

Lemma newkeys_incl a b L L' : incl L L' -> newkeys a b L -> newkeys a b L'.
Proof. intros Hi H k Hk. destruct (H k Hk); [left | right]; auto. Qed.

Section Sound.
Variable ord : order_oracle.
Hypothesis ord_perm : perm_oracle ord.
Variable bs0 : bindings.
Variable M : nat.
(** an arbitrary further invariant of binding sets that [bset] preserves
    (instantiated with "the keys are sorted", or with nothing) *)
Variable Q : bindings -> Prop.
Hypothesis Q_bset : forall k v bs, Q bs -> Q (bset k v bs).

Definition good (v : json) : Prop := var_free v = true /\ json_depth v <= M.
Definition good_bs (bs : bindings) : Prop :=
  (forall k v, lookup k bs = Some v -> good v) /\ Q bs.

Lemma good_elem x l : good (JArr l) -> In x l -> good x.
Proof.
  intros [H1 H2] Hin. split; [eapply var_free_elem; eassumption|].
  pose proof (depth_elem_lt x l Hin). lia.
Qed.

Lemma good_val k v kvs : good (JObj kvs) -> In (k, v) kvs -> good v.
Proof.
  intros [H1 H2] Hin. split; [eapply var_free_val; eassumption|].
  pose proof (depth_val_lt k v kvs Hin). lia.
Qed.

Lemma good_key k v kvs : good (JObj kvs) -> In (k, v) kvs -> good (JStr k).
Proof.
  intros [H1 H2] Hin. split.
  - cbn [var_free]. destruct (var_free_val _ _ _ H1 Hin) as [Hk _]. rewrite Hk. reflexivity.
  - pose proof (depth_val_lt k v kvs Hin). pose proof (depth_pos v). cbn [json_depth]. lia.
Qed.

Lemma good_num f a : good f -> good (JNum a).
Proof.
  intros [_ H]. split; [reflexivity|]. pose proof (depth_pos f). cbn [json_depth]. lia.
Qed.

Lemma good_bs_bset k v bs : good_bs bs -> good v -> good_bs (bset k v bs).
Proof.
  intros [Hb HQ] Hv. split; [|apply Q_bset; exact HQ].
  intros k' v'. rewrite lookup_bset. destruct (String.eqb k' k).
  - intros [= <-]. exact Hv.
  - apply Hb.
Qed.

(** one step of the matcher: bindings only grow, by names of [L], and stay good *)
Definition step (L : list string) (bs bs' : bindings) : Prop :=
  extends bs bs' /\ newkeys bs bs' L /\ good_bs bs'.

Lemma step_refl L bs : good_bs bs -> step L bs bs.
Proof. intros H. split; [apply extends_refl | split; [apply newkeys_refl | exact H]]. Qed.

Lemma step_trans L a b c : step L a b -> step L b c -> step L a c.
Proof.
  intros [E1 [N1 _]] [E2 [N2 G2]]. split; [eapply extends_trans; eassumption|].
  split; [eapply newkeys_trans; eassumption | exact G2].
Qed.

Lemma step_incl L L' a b : incl L L' -> step L a b -> step L' a b.
Proof.
  intros Hi [E [N G]]. split; [exact E|]. split; [eapply newkeys_incl; eassumption | exact G].
Qed.

Lemma step_bset L k v bs :
  lookup k bs = None -> In k L -> good_bs bs -> good v -> step L bs (bset k v bs).
Proof.
  intros Hn Hin Hb Hv. split; [|split].
  - intros k' v' H. rewrite lookup_bset. destruct (String.eqb k' k) eqn:E; [|exact H].
    apply String.eqb_eq in E. subst k'. congruence.
  - intros k' H. rewrite lookup_bset in H. destruct (String.eqb k' k) eqn:E.
    + apply String.eqb_eq in E. subst k'. right. exact Hin.
    + left. exact H.
  - apply good_bs_bset; assumption.
Qed.

(** the invariant on the current bindings of a call *)
Definition inv (bs : bindings) : Prop := extends bs0 bs /\ good_bs bs.

Lemma inv_step L bs bs' : inv bs -> step L bs bs' -> inv bs'.
Proof.
  intros [E G] [E' [_ G']]. split; [eapply extends_trans; eassumption | exact G'].
Qed.

(** what is proved of [match_ ord n], as a property of the recursive callee *)
Definition sound_rec (rec : rec_t) : Prop :=
  forall p f bs r bs',
    good f -> inv bs -> rec p f bs = Ok r -> In bs' r ->
    step (nb p) bs bs' /\ (wf_json f = true -> fits bs0 bs' p f = true).

(** * matchWithBindingss *)

Lemma mwb_sound rec (Hrec : sound_rec rec) bss p f r bs' :
  good f -> (forall bs, In bs bss -> inv bs) ->
  mwb rec bss p f = Ok r -> In bs' r ->
  exists bs, In bs bss /\ step (nb p) bs bs' /\ (wf_json f = true -> fits bs0 bs' p f = true).
Proof.
  intros Hf Hinv Hm Hin. destruct (mwb_inv _ _ _ _ _ _ Hm Hin) as [bs [a [H1 [H2 H3]]]].
  exists bs. split; [exact H1|]. eapply Hrec; eauto.
Qed.

(** * Variables *)

Definition nonnum (w : json) : Prop := match w with JNum _ => False | _ => True end.

Lemma inequal_cases f bs s :
  (inequal f bs s = NotUsing /\
   forall a b op vv, f = JNum a -> lookup s bs = Some (JNum b) -> ineq_parse s = Some (op, vv) ->
                     sat op a b = true /\ exists w, lookup vv bs = Some w /\ nonnum w)
  \/
  (exists a b op vv,
      f = JNum a /\ lookup s bs = Some (JNum b) /\ ineq_parse s = Some (op, vv) /\
      ((sat op a b = false /\ inequal f bs s = Using [])
       \/ (sat op a b = true /\
           ((exists c, lookup vv bs = Some (JNum c) /\
                       inequal f bs s = Using (if Z.eqb c a then [bs] else []))
            \/ (lookup vv bs = None /\ inequal f bs s = Using [bset vv (JNum a) bs]))))).
Proof.
  unfold inequal. rewrite inequalities_on. cbn [negb].
  destruct (lookup s bs) as [w|] eqn:Es; [|left; split; [reflexivity | intros; discriminate]].
  destruct w as [| | b | | |]; try (left; split; [reflexivity | intros; discriminate]).
  destruct f as [| | a | | |]; try (left; split; [reflexivity | intros; discriminate]).
  destruct (ineq_parse s) as [[op vv]|] eqn:Ep; [|left; split; [reflexivity | intros; discriminate]].
  destruct (sat op a b) eqn:Esat.
  - destruct (lookup vv bs) as [w|] eqn:Ev.
    + destruct w as [| | c | | |].
      3:{ right. exists a, b, op, vv. repeat (split; [reflexivity|]). right. split; [exact Esat|].
          left. exists c. split; [exact Ev | destruct (Z.eqb c a); reflexivity]. }
      all: left; split; [reflexivity|];
        intros a' b' op' vv' [= <-] [= <-] [= <- <-]; split; [exact Esat|];
        eexists; split; [exact Ev | exact I].
    + right. exists a, b, op, vv. repeat (split; [reflexivity|]). right. split; [exact Esat|].
      right. split; [exact Ev | reflexivity].
  - right. exists a, b, op, vv. repeat (split; [reflexivity|]). left. split; [exact Esat | reflexivity].
Qed.

Lemma var_fits_ineq bs' s op vv a b :
  ineq_parse s = Some (op, vv) ->
  (forall w, lookup s bs0 = Some w -> w = JNum b) ->
  lookup s bs' = Some (JNum b) -> sat op a b = true -> lookup vv bs' = Some (JNum a) ->
  var_fits bs0 bs' s (JNum a) = true.
Proof.
  intros Hp H0 Hs Hsat Hv. unfold var_fits. rewrite Hp.
  assert (Hrule : ineq_rule bs' op vv b (JNum a) = true).
  { unfold ineq_rule. rewrite Hsat, Hv, Z.eqb_refl. reflexivity. }
  destruct (lookup s bs0) as [w|] eqn:E0.
  - rewrite (H0 w eq_refl). rewrite Hv. exact Hrule.
  - rewrite Hs, Hrule. apply orb_true_r.
Qed.

Lemma var_fits_plain bs' s f :
  plain_rule bs' s f = true ->
  (forall op vv b a, ineq_parse s = Some (op, vv) -> lookup s bs0 = Some (JNum b) -> f = JNum a ->
                     sat op a b = true /\ exists w, lookup vv bs' = Some w /\ nonnum w) ->
  var_fits bs0 bs' s f = true.
Proof.
  intros Hpl Hc. unfold var_fits.
  destruct (ineq_parse s) as [[op vv]|] eqn:Ep; [|exact Hpl].
  destruct (lookup s bs0) as [[| | b | | |]|] eqn:E0; try (rewrite Hpl; reflexivity).
  destruct f as [| | a | | |]; try exact Hpl.
  destruct (Hc op vv b a eq_refl eq_refl eq_refl) as [Hsat [w [Hw Hnn]]].
  rewrite Hw. destruct w; try (rewrite Hsat, Hpl; reflexivity). contradiction Hnn.
Qed.

Lemma var_sound rec (Hrec : sound_rec rec) s f bs r bs' :
  is_var s = true -> is_anon s = false -> good f -> inv bs ->
  match inequal f bs s with
  | Using r => Ok r
  | NotUsing =>
      match lookup s bs with
      | Some b => bound_match rec b f bs
      | None => Ok [bset s f bs]
      end
  end = Ok r ->
  In bs' r ->
  step (nb (JStr s)) bs bs' /\ (wf_json f = true -> var_fits bs0 bs' s f = true).
Proof.
  intros Hvar Hanon Hf [Hext Hgb] Hres Hin.
  destruct (inequal_cases f bs s) as [[Hnu Hc] | [a [b [op [vv [-> [Hs [Hp Hcase]]]]]]]].
  - rewrite Hnu in Hres. destruct (lookup s bs) as [w|] eqn:Es.
    + (* bound: the value is matched as a pattern *)
      pose proof (proj1 Hgb _ _ Es) as [Hwvf Hwd].
      rewrite (bound_match_var_free rec w f bs Hwvf) in Hres.
      destruct (Hrec w f bs r bs' Hf (conj Hext Hgb) Hres Hin) as [Hstep Hfits].
      rewrite (nb_var_free w Hwvf) in Hstep.
      split; [eapply step_incl; [|exact Hstep]; intros k []|].
      intros Hwf. apply var_fits_plain.
      * unfold plain_rule. destruct Hstep as [He _]. rewrite (He _ _ Es).
        rewrite <- (fits_var_free bs0 bs' w Hwvf). auto.
      * intros op vv b a Hp H0 ->. apply Hext in H0.
        assert (Ew : w = JNum b) by congruence. subst w.
        destruct (Hc a b op vv eq_refl eq_refl Hp) as [Hsat [w' [Hw' Hnn]]].
        split; [exact Hsat|]. exists w'. split; [|exact Hnn].
        destruct Hstep as [He _]. auto.
    + (* unbound: bind it *)
      injection Hres as <-. destruct Hin as [<- | []].
      split; [apply step_bset; auto using nb_var|].
      intros Hwf. apply var_fits_plain.
      * unfold plain_rule. rewrite lookup_bset, String.eqb_refl. apply contains_refl. exact Hwf.
      * intros op vv b a Hp H0 _. apply Hext in H0. congruence.
  - (* the inequality rule applies *)
    assert (H0 : forall w, lookup s bs0 = Some w -> w = JNum b).
    { intros w Hw. apply Hext in Hw. congruence. }
    destruct Hcase as [[Hsat Hu] | [Hsat [[c [Hv Hu]] | [Hv Hu]]]]; rewrite Hu in Hres;
      injection Hres as <-.
    + destruct Hin.
    + destruct (Z.eqb c a) eqn:Eca; [|destruct Hin].
      apply Z.eqb_eq in Eca. subst c. destruct Hin as [<- | []].
      split; [apply step_refl; exact Hgb|]. intros _.
      eapply var_fits_ineq; eassumption.
    + destruct Hin as [<- | []].
      split.
      * apply step_bset; auto. eapply nb_counterpart; eassumption.
      * intros _. eapply var_fits_ineq; try eassumption.
        -- rewrite lookup_bset. destruct (String.eqb s vv) eqn:E; [|exact Hs].
           apply String.eqb_eq in E. congruence.
        -- rewrite lookup_bset, String.eqb_refl. reflexivity.
Qed.

(** * Objects *)

Lemma mapcat_sound rec (Hrec : sound_rec rec) fkvs (Hf : good (JObj fkvs)) L :
  forall kvs bss r bs',
    (forall k v, In (k, v) kvs -> incl (nb v) L) ->
    (forall bs, In bs bss -> inv bs) ->
    mapcat rec bss kvs fkvs = Ok r -> In bs' r ->
    exists bs, In bs bss /\ step L bs bs' /\
      (wf_json (JObj fkvs) = true ->
       forall k v, In (k, v) kvs -> obj_const_rule bs0 bs' fkvs k v = true).
Proof.
  induction kvs as [| [k v] kvs IH]; intros bss r bs' HL Hinv Hm Hin; cbn [mapcat] in Hm.
  - injection Hm as <-. exists bs'. split; [exact Hin|].
    split; [apply step_refl; apply (Hinv _ Hin)|]. intros _ k v [].
  - assert (HL' : forall k0 v0, In (k0, v0) kvs -> incl (nb v0) L).
    { intros k0 v0 H0. eapply HL. right. exact H0. }
    destruct (assoc k fkvs) as [fv|] eqn:Ea.
    + destruct (mwb rec bss v fv) as [acc| |] eqn:Em; try discriminate.
      destruct acc as [| a0 acc]; [injection Hm as <-; destruct Hin|].
      assert (Hfv : good fv) by (eapply good_val; [exact Hf | eapply assoc_in; exact Ea]).
      assert (Hacc : forall bs1, In bs1 (a0 :: acc) ->
                exists bs, In bs bss /\ step (nb v) bs bs1 /\
                           (wf_json fv = true -> fits bs0 bs1 v fv = true)).
      { intros bs1 H1. eapply mwb_sound; eauto. }
      destruct (IH (a0 :: acc) r bs' HL') as [bs1 [H1 [Hstep1 Hrest]]]; [| exact Hm | exact Hin |].
      { intros bs1 H1. destruct (Hacc bs1 H1) as [bs [Hb [Hs _]]].
        eapply inv_step; [apply Hinv; exact Hb | exact Hs]. }
      destruct (Hacc bs1 H1) as [bs [Hb [Hs Hfit]]].
      exists bs. split; [exact Hb|]. split.
      * eapply step_trans; [eapply step_incl; [|exact Hs]; eapply HL; left; reflexivity | exact Hstep1].
      * intros Hwf k' v' [Heq | Hin'].
        -- injection Heq as <- <-. unfold obj_const_rule. rewrite Ea.
           eapply fits_mono; [apply Hstep1|]. apply Hfit.
           eapply wf_val; [exact Hwf | eapply assoc_in; exact Ea].
        -- apply Hrest; assumption.
    + destruct (is_optional_json v) eqn:Eo; [|injection Hm as <-; destruct Hin].
      destruct (IH bss r bs' HL' Hinv Hm Hin) as [bs [Hb [Hs Hrest]]].
      exists bs. split; [exact Hb|]. split; [exact Hs|].
      intros Hwf k' v' [Heq | Hin'].
      * injection Heq as <- <-. unfold obj_const_rule. rewrite Ea. exact Eo.
      * apply Hrest; assumption.
Qed.

Lemma propvar_loop_inv rec bss k v :
  forall fkvs r bs',
    propvar_loop rec bss k v fkvs = Ok r -> In bs' r ->
    exists fk fv ext ext2,
      In (fk, fv) fkvs /\ mwb rec bss (JStr k) (JStr fk) = Ok ext /\
      mwb rec ext v fv = Ok ext2 /\ In bs' ext2.
Proof.
  induction fkvs as [| [fk fv] fkvs IH]; intros r bs'; cbn [propvar_loop].
  - intros [= <-] [].
  - destruct (mwb rec bss (JStr k) (JStr fk)) as [ext| |] eqn:E1; try discriminate.
    destruct ext as [| e0 ext].
    + intros Hm Hin. destruct (IH _ _ Hm Hin) as (fk' & fv' & ext' & ext2' & H1 & H2 & H3 & H4).
      exists fk', fv', ext', ext2'. split; [right; exact H1|]. auto.
    + destruct (mwb rec (e0 :: ext) v fv) as [ext2| |] eqn:E2; try discriminate.
      destruct (propvar_loop rec bss k v fkvs) as [g| |] eqn:E3; try discriminate.
      intros [= <-] Hin. apply in_app_iff in Hin. destruct Hin as [Hin | Hin].
      * exists fk, fv, (e0 :: ext), ext2. split; [left; reflexivity|]. auto.
      * destruct (IH _ _ eq_refl Hin) as (fk' & fv' & ext' & ext2' & H1 & H2 & H3 & H4).
        exists fk', fv', ext', ext2'. split; [right; exact H1|]. auto.
Qed.

Lemma propvar_sound rec (Hrec : sound_rec rec) fkvs (Hf : good (JObj fkvs)) bs k v r bs' :
  is_var k = true -> inv bs ->
  propvar ord rec [bs] k v fkvs = Ok r -> In bs' r ->
  step (nb (JObj [(k, v)])) bs bs' /\
  (wf_json (JObj fkvs) = true -> fits bs0 bs' (JObj [(k, v)]) (JObj fkvs) = true).
Proof.
  intros Hk Hinv Hm Hin. unfold propvar in Hm.
  destruct (propvar_loop_inv _ _ _ _ _ _ _ Hm Hin) as (fk & fv & ext & ext2 & H1 & H2 & H3 & H4).
  assert (Hin' : In (fk, fv) fkvs) by (eapply Permutation_in; [apply ord_perm | exact H1]).
  assert (Hext : forall bs1, In bs1 ext ->
            step (nb (JStr k)) bs bs1 /\
            (wf_json (JStr fk) = true -> fits bs0 bs1 (JStr k) (JStr fk) = true)).
  { intros bs1 Hb1.
    destruct (mwb_sound rec Hrec [bs] (JStr k) (JStr fk) ext bs1) as [b [Hb Hres]];
      [eapply good_key; eassumption | intros ? [<- | []]; exact Hinv | exact H2 | exact Hb1 |].
    destruct Hb as [<- | []]. exact Hres. }
  destruct (mwb_sound rec Hrec ext v fv ext2 bs') as [bs1 [Hb1 [Hs2 Hfit2]]];
    [eapply good_val; eassumption | | exact H3 | exact H4 |].
  { intros bs1 Hb1. eapply inv_step; [exact Hinv | apply (Hext bs1 Hb1)]. }
  destruct (Hext bs1 Hb1) as [Hs1 Hfit1].
  split.
  - eapply step_trans; [eapply step_incl; [|exact Hs1] | eapply step_incl; [|exact Hs2]];
      apply nb_incl.
    + eapply pvars_key. left. reflexivity.
    + eapply pvars_val. left. reflexivity.
  - intros Hwf. rewrite fits_obj1, Hk. apply existsb_exists. exists (fk, fv).
    split; [exact Hin'|]. cbn [fst snd].
    rewrite key_fits_eq by exact Hk. apply andb_true_iff. split.
    + eapply fits_mono; [apply Hs2|]. apply Hfit1. reflexivity.
    + apply Hfit2. eapply wf_val; eassumption.
Qed.

Lemma insert_kv_in kv x l : In x (insert_kv kv l) <-> x = kv \/ In x l.
Proof.
  induction l as [| y l IH]; cbn [insert_kv In].
  - split; intros [H | H]; auto.
  - destruct (String.leb (fst kv) (fst y)); cbn [In]; [split; intros [H | H]; auto|].
    rewrite IH. tauto.
Qed.

Lemma sort_kvs_in x l : In x (sort_kvs l) <-> In x l.
Proof.
  unfold sort_kvs. induction l as [| y l IH]; cbn [fold_right In]; [tauto|].
  rewrite insert_kv_in, IH. split; intros [H | H]; auto.
Qed.

Lemma match_obj_sound rec (Hrec : sound_rec rec) bs kvs fkvs r bs' :
  good (JObj fkvs) -> inv bs ->
  match_obj ord rec bs kvs fkvs = Ok r -> In bs' r ->
  step (nb (JObj kvs)) bs bs' /\
  (wf_json (JObj fkvs) = true -> fits bs0 bs' (JObj kvs) (JObj fkvs) = true).
Proof.
  intros Hf Hinv Hm Hin. unfold match_obj in Hm.
  destruct kvs as [| [k v] [| kv2 kvs]]; cbn beta iota in Hm.
  - injection Hm as <-. destruct Hin as [<- | []].
    split; [apply step_refl; apply Hinv|]. intros _. reflexivity.
  - destruct (is_var k) eqn:Ek.
    + rewrite allow_property_variables_on in Hm. eapply propvar_sound; eauto.
    + destruct (mapcat_sound rec Hrec fkvs Hf (nb (JObj [(k, v)])) [(k, v)] [bs] r bs')
        as [b [Hb [Hs Hfit]]].
      * intros k0 v0 [[= <- <-] | []]. apply nb_incl. eapply pvars_val. left. reflexivity.
      * intros ? [<- | []]. exact Hinv.
      * exact Hm.
      * exact Hin.
      * destruct Hb as [<- | []]. split; [exact Hs|]. intros Hwf.
        rewrite fits_obj1, Ek. apply Hfit; [exact Hwf | left; reflexivity].
  - remember ((k, v) :: kv2 :: kvs) as kvs0 eqn:E0.
    rewrite check_bad_property_variables_on in Hm. cbn [andb] in Hm.
    destruct (has_var_key kvs0) eqn:Eh; [discriminate|].
    destruct (mapcat_sound rec Hrec fkvs Hf (nb (JObj kvs0)) (sort_kvs kvs0) [bs] r bs')
      as [b [Hb [Hs Hfit]]].
    * intros k0 v0 H0. apply (proj1 (sort_kvs_in _ _)) in H0. apply nb_incl. eapply pvars_val. exact H0.
    * intros ? [<- | []]. exact Hinv.
    * exact Hm.
    * exact Hin.
    * destruct Hb as [<- | []]. split; [exact Hs|]. intros Hwf.
      rewrite fits_objn by (subst kvs0; cbn [List.length]; discriminate).
      apply forallb_forall. intros [k0 v0] H0. cbn [fst snd].
      apply andb_true_iff. split.
      -- destruct (is_var k0) eqn:Ek0; [|reflexivity].
         assert (Hex : has_var_key kvs0 = true).
         { unfold has_var_key. apply existsb_exists. exists (k0, v0). split; [exact H0 | exact Ek0]. }
         congruence.
      -- apply Hfit; [exact Hwf|]. apply (proj2 (sort_kvs_in _ _)). exact H0.
Qed.

(** * Arrays *)

Lemma fits_scalar_self bs' x : is_scalar x = true -> nonvar x -> fits bs0 bs' x x = true.
Proof.
  destruct x; cbn [is_scalar nonvar]; try discriminate; intros _ H.
  - reflexivity.
  - cbn. apply Bool.eqb_reflx.
  - cbn. apply Z.eqb_refl.
  - rewrite fits_str, H. apply String.eqb_refl.
Qed.

Lemma number_from_in j y l : forall i, In (j, y) (number_from i l) -> In y l.
Proof.
  induction l as [| x l IH]; intros i; cbn [number_from In]; [auto|].
  intros [[= _ <-] | H]; [left; reflexivity | right; eapply IH; exact H].
Qed.

Lemma combine_pairs_in bs' (l : list pair_t) :
  In bs' (combine_pairs l) <-> exists pr, In pr l /\ In bs' (fst pr).
Proof.
  unfold combine_pairs. rewrite in_concat. split.
  - intros [bss [H1 H2]]. apply in_map_iff in H1. destruct H1 as [pr [<- H1]]. eauto.
  - intros [pr [H1 H2]]. exists (fst pr). split; [apply in_map; exact H1 | exact H2].
Qed.

Section Arr.
Variable rec : rec_t.
Hypothesis Hrec : sound_rec rec.
Variable L : list string.
Variable bs : bindings.
Hypothesis Hinv : inv bs.
Variable fa : list json.
Hypothesis Hfa : good (JArr fa).

Local Notation sfa := (filter (fun y => negb (is_scalar y)) fa).

Definition pair_ok (done : list json) (pr : pair_t) : Prop :=
  NoDup (map fst (snd pr)) /\
  (forall j fact, In (j, fact) (snd pr) -> In fact fa) /\
  forall bs', In bs' (fst pr) ->
    step L bs bs' /\
    (wf_json (JArr fa) = true ->
     exists ys, Forall2 (fun x y => fits bs0 bs' x y = true) done ys /\
                Permutation (ys ++ map snd (snd pr)) sfa).

Lemma arraycat_ok x done pairs np :
  incl (nb x) L ->
  (forall pr, In pr pairs -> pair_ok done pr) ->
  arraycat ord rec pairs x = Ok np ->
  forall pr, In pr np -> pair_ok (x :: done) pr.
Proof.
  intros HL Hpairs Hac [acc mm2] Hpr.
  destruct (arraycat_inv ord ord_perm rec x pairs np acc mm2 Hac Hpr)
    as (bss & mm & j & fact & H1 & H2 & H3 & H4 & ->).
  destruct (Hpairs _ H1) as [Hnd [Hfacts Hbss]]. unfold pair_ok. cbn [fst snd] in *.
  split; [apply remove_idx_nodup; exact Hnd|].
  split; [intros j' fact' H'; eapply Hfacts; eapply remove_idx_in; exact H'|].
  intros bs' Hb'.
  assert (Hfact : In fact fa) by (eapply Hfacts; exact H2).
  destruct (mwb_sound rec Hrec bss x fact acc bs') as [bs1 [Hb1 [Hs Hfit]]];
    [eapply good_elem; eassumption | | exact H3 | exact Hb' |].
  { intros b Hb. eapply inv_step; [exact Hinv | apply (Hbss b Hb)]. }
  destruct (Hbss bs1 Hb1) as [Hs1 Hys].
  split; [eapply step_trans; [exact Hs1 | eapply step_incl; eassumption]|].
  intros Hwf. destruct (Hys Hwf) as [ys [HF HP]].
  exists (fact :: ys). split.
  - constructor; [apply Hfit; eapply wf_elem; eassumption|].
    eapply Forall2_impl'; [|exact HF]. cbn beta. intros x0 y0. apply fits_mono. apply Hs.
  - cbn [app]. eapply Permutation_trans; [|exact HP].
    eapply Permutation_trans; [apply Permutation_middle|]. apply Permutation_app_head.
    apply Permutation_sym.
    change (fact :: map snd (remove_idx j mm)) with (map snd ((j, fact) :: remove_idx j mm)).
    apply Permutation_map. apply remove_idx_perm; assumption.
Qed.

Lemma arr_loop_ok fe :
  forall cs done sc fxs pairs fxs' pairs',
    Forall nonvar cs -> (forall x, In x cs -> incl (nb x) L) ->
    (forall pr, In pr pairs -> pair_ok done pr) ->
    NoDup sc -> (forall y, In y sc -> In y fa /\ is_scalar y = true) ->
    (forall y, In y fxs -> In y fa /\ is_scalar y = true /\ ~ In y sc) ->
    arr_loop ord rec fe cs fxs pairs = Ok (Some (fxs', pairs')) ->
    exists done' sc',
      Permutation (done' ++ sc') (cs ++ done ++ sc) /\
      (forall pr, In pr pairs' -> pair_ok done' pr) /\
      NoDup sc' /\ (forall y, In y sc' -> In y fa /\ is_scalar y = true) /\
      (forall y, In y fxs' -> In y fa /\ is_scalar y = true /\ ~ In y sc').
Proof.
  induction cs as [| x cs IH];
    intros done sc fxs pairs fxs' pairs' Hnv HL Hpairs Hnd Hsc Hfxs Hloop; cbn [arr_loop] in Hloop.
  - injection Hloop as <- <-. exists done, sc. split; [apply Permutation_refl|]. auto.
  - inversion Hnv as [| x0 l0 Hx Hnv']; subst.
    assert (HL' : forall x0, In x0 cs -> incl (nb x0) L).
    { intros x0 H0. apply HL. right. exact H0. }
    destruct (is_scalar x) eqn:Ex.
    + destruct (jmem x fxs) eqn:Ej; [|discriminate].
      pose proof (jmem_in x fxs Ex Ej) as Hxin. destruct (Hfxs x Hxin) as [Hxfa [_ Hxsc]].
      destruct (IH done (x :: sc) (jremove x fxs) pairs fxs' pairs' Hnv' HL' Hpairs)
        as (done' & sc' & HP & Hrest); [ | | | exact Hloop |].
      * constructor; assumption.
      * intros y [<- | Hy]; [split; assumption | apply Hsc; exact Hy].
      * intros y Hy. apply jremove_in in Hy. destruct Hy as [Hy Hne].
        destruct (Hfxs y Hy) as [A [B C]]. split; [exact A|]. split; [exact B|].
        intros [E | E]; contradiction.
      * exists done', sc'. split; [|exact Hrest]. eapply Permutation_trans; [exact HP|].
        cbn [app]. rewrite (app_assoc cs done (x :: sc)), (app_assoc cs done sc).
        apply Permutation_sym. apply Permutation_middle.
    + destruct fe; [discriminate|].
      destruct (arraycat ord rec pairs x) as [np| |] eqn:Eac; try discriminate.
      destruct np as [| p0 np]; [discriminate|].
      destruct (IH (x :: done) sc fxs (p0 :: np) fxs' pairs' Hnv' HL')
        as (done' & sc' & HP & Hrest); [ | exact Hnd | exact Hsc | exact Hfxs | exact Hloop |].
      * eapply arraycat_ok; [apply HL; left; reflexivity | exact Hpairs | exact Eac].
      * exists done', sc'. split; [|exact Hrest]. eapply Permutation_trans; [exact HP|].
        cbn [app]. apply Permutation_sym. apply Permutation_middle.
Qed.

End Arr.

Lemma match_arr_sound rec (Hrec : sound_rec rec) bs xs f r bs' :
  good f -> inv bs -> match_arr ord rec bs xs f = Ok r -> In bs' r ->
  step (nb (JArr xs)) bs bs' /\ (wf_json f = true -> fits bs0 bs' (JArr xs) f = true).
Proof.
  intros Hf Hinv Hm Hin. unfold match_arr in Hm.
  destruct (get_var xs None) as [[v cs]|] eqn:Eg; [|discriminate].
  destruct f as [| | | | fa |]; try (injection Hm as <-; destruct Hin).
  destruct (index_facts 0 fa) as [fxs fxa] eqn:Ei.
  destruct (arr_loop ord rec match fxa with [] => true | _ :: _ => false end cs fxs [([bs], fxa)])
    as [[[fxs' pairs]|]| |] eqn:El; try discriminate; [|injection Hm as <-; destruct Hin].
  destruct (get_var_spec _ _ _ _ Eg) as [Hnv Hcase].
  destruct (index_facts_spec _ _ _ _ Ei) as [Hfxs [Hfxa [_ Hndl]]].
  set (L := nb (JArr xs)).
  assert (Hxs : forall x, In x xs -> incl (nb x) L).
  { intros x Hx. apply nb_incl. apply pvars_elem. exact Hx. }
  assert (Hcsxs : forall x, In x cs -> In x xs).
  { destruct Hcase as [[_ ->] | [_ [s [_ [_ HP]]]]]; [auto|].
    intros x Hx. eapply Permutation_in; [apply Permutation_sym; exact HP|]. right. exact Hx. }
  destruct (arr_loop_ok rec Hrec L bs Hinv fa Hf (match fxa with [] => true | _ :: _ => false end) cs [] [] fxs [([bs], fxa)] fxs' pairs Hnv)
    as (done & sc & HPd & Hpairs & Hndsc & Hsc & Hfxs').
  - intros x Hx. apply Hxs, Hcsxs, Hx.
  - intros pr [<- | []]. split; [exact Hndl|]. split.
    + intros j fact Hj. cbn [snd] in Hj.
      assert (H : In fact (map snd fxa)) by (apply in_map_iff; exists (j, fact); auto).
      rewrite Hfxa in H. apply filter_In in H. tauto.
    + intros b [<- | []]. split; [apply step_refl; apply Hinv|]. intros _.
      exists []. split; [constructor|]. cbn [app snd]. rewrite Hfxa. apply Permutation_refl.
  - constructor.
  - intros y [].
  - intros y Hy. destruct (Hfxs y Hy). split; [assumption|]. split; [assumption|]. intros [].
  - exact El.
  - cbn [app] in HPd. rewrite app_nil_r in HPd.
    assert (Hscnv : forall x, In x sc -> nonvar x).
    { intros x Hx. rewrite Forall_forall in Hnv. apply Hnv.
      eapply Permutation_in; [exact HPd|]. apply in_app_iff. right. exact Hx. }
    assert (Hscfit : forall b, Forall2 (fun x y => fits bs0 b x y = true) sc sc).
    { intros b. apply Forall2_same. intros x Hx.
      apply fits_scalar_self; [apply Hsc; exact Hx | apply Hscnv; exact Hx]. }
    assert (Hfcs : filter (fun x => negb (is_optional_json x)) cs = cs).
    { apply filter_all_true. intros x Hx. rewrite Forall_forall in Hnv.
      rewrite (nonvar_not_optional x (Hnv x Hx)). reflexivity. }
    (* the case where the variable (if any) plays no role *)
    assert (Hfinish : forall pr b,
               In pr pairs -> In b (fst pr) ->
               Permutation (filter (fun x => negb (is_optional_json x)) xs) cs ->
               step L bs b /\ (wf_json (JArr fa) = true -> fits bs0 b (JArr xs) (JArr fa) = true)).
    { intros pr b Hpr Hb HPx. destruct (Hpairs pr Hpr) as [_ [_ Hb']].
      destruct (Hb' b Hb) as [Hs Hys]. split; [exact Hs|].
      intros Hwf. destruct (Hys Hwf) as [ys [HF HP]]. rewrite fits_arr.
      eapply (inj_assign_assemble (fits bs0 b) is_optional_json xs fa done ys sc sc
                                  (map snd (snd pr))).
      - eapply Permutation_trans; [exact HPx | apply Permutation_sym; exact HPd].
      - exact HF.
      - apply Hscfit.
      - exact Hndsc.
      - exact Hsc.
      - exact HP. }
    destruct Hcase as [[-> ->] | [_ [s [-> [Hs HP]]]]].
    + (* no variable *)
      injection Hm as <-. apply combine_pairs_in in Hin. destruct Hin as [mpr [H1 H2]].
      apply in_map_iff in H1. destruct H1 as [pr [<- H1]]. cbn [fst] in H2.
      apply (Hfinish pr bs' H1 H2). rewrite Hfcs. apply Permutation_refl.
    + assert (Hsxs : In (JStr s) xs).
      { eapply Permutation_in; [apply Permutation_sym; exact HP|]. left. reflexivity. }
      destruct (arraycat ord rec
                  (map (fun pr : pair_t => (fst pr, snd pr ++ number_from (List.length fa) fxs')) pairs)
                  (JStr s)) as [np| |] eqn:Eac; try discriminate.
      destruct np as [| p0 np].
      * (* the variable matched nothing: only allowed when optional *)
        destruct (is_optional s) eqn:Eo; [|injection Hm as <-; destruct Hin].
        injection Hm as <-. apply combine_pairs_in in Hin. destruct Hin as [mpr [H1 H2]].
        apply in_map_iff in H1. destruct H1 as [pr [<- H1]]. cbn [fst] in H2.
        apply (Hfinish pr bs' H1 H2).
        eapply Permutation_trans; [apply Permutation_filter'; exact HP|].
        cbn [filter is_optional_json]. rewrite Eo. cbn [negb]. rewrite Hfcs. apply Permutation_refl.
      * injection Hm as <-. apply combine_pairs_in in Hin. destruct Hin as [[acc mm2] [H1 H2]].
        cbn [fst] in H2.
        destruct (arraycat_inv ord ord_perm rec (JStr s) _ _ acc mm2 Eac H1)
          as (bss & mm' & j & fact & G1 & G2 & G3 & G4 & _).
        apply in_map_iff in G1. destruct G1 as [pr [Epr Hpr]]. injection Epr as <- <-.
        destruct (Hpairs pr Hpr) as [_ [Hfacts Hbss]].
        assert (Hfact : In fact fa).
        { apply in_app_iff in G2. destruct G2 as [G2 | G2]; [eapply Hfacts; exact G2|].
          apply number_from_in in G2. apply Hfxs'. exact G2. }
        destruct (mwb_sound rec Hrec (fst pr) (JStr s) fact acc bs') as [bs1 [Hb1 [Hst Hfit]]];
          [eapply good_elem; eassumption | | exact G3 | exact H2 |].
        { intros b Hb. eapply inv_step; [exact Hinv | apply (Hbss b Hb)]. }
        destruct (Hbss bs1 Hb1) as [Hs1 Hys].
        split; [eapply step_trans; [exact Hs1 | eapply step_incl; [apply Hxs; exact Hsxs | exact Hst]]|].
        intros Hwf. destruct (Hys Hwf) as [ys [HF0 HPm]].
        assert (HF : Forall2 (fun x y => fits bs0 bs' x y = true) done ys).
        { eapply Forall2_impl'; [|exact HF0]. cbn beta. intros x0 y0. apply fits_mono. apply Hst. }
        specialize (Hfit (wf_elem _ _ Hwf Hfact)).
        rewrite fits_arr.
        assert (HPxs : Permutation (filter (fun x => negb (is_optional_json x)) xs)
                                   (if is_optional s then cs else JStr s :: cs)).
        { eapply Permutation_trans; [apply Permutation_filter'; exact HP|].
          cbn [filter is_optional_json]. destruct (is_optional s); cbn [negb]; rewrite Hfcs;
            apply Permutation_refl. }
        destruct (is_optional s) eqn:Eo.
        -- eapply (inj_assign_assemble (fits bs0 bs') is_optional_json xs fa done ys sc sc
                                       (map snd (snd pr))).
           ++ eapply Permutation_trans; [exact HPxs | apply Permutation_sym; exact HPd].
           ++ exact HF.
           ++ apply Hscfit.
           ++ exact Hndsc.
           ++ exact Hsc.
           ++ exact HPm.
        -- apply in_app_iff in G2. destruct G2 as [G2 | G2].
           ++ (* the variable took a structured element *)
              assert (Hfm : In fact (map snd (snd pr))).
              { apply in_map_iff. exists (j, fact). split; [reflexivity | exact G2]. }
              apply in_split in Hfm. destruct Hfm as [l1 [l2 El12]].
              eapply (inj_assign_assemble (fits bs0 bs') is_optional_json xs fa
                        (JStr s :: done) (fact :: ys) sc sc (l1 ++ l2)).
              ** eapply Permutation_trans; [exact HPxs|]. cbn [app]. constructor.
                 apply Permutation_sym. exact HPd.
              ** constructor; assumption.
              ** apply Hscfit.
              ** exact Hndsc.
              ** exact Hsc.
              ** eapply Permutation_trans; [|exact HPm]. rewrite El12. cbn [app].
                 rewrite (app_assoc ys l1 l2), (app_assoc ys l1 (fact :: l2)).
                 apply Permutation_middle.
           ++ (* the variable took a left-over scalar *)
              apply number_from_in in G2. destruct (Hfxs' fact G2) as [A [B C]].
              eapply (inj_assign_assemble (fits bs0 bs') is_optional_json xs fa
                        done ys (JStr s :: sc) (fact :: sc) (map snd (snd pr))).
              ** eapply Permutation_trans; [exact HPxs|].
                 eapply Permutation_trans; [constructor; apply Permutation_sym; exact HPd|].
                 apply Permutation_middle.
              ** exact HF.
              ** constructor; [exact Hfit | apply Hscfit].
              ** constructor; assumption.
              ** intros y [<- | Hy]; [split; assumption | apply Hsc; exact Hy].
              ** exact HPm.
Qed.

(** * The matcher, by induction on the fuel *)

Lemma match_sound_rec : forall n, sound_rec (match_ ord n).
Proof.
  induction n as [| n IH]; intros p f bs r bs' Hf Hinv Hm Hin; [discriminate|].
  cbn [match_] in Hm.
  assert (Hrefl : step (nb p) bs bs) by (apply step_refl; apply Hinv).
  destruct p as [| x | x | s | xs | kvs].
  - destruct f; injection Hm as <-; try (destruct Hin; fail).
    destruct Hin as [<- | []]. split; [exact Hrefl | reflexivity].
  - destruct f as [| y | | | |]; try (injection Hm as <-; destruct Hin; fail).
    destruct (Bool.eqb x y) eqn:E; injection Hm as <-; [|destruct Hin].
    destruct Hin as [<- | []]. split; [exact Hrefl | intros _; exact E].
  - destruct f as [| | y | | |]; try (injection Hm as <-; destruct Hin; fail).
    destruct (Z.eqb x y) eqn:E; injection Hm as <-; [|destruct Hin].
    destruct Hin as [<- | []]. split; [exact Hrefl | intros _; exact E].
  - destruct (is_var s) eqn:Ev.
    + destruct (is_anon s) eqn:Ea.
      * injection Hm as <-. destruct Hin as [<- | []]. split; [exact Hrefl|].
        intros _. rewrite fits_str, Ev, Ea. reflexivity.
      * destruct (var_sound (match_ ord n) IH s f bs r bs' Ev Ea Hf Hinv Hm Hin) as [Hs Hfit].
        split; [exact Hs|]. intros Hwf. rewrite fits_str, Ev, Ea. auto.
    + destruct f as [| | | t | |]; try (injection Hm as <-; destruct Hin; fail).
      destruct (String.eqb s t) eqn:E; injection Hm as <-; [|destruct Hin].
      destruct Hin as [<- | []]. split; [exact Hrefl|].
      intros _. rewrite fits_str, Ev. exact E.
  - eapply match_arr_sound; eauto.
  - destruct f as [| | | | | fkvs]; try (injection Hm as <-; destruct Hin; fail).
    eapply match_obj_sound; eauto.
Qed.

End Sound.

(** * The theorem *)

Definition depth_bs (bs : bindings) : nat :=
  fold_right (fun kv acc => Nat.max (json_depth (snd kv)) acc) 0 bs.

Lemma depth_bs_in k v bs : In (k, v) bs -> json_depth v <= depth_bs bs.
Proof.
  unfold depth_bs. induction bs as [| kv bs IH]; cbn [In fold_right]; [contradiction|].
  intros [-> | H]; [cbn [snd]; lia|]. specialize (IH H). lia.
Qed.

Lemma good_bs_init M (Q : bindings -> Prop) bs :
  var_free_bs bs = true -> depth_bs bs <= M -> Q bs -> good_bs M Q bs.
Proof.
  intros Hvf Hd HQ. split; [|exact HQ]. intros k v Hl. apply lookup_in in Hl. split.
  - unfold var_free_bs in Hvf. rewrite forallb_forall in Hvf. apply (Hvf (k, v) Hl).
  - pose proof (depth_bs_in k v bs Hl). lia.
Qed.

(** the semantic core: bindings only grow, only by names the pattern can
    bind, and the result fits *)
Theorem match_sound_core :
  forall ord, perm_oracle ord ->
  forall fuel p f bs0 bss bs',
    var_free f = true -> var_free_bs bs0 = true -> wf_json f = true ->
    match_ ord fuel p f bs0 = Ok bss -> In bs' bss ->
    extends bs0 bs' /\ newkeys bs0 bs' (nb p) /\ fits bs0 bs' p f = true.
Proof.
  intros ord Hord fuel p f bs0 bss bs' Hvf Hvfb Hwf Hm Hin.
  set (M := Nat.max (json_depth f) (depth_bs bs0)).
  destruct (match_sound_rec ord Hord bs0 M (fun _ => True) (fun _ _ _ _ => I) fuel p f bs0 bss bs')
    as [[He [Hn _]] Hfit].
  - split; [exact Hvf | unfold M; lia].
  - split; [apply extends_refl | apply good_bs_init; [exact Hvfb | unfold M; lia | exact I]].
  - exact Hm.
  - exact Hin.
  - auto.
Qed.

(** no variable of the pattern is an inequality on the anonymous variable
    (such as "?<=", whose plain counterpart is "?") *)
Definition no_anon_counterpart (p : json) : bool :=
  negb (smem anon_var (flat_map cp (pvars p))).

Lemma is_anon_anon_var : is_anon anon_var = true.
Proof. reflexivity. Qed.

Definition c01_given_kept (bs0 bs' : bindings) : bool :=
  forallb (fun kv : string * json => opt_json_eqb (lookup (fst kv) bs') (Some (snd kv))) bs0.
Definition c01_only_bindable (p : json) (bs0 bs' : bindings) : bool :=
  forallb (fun kv : string * json =>
             smem (fst kv) (map fst bs0) || smem (fst kv) (bindable p)) bs'.
Definition c01_anon_unbound (bs0 bs' : bindings) : bool :=
  negb (smem anon_var (map fst bs') && negb (smem anon_var (map fst bs0))).

Lemma c01_ok_split p f bs0 bs' :
  c01_ok p f bs0 bs' =
  c01_given_kept bs0 bs' && c01_only_bindable p bs0 bs' && c01_anon_unbound bs0 bs'
  && fits bs0 bs' p f.
Proof. reflexivity. Qed.

Lemma given_kept_of_extends bs0 bs' :
  nodup_keys (map fst bs0) = true -> extends bs0 bs' -> c01_given_kept bs0 bs' = true.
Proof.
  intros Hnd He. apply forallb_forall. intros [k v] Hin. cbn [fst snd].
  rewrite (He k v (assoc_nodup k v bs0 Hnd Hin)). cbn [opt_json_eqb]. apply json_eqb_refl.
Qed.

Lemma only_bindable_of_newkeys p bs0 bs' :
  newkeys bs0 bs' (nb p) -> c01_only_bindable p bs0 bs' = true.
Proof.
  intros Hn. apply forallb_forall. intros [k v] Hin. cbn [fst].
  assert (Hk : lookup k bs' <> None).
  { apply assoc_some_key. apply (in_map fst) in Hin. exact Hin. }
  apply orb_true_iff. destruct (Hn k Hk) as [H | H].
  - left. apply smem_in. apply assoc_some_key. exact H.
  - right. apply smem_in. apply nb_bindable. exact H.
Qed.

Lemma anon_unbound_of_newkeys p bs0 bs' :
  no_anon_counterpart p = true -> newkeys bs0 bs' (nb p) -> c01_anon_unbound bs0 bs' = true.
Proof.
  intros Hna Hn. unfold c01_anon_unbound.
  destruct (smem anon_var (map fst bs')) eqn:E; [|reflexivity].
  apply smem_in in E. apply assoc_some_key in E.
  destruct (Hn _ E) as [H | H].
  - apply assoc_some_key in H. apply smem_in in H. rewrite H. reflexivity.
  - exfalso. unfold nb in H. apply in_app_iff in H. destruct H as [H | H].
    + apply filter_In in H. destruct H as [_ H]. rewrite is_anon_anon_var in H. discriminate.
    + unfold no_anon_counterpart in Hna. apply negb_true_iff in Hna.
      apply smem_in in H. congruence.
Qed.

(** C01, all four conjuncts.  Two hypotheses are added to the planned
    statement, both necessary (see the counterexamples below):
    - [nodup_keys (map fst bs0)]: the given bindings have unique keys
      (implied by [sorted_keys bs0]);
    - [no_anon_counterpart p]: no pattern variable is an inequality on the
      anonymous variable. *)
Theorem match_sound :
  forall ord, perm_oracle ord ->
  forall fuel p f bs0 bss bs',
    var_free f = true -> var_free_bs bs0 = true -> wf_json f = true ->
    nodup_keys (map fst bs0) = true -> no_anon_counterpart p = true ->
    match_ ord fuel p f bs0 = Ok bss -> In bs' bss -> c01_ok p f bs0 bs' = true.
Proof.
  intros ord Hord fuel p f bs0 bss bs' Hvf Hvfb Hwf Hnd Hna Hm Hin.
  destruct (match_sound_core ord Hord fuel p f bs0 bss bs' Hvf Hvfb Hwf Hm Hin) as [He [Hn Hfit]].
  rewrite c01_ok_split, (given_kept_of_extends _ _ Hnd He), (only_bindable_of_newkeys _ _ _ Hn),
    (anon_unbound_of_newkeys _ _ _ Hna Hn), Hfit. reflexivity.
Qed.

(** Without the hypothesis on the pattern: everything but the anonymous
    variable conjunct. *)
Theorem match_sound_but_anon :
  forall ord, perm_oracle ord ->
  forall fuel p f bs0 bss bs',
    var_free f = true -> var_free_bs bs0 = true -> wf_json f = true ->
    nodup_keys (map fst bs0) = true ->
    match_ ord fuel p f bs0 = Ok bss -> In bs' bss ->
    c01_given_kept bs0 bs' && c01_only_bindable p bs0 bs' && fits bs0 bs' p f = true.
Proof.
  intros ord Hord fuel p f bs0 bss bs' Hvf Hvfb Hwf Hnd Hm Hin.
  destruct (match_sound_core ord Hord fuel p f bs0 bss bs' Hvf Hvfb Hwf Hm Hin) as [He [Hn Hfit]].
  rewrite (given_kept_of_extends _ _ Hnd He), (only_bindable_of_newkeys _ _ _ Hn), Hfit.
  reflexivity.
Qed.

(** The planned statement (without the two added hypotheses) is false. *)
Definition match_sound_planned_statement : Prop :=
  forall ord, perm_oracle ord ->
  forall fuel p f bs0 bss bs',
    var_free f = true -> var_free_bs bs0 = true -> wf_json f = true -> wf_bs bs0 = true ->
    wf_json p = true ->
    match_ ord fuel p f bs0 = Ok bss -> In bs' bss -> c01_ok p f bs0 bs' = true.

Lemma ord_id_perm : perm_oracle ord_id.
Proof. intros A l. apply Permutation_refl. Qed.

(** the pattern "?<=" with "?<=" bound to a number binds the anonymous variable "?" *)
Lemma match_sound_planned_refuted_anon : ~ match_sound_planned_statement.
Proof.
  intros H.
  specialize (H ord_id ord_id_perm 2 (JStr "?<=") (JNum 3) [("?<=", JNum 5)]
                [[("?", JNum 3); ("?<=", JNum 5)]] [("?", JNum 3); ("?<=", JNum 5)]
                eq_refl eq_refl eq_refl eq_refl eq_refl eq_refl (or_introl eq_refl)).
  vm_compute in H. discriminate.
Qed.

(** given bindings with a duplicated key are not "kept unchanged" in the sense of [c01_ok] *)
Lemma match_sound_planned_refuted_dup : ~ match_sound_planned_statement.
Proof.
  intros H.
  specialize (H ord_id ord_id_perm 1 JNull JNull [("a", JNum 1); ("a", JNum 2)]
                [[("a", JNum 1); ("a", JNum 2)]] [("a", JNum 1); ("a", JNum 2)]
                eq_refl eq_refl eq_refl eq_refl eq_refl eq_refl (or_introl eq_refl)).
  vm_compute in H. discriminate.
Qed.

(** * Returned binding sets stay sorted (hence duplicate free) *)

Theorem match_sorted :
  forall ord, perm_oracle ord ->
  forall fuel p f bs0 bss bs',
    var_free f = true -> var_free_bs bs0 = true -> sorted_keys bs0 = true ->
    match_ ord fuel p f bs0 = Ok bss -> In bs' bss -> sorted_keys bs' = true.
Proof.
  intros ord Hord fuel p f bs0 bss bs' Hvf Hvfb Hsorted Hm Hin.
  set (M := Nat.max (json_depth f) (depth_bs bs0)).
  destruct (match_sound_rec ord Hord bs0 M (fun bs => sorted_keys bs = true) bset_sorted
                            fuel p f bs0 bss bs') as [[_ [_ [_ HQ]]] _].
  - split; [exact Hvf | unfold M; lia].
  - split; [apply extends_refl | apply good_bs_init; [exact Hvfb | unfold M; lia | exact Hsorted]].
  - exact Hm.
  - exact Hin.
  - exact HQ.
Qed.

(** C01 for sorted given bindings (what [of_list]/[bset] build) *)
Corollary match_sound_sorted :
  forall ord, perm_oracle ord ->
  forall fuel p f bs0 bss bs',
    var_free f = true -> var_free_bs bs0 = true -> wf_json f = true ->
    sorted_keys bs0 = true -> no_anon_counterpart p = true ->
    match_ ord fuel p f bs0 = Ok bss -> In bs' bss ->
    c01_ok p f bs0 bs' = true /\ sorted_keys bs' = true.
Proof.
  intros ord Hord fuel p f bs0 bss bs' Hvf Hvfb Hwf Hs Hna Hm Hin. split.
  - eapply match_sound; eauto using sorted_nodup.
  - eapply match_sorted; eauto.
Qed.
