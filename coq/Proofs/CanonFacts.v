(** [canonicalize] (the model of core.Canonicalize) is idempotent: its
    result is key-sorted without repeated keys at every level, and such a
    value is left alone. *)
From Sheens Require Import Model.Compile Proofs.SortKvs Proofs.JsonTextFacts.
From Coq Require Import Lia.

(** * Strictly key-sorted entry lists *)
Fixpoint ssorted (l : list (string * json)) : Prop :=
  match l with
  | [] => True
  | kv :: r =>
      match r with
      | [] => True
      | kv' :: _ => String.compare (fst kv) (fst kv') = Lt
      end /\ ssorted r
  end.

Definition all_lt (l : list (string * json)) (k : string) : Prop :=
  Forall (fun kv => String.compare (fst kv) k = Lt) l.

Lemma compare_gt_of_lt : forall a b, String.compare a b = Lt -> String.compare b a = Gt.
Proof. intros a b H. rewrite String.compare_antisym, H. reflexivity. Qed.
Lemma compare_lt_of_gt : forall a b, String.compare a b = Gt -> String.compare b a = Lt.
Proof. intros a b H. rewrite String.compare_antisym, H. reflexivity. Qed.

Lemma ssorted_tail : forall kv l, ssorted (kv :: l) -> ssorted l.
Proof. intros kv l H. exact (proj2 H). Qed.

Lemma ssorted_cons : forall kv l,
  ssorted l -> (forall kv', hd_error l = Some kv' -> String.compare (fst kv) (fst kv') = Lt) ->
  ssorted (kv :: l).
Proof.
  intros kv l Hs Hh. simpl. split; [| exact Hs].
  destruct l as [| kv' r]; [exact I | apply Hh; reflexivity].
Qed.

Lemma bset_hd : forall k v l kv',
  hd_error (bset k v l) = Some kv' -> fst kv' = k \/ hd_error l = Some kv'.
Proof.
  intros k v l kv' H. destruct l as [| [k0 v0] r]; simpl in H.
  - inversion H; subst. left. reflexivity.
  - destruct (String.compare k k0) eqn:E; simpl in H; inversion H; subst; simpl; auto.
Qed.

Lemma bset_ssorted : forall k v l, ssorted l -> ssorted (bset k v l).
Proof.
  intros k v l. induction l as [| [k0 v0] r IH]; intros Hs.
  - simpl. auto.
  - simpl. destruct (String.compare k k0) eqn:E.
    + apply String.compare_eq_iff in E. subst k0. exact Hs.
    + apply ssorted_cons; [exact Hs |]. intros kv' Hh. simpl in Hh. inversion Hh; subst. exact E.
    + apply ssorted_cons; [exact (IH (ssorted_tail _ _ Hs)) |].
      intros kv' Hh. simpl. destruct (bset_hd _ _ _ _ Hh) as [Hk | Hr].
      * rewrite Hk. exact (compare_lt_of_gt _ _ E).
      * destruct r as [| kv1 r1]; [discriminate |]. simpl in Hr. inversion Hr; subst.
        exact (proj1 Hs).
Qed.

Lemma fold_bset_ssorted : forall l acc,
  ssorted acc ->
  ssorted (fold_left (fun acc (kv : string * json) => bset (fst kv) (snd kv) acc) l acc).
Proof.
  induction l as [| kv r IH]; intros acc H; simpl; [exact H |].
  apply IH. apply bset_ssorted. exact H.
Qed.

Lemma of_list_ssorted : forall l, ssorted (of_list l).
Proof. intros l. unfold of_list. apply fold_bset_ssorted. exact I. Qed.

Lemma ssorted_app_all_lt : forall l k v, ssorted (l ++ [(k, v)]) -> all_lt l k.
Proof.
  induction l as [| [k0 v0] r IH]; intros k v H; [constructor |].
  simpl in H. destruct H as [Hh Hr].
  pose proof (IH k v Hr) as Hall.
  constructor; [| exact Hall].
  destruct r as [| [k1 v1] r1]; simpl in *.
  - exact Hh.
  - inversion Hall as [| x y Hk1 Hrest]; subst. simpl in Hk1.
    exact (string_compare_lt_trans _ _ _ Hh Hk1).
Qed.

Lemma bset_all_lt : forall l k v, all_lt l k -> bset k v l = l ++ [(k, v)].
Proof.
  induction l as [| [k0 v0] r IH]; intros k v H; [reflexivity |].
  inversion H as [| x y Hk Hr]; subst. simpl in Hk.
  simpl. rewrite (compare_gt_of_lt _ _ Hk). rewrite (IH k v Hr). reflexivity.
Qed.

Lemma ssorted_prefix : forall a b, ssorted (a ++ b) -> ssorted a.
Proof.
  induction a as [| kv r IH]; intros b H; [exact I |].
  simpl in H. destruct H as [Hh Hr]. simpl. split; [| exact (IH b Hr)].
  destruct r as [| kv' r']; [exact I | exact Hh].
Qed.

Lemma fold_bset_sorted_id : forall l acc,
  ssorted (acc ++ l) ->
  fold_left (fun acc (kv : string * json) => bset (fst kv) (snd kv) acc) l acc = acc ++ l.
Proof.
  induction l as [| [k v] r IH]; intros acc H; simpl.
  - rewrite app_nil_r. reflexivity.
  - assert (Hp : ssorted (acc ++ [(k, v)])).
    { apply (ssorted_prefix _ r). rewrite <- app_assoc. exact H. }
    rewrite (bset_all_lt acc k v (ssorted_app_all_lt _ _ _ Hp)).
    rewrite IH; rewrite <- app_assoc; [reflexivity | exact H].
Qed.

Lemma of_list_sorted_id : forall l, ssorted l -> of_list l = l.
Proof. intros l H. unfold of_list. exact (fold_bset_sorted_id l [] H). Qed.

(** * Every entry of [of_list l] is an entry of [l] *)
Lemma bset_In : forall k v l kv, In kv (bset k v l) -> kv = (k, v) \/ In kv l.
Proof.
  intros k v l. induction l as [| [k0 v0] r IH]; intros kv H; simpl in H.
  - destruct H as [H | []]; auto.
  - destruct (String.compare k k0); simpl in H.
    + destruct H as [H | H]; [auto | right; right; exact H].
    + destruct H as [H | H]; [auto | right; exact H].
    + destruct H as [H | H]; [right; left; exact H |].
      destruct (IH kv H) as [E | E]; [auto | right; right; exact E].
Qed.

Lemma fold_bset_In : forall l acc kv,
  In kv (fold_left (fun acc (kv : string * json) => bset (fst kv) (snd kv) acc) l acc) ->
  In kv acc \/ In kv l.
Proof.
  induction l as [| [k v] r IH]; intros acc kv H; simpl in H; [auto |].
  destruct (IH _ _ H) as [H1 | H1].
  - destruct (bset_In _ _ _ _ H1) as [E | E]; [right; left; auto | auto].
  - right. right. exact H1.
Qed.

Lemma of_list_In : forall l kv, In kv (of_list l) -> In kv l.
Proof. intros l kv H. destruct (fold_bset_In l [] kv H) as [[] | H1]. exact H1. Qed.

(** * Idempotence *)
Lemma map_id_in : forall A (f : A -> A) l, (forall x, In x l -> f x = x) -> map f l = l.
Proof.
  induction l as [| x r IH]; intros H; [reflexivity |].
  simpl. rewrite (H x (or_introl eq_refl)). rewrite IH; [reflexivity |].
  intros y Hy. apply H. right. exact Hy.
Qed.

Theorem canonicalize_idem : forall j, canonicalize (canonicalize j) = canonicalize j.
Proof.
  induction j as [| b | z | s | l IH | kvs IH] using json_ind2; try reflexivity.
  - simpl. f_equal. rewrite map_map. apply map_ext_in. intros x Hx.
    rewrite Forall_forall in IH. exact (IH x Hx).
  - simpl. f_equal.
    set (g := fun kv : string * json => (fst kv, canonicalize (snd kv))).
    set (K := of_list (map g kvs)).
    assert (Hmap : map g K = K).
    { apply map_id_in. intros kv Hkv. unfold K in Hkv. apply of_list_In in Hkv.
      apply in_map_iff in Hkv. destruct Hkv as [kv0 [E Hin]]. subst kv. unfold g. simpl.
      rewrite Forall_forall in IH. rewrite (IH kv0 Hin). reflexivity. }
    rewrite Hmap. apply of_list_sorted_id. apply of_list_ssorted.
Qed.

(** a value that is already in canonical form *)
Definition canonical (j : json) : Prop := canonicalize j = j.
Lemma canonicalize_canonical : forall j, canonical (canonicalize j).
Proof. intros j. exact (canonicalize_idem j). Qed.
