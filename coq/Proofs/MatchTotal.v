(** Part 1: on the supported plain fragment the matcher never errs, and
    with enough fuel it terminates normally.  One induction on the fuel,
    generic in a flag [fa] ("running out of fuel is acceptable"). *)
From Sheens Require Export Proofs.CplBasics.
From Coq Require Import Lia.
From Sheens Require Import Proofs.BoundMatch.

(** * Variable-free values used as patterns *)
Lemma var_free_pvars : forall p, var_free p = true -> pvars p = [].
Proof.
  induction p as [| x | x | x | l IH | kvs IH] using json_ind'; intros H; try reflexivity.
  - cbn in *. apply negb_true_iff in H. rewrite H. reflexivity.
  - cbn [var_free] in H. cbn [pvars]. induction IH as [|x l Hx Hl IHl]; [reflexivity|].
    cbn [forallb] in H. apply andb_true_iff in H. destruct H as [H1 H2].
    cbn [flat_map]. rewrite (Hx H1), (IHl H2). reflexivity.
  - cbn [var_free] in H. cbn [pvars]. induction IH as [|[k x] l Hx Hl IHl]; [reflexivity|].
    cbn [forallb fst snd] in H. apply andb_true_iff in H. destruct H as [H1 H2].
    apply andb_true_iff in H1. destruct H1 as [Hk Hv]. apply negb_true_iff in Hk.
    cbn [flat_map fst snd]. cbn [snd] in Hx. rewrite Hk, (Hx Hv), (IHl H2). reflexivity.
Qed.

Lemma var_free_supported : forall p, var_free p = true -> supported p = true.
Proof.
  induction p as [| x | x | x | l IH | kvs IH] using json_ind'; intros H; try reflexivity.
  - cbn [var_free] in H. cbn [supported].
    assert (Hc : count_vars_direct l = 0 /\ forallb supported l = true).
    { induction IH as [|x l Hx Hl IHl]; [split; reflexivity|].
      cbn [forallb] in H. apply andb_true_iff in H. destruct H as [H1 H2].
      destruct (IHl H2) as [Hc Hs]. split.
      - unfold count_vars_direct in *. cbn [filter].
        destruct x as [| | | s | |]; try exact Hc.
        cbn in H1. apply negb_true_iff in H1. rewrite H1. exact Hc.
      - cbn [forallb]. rewrite (Hx H1), Hs. reflexivity. }
    destruct Hc as [Hc Hs]. rewrite Hc, Hs. reflexivity.
  - cbn [var_free] in H. cbn [supported].
    assert (Hc : has_var_key kvs = false /\ forallb (fun kv : string * json => supported (snd kv)) kvs = true).
    { induction IH as [|[k x] l Hx Hl IHl]; [split; reflexivity|].
      cbn [forallb fst snd] in H. apply andb_true_iff in H. destruct H as [H1 H2].
      apply andb_true_iff in H1. destruct H1 as [Hk Hv]. apply negb_true_iff in Hk.
      destruct (IHl H2) as [Hc Hs]. split.
      - unfold has_var_key in *. cbn [existsb fst]. rewrite Hk, Hc. reflexivity.
      - cbn [forallb snd]. cbn [snd] in Hx. rewrite (Hx Hv), Hs. reflexivity. }
    destruct Hc as [Hc Hs]. rewrite Hc, Hs. destruct kvs as [|? [|? ?]]; reflexivity.
Qed.

(** * Pattern conditions and their sub-patterns *)
Definition aplain (p : json) : Prop :=
  forall v, In v (pvars p) -> is_anon v || is_plain_var v = true.

Lemma all_plain_aplain : forall p, all_plain p = true <-> aplain p.
Proof. intros p; unfold all_plain, aplain; apply forallb_forall. Qed.

Definition okp (p : json) : Prop := supported p = true /\ aplain p.

Lemma okp_var_free : forall p, var_free p = true -> okp p.
Proof.
  intros p H; split; [apply var_free_supported; exact H|].
  intros v Hv; rewrite (var_free_pvars p H) in Hv; contradiction.
Qed.

Lemma pvars_arr_in : forall x xs v, In x xs -> In v (pvars x) -> In v (pvars (JArr xs)).
Proof. intros x xs v Hx Hv; cbn [pvars]; apply in_flat_map; exists x; auto. Qed.

Lemma pvars_obj_in : forall k x kvs v, In (k, x) kvs -> In v (pvars x) -> In v (pvars (JObj kvs)).
Proof.
  intros k x kvs v Hx Hv; cbn [pvars]; apply in_flat_map; exists (k, x); split; [exact Hx|].
  apply in_or_app; right; exact Hv.
Qed.

Lemma pvars_obj_key : forall k x kvs, In (k, x) kvs -> is_var k = true -> In k (pvars (JObj kvs)).
Proof.
  intros k x kvs Hx Hv; cbn [pvars]; apply in_flat_map; exists (k, x); split; [exact Hx|].
  apply in_or_app; left; cbn [fst]; rewrite Hv; left; reflexivity.
Qed.

Lemma okp_arr_in : forall xs x, okp (JArr xs) -> In x xs -> okp x.
Proof.
  intros xs x [Hs Ha] Hin; split.
  - cbn [supported] in Hs. apply andb_true_iff in Hs. destruct Hs as [_ Hs].
    rewrite forallb_forall in Hs. apply Hs; exact Hin.
  - intros v Hv. apply Ha. eapply pvars_arr_in; eauto.
Qed.

Lemma okp_obj_in : forall kvs k x, okp (JObj kvs) -> In (k, x) kvs -> okp x.
Proof.
  intros kvs k x [Hs Ha] Hin; split.
  - cbn [supported] in Hs. apply andb_true_iff in Hs. destruct Hs as [_ Hs].
    rewrite forallb_forall in Hs. apply (Hs (k, x)); exact Hin.
  - intros v Hv. apply Ha. eapply pvars_obj_in; eauto.
Qed.

Lemma okp_obj_key : forall kvs k x, okp (JObj kvs) -> In (k, x) kvs -> is_var k = true -> okp (JStr k).
Proof.
  intros kvs k x [Hs Ha] Hin Hk; split; [reflexivity|].
  intros v Hv. cbn [pvars] in Hv. rewrite Hk in Hv. destruct Hv as [<-|[]].
  apply Ha. eapply pvars_obj_key; eauto.
Qed.

Lemma plain_var_inequal : forall s f bs, is_plain_var s = true -> inequal f bs s = NotUsing.
Proof.
  intros s f bs H. unfold is_plain_var in H. apply andb_true_iff in H. destruct H as [_ H].
  unfold inequal, inequalities. cbn [negb].
  destruct (ineq_parse s); [discriminate|].
  destruct (lookup s bs) as [[]|]; try reflexivity. destruct f; reflexivity.
Qed.

(** * [sort_kvs] only reorders *)
Lemma insert_kv_perm : forall kv l, Permutation (insert_kv kv l) (kv :: l).
Proof.
  intros kv l; induction l as [|kv' r IH]; cbn [insert_kv]; [apply Permutation_refl|].
  destruct (String.leb (fst kv) (fst kv')); [apply Permutation_refl|].
  eapply perm_trans; [apply perm_skip; exact IH | apply perm_swap].
Qed.

Lemma sort_kvs_perm : forall l, Permutation (sort_kvs l) l.
Proof.
  induction l as [|kv r IH]; [apply Permutation_refl|].
  unfold sort_kvs in *. cbn [fold_right].
  eapply perm_trans; [apply insert_kv_perm | apply perm_skip; exact IH].
Qed.

Lemma In_sort_kvs : forall kv l, In kv (sort_kvs l) -> In kv l.
Proof. intros kv l H; eapply Permutation_in; [apply sort_kvs_perm | exact H]. Qed.

(** * [get_var] *)
Definition is_var_json (x : json) : bool :=
  match x with JStr s => is_var s | _ => false end.

Lemma count_vars_direct_cons : forall x xs,
  count_vars_direct (x :: xs) = (if is_var_json x then 1 else 0) + count_vars_direct xs.
Proof.
  intros x xs; unfold count_vars_direct; cbn [filter]. fold (is_var_json x).
  destruct (is_var_json x); reflexivity.
Qed.

Lemma get_var_some : forall xs v0,
  count_vars_direct xs + (match v0 with Some _ => 1 | None => 0 end) <= 1 ->
  exists v cs, get_var xs v0 = Some (v, cs).
Proof.
  induction xs as [|x xs IH]; intros v0 H; [exists v0, []; reflexivity|].
  rewrite count_vars_direct_cons in H. cbn [get_var].
  destruct x as [| b | z | s | l | kvs]; cbn [is_var_json] in H;
    try (destruct (IH v0 H) as [v [cs E]]; rewrite E; eexists _, _; reflexivity).
  destruct (is_var s) eqn:Es.
  - destruct v0; [lia|]. apply IH. cbn. lia.
  - destruct (IH v0 H) as [v [cs E]]; rewrite E; eexists _, _; reflexivity.
Qed.

Lemma get_var_incl : forall xs v0 v cs, get_var xs v0 = Some (v, cs) ->
  incl cs xs /\ (forall s, v = Some s -> v0 = Some s \/ (In (JStr s) xs /\ is_var s = true)) /\
  Forall (fun c => is_var_json c = false) cs.
Proof.
  induction xs as [|x xs IH]; intros v0 v cs H.
  - cbn in H. inversion H; subst. repeat split; [intros a [] | auto | constructor].
  - cbn [get_var] in H.
    assert (Hgen : forall (Hx : is_var_json x = false),
               match get_var xs v0 with Some (v', acc) => Some (v', x :: acc) | None => None end = Some (v, cs) ->
               incl cs (x :: xs) /\ (forall s, v = Some s -> v0 = Some s \/ (In (JStr s) (x :: xs) /\ is_var s = true)) /\
               Forall (fun c => is_var_json c = false) cs).
    { intros Hx H'. destruct (get_var xs v0) as [[v' acc]|] eqn:E; [|discriminate].
      inversion H'; subst. destruct (IH _ _ _ E) as [Hi [Hv Hf]]. repeat split.
      - intros a [<-|Ha]; [left; reflexivity | right; apply Hi; exact Ha].
      - intros s Hs. destruct (Hv s Hs) as [?|[? ?]]; [left; assumption | right; split; [right|]; assumption].
      - constructor; assumption. }
    destruct x as [| b | z | s | l | kvs]; try (apply Hgen; [reflexivity | exact H]).
    destruct (is_var s) eqn:Es.
    + destruct v0; [discriminate|]. destruct (IH _ _ _ H) as [Hi [Hv Hf]]. repeat split.
      * intros a Ha; right; apply Hi; exact Ha.
      * intros s' Hs'. destruct (Hv s' Hs') as [Heq|[? ?]].
        -- inversion Heq; subst. right; split; [left; reflexivity | exact Es].
        -- right; split; [right|]; assumption.
      * exact Hf.
    + apply Hgen; [exact Es | exact H].
Qed.

(** * Outcomes *)
Definition out_ok {A : Type} (fa : bool) (Q : A -> Prop) (x : res A) : Prop :=
  match x with
  | Ok a => Q a
  | Err => False
  | Fuel => fa = true
  end.

Section Total.
  Variable ord : order_oracle.
  Hypothesis Hord : perm_oracle ord.
  (** bound on the depth of message parts and bound values *)
  Variable d : nat.

  Definition need (p : json) : nat :=
    if var_free p then json_depth p else json_depth p + d.

  Lemma need_le : forall p, need p <= json_depth p + d.
  Proof. intros p; unfold need; destruct (var_free p); lia. Qed.

  Lemma need_pos : forall p, 1 <= need p.
  Proof. intros p; unfold need; pose proof (json_depth_pos p); destruct (var_free p); lia. Qed.

  Lemma need_arr_lt : forall x xs, In x xs -> need x < need (JArr xs).
  Proof.
    intros x xs Hin. pose proof (depth_arr_lt x xs Hin) as Hd.
    unfold need at 2. destruct (var_free (JArr xs)) eqn:E.
    - cbn [var_free] in E. rewrite forallb_forall in E. unfold need. rewrite (E x Hin). exact Hd.
    - pose proof (need_le x). lia.
  Qed.

  Lemma need_obj_lt : forall k x kvs, In (k, x) kvs -> need x < need (JObj kvs).
  Proof.
    intros k x kvs Hin. pose proof (depth_obj_lt (k, x) kvs Hin) as Hd. cbn [snd] in Hd.
    unfold need at 2. destruct (var_free (JObj kvs)) eqn:E.
    - cbn [var_free] in E. rewrite forallb_forall in E. specialize (E (k, x) Hin).
      apply andb_true_iff in E. destruct E as [_ E]. cbn [snd] in E. unfold need. rewrite E. exact Hd.
    - pose proof (need_le x). lia.
  Qed.

  Lemma need_obj_key : forall k x kvs, In (k, x) kvs -> is_var k = true ->
    need (JStr k) < need (JObj kvs).
  Proof.
    intros k x kvs Hin Hk. pose proof (depth_obj_lt (k, x) kvs Hin) as Hd. cbn [snd] in Hd.
    pose proof (json_depth_pos x).
    unfold need. destruct (var_free (JObj kvs)) eqn:E.
    - cbn [var_free] in E. rewrite forallb_forall in E. specialize (E (k, x) Hin).
      apply andb_true_iff in E. destruct E as [E _]. cbn [fst] in E. rewrite Hk in E. discriminate.
    - cbn [var_free json_depth]. rewrite Hk. cbn [negb]. cbn [json_depth] in Hd. lia.
  Qed.

  (** good message parts and bindings *)
  Definition gf (f : json) : Prop := var_free f = true /\ json_depth f <= d.
  Definition good (bs : bindings) : Prop := Forall (fun kv => gf (snd kv)) bs.

  Lemma gf_arr_in : forall fa y, gf (JArr fa) -> In y fa -> gf y.
  Proof.
    intros fa y [Hv Hd] Hin; split.
    - cbn [var_free] in Hv. rewrite forallb_forall in Hv. apply Hv; exact Hin.
    - pose proof (depth_arr_lt y fa Hin). lia.
  Qed.

  Lemma gf_obj_in : forall fkvs k y, gf (JObj fkvs) -> In (k, y) fkvs -> gf y /\ gf (JStr k).
  Proof.
    intros fkvs k y [Hv Hd] Hin.
    cbn [var_free] in Hv. rewrite forallb_forall in Hv. specialize (Hv (k, y) Hin).
    apply andb_true_iff in Hv. destruct Hv as [Hk Hy]. cbn [fst snd] in Hk, Hy.
    pose proof (depth_obj_lt (k, y) fkvs Hin) as Hlt. cbn [snd] in Hlt.
    pose proof (json_depth_pos y).
    split; split; [exact Hy | lia | exact Hk | cbn; lia].
  Qed.

  Lemma good_bset : forall s f bs, gf f -> good bs -> good (bset s f bs).
  Proof.
    intros s f bs Hf; induction bs as [|[k v] r IH]; intros Hg.
    - constructor; [exact Hf | constructor].
    - inversion Hg as [|a b Hv Hr]; subst. cbn [bset].
      destruct (String.compare s k).
      + constructor; [exact Hf | exact Hr].
      + constructor; [exact Hf | exact Hg].
      + constructor; [exact Hv | apply IH; exact Hr].
  Qed.

  Lemma good_lookup : forall s bs b, good bs -> lookup s bs = Some b -> gf b.
  Proof.
    intros s bs b Hg Hl. apply lookup_In in Hl. unfold good in Hg. rewrite Forall_forall in Hg.
    apply (Hg (s, b) Hl).
  Qed.

  Definition gmm (mm : list (nat * json)) : Prop := Forall (fun e => gf (snd e)) mm.
  Definition good_pairs (ps : list pair_t) : Prop :=
    Forall (fun pr => Forall good (fst pr) /\ gmm (snd pr)) ps.

  Variable fa : bool.

  (** what is assumed of the recursive call *)
  Section WithRec.
    Variable k : nat.
    Variable rec : rec_t.
    Definition fits_fuel (p : json) : Prop := fa = false -> need p <= k.
    Definition rec_tot : Prop :=
      forall p f bs, fits_fuel p -> okp p -> gf f -> good bs ->
                     out_ok fa (Forall good) (rec p f bs).
    Hypothesis Hrec : rec_tot.

    Lemma mwb_tot : forall bss p f,
      fits_fuel p -> okp p -> gf f -> Forall good bss ->
      out_ok fa (Forall good) (mwb rec bss p f).
    Proof.
      induction bss as [|bs r IH]; intros p f Hk Hp Hf Hb; cbn [mwb].
      - constructor.
      - inversion Hb as [|a b Hbs Hr]; subst.
        pose proof (Hrec p f bs Hk Hp Hf Hbs) as H1.
        destruct (rec p f bs) as [a| |]; cbn [out_ok] in *; [|contradiction|exact H1].
        pose proof (IH p f Hk Hp Hf Hr) as H2.
        destruct (mwb rec r p f) as [b| |]; cbn [out_ok] in *; [|contradiction|exact H2].
        apply Forall_app; split; assumption.
    Qed.

    Lemma mapcat_tot : forall kvs bss fkvs,
      (forall k0 v, In (k0, v) kvs -> fits_fuel v /\ okp v) ->
      (forall k0 y, In (k0, y) fkvs -> gf y) ->
      Forall good bss ->
      out_ok fa (Forall good) (mapcat rec bss kvs fkvs).
    Proof.
      induction kvs as [|[k0 v] r IH]; intros bss fkvs Hkv Hfk Hb; cbn [mapcat].
      - exact Hb.
      - assert (Hr : forall k1 v1, In (k1, v1) r -> fits_fuel v1 /\ okp v1)
          by (intros k1 v1 Hin; apply (Hkv k1 v1); right; exact Hin).
        destruct (assoc k0 fkvs) as [fv|] eqn:Ea.
        + destruct (Hkv k0 v (or_introl eq_refl)) as [Hk Hp].
          pose proof (mwb_tot bss v fv Hk Hp (Hfk _ _ (assoc_In _ _ _ Ea)) Hb) as H1.
          destruct (mwb rec bss v fv) as [[|a acc]| |]; cbn [out_ok] in *;
            [constructor | | contradiction | exact H1].
          apply IH; assumption.
        + destruct (is_optional_json v); [apply IH; assumption | constructor].
    Qed.

    Lemma propvar_loop_tot : forall fkvs bss k0 v,
      fits_fuel (JStr k0) -> okp (JStr k0) -> fits_fuel v -> okp v ->
      (forall fk fv, In (fk, fv) fkvs -> gf fv /\ gf (JStr fk)) ->
      Forall good bss ->
      out_ok fa (Forall good) (propvar_loop rec bss k0 v fkvs).
    Proof.
      induction fkvs as [|[fk fv] r IH]; intros bss k0 v Hk0 Hp0 Hk Hp Hfk Hb; cbn [propvar_loop].
      - constructor.
      - destruct (Hfk fk fv (or_introl eq_refl)) as [Hfv Hfks].
        assert (Hr : forall fk1 fv1, In (fk1, fv1) r -> gf fv1 /\ gf (JStr fk1))
          by (intros fk1 fv1 Hin; apply Hfk; right; exact Hin).
        pose proof (IH bss k0 v Hk0 Hp0 Hk Hp Hr Hb) as H3.
        pose proof (mwb_tot bss (JStr k0) (JStr fk) Hk0 Hp0 Hfks Hb) as H1.
        destruct (mwb rec bss (JStr k0) (JStr fk)) as [[|a ext]| |]; cbn [out_ok] in H1;
          [exact H3 | | contradiction | exact H1].
        pose proof (mwb_tot (a :: ext) v fv Hk Hp Hfv H1) as H2.
        destruct (mwb rec (a :: ext) v fv) as [ext2| |]; cbn [out_ok] in *; [|contradiction|exact H2].
        destruct (propvar_loop rec bss k0 v r) as [g| |]; cbn [out_ok] in *; [|contradiction|exact H3].
        apply Forall_app; split; assumption.
    Qed.

    Lemma match_obj_tot : forall kvs fkvs bs,
      (forall k0 v, In (k0, v) kvs -> fits_fuel v /\ okp v) ->
      (forall k0 v, In (k0, v) kvs -> is_var k0 = true -> fits_fuel (JStr k0) /\ okp (JStr k0)) ->
      match kvs with [_] => true | _ => negb (has_var_key kvs) end = true ->
      gf (JObj fkvs) -> good bs ->
      out_ok fa (Forall good) (match_obj ord rec bs kvs fkvs).
    Proof.
      intros kvs fkvs bs Hkv Hkey Hsup Hf Hb.
      assert (Hfk : forall k0 y, In (k0, y) fkvs -> gf y)
        by (intros k0 y Hin; apply (gf_obj_in fkvs k0 y Hf Hin)).
      assert (Hbs : Forall good [bs]) by (constructor; [exact Hb | constructor]).
      unfold match_obj. destruct kvs as [|[k0 v] [|kv2 r]].
      - exact Hbs.
      - destruct (is_var k0) eqn:Ek.
        + rewrite allow_property_variables_true. unfold propvar.
          destruct (Hkv k0 v (or_introl eq_refl)) as [Hk Hp].
          destruct (Hkey k0 v (or_introl eq_refl) Ek) as [Hk0 Hp0].
          apply propvar_loop_tot; try assumption.
          intros fk fv Hin. apply (gf_obj_in fkvs fk fv Hf).
          eapply Permutation_in; [apply Hord | exact Hin].
        + apply mapcat_tot; assumption.
      - apply negb_true_iff in Hsup. rewrite Hsup, andb_false_r.
        apply mapcat_tot; try assumption.
        intros k1 v1 Hin. apply In_sort_kvs in Hin. apply Hkv in Hin. exact Hin.
    Qed.

    Lemma gmm_remove_idx : forall j mm, gmm mm -> gmm (remove_idx j mm).
    Proof.
      intros j mm H. unfold gmm, remove_idx in *. rewrite Forall_forall in *.
      intros e He. apply filter_In in He. apply H; tauto.
    Qed.

    Lemma try_each_tot : forall mm bss x mm_all,
      fits_fuel x -> okp x -> Forall good bss -> gmm mm -> gmm mm_all ->
      out_ok fa good_pairs (try_each rec bss x mm_all mm).
    Proof.
      induction mm as [|[j fact] r IH]; intros bss x mm_all Hk Hp Hb Hm Hall; cbn [try_each].
      - constructor.
      - inversion Hm as [|a b Hfact Hr]; subst. cbn [snd] in Hfact.
        pose proof (mwb_tot bss x fact Hk Hp Hfact Hb) as H1.
        destruct (mwb rec bss x fact) as [acc| |]; cbn [out_ok] in *; [|contradiction|exact H1].
        pose proof (IH bss x mm_all Hk Hp Hb Hr Hall) as H2.
        destruct (try_each rec bss x mm_all r) as [rest| |]; cbn [out_ok] in *; [|contradiction|exact H2].
        destruct acc as [|a acc]; [exact H2|].
        constructor; [|exact H2]. cbn [fst snd]. split; [exact H1 | apply gmm_remove_idx; exact Hall].
    Qed.

    Lemma gmm_ord : forall mm, gmm mm -> gmm (ord _ mm).
    Proof.
      intros mm H. unfold gmm in *. rewrite Forall_forall in *. intros e He. apply H.
      eapply Permutation_in; [apply Hord | exact He].
    Qed.

    Lemma arraycat_tot : forall pairs x,
      fits_fuel x -> okp x -> good_pairs pairs ->
      out_ok fa good_pairs (arraycat ord rec pairs x).
    Proof.
      induction pairs as [|[bss mm] r IH]; intros x Hk Hp Hg; cbn [arraycat].
      - constructor.
      - inversion Hg as [|a b [Hb Hm] Hr]; subst. cbn [fst snd] in Hb, Hm.
        pose proof (try_each_tot (ord _ mm) bss x mm Hk Hp Hb (gmm_ord _ Hm) Hm) as H1.
        destruct (try_each rec bss x mm (ord _ mm)) as [a| |]; cbn [out_ok] in *; [|contradiction|exact H1].
        pose proof (IH x Hk Hp Hr) as H2.
        destruct (arraycat ord rec r x) as [b| |]; cbn [out_ok] in *; [|contradiction|exact H2].
        apply Forall_app; split; assumption.
    Qed.

    Definition arr_loop_good (o : option (list json * list pair_t)) : Prop :=
      match o with
      | None => True
      | Some (fxs', ps) => Forall gf fxs' /\ good_pairs ps
      end.

    Lemma Forall_jremove : forall (Q : json -> Prop) x l, Forall Q l -> Forall Q (jremove x l).
    Proof.
      intros Q x l H; induction H as [|y l Hy Hl IH]; cbn [jremove]; [constructor|].
      destruct (json_eqb x y); [exact IH | constructor; assumption].
    Qed.

    Lemma arr_loop_tot : forall xs fe fxs pairs,
      (forall x, In x xs -> fits_fuel x /\ okp x) ->
      Forall gf fxs -> good_pairs pairs ->
      out_ok fa arr_loop_good (arr_loop ord rec fe xs fxs pairs).
    Proof.
      induction xs as [|x r IH]; intros fe fxs pairs Hx Hfxs Hg; cbn [arr_loop].
      - split; assumption.
      - assert (Hr : forall x', In x' r -> fits_fuel x' /\ okp x')
          by (intros x' Hin; apply Hx; right; exact Hin).
        destruct (is_scalar x).
        + destruct (jmem x fxs); [|exact I]. apply IH; [exact Hr | apply Forall_jremove; exact Hfxs | exact Hg].
        + destruct fe; [exact I|].
          destruct (Hx x (or_introl eq_refl)) as [Hk Hp].
          pose proof (arraycat_tot pairs x Hk Hp Hg) as H1.
          destruct (arraycat ord rec pairs x) as [[|a np]| |]; cbn [out_ok] in *;
            [exact I | | contradiction | exact H1].
          apply IH; assumption.
    Qed.

    Lemma index_facts_good : forall fa0 i fxs fxa,
      (forall y, In y fa0 -> gf y) -> index_facts i fa0 = (fxs, fxa) -> Forall gf fxs /\ gmm fxa.
    Proof.
      induction fa0 as [|y r IH]; intros i fxs fxa Hy H; cbn [index_facts] in H.
      - inversion H; subst; split; constructor.
      - destruct (index_facts (S i) r) as [fxs0 fxa0] eqn:E.
        destruct (IH (S i) fxs0 fxa0 (fun y' Hin => Hy y' (or_intror Hin)) E) as [H1 H2].
        destruct (is_scalar y); inversion H; subst.
        + split; [|exact H2]. destruct (jmem y fxs0); [exact H1|].
          constructor; [apply Hy; left; reflexivity | exact H1].
        + split; [exact H1|]. constructor; [apply Hy; left; reflexivity | exact H2].
    Qed.

    Lemma number_from_good : forall l i, Forall gf l -> gmm (number_from i l).
    Proof.
      induction l as [|x r IH]; intros i H; cbn [number_from]; [constructor|].
      inversion H; subst. constructor; [assumption | apply IH; assumption].
    Qed.

    Lemma combine_pairs_good : forall ps, good_pairs ps -> Forall good (combine_pairs ps).
    Proof.
      intros ps H; unfold combine_pairs. induction H as [|[bss mm] r [Hb Hm] Hr IH]; cbn [map concat]; [constructor|].
      apply Forall_app; split; assumption.
    Qed.

    Lemma match_arr_tot : forall xs f bs,
      Nat.leb (count_vars_direct xs) 1 = true ->
      (forall x, In x xs -> fits_fuel x /\ okp x) ->
      gf f -> good bs ->
      out_ok fa (Forall good) (match_arr ord rec bs xs f).
    Proof.
      intros xs f bs Hc Hx Hf Hb. unfold match_arr.
      apply Nat.leb_le in Hc.
      destruct (get_var_some xs None) as [v [cs Eg]]; [lia|]. rewrite Eg.
      destruct (get_var_incl _ _ _ _ Eg) as [Hincl [Hv _]].
      destruct f as [| | | | fa0 |]; try constructor.
      destruct (index_facts 0 fa0) as [fxs fxa] eqn:Ei.
      destruct (index_facts_good fa0 0 fxs fxa (fun y Hin => gf_arr_in fa0 y Hf Hin) Ei) as [Hfxs Hfxa].
      assert (Hg0 : good_pairs [([bs], fxa)]).
      { constructor; [|constructor]. cbn [fst snd]. split; [|exact Hfxa]. constructor; [exact Hb | constructor]. }
      pose proof (arr_loop_tot cs (match fxa with [] => true | _ => false end) fxs _
                    (fun x Hin => Hx x (Hincl x Hin)) Hfxs Hg0) as H1.
      destruct (arr_loop ord rec _ cs fxs [([bs], fxa)]) as [[[fxs' pairs]|]| |];
        cbn [out_ok arr_loop_good] in *; [| constructor | contradiction | exact H1].
      destruct H1 as [Hfxs' Hps].
      set (merged := map (fun pr : pair_t => (fst pr, snd pr ++ number_from (List.length fa0) fxs')) pairs).
      assert (Hm : good_pairs merged).
      { unfold merged, good_pairs. apply Forall_forall. intros pr Hpr.
        unfold good_pairs in Hps. rewrite Forall_forall in Hps.
        apply in_map_iff in Hpr. destruct Hpr as [pr0 [<- Hpr0]]. cbn [fst snd].
        destruct (Hps pr0 Hpr0) as [Ha Hbm]. split; [exact Ha|].
        apply Forall_app; split; [exact Hbm | apply number_from_good; exact Hfxs']. }
      destruct v as [vname|]; [|apply combine_pairs_good; exact Hm].
      destruct (Hv vname eq_refl) as [Habs|[Hin Hvar]]; [discriminate|].
      destruct (Hx _ Hin) as [Hk Hp].
      pose proof (arraycat_tot merged (JStr vname) Hk Hp Hm) as H2.
      destruct (arraycat ord rec merged (JStr vname)) as [[|a np]| |]; cbn [out_ok] in *;
        [ | apply combine_pairs_good; exact H2 | contradiction | exact H2].
      destruct (is_optional vname); [apply combine_pairs_good; exact Hm | constructor].
    Qed.
  End WithRec.

  (** * The matcher *)
  Theorem match_tot : forall fuel p f bs,
    (fa = false -> need p <= fuel) -> okp p -> gf f -> good bs ->
    out_ok fa (Forall good) (match_ ord fuel p f bs).
  Proof.
    induction fuel as [|n IH]; intros p f bs Hk Hp Hf Hb.
    - cbn [match_ out_ok]. destruct fa; [reflexivity|]. pose proof (need_pos p). specialize (Hk eq_refl). lia.
    - assert (Hrec : rec_tot n (match_ ord n)) by (intros p' f' bs' Hk'; apply IH; exact Hk').
      assert (Hone : Forall good [bs]) by (constructor; [exact Hb | constructor]).
      cbn [match_]. destruct p as [| b | z | s | xs | kvs].
      + destruct f; cbn [out_ok]; (exact Hone || constructor).
      + destruct f as [| y | | | |]; cbn [out_ok]; try constructor.
        destruct (Bool.eqb b y); [exact Hone | constructor].
      + destruct f as [| | y | | |]; cbn [out_ok]; try constructor.
        destruct (Z.eqb z y); [exact Hone | constructor].
      + destruct (is_var s) eqn:Es.
        * destruct (is_anon s) eqn:Ea; [exact Hone|].
          destruct Hp as [_ Ha]. specialize (Ha s). cbn [pvars] in Ha. rewrite Es in Ha.
          specialize (Ha (or_introl eq_refl)). rewrite Ea in Ha. cbn [orb] in Ha.
          rewrite (plain_var_inequal s f bs Ha).
          destruct (lookup s bs) as [b|] eqn:El.
          -- pose proof (good_lookup s bs b Hb El) as Hgb. rewrite (bound_match_var_free _ b f bs (proj1 Hgb)). apply IH; try assumption.
             ++ intros Hfa. specialize (Hk Hfa). unfold need in *. cbn [var_free] in Hk.
                rewrite Es in Hk. cbn [negb json_depth] in Hk. destruct Hgb as [Hvf Hd]. rewrite Hvf. lia.
             ++ apply okp_var_free. apply Hgb.
          -- constructor; [apply good_bset; assumption | constructor].
        * destruct f as [| | | t | |]; cbn [out_ok]; try constructor.
          destruct (String.eqb s t); [exact Hone | constructor].
      + apply match_arr_tot with (k := n); try assumption.
        * destruct Hp as [Hs _]. cbn [supported] in Hs. apply andb_true_iff in Hs. tauto.
        * intros x Hin. split; [|eapply okp_arr_in; eauto].
          intros Hfa. specialize (Hk Hfa). pose proof (need_arr_lt x xs Hin). lia.
      + destruct f as [| | | | | fkvs]; cbn [out_ok]; try constructor.
        apply match_obj_tot with (k := n); try assumption.
        * intros k0 v Hin. split; [|eapply okp_obj_in; eauto].
          intros Hfa. specialize (Hk Hfa). pose proof (need_obj_lt k0 v kvs Hin). lia.
        * intros k0 v Hin Hvar. split; [|eapply okp_obj_key; eauto].
          intros Hfa. specialize (Hk Hfa). pose proof (need_obj_key k0 v kvs Hin Hvar). lia.
        * destruct Hp as [Hs _]. cbn [supported] in Hs. apply andb_true_iff in Hs. tauto.
  Qed.
End Total.

(** * Consequences *)
Lemma okp_of_bools : forall p, supported p = true -> all_plain p = true -> okp p.
Proof. intros p Hs Ha; split; [exact Hs | apply all_plain_aplain; exact Ha]. Qed.

(** the supported plain fragment never errs *)
Theorem match_supported_no_err : forall ord, perm_oracle ord -> forall fuel p f,
  supported p = true -> all_plain p = true -> var_free f = true ->
  match_ ord fuel p f [] <> Err.
Proof.
  intros ord Hord fuel p f Hs Ha Hf E.
  pose proof (match_tot ord Hord (json_depth f) true fuel p f []
                (fun H => ltac:(discriminate)) (okp_of_bools p Hs Ha)
                (conj Hf (le_n _)) (Forall_nil _)) as H.
  rewrite E in H. exact H.
Qed.

(** with fuel above [need] the matcher terminates normally *)
Theorem match_supported_ok : forall ord, perm_oracle ord -> forall fuel p f,
  supported p = true -> all_plain p = true -> var_free f = true ->
  need (json_depth f) p <= fuel ->
  exists bss, match_ ord fuel p f [] = Ok bss.
Proof.
  intros ord Hord fuel p f Hs Ha Hf Hn.
  pose proof (match_tot ord Hord (json_depth f) false fuel p f []
                (fun _ => Hn) (okp_of_bools p Hs Ha)
                (conj Hf (le_n _)) (Forall_nil _)) as H.
  destruct (match_ ord fuel p f []) as [bss| |]; cbn [out_ok] in H; [|contradiction|discriminate].
  exists bss; reflexivity.
Qed.
