(** C11: invariants of the timeout protocol of Model/ConcJs.v over all
    interleavings, a schedule-based progress theorem (every schedule in which,
    after the context has ended, the watcher, the script and the returning
    call each get one turn - in that order, with anything in between - ends
    with the Interrupted result), absence of a blocked watcher after the
    call has returned, refutations of the one-element-removed variants, and
    routing of the timeout error through step/walk exactly like a throw. *)
From Sheens Require Import Model.ConcJs Model.Action.
From Coq Require Import Lia.

Notation fv := faithful_variant.

Definition after (v : variant) (l : label) (s : tstate) : tstate :=
  match tstep v l s with Some s' => s' | None => s end.

Lemma run_labels_cons : forall v l ls s, run_labels v (l :: ls) s = run_labels v ls (after v l s).
Proof. reflexivity. Qed.

Lemma run_labels_app : forall v a b s, run_labels v (a ++ b) s = run_labels v b (run_labels v a s).
Proof. intros v a. induction a as [|l r IH]; intros b s; simpl; [reflexivity | apply IH]. Qed.

Ltac step_inv H :=
  unfold tstep in H; simpl in H;
  repeat match type of H with
         | context [match ?x with _ => _ end] => destruct x eqn:?; simpl in H
         end;
  try discriminate; inversion H; subst; clear H; simpl in *.

(** * Invariants of the faithful protocol *)

Record inv (k : option nat) (s : tstate) : Prop := mk_inv {
  inv_ctx : ctx_done s = true -> ictx_done s = true;
  inv_exited : watcher s = Exited -> flag s = true;
  inv_flag : flag s = true -> watcher s = Exited;
  inv_present : watcher s <> Absent;
  inv_ret : forall o, returned s = Some o -> script s = Stopped o;
  inv_ret_ictx : returned s <> None -> ictx_done s = true;
  inv_inf : k = None -> script s = Running None \/ script s = Stopped Interrupted;
  inv_exited_ictx : watcher s = Exited -> ictx_done s = true
}.

Lemma inv_init : forall e k, inv k (init fv e k).
Proof.
  intros e k. constructor; simpl; intros; try congruence; try discriminate.
  left. subst. reflexivity.
Qed.

Lemma inv_step : forall k l s s', inv k s -> tstep fv l s = Some s' -> inv k s'.
Proof.
  intros k l s s' [I1 I2 I3 I4 I5 I6 I7 I8] H.
  destruct l; step_inv H; constructor; simpl; intros;
    repeat match goal with
           | H : ?a = ?a -> _ |- _ => specialize (H eq_refl)
           end;
    try congruence; auto.
  all: try (match goal with H : returned _ = Some ?o |- _ => apply I5 in H; congruence end).
  all: try (match goal with H : ?k = None |- _ => destruct (I7 H); congruence end).
  all: try (intuition congruence).
Qed.

Lemma inv_after : forall k l s, inv k s -> inv k (after fv l s).
Proof.
  intros k l s H. unfold after. destruct (tstep fv l s) eqn:E; [eapply inv_step; eassumption | exact H].
Qed.

Lemma inv_run_labels : forall k ls s, inv k s -> inv k (run_labels fv ls s).
Proof.
  intros k ls. induction ls as [|l r IH]; intros s H; [exact H|].
  rewrite run_labels_cons. apply IH. apply inv_after. exact H.
Qed.

Lemma inv_reach : forall e k s, reach fv (init fv e k) s -> inv k s.
Proof.
  intros e k s H. induction H as [|s l s' _ IH Hs]; [apply inv_init | eapply inv_step; eassumption].
Qed.

Lemma reach_run_labels : forall v s0 ls s, reach v s0 s -> reach v s0 (run_labels v ls s).
Proof.
  intros v s0 ls. induction ls as [|l r IH]; intros s H; [exact H|].
  simpl. apply IH. destruct (tstep v l s) eqn:E; [eapply reach_step; eassumption | exact H].
Qed.

(** * Stable facts *)

Definition stable (v : variant) (P : tstate -> Prop) : Prop :=
  forall l s s', tstep v l s = Some s' -> P s -> P s'.

Lemma stable_run_labels :
  forall v P, stable v P -> forall ls s, P s -> P (run_labels v ls s).
Proof.
  intros v P HP ls. induction ls as [|l r IH]; intros s H; [exact H|].
  simpl. apply IH. destruct (tstep v l s) eqn:E; [eapply HP; eassumption | exact H].
Qed.

Lemma ctx_done_stable : forall v, stable v (fun s => ctx_done s = true).
Proof. intros v l s s' H P. destruct l; step_inv H; auto. Qed.

Lemma flag_stable : forall v, stable v (fun s => flag s = true).
Proof.
  intros v l s s' H P. destruct l; step_inv H; auto.
  rewrite P. apply orb_true_r.
Qed.

Lemma stopped_stable : forall v o, stable v (fun s => script s = Stopped o).
Proof. intros v o l s s' H P. destruct l; step_inv H; auto; congruence. Qed.

Lemma returned_stable : forall v o, stable v (fun s => returned s = Some o).
Proof. intros v o l s s' H P. destruct l; step_inv H; auto; congruence. Qed.

(** * C11_stop_after_flag: once the flag is set the script executes at most
      one more unit of interpreted code, whatever the schedule *)

Lemma ticks_stopped :
  forall v ls s o, script s = Stopped o -> ticks_taken v ls s = 0.
Proof.
  intros v ls. induction ls as [|l r IH]; intros s o Hs; simpl; [reflexivity|].
  destruct (tstep v l s) as [s'|] eqn:E.
  - assert (script s' = Stopped o) as Hs' by (eapply stopped_stable; eassumption).
    rewrite (IH s' o Hs'). destruct l; try reflexivity.
    unfold tstep in E. rewrite Hs in E. discriminate.
  - eapply IH. exact Hs.
Qed.

Theorem stop_after_flag :
  forall v ls s, flag s = true -> ticks_taken v ls s <= 1.
Proof.
  intros v ls. induction ls as [|l r IH]; intros s Hf; simpl; [lia|].
  destruct (tstep v l s) as [s'|] eqn:E; [|apply IH; exact Hf].
  assert (flag s' = true) as Hf' by (eapply flag_stable; eassumption).
  destruct l; try (simpl; apply IH; exact Hf').
  (* Tick with the flag set: the script is stopped *)
  unfold tstep in E. destruct (script s) eqn:Es; [|discriminate].
  rewrite Hf in E. inversion E; subst; clear E.
  rewrite (ticks_stopped v r _ Interrupted) by reflexivity. lia.
Qed.

(** * C11_watch_enabled: from the end of the context on, the watcher's step is
      enabled until it is taken *)

Theorem watch_enabled :
  forall e k s, reach fv (init fv e k) s -> ctx_done s = true ->
  (exists s', tstep fv Watch s = Some s') \/ flag s = true.
Proof.
  intros e k s Hr Hc. apply inv_reach in Hr. destruct Hr as [I1 I2 I3 I4 I5 I6 I7 I8].
  destruct (watcher s) eqn:Ew.
  - left. unfold tstep. rewrite Ew. simpl. rewrite (I1 Hc). eexists. reflexivity.
  - right. apply I2. reflexivity.
  - contradiction.
Qed.

(** the same for the derived context: after cancel() too *)
Lemma watch_enabled_ictx :
  forall k s, inv k s -> ictx_done s = true ->
  (exists s', tstep fv Watch s = Some s') \/ watcher s = Exited.
Proof.
  intros k s [I1 I2 I3 I4 I5 I6 I7 I8] Hc. destruct (watcher s) eqn:Ew.
  - left. unfold tstep. rewrite Ew. simpl. rewrite Hc. eexists. reflexivity.
  - right. reflexivity.
  - contradiction.
Qed.

(** * Progress along fair schedules *)

Lemma expire_sets : forall v s, ctx_done (after v Expire s) = true.
Proof.
  intros v s. unfold after, tstep. destruct (ctx_done s) eqn:E; [exact E | reflexivity].
Qed.

Lemma watch_sets : forall k s, inv k s -> ctx_done s = true -> flag (after fv Watch s) = true.
Proof.
  intros k s [I1 I2 I3 I4 I5 I6 I7 I8] Hc. unfold after, tstep. destruct (watcher s) eqn:Ew.
  - simpl. rewrite (I1 Hc). reflexivity.
  - apply I2. reflexivity.
  - contradiction.
Qed.

Lemma tick_stops :
  forall s, inv None s -> flag s = true -> script (after fv Tick s) = Stopped Interrupted.
Proof.
  intros s [I1 I2 I3 I4 I5 I6 I7 I8] Hf. unfold after, tstep.
  destruct (I7 eq_refl) as [Hs|Hs]; rewrite Hs.
  - rewrite Hf. reflexivity.
  - exact Hs.
Qed.

Lemma finish_returns :
  forall k s o, inv k s -> script s = Stopped o -> returned (after fv Finish s) = Some o.
Proof.
  intros k s o Hi Hs. unfold after, tstep. rewrite Hs.
  destruct (returned s) as [o'|] eqn:Er.
  - rewrite Er. f_equal. pose proof (inv_ret k s Hi o' Er). congruence.
  - reflexivity.
Qed.

Theorem fair_schedule_interrupts :
  forall e p0 p1 p2 p3,
  returned (run_labels fv (p0 ++ Expire :: p1 ++ Watch :: p2 ++ Tick :: p3 ++ [Finish]) (init fv e None))
  = Some Interrupted.
Proof.
  intros e p0 p1 p2 p3.
  rewrite run_labels_app, run_labels_cons, run_labels_app, run_labels_cons,
          run_labels_app, run_labels_cons, run_labels_app.
  set (s0 := run_labels fv p0 (init fv e None)).
  assert (inv None s0) as H0 by (apply inv_run_labels, inv_init).
  set (s1 := after fv Expire s0).
  assert (inv None s1) as H1 by (apply inv_after; exact H0).
  assert (ctx_done s1 = true) as C1 by apply expire_sets.
  set (s2 := run_labels fv p1 s1).
  assert (inv None s2) as H2 by (apply inv_run_labels; exact H1).
  assert (ctx_done s2 = true) as C2 by (apply (stable_run_labels fv _ (ctx_done_stable fv)); exact C1).
  set (s3 := after fv Watch s2).
  assert (inv None s3) as H3 by (apply inv_after; exact H2).
  assert (flag s3 = true) as F3 by (eapply watch_sets; eassumption).
  set (s4 := run_labels fv p2 s3).
  assert (inv None s4) as H4 by (apply inv_run_labels; exact H3).
  assert (flag s4 = true) as F4 by (apply (stable_run_labels fv _ (flag_stable fv)); exact F3).
  set (s5 := after fv Tick s4).
  assert (inv None s5) as H5 by (apply inv_after; exact H4).
  assert (script s5 = Stopped Interrupted) as S5 by (apply tick_stops; assumption).
  set (s6 := run_labels fv p3 s5).
  assert (inv None s6) as H6 by (apply inv_run_labels; exact H5).
  assert (script s6 = Stopped Interrupted) as S6
      by (apply (stable_run_labels fv _ (stopped_stable fv Interrupted)); exact S5).
  simpl. fold (after fv Finish s6). eapply finish_returns; eassumption.
Qed.

(** * C11_result *)

Theorem infinite_only_interrupted :
  forall e s o, reach fv (init fv e None) s -> returned s = Some o -> o = Interrupted.
Proof.
  intros e s o Hr Ho. apply inv_reach in Hr. destruct Hr as [I1 I2 I3 I4 I5 I6 I7 I8].
  apply I5 in Ho. destruct (I7 eq_refl); congruence.
Qed.

(** without an end of the context an execution is never reported as
    interrupted (the cancel() after RunProgram cannot be mistaken for one) *)
Record quiet (s : tstate) : Prop := mk_quiet {
  q_ctx : ctx_done s = false;
  q_ictx : returned s = None -> ictx_done s = false;
  q_script : script s <> Stopped Interrupted;
  q_ret : returned s <> Some Interrupted
}.

Lemma quiet_init : forall k, quiet (init fv false k).
Proof. intros k. constructor; simpl; intros; congruence. Qed.

Lemma quiet_step :
  forall k l s s', l <> Expire -> inv k s -> quiet s -> tstep fv l s = Some s' -> quiet s'.
Proof.
  intros k l s s' Hl [I1 I2 I3 I4 I5 I6 I7 I8] [Q1 Q2 Q3 Q4] H. destruct l; [congruence| | |].
  - (* Watch *)
    unfold tstep in H. destruct (watcher s) eqn:Ew; try discriminate. simpl in H.
    destruct (ictx_done s) eqn:Ei; [|discriminate]. inversion H; subst; clear H.
    constructor; simpl; auto.
  - (* Tick *)
    unfold tstep in H. destruct (script s) as [lft|o] eqn:Es; [|discriminate].
    destruct (flag s) eqn:Ef.
    + (* the flag is set only after cancel(), i.e. after the script has stopped *)
      exfalso. pose proof (I8 (I3 eq_refl)) as Hi.
      destruct (returned s) as [o|] eqn:Er.
      * pose proof (I5 o eq_refl). congruence.
      * rewrite (Q2 eq_refl) in Hi. discriminate.
    + destruct lft as [[|n]|]; inversion H; subst; clear H; constructor; simpl; auto; congruence.
  - (* Finish *)
    unfold tstep in H. destruct (script s) as [lft|o] eqn:Es; [discriminate|].
    destruct (returned s) eqn:Er; [discriminate|]. inversion H; subst; clear H.
    constructor; simpl; auto; try congruence.
Qed.

Theorem no_spurious_interrupt :
  forall k ls, ~ In Expire ls -> returned (run_labels fv ls (init fv false k)) <> Some Interrupted.
Proof.
  intros k ls Hn.
  assert (forall ls s, ~ In Expire ls -> inv k s -> quiet s -> quiet (run_labels fv ls s)) as Hq.
  { clear. induction ls as [|l r IH]; intros s Hn Hi Hq; [exact Hq|].
    simpl. assert (l <> Expire) as Hl by (intro; subst; apply Hn; left; reflexivity).
    assert (~ In Expire r) as Hr by (intro; apply Hn; right; assumption).
    destruct (tstep fv l s) as [s'|] eqn:E.
    - apply IH; [exact Hr | eapply inv_step; eassumption | eapply quiet_step; eassumption].
    - apply IH; assumption. }
  apply (Hq ls _ Hn (inv_init false k) (quiet_init k)).
Qed.

(** a finite script whose context never ends returns Finished once it has had
    its turns *)
Lemma finite_ticks :
  forall k s, quiet s -> flag s = false -> script s = Running (Some k) ->
  forall n, k < n -> script (run_labels fv (repeat Tick n) s) = Stopped Finished.
Proof.
  induction k as [|k IH]; intros s Hq Hf Hs n Hn.
  - destruct n as [|n]; [lia|]. simpl. unfold tstep. rewrite Hs, Hf.
    apply (stable_run_labels fv _ (stopped_stable fv Finished)). reflexivity.
  - destruct n as [|n]; [lia|]. simpl. unfold tstep. rewrite Hs, Hf.
    apply IH; try (simpl; auto); try lia.
    destruct Hq as [Q1 Q2 Q3 Q4]. constructor; simpl; auto. congruence.
Qed.

Theorem finite_script_finishes :
  forall k, returned (run_labels fv (repeat Tick (S k) ++ [Finish]) (init fv false (Some k))) = Some Finished.
Proof.
  intros k. rewrite run_labels_app.
  set (s := run_labels fv (repeat Tick (S k)) (init fv false (Some k))).
  assert (script s = Stopped Finished) as Hs.
  { apply (finite_ticks k); [apply quiet_init | reflexivity | reflexivity | lia]. }
  simpl. fold (after fv Finish s).
  apply (finish_returns (Some k)); [apply inv_run_labels, inv_init | exact Hs].
Qed.

(** * C11_no_leak: once Exec has returned, the watcher has ended or its only
      step (to end) is enabled - it never waits for the environment *)

Theorem no_leak :
  forall e k s, reach fv (init fv e k) s -> returned s <> None ->
  ictx_done s = true /\ watcher_blocked fv s = false.
Proof.
  intros e k s Hr Hret. apply inv_reach in Hr.
  pose proof (inv_ret_ictx k s Hr Hret) as Hi. split; [exact Hi|].
  unfold watcher_blocked. destruct (watcher s) eqn:Ew; try reflexivity.
  unfold tstep. rewrite Ew. simpl. rewrite Hi. reflexivity.
Qed.

Lemma exited_stable : forall v, stable v (fun s => watcher s = Exited).
Proof. intros v l s s' H P. destruct l; step_inv H; auto; congruence. Qed.

Lemma ictx_stable : stable fv (fun s => ictx_done s = true).
Proof. intros l s s' H P. destruct l; step_inv H; auto. Qed.

Theorem watcher_exits_after_return :
  forall e k s, reach fv (init fv e k) s -> returned s <> None ->
  forall p q, watcher (run_labels fv (p ++ Watch :: q) s) = Exited.
Proof.
  intros e k s Hr Hret p q. apply inv_reach in Hr.
  pose proof (inv_ret_ictx k s Hr Hret) as Hi.
  rewrite run_labels_app, run_labels_cons.
  set (s1 := run_labels fv p s).
  assert (inv k s1) as H1 by (apply inv_run_labels; exact Hr).
  assert (ictx_done s1 = true) as Hi1 by (apply (stable_run_labels fv _ ictx_stable); exact Hi).
  apply (stable_run_labels fv _ (exited_stable fv)).
  unfold after, tstep. destruct (watcher s1) eqn:Ew.
  - simpl. rewrite Hi1. reflexivity.
  - exact Ew.
  - exfalso. exact (inv_present k s1 H1 Ew).
Qed.

(** * The variants with one element of the protocol removed *)

Definition no_cancel : variant := mk_variant false true true true.
Definition watch_ctx_only : variant := mk_variant true false true true.
Definition no_watcher : variant := mk_variant true true false true.
Definition no_interrupt : variant := mk_variant true true true false.

Definition no_leak_for (v : variant) : Prop :=
  forall e k s, reach v (init v e k) s -> returned s <> None -> watcher_blocked v s = false.
Definition fair_interrupts_for (v : variant) : Prop :=
  forall e p0 p1 p2 p3,
  returned (run_labels v (p0 ++ Expire :: p1 ++ Watch :: p2 ++ Tick :: p3 ++ [Finish]) (init v e None))
  = Some Interrupted.

Lemma no_cancel_leaks : ~ no_leak_for no_cancel.
Proof.
  intro H.
  specialize (H false (Some 0) (run_labels no_cancel [Tick; Finish] (init no_cancel false (Some 0)))).
  assert (reach no_cancel (init no_cancel false (Some 0))
                (run_labels no_cancel [Tick; Finish] (init no_cancel false (Some 0)))) as Hr
      by (apply reach_run_labels, reach_init).
  specialize (H Hr). vm_compute in H. assert (false = true -> False) by discriminate.
  apply H0. symmetry. apply H. discriminate.
Qed.

Lemma watch_ctx_only_leaks : ~ no_leak_for watch_ctx_only.
Proof.
  intro H.
  specialize (H false (Some 0) (run_labels watch_ctx_only [Tick; Finish] (init watch_ctx_only false (Some 0)))).
  assert (reach watch_ctx_only (init watch_ctx_only false (Some 0))
                (run_labels watch_ctx_only [Tick; Finish] (init watch_ctx_only false (Some 0)))) as Hr
      by (apply reach_run_labels, reach_init).
  specialize (H Hr). vm_compute in H. assert (false = true -> False) by discriminate.
  apply H0. symmetry. apply H. discriminate.
Qed.

Lemma no_watcher_hangs : ~ fair_interrupts_for no_watcher.
Proof. intro H. specialize (H false [] [] [] []). vm_compute in H. discriminate. Qed.

Lemma no_interrupt_hangs : ~ fair_interrupts_for no_interrupt.
Proof. intro H. specialize (H false [] [] [] []). vm_compute in H. discriminate. Qed.

(** the faithful protocol on the same schedules *)
Lemma faithful_examples :
  returned (run_labels fv [Expire; Watch; Tick; Finish] (init fv false None)) = Some Interrupted
  /\ watcher_blocked fv (run_labels fv [Tick; Finish] (init fv false (Some 0))) = false
  /\ returned (run_labels fv [Tick; Finish] (init fv false (Some 0))) = Some Finished
  /\ watcher (run_labels fv [Tick; Finish; Watch] (init fv false (Some 0))) = Exited.
Proof. vm_compute. repeat split. Qed.

(** the explored outcome sets used by the correspondence *)
Lemma outcomes_infinite : forall e, outcomes fv e None = [Interrupted].
Proof. intros [|]; vm_compute; reflexivity. Qed.
Lemma outcomes_no_deadline_finite_3 : outcomes_no_deadline fv (Some 3) = [Finished].
Proof. vm_compute. reflexivity. Qed.

(** * Routing: the engine cannot tell a timed-out script from a throwing one *)

Definition loop_to_throw (a : act) : act :=
  match a with
  | Js (mk_prog ops TLoop) => Js (mk_prog ops TThrow)
  | other => other
  end.

Lemma run_loop_is_throw : forall a bs, run_act (loop_to_throw a) bs = run_act a bs.
Proof.
  intros a bs. destruct a as [[ops t]|p e]; [|reflexivity].
  destruct t; reflexivity.
Qed.

Section RunExt.
  Variable action : Type.
  Variables run1 run2 : action -> option bindings -> exec_raw.
  Hypothesis Hrun : forall a bs, run1 a bs = run2 a bs.

  Lemma func_exec_ext : forall a bs, func_exec action run1 a bs = func_exec action run2 a bs.
  Proof. intros a bs. unfold func_exec. rewrite Hrun. reflexivity. Qed.

  Lemma guard_loop_ext : forall g cs, guard_loop action run1 g cs = guard_loop action run2 g cs.
  Proof.
    intros g cs. induction cs as [|c r IH]; simpl; [reflexivity|].
    rewrite func_exec_ext. destruct (func_exec action run2 g c) as [[ob em] err].
    destruct err; [reflexivity|]. destruct ob; [reflexivity | exact IH].
  Qed.

  Lemma guard_on_ext : forall g c, guard_on action run1 g c = guard_on action run2 g c.
  Proof. intros g c. unfold guard_on. rewrite func_exec_ext. reflexivity. Qed.

  Lemma guard_order_free_ext :
    forall g cs, guard_order_free action run1 g cs = guard_order_free action run2 g cs.
  Proof.
    intros g cs. unfold guard_order_free. rewrite (map_ext _ _ (guard_on_ext g)). reflexivity.
  Qed.

  Lemma try_branch_ext : forall b bs against,
      try_branch action run1 b bs against = try_branch action run2 b bs against.
  Proof.
    intros b bs against. unfold try_branch.
    destruct (match br_pattern b with
              | Some p => match Match p against (copy_bs bs) with
                          | Ok r => Ok (map Some r)
                          | Err => Err
                          | Fuel => Fuel
                          end
              | None => Ok [bs]
              end) as [cs| |]; try reflexivity.
    destruct (br_guard b) as [g|]; [|reflexivity].
    rewrite guard_loop_ext, guard_order_free_ext. reflexivity.
  Qed.

  Lemma first_branch_ext : forall brs bs against,
      first_branch action run1 brs bs against = first_branch action run2 brs bs against.
  Proof.
    intros brs bs against. induction brs as [|b r IH]; simpl; [reflexivity|].
    rewrite try_branch_ext, IH. reflexivity.
  Qed.

  Lemma consider_ext : forall bg bs pending,
      consider action run1 bg bs pending = consider action run2 bg bs pending.
  Proof.
    intros bg bs pending. unfold consider. destruct bg as [b|]; [|reflexivity].
    destruct (String.eqb (bg_type b) "message").
    - destruct pending; [rewrite first_branch_ext|]; reflexivity.
    - rewrite first_branch_ext. reflexivity.
  Qed.

  Lemma step_ext : forall s st pending, step action run1 s st pending = step action run2 s st pending.
  Proof.
    intros s st pending. unfold step.
    destruct (negb (sp_compiled s)); [reflexivity|].
    destruct (find_node (st_node st) (sp_nodes s)) as [n|]; [|reflexivity].
    destruct (nd_action n) as [a|].
    - cbv zeta. rewrite func_exec_ext. destruct (func_exec action run2 a (st_bs st)) as [[ob em] err].
      repeat rewrite consider_ext. reflexivity.
    - cbv zeta. repeat rewrite consider_ext. reflexivity.
  Qed.

  Lemma walk_stride_ext : forall s st pend,
      walk_stride action run1 s st pend = walk_stride action run2 s st pend.
  Proof. intros s st pend. unfold walk_stride. rewrite step_ext. reflexivity. Qed.

  Lemma walk_loop_ext : forall s bp limit st pend acc amb,
      walk_loop action run1 s bp limit st pend acc amb = walk_loop action run2 s bp limit st pend acc amb.
  Proof.
    intros s bp limit. induction limit as [|n IH]; intros st pend acc amb; simpl; [reflexivity|].
    destruct (bp st); [reflexivity|].
    rewrite walk_stride_ext. destruct (walk_stride action run2 s st pend) as [sd a].
    destruct (sd_to sd).
    - apply IH.
    - destruct (match sd_consumed sd with Some _ => tl pend | None => pend end); [reflexivity|].
      destruct (sd_consumed sd); [apply IH | reflexivity].
  Qed.

  Lemma walk_ext : forall s bp limit st pend,
      walk action run1 s bp limit st pend = walk action run2 s bp limit st pend.
  Proof. intros. unfold walk. apply walk_loop_ext. Qed.
End RunExt.

(** every step and every walk of every specification is the same whether the
    looping scripts time out or throw *)
Theorem timeout_routed_like_throw_step :
  forall s st pending,
  astep s st pending = step act (fun a bs => run_act (loop_to_throw a) bs) s st pending.
Proof.
  intros. unfold astep. apply step_ext. intros a bs. symmetry. apply run_loop_is_throw.
Qed.

Theorem timeout_routed_like_throw_walk :
  forall s bp limit st pend,
  awalk s bp limit st pend = walk act (fun a bs => run_act (loop_to_throw a) bs) s bp limit st pend.
Proof.
  intros. unfold awalk. apply walk_ext. intros a bs. symmetry. apply run_loop_is_throw.
Qed.

(** a looping action with an error node configured: the stride goes there with
    the action error recorded *)
Definition loop_spec : aspec :=
  mk_spec [("start", mk_node (Some (Js (mk_prog [AEmit (JStr "lost")] TLoop))) false None);
           ("onerr", mk_node None false None)] false "onerr" true.
Lemma loop_spec_routes :
  so_stride (astep loop_spec (mk_state "start" (Some [("a", JNum 4)])) None)
  = Some (mk_stride (mk_state "start" (Some [("a", JNum 4)]))
                    (Some (mk_state "onerr" (Some [("a", JNum 4); ("actionError", err_text); ("error", err_text)])))
                    None []).
Proof. vm_compute. reflexivity. Qed.
