(** C04: the model [step] of core.Spec.Step and the documented transition
    rule (Spec/StepRule.v) determine each other: [step] satisfies the rule
    and the rule allows no other outcome. *)
From Coq Require Import Lia.
From Sheens Require Import Model.Step Spec.StepRule Proofs.StepFacts.

Section Proofs.
  Variable action : Type.
  Variable run : action -> option bindings -> exec_raw.

  Notation branch := (branch action).
  Notation BranchRule := (BranchRule action run).
  Notation SelectRule := (SelectRule action run).
  Notation BranchingRule := (BranchingRule action run).
  Notation StepRule := (StepRule action run).
  Notation try_branch := (try_branch action run).
  Notation first_branch := (first_branch action run).
  Notation consider := (consider action run).
  Notation guard_loop := (guard_loop action run).
  Notation step := (step action run).

  Definition of_try (t : try_res) : br_outcome :=
    match t with TNone => BrNone | TTo st' => BrTo st' | TErr e => BrErr e end.

  (** * The guard loop *)
  Lemma guard_loop_accept g pre c post bs' :
    Forall (guard_rejects action run g) pre -> guard_accepts action run g c bs' ->
    guard_loop g (pre ++ c :: post) = Some (Some bs').
  Proof.
    intros Hpre [em Hc]. induction Hpre as [|x pre [emx Hx] _ IH]; cbn.
    - rewrite Hc. reflexivity.
    - rewrite Hx. exact IH.
  Qed.

  Lemma guard_loop_reject g cs :
    Forall (guard_rejects action run g) cs -> guard_loop g cs = Some None.
  Proof.
    intros H. induction H as [|x r [emx Hx] _ IH]; cbn; [reflexivity|]. rewrite Hx. exact IH.
  Qed.

  Lemma guard_loop_fail g pre c post :
    Forall (guard_rejects action run g) pre -> guard_fails action run g c ->
    guard_loop g (pre ++ c :: post) = None.
  Proof.
    intros Hpre [[ob em] Hc]. induction Hpre as [|x pre [emx Hx] _ IH]; cbn.
    - rewrite Hc. reflexivity.
    - rewrite Hx. exact IH.
  Qed.

  Lemma guard_loop_inv g cs :
    match guard_loop g cs with
    | Some (Some bs') =>
        exists pre c post, cs = pre ++ c :: post /\
                           Forall (guard_rejects action run g) pre /\ guard_accepts action run g c bs'
    | Some None => Forall (guard_rejects action run g) cs
    | None =>
        exists pre c post, cs = pre ++ c :: post /\
                           Forall (guard_rejects action run g) pre /\ guard_fails action run g c
    end.
  Proof.
    induction cs as [|c r IH]; cbn; [constructor|].
    destruct (func_exec action run g c) as [[ob em] err] eqn:E.
    destruct err.
    - exists [], c, r. repeat split; [constructor|]. exists (ob, em). exact E.
    - destruct ob as [b|].
      + exists [], c, r. repeat split; [constructor|]. exists em. exact E.
      + assert (Hc : guard_rejects action run g c) by (exists em; exact E).
        destruct (guard_loop g r) as [[bs'|]|].
        * destruct IH as [pre [c' [post [-> [Hp Ha]]]]].
          exists (c :: pre), c', post. repeat split; [constructor; assumption | exact Ha].
        * constructor; assumption.
        * destruct IH as [pre [c' [post [-> [Hp Ha]]]]].
          exists (c :: pre), c', post. repeat split; [constructor; assumption | exact Ha].
  Qed.

  (** * One branch *)
  Lemma try_branch_candidates b bs against :
    fst (try_branch b bs against) =
    match candidates action b bs against with
    | Err => TErr EMatch
    | Fuel => TErr EFuel
    | Ok cs =>
        let chosen :=
          match br_guard b with
          | None => match cs with [] => Some None | [c] => Some c | _ => None end
          | Some g => guard_loop g cs
          end in
        match chosen with
        | None => TErr (match br_guard b with None => ETooMany | Some _ => EGuard end)
        | Some None => TNone
        | Some (Some bs') => TTo (mk_state (target action b bs') (Some bs'))
        end
    end.
  Proof.
    unfold Step.try_branch, candidates.
    destruct (br_pattern b) as [p|].
    - destruct (Match p against (copy_bs bs)) as [r| |]; try reflexivity.
      destruct (br_guard b); [destruct (guard_loop _ _) as [[?|]|] | destruct (map Some r) as [|? [|? ?]]];
        try reflexivity; destruct o; reflexivity.
    - destruct (br_guard b); [destruct (guard_loop _ _) as [[?|]|] |]; try reflexivity.
      destruct bs; reflexivity.
  Qed.

  Theorem try_branch_rule b bs against :
    BranchRule b bs against (of_try (fst (try_branch b bs against))).
  Proof.
    rewrite try_branch_candidates.
    destruct (candidates action b bs against) as [cs| |] eqn:Ec; cbn;
      [| apply BR_match_error; exact Ec | apply BR_match_fuel; exact Ec].
    destruct (br_guard b) as [g|] eqn:Eg.
    - pose proof (guard_loop_inv g cs) as H.
      destruct (guard_loop g cs) as [[bs'|]|]; cbn.
      + destruct H as [pre [c [post [-> [Hp Ha]]]]]. eapply BR_guard_accepts; eauto.
      + destruct cs as [|c r]; [apply BR_no_match; exact Ec|].
        eapply BR_guard_rejects_all; eauto. discriminate.
      + destruct H as [pre [c [post [-> [Hp Ha]]]]]. eapply BR_guard_fails; eauto.
    - destruct cs as [|c [|c2 r]]; cbn.
      + apply BR_no_match; exact Ec.
      + destruct c as [c|]; cbn; [apply BR_plain_one | apply BR_plain_nil]; assumption.
      + eapply BR_plain_many; eauto.
  Qed.

  Lemma app_cons_not_nil {A} (pre : list A) c post : pre ++ c :: post <> [].
  Proof. destruct pre; discriminate. Qed.

  Theorem rule_try_branch b bs against o :
    BranchRule b bs against o -> of_try (fst (try_branch b bs against)) = o.
  Proof.
    intros H. rewrite try_branch_candidates.
    destruct H as [Ec | Ec | Ec | c Eg Ec | Eg Ec | c1 c2 r Eg Ec
                   | g pre c post bs' Eg Ec Hp Ha | g cs Eg Ec Hne Hr | g pre c post Eg Ec Hp Hf];
      rewrite Ec; cbn; try reflexivity.
    - destruct (br_guard b) as [g|]; reflexivity.
    - rewrite Eg. reflexivity.
    - rewrite Eg. reflexivity.
    - rewrite Eg. reflexivity.
    - rewrite Eg, (guard_loop_accept g pre c post bs' Hp Ha). reflexivity.
    - rewrite Eg, (guard_loop_reject g cs Hr). reflexivity.
    - rewrite Eg, (guard_loop_fail g pre c post Hp Hf). reflexivity.
  Qed.

  (** * Branches in order *)
  Theorem first_branch_rule brs bs against :
    SelectRule bs against brs (of_try (fst (first_branch brs bs against))).
  Proof.
    induction brs as [|b r IH]; cbn; [constructor|].
    pose proof (try_branch_rule b bs against) as Hb.
    destruct (try_branch b bs against) as [t amb]. cbn in Hb.
    destruct t; cbn.
    - destruct (first_branch r bs against) as [t' amb']. cbn in *. apply Sel_skip; assumption.
    - apply Sel_take; [exact Hb | discriminate].
    - apply Sel_take; [exact Hb | discriminate].
  Qed.

  Theorem rule_first_branch brs bs against o :
    SelectRule bs against brs o -> of_try (fst (first_branch brs bs against)) = o.
  Proof.
    induction 1 as [| b r o Hb _ IH | b r o Hb Hne]; cbn; [reflexivity | |].
    - pose proof (rule_try_branch _ _ _ _ Hb) as E.
      destruct (try_branch b bs against) as [t amb]. cbn in E.
      destruct t; try discriminate.
      destruct (first_branch r bs against) as [t' amb']. exact IH.
    - pose proof (rule_try_branch _ _ _ _ Hb) as E.
      destruct (try_branch b bs against) as [t amb]. cbn in E.
      destruct t; cbn in *; [congruence | exact E | exact E].
  Qed.

  (** * Branching of a node *)
  Definition consumed_by (bg : option (branching action)) (pending : option json) : option json :=
    if is_consumer action bg then pending else None.

  Theorem consider_rule bg bs pending :
    BranchingRule bg bs pending (of_try (fst (fst (consider bg bs pending)))) (consumed_by bg pending).
  Proof.
    unfold Step.consider, consumed_by, is_consumer.
    destruct bg as [b|]; [|apply Bg_absent; reflexivity].
    destruct (String.eqb (bg_type b) "message") eqn:E.
    - apply String.eqb_eq in E. destruct pending as [m|].
      + pose proof (first_branch_rule (bg_branches b) bs m) as H.
        destruct (first_branch (bg_branches b) bs m) as [t amb]. cbn in *.
        eapply Bg_message; eauto.
      + cbn. eapply Bg_message_none; eauto.
    - apply String.eqb_neq in E.
      pose proof (first_branch_rule (bg_branches b) bs (JObj (copy_bs bs))) as H.
      destruct (first_branch (bg_branches b) bs (JObj (copy_bs bs))) as [t amb]. cbn in *.
      eapply Bg_bindings; eauto.
  Qed.

  Theorem rule_consider bg bs pending o consumed :
    BranchingRule bg bs pending o consumed ->
    of_try (fst (fst (consider bg bs pending))) = o /\ consumed_by bg pending = consumed.
  Proof.
    unfold Step.consider, consumed_by, is_consumer.
    intros [-> | b -> Ht -> | b m o' -> Ht -> Hs | b o' -> Ht Hs].
    - split; reflexivity.
    - rewrite Ht. cbn. split; reflexivity.
    - rewrite Ht. cbn. pose proof (rule_first_branch _ _ _ _ Hs) as E.
      destruct (first_branch (bg_branches b) bs m) as [t amb]. cbn in *. split; [exact E | reflexivity].
    - apply String.eqb_neq in Ht. rewrite Ht.
      pose proof (rule_first_branch _ _ _ _ Hs) as E.
      destruct (first_branch (bg_branches b) bs (JObj (copy_bs bs))) as [t amb]. cbn in *.
      split; [exact E | reflexivity].
  Qed.

  (** * The step *)
  Definition outcome_of (o : step_out) : outcome := (so_stride o, so_err o).

  Lemma message_typed_consumer bg :
    message_typed action bg <-> is_consumer action bg = true.
  Proof.
    unfold message_typed, is_consumer. split.
    - intros [b [-> Ht]]. rewrite Ht. reflexivity.
    - destruct bg as [b|]; [|discriminate]. intros H. apply String.eqb_eq in H. eauto.
  Qed.

  Lemma not_message_typed_consumer bg :
    ~ message_typed action bg <-> is_consumer action bg = false.
  Proof.
    rewrite message_typed_consumer. destruct (is_consumer action bg); split; congruence.
  Qed.

  (** [continue_] in terms of the branching rule's outcome *)
  Lemma continue_outcome n st pending have bs em :
    let '(t, consumer, _) := consider (nd_branching n) bs pending in
    outcome_of (continue_ action run n st pending have bs em) =
    (Some (mk_stride (copy_state st)
                     (match of_try t with
                      | BrTo st' => Some (copy_state st')
                      | _ => if have then Some (error_state (Some (copy_bs bs)) no_branch_text st) else None
                      end)
                     (if consumer then pending else None) em),
     match of_try t with BrErr e => Some e | _ => None end).
  Proof.
    unfold continue_.
    destruct (consider (nd_branching n) bs pending) as [[t consumer] amb].
    destruct t; cbn; reflexivity.
  Qed.

  Theorem step_rule s st pending : StepRule s st pending (outcome_of (step s st pending)).
  Proof.
    rewrite step_unfold.
    destruct (sp_compiled s) eqn:Ecomp; cbn [negb]; [|apply SR_not_compiled; exact Ecomp].
    destruct (find_node (st_node st) (sp_nodes s)) as [n|] eqn:En; [|apply SR_unknown_node; assumption].
    cbv zeta.
    destruct (nd_action n) as [a|] eqn:Ea; cbn [negb andb].
    - destruct (is_consumer action (nd_branching n)) eqn:Econs.
      { apply message_typed_consumer in Econs. destruct Econs as [b [Hb Ht]].
        eapply SR_action_with_message_branching; eauto. }
      pose proof (proj2 (not_message_typed_consumer _) Econs) as Hnm.
      destruct (func_exec action run a (st_bs st)) as [[ob em] err] eqn:Ef.
      destruct err; cbn [negb].
      + destruct (sp_err_branches s) eqn:Eb; cbn [negb].
        * pose proof (continue_outcome n st pending true
                        (Some (bset "error" err_text (bset "actionError" err_text (copy_bs (st_bs st))))) em) as Hc.
          pose proof (consider_rule (nd_branching n)
                        (Some (bset "error" err_text (bset "actionError" err_text (copy_bs (st_bs st))))) pending) as Hr.
          pose proof (consider_flag action run (nd_branching n)
                        (Some (bset "error" err_text (bset "actionError" err_text (copy_bs (st_bs st))))) pending) as Hfl.
          destruct (consider _ _ pending) as [[t consumer] amb]. cbn in Hr, Hfl. subst consumer.
          rewrite Hc. unfold consumed_by in Hr.
          pose proof (SR_action_error_branches action run s st pending n a ob em (of_try t) _
                        Ecomp En Ea Hnm Ef Eb Hr) as H.
          cbn zeta in H. destruct (of_try t); exact H.
        * destruct (String.eqb (sp_err_node s) "") eqn:Een.
          -- apply String.eqb_eq in Een. eapply SR_action_error_returned; eauto.
          -- apply String.eqb_neq in Een. eapply SR_action_error_node; eauto.
      + pose proof (continue_outcome n st pending true (Some (copy_bs ob)) em) as Hc.
        pose proof (consider_rule (nd_branching n) (Some (copy_bs ob)) pending) as Hr.
        pose proof (consider_flag action run (nd_branching n) (Some (copy_bs ob)) pending) as Hfl.
        destruct (consider _ _ pending) as [[t consumer] amb]. cbn in Hr, Hfl. subst consumer.
        rewrite Hc. unfold consumed_by in Hr.
        pose proof (SR_action action run s st pending n a ob em (of_try t) _
                      Ecomp En Ea Hnm Ef Hr) as H.
        destruct (of_try t); exact H.
    - destruct (nd_uncompiled n) eqn:Eu; [eapply SR_uncompiled_action; eauto|].
      pose proof (continue_outcome n st pending false (st_bs st) []) as Hc.
      pose proof (consider_rule (nd_branching n) (st_bs st) pending) as Hr.
      pose proof (consider_flag action run (nd_branching n) (st_bs st) pending) as Hfl.
      destruct (consider _ _ pending) as [[t consumer] amb]. cbn in Hr, Hfl. subst consumer.
      rewrite Hc. unfold consumed_by in Hr.
      pose proof (SR_branch action run s st pending n (of_try t) _ Ecomp En Ea Eu Hr) as H.
      destruct (of_try t); exact H.
  Qed.

  Theorem rule_step s st pending o :
    StepRule s st pending o -> outcome_of (step s st pending) = o.
  Proof.
    intros H. rewrite step_unfold.
    destruct H as [Ec | Ec En | n Ec En Ea Eu | n a b Ec En Ea Eb Et
                   | n o consumed Ec En Ea Eu Hr
                   | n a ob em o consumed Ec En Ea Hnm Ef Hr
                   | n a r Ec En Ea Hnm Ef Eb Een
                   | n a ob em Ec En Ea Hnm Ef Eb Een
                   | n a ob em o consumed Ec En Ea Hnm Ef Eb ebs Hr];
      rewrite Ec; cbn [negb]; try reflexivity; rewrite En; try reflexivity; cbv zeta; rewrite Ea; cbn [negb andb].
    - rewrite Eu. reflexivity.
    - unfold is_consumer. rewrite Eb, Et. reflexivity.
    - rewrite Eu.
      pose proof (continue_outcome n st pending false (st_bs st) []) as Hc.
      destruct (rule_consider _ _ _ _ _ Hr) as [Ho Hk].
      pose proof (consider_flag action run (nd_branching n) (st_bs st) pending) as Hfl.
      destruct (consider _ _ pending) as [[t consumer] amb]. cbn in Ho, Hfl. subst consumer.
      rewrite Hc, Ho. unfold consumed_by in Hk. rewrite Hk. destruct o; reflexivity.
    - rewrite (proj1 (not_message_typed_consumer _) Hnm), Ef. cbn [negb].
      pose proof (continue_outcome n st pending true (Some (copy_bs ob)) em) as Hc.
      destruct (rule_consider _ _ _ _ _ Hr) as [Ho Hk].
      pose proof (consider_flag action run (nd_branching n) (Some (copy_bs ob)) pending) as Hfl.
      destruct (consider _ _ pending) as [[t consumer] amb]. cbn in Ho, Hfl. subst consumer.
      rewrite Hc, Ho. unfold consumed_by in Hk. rewrite Hk. destruct o; reflexivity.
    - rewrite (proj1 (not_message_typed_consumer _) Hnm), Ef. destruct r as [ob em]. cbn [negb].
      rewrite Eb, Een. reflexivity.
    - rewrite (proj1 (not_message_typed_consumer _) Hnm), Ef. cbn [negb].
      rewrite Eb. cbn [negb]. apply String.eqb_neq in Een. rewrite Een. reflexivity.
    - rewrite (proj1 (not_message_typed_consumer _) Hnm), Ef. cbn [negb].
      rewrite Eb. cbn [negb].
      pose proof (continue_outcome n st pending true ebs em) as Hc.
      destruct (rule_consider _ _ _ _ _ Hr) as [Ho Hk].
      pose proof (consider_flag action run (nd_branching n) ebs pending) as Hfl.
      fold ebs.
      destruct (consider _ _ pending) as [[t consumer] amb]. cbn in Ho, Hfl. subst consumer.
      rewrite Hc, Ho. unfold consumed_by in Hk. rewrite Hk. destruct o; reflexivity.
  Qed.

  (** the rule is functional: it determines the outcome of a step *)
  Corollary step_rule_functional s st pending o1 o2 :
    StepRule s st pending o1 -> StepRule s st pending o2 -> o1 = o2.
  Proof. intros H1 H2. rewrite <- (rule_step _ _ _ _ H1). apply rule_step. exact H2. Qed.
End Proofs.
