(** The executable reports of Corr/MatchHeapCorr.v are constant: for every
    pattern, message and bindings the heap model predicts "results pairwise
    distinct and not the caller's map", "caller's map intact and never
    written", "no write after a return", and reads back as the pure model.
    (So any identity probe of the Go harness that reports otherwise on a
    normally returning call disagrees with the model.)  Also the worked
    example used as non-vacuity witness in Properties/C03.v. *)
From Coq Require Import Lia.
From Sheens Require Import Model.Match Model.MatchHeap Corr.MatchHeapCorr
     Proofs.CplBasics Proofs.MatchHeapProofs.

Lemma existsb_eqb_false x l : ~ In x l -> existsb (Nat.eqb x) l = false.
Proof.
  intros H. destruct (existsb (Nat.eqb x) l) eqn:E; [|reflexivity].
  apply existsb_exists in E. destruct E as [y [Hy Ey]]. apply Nat.eqb_eq in Ey. subst y.
  contradiction.
Qed.

Lemma nodupb_true l : NoDup l -> nodupb l = true.
Proof.
  induction 1 as [|x r Hx _ IH]; [reflexivity|].
  cbn [nodupb]. rewrite (existsb_eqb_false x r Hx), IH. reflexivity.
Qed.

Lemma no_late_b_true L : no_late L -> no_late_b L = true.
Proof.
  induction L as [|e r IH]; intros H; [reflexivity|].
  destruct e as [a d|x k|l]; cbn [no_late no_late_b] in *; try (apply IH; exact H).
  destruct H as [Hr Hn]. rewrite (IH Hn), andb_true_r.
  destruct (existsb (returns_addr x) r) eqn:E; [|reflexivity].
  apply existsb_exists in E. destruct E as [e [He Hx]].
  destruct e as [a d|y k'|l]; cbn [returns_addr] in Hx; try discriminate.
  apply existsb_exists in Hx. destruct Hx as [y [Hy Ey]]. apply Nat.eqb_eq in Ey. subst y.
  exfalso. exact (Hr l He Hy).
Qed.

Lemma bindings_eqb_refl' b : bindings_eqb b b = true.
Proof. unfold bindings_eqb. apply json_eqb_refl. Qed.

Lemma bss_eqb_refl l : bss_eqb l l = true.
Proof.
  induction l as [|a r IH]; [reflexivity|]. cbn [bss_eqb]. rewrite bindings_eqb_refl', IH. reflexivity.
Qed.

Lemma init_caller bs : caller_addr < hsize (init_st bs).
Proof. unfold caller_addr, init_st, hsize. cbn [st_heap List.length]. lia. Qed.

Theorem heap_alias_report_true p f bs : heap_alias_report p f bs = (true, true).
Proof.
  unfold heap_alias_report, HMatch.
  destruct (hMatch_at ord_id default_fuel p f caller_addr (init_st bs)) as [r s'] eqn:E.
  cbn [fst snd].
  destruct (heap_results_fresh_distinct ord_id default_fuel p f caller_addr (init_st bs) r s'
              (init_caller bs) E) as [Hnd _].
  destruct (heap_caller_intact ord_id default_fuel p f caller_addr (init_st bs) r s'
              (init_caller bs) E) as [Hi [Hno [L [El Hw]]]].
  rewrite (nodupb_true _ Hnd).
  rewrite (existsb_eqb_false caller_addr (res_addrs r) (Hno caller_addr (init_caller bs))).
  rewrite (Hi caller_addr (init_caller bs)).
  change (hread (init_st bs) caller_addr) with bs. rewrite bindings_eqb_refl'.
  assert (Hlog : existsb (is_write_to caller_addr) (st_log s') = false).
  { destruct (existsb (is_write_to caller_addr) (st_log s')) eqn:Ex; [|reflexivity].
    apply existsb_exists in Ex. destruct Ex as [e [He Hx]].
    destruct e as [a d|x k|l]; cbn [is_write_to] in Hx; try discriminate.
    apply Nat.eqb_eq in Hx. subst x. exfalso.
    rewrite El in He. cbn [init_st st_log] in He. rewrite app_nil_r in He.
    exact (Hw caller_addr k (init_caller bs) He). }
  rewrite Hlog. reflexivity.
Qed.

Theorem heap_late_write_free_true p f bs : heap_late_write_free p f bs = true.
Proof.
  unfold heap_late_write_free, HMatch.
  destruct (hMatch_at ord_id default_fuel p f caller_addr (init_st bs)) as [r s'] eqn:E.
  cbn [snd].
  pose proof (hMatch_at_ok ord_id default_fuel p f caller_addr (init_st bs) r s'
                (init_caller bs) E) as [[_ [L [El [_ [_ Hn]]]]] _ _].
  rewrite El. cbn [init_st st_log]. rewrite app_nil_r. apply no_late_b_true. exact Hn.
Qed.

Theorem heap_erases_true p f bs : heap_erases p f bs = true.
Proof.
  unfold heap_erases, HMatch, Match.
  rewrite (heap_erasure_init ord_id default_fuel p f bs).
  destruct (match_ ord_id default_fuel p f bs) as [l| |]; cbn [res_bs_eqb];
    [apply bss_eqb_refl | reflexivity | reflexivity].
Qed.

(** * A worked example: one variable in an array pattern against three
    elements, with a binding given by the caller *)
Definition ex_pattern : json := JArr [JStr "?x"].
Definition ex_message : json := JArr [JNum 1; JNum 2; JObj [("a", JNum 3)]].
Definition ex_bindings : bindings := [("?y", JNum 7)].

Lemma heap_example :
  fst (HMatch ex_pattern ex_message ex_bindings) = Ok [3; 5; 7] /\
  read_res (HMatch ex_pattern ex_message ex_bindings) =
    Ok [[("?x", JObj [("a", JNum 3)]); ("?y", JNum 7)];
        [("?x", JNum 1); ("?y", JNum 7)];
        [("?x", JNum 2); ("?y", JNum 7)]] /\
  hread (snd (HMatch ex_pattern ex_message ex_bindings)) caller_addr = ex_bindings /\
  chron (snd (HMatch ex_pattern ex_message ex_bindings)) =
    [EvCopy 0 1;
     EvCopy 1 2; EvCopy 2 3; EvWrite 3 "?x"; EvReturn [3];
     EvCopy 1 4; EvCopy 4 5; EvWrite 5 "?x"; EvReturn [5];
     EvCopy 1 6; EvCopy 6 7; EvWrite 7 "?x"; EvReturn [7];
     EvReturn [3; 5; 7]] /\
  heap_alias_report ex_pattern ex_message ex_bindings = (true, true).
Proof. vm_compute. repeat split. Qed.
