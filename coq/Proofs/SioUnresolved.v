(** C15: a specification source that resolves to nothing.

    [ResolveSpecSource] (sio/crew.go) finds no specification for a source
    with neither "inline" nor "url" - and reports no error.  [SetMachine]
    then leaves the machine WITHOUT source and specification (it is inert:
    no message is presented to it), while the change it records - hence the
    report, hence the consumer's store - carries the source as given.  A
    crew booted from that store resolves the stored source again, to nothing
    again, and has the same inert machine.

    (The seeded defect C15-r8a kept the old specification of the live
    machine in this case: the live crew went on reacting, the crew booted
    from the store did not.) *)
From Coq Require Import List String Bool Arith Lia Permutation.
From Sheens Require Import Proofs.CplBasics.
From Sheens Require Import Model.SioCrew Spec.SioSpec Proofs.SioBasics Proofs.SioRouting Proofs.SioPersist
     Proofs.SioRestart Proofs.SioUnwedged.
Import ListNotations.
Open Scope string_scope.
Open Scope list_scope.

Section Unresolved.
Variable S : Type.
Variable react : S -> mid -> mstate -> json -> option mstate * list json.
Variable decode_src : json -> option S.
Variable resolves : S -> bool.
Variable src_eqb : S -> S -> bool.
Variable ord : forall A : Type, list (mid * A) -> list (mid * A).
Hypothesis ord_perm : forall A l, Permutation (ord A l) l.
Hypothesis src_eqb_sound : forall a b, src_eqb a b = true -> a = b.
Hypothesis react_named : forall s m st msg st', fst (react s m st msg) = Some st' -> ms_node st' <> "".

Local Notation crew := (crew S).
Local Notation present := (present S react decode_src resolves).
Local Notation get_changed := (get_changed S src_eqb ord).
Local Notation set_machine := (set_machine S resolves).
Local Notation run_history := (run_history S react decode_src resolves src_eqb ord).
Local Notation boot := (boot S resolves ord).
Local Notation inv := (inv S resolves).
Local Notation good := (good S).

(** an ordinary machine without source sees no message, and nothing changes *)
Lemma present_inert (c : crew) m mc msg :
  is_service m = false -> aget m (machines S c) = Some mc -> m_src S mc = None ->
  present c msg m = Done (c, false, None).
Proof.
  unfold is_service. intros Hs Em Es. apply orb_false_iff in Hs as [Ht Hc].
  unfold SioCrew.present. rewrite Hc, Ht, Em, Es. reflexivity.
Qed.

(** the live machine after [set_machine] with a source that resolves to nothing *)
Lemma set_unresolvable_machine (c : crew) m s st :
  resolves s = false ->
  exists mc, aget m (machines S (set_machine c m (Some s) st)) = Some mc /\ m_src S mc = None.
Proof.
  intros R. destruct (set_machine_lookup S resolves c m (Some s) st) as (EM & _).
  rewrite EM, eqb_refl'. eexists. split; [reflexivity|].
  unfold set_mach. destruct (aget m (machines S c)); simpl; rewrite R; reflexivity.
Qed.

(** the cached change carries the source as given, resolvable or not *)
Lemma set_machine_cached_src (c : crew) m s st :
  exists ch, aget m (cache S (set_machine c m (Some s) st)) = Some ch /\ c_src S ch = Some s.
Proof.
  destruct (set_machine_lookup S resolves c m (Some s) st) as (_ & EC & _).
  rewrite EC, eqb_refl'. simpl. rewrite orb_true_r. simpl.
  eexists. split; [reflexivity|]. reflexivity.
Qed.

Theorem unresolvable_source_inert : forall (c : crew) store m s st c2 out tm,
  good c -> inv c store -> is_service m = false -> resolves s = false ->
  get_changed (set_machine c m (Some s) st) = (c2, out, tm) ->
  let c1 := set_machine c m (Some s) st in
  let store2 := stdio_fold S store out in
  (* the live machine has no source, and no message reaches it *)
  (exists mc, aget m (machines S c1) = Some mc /\ m_src S mc = None)
  /\ (forall msg, present c1 msg m = Done (c1, false, None))
  (* the pending change, and after the report the consumer's store, carry the source as given *)
  /\ c_src S (cache_get S c1 m) = Some s
  /\ (exists e, aget m store2 = Some e /\ e_src S e = Some s)
  (* the crew booted from the store has the same machines, hence the same inert machine *)
  /\ machines S (boot store2) = machines S c1
  /\ (forall msg, present (boot store2) msg m = Done (boot store2, false, None)).
Proof.
  intros c store m s st c2 out tm G I Hs R HG c1 store2.
  destruct (set_unresolvable_machine c m s st R) as (mc & Em & Es). fold c1 in Em.
  destruct (set_machine_cached_src c m s st) as (ch & Ec & Esrc). fold c1 in Ec.
  assert (I1 : inv c1 store) by (apply set_machine_inv; exact I).
  assert (G1 : good c1) by (apply good_set; exact G).
  destruct (get_changed_inv S resolves src_eqb ord ord_perm src_eqb_sound _ _ _ _ _ I1 HG) as (I2 & C2 & M2 & _).
  assert (B : machines S (boot store2) = machines S c1).
  { rewrite <- M2. apply boot_machines_tracked; auto. eapply good_ext; [exact M2|exact G1]. }
  split; [exists mc; auto|].
  split; [intros msg; eapply present_inert; eauto|].
  split; [unfold cache_get; rewrite Ec; exact Esrc|].
  split.
  - pose proof (get_changed_fold S resolves src_eqb ord ord_perm src_eqb_sound _ _ _ _ _ m ch I1 HG Ec) as F.
    fold store2 in F. rewrite F, Em.
    unfold fold_entry, report4. destruct (c_deleted S ch); simpl; rewrite Esrc; simpl;
      eexists; split; reflexivity.
  - split; [exact B|].
    intros msg. eapply present_inert; eauto. rewrite B. exact Em.
Qed.

(** the same at any point of any history *)
Theorem unresolvable_source_inert_reachable : forall fuel h (c : crew) store m s st c2 out tm,
  run_history fuel (init_crew S, []) h = Done (c, store) ->
  is_service m = false -> resolves s = false ->
  get_changed (set_machine c m (Some s) st) = (c2, out, tm) ->
  let c1 := set_machine c m (Some s) st in
  let store2 := stdio_fold S store out in
  (exists mc, aget m (machines S c1) = Some mc /\ m_src S mc = None)
  /\ (forall msg, present c1 msg m = Done (c1, false, None))
  /\ c_src S (cache_get S c1 m) = Some s
  /\ (exists e, aget m store2 = Some e /\ e_src S e = Some s)
  /\ machines S (boot store2) = machines S c1
  /\ (forall msg, present (boot store2) msg m = Done (boot store2, false, None)).
Proof.
  intros fuel h c store m s st c2 out tm H.
  apply unresolvable_source_inert.
  - exact (good_run_history S react decode_src resolves src_eqb ord react_named _ _ _ _ H).
  - exact (run_history_inv S react decode_src resolves src_eqb ord ord_perm src_eqb_sound _ _ _ _ _ _
             (inv_init S resolves) H).
Qed.

End Unresolved.
