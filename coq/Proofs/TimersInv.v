(** The models of the two (repaired) timer implementations: an inductive
    invariant over all interleavings of requester and goroutine steps. *)
From Coq Require Import ZArith List Bool Arith Lia.
From Sheens Require Import Model.Timers Proofs.TimersBase.
Import ListNotations.
Local Open Scope Z_scope.

Definition wd (x : pc) : Prop := x = Waiting \/ x = Due.

Record CInv (p : impl) (s : cstate) : Prop := mkCInv {
  (* one goroutine record per accepted timer, in order of acceptance *)
  ci_gk : map gtm (cgors s) = cknown s;
  ci_gens : NoDup (map gg (cgors s));
  (* every map entry has a goroutine that is in its select or has taken
     timer.C, with its control channel open *)
  ci_mg : forall e, In e (cmap s) ->
          exists r, In r (cgors s) /\ gtm r = e /\ wd (gpc r) /\ gclosed r = false;
  ci_ids : NoDup (map tid (cmap s));
  ci_due : forall r, In r (cgors s) -> gpc r = Due \/ gpc r = Claimed -> tdue (gtm r) <= cclock s;
  (* no live timer is missing from the map (what D16 broke) *)
  ci_live : forall r, In r (cgors s) -> wd (gpc r) -> gclosed r = false -> In (gtm r) (cmap s);
  ci_nocl : forall r, In r (cgors s) -> gpc r <> Cleaning;
  ci_sio : p = Sio -> csaved s = cmap s /\
           forall r, In r (cgors s) -> gpc r <> Claimed /\ gpc r <> Emitting
}.

Lemma cinv_init : forall p, CInv p cinit.
Proof.
  intros p. constructor; simpl; try (constructor; fail); try (intros; contradiction); auto.
Qed.

(** * Goroutine list facts *)
Lemma find_gor_some : forall g l r, find_gor g l = Some r -> In r l /\ gg r = g.
Proof.
  intros g l r H. unfold find_gor in H. apply find_some in H. destruct H as [H1 H2].
  split; [exact H1 | apply Nat.eqb_eq; exact H2].
Qed.

Lemma gor_unique : forall l r1 r2,
  NoDup (map gg l) -> In r1 l -> In r2 l -> gg r1 = gg r2 -> r1 = r2.
Proof. intros l r1 r2. apply (nodup_key_inj gor gg l r1 r2). Qed.

Lemma in_upd_gor : forall g f l r',
  In r' (upd_gor g f l) <-> exists r, In r l /\ r' = (if Nat.eqb (gg r) g then f r else r).
Proof.
  intros g f l r'. unfold upd_gor. rewrite in_map_iff. split.
  - intros [r [H1 H2]]. exists r. split; [exact H2 | symmetry; exact H1].
  - intros [r [H1 H2]]. exists r. split; [symmetry; exact H2 | exact H1].
Qed.

Lemma map_gtm_upd : forall g f l, (forall r, gtm (f r) = gtm r) -> map gtm (upd_gor g f l) = map gtm l.
Proof.
  intros g f l Hf. unfold upd_gor. rewrite map_map. apply map_ext.
  intros r. destruct (Nat.eqb (gg r) g); [apply Hf | reflexivity].
Qed.

Lemma map_gg_upd : forall g f l, (forall r, gtm (f r) = gtm r) -> map gg (upd_gor g f l) = map gg l.
Proof.
  intros g f l Hf. unfold upd_gor. rewrite map_map. apply map_ext.
  intros r. unfold gg. destruct (Nat.eqb (tg (gtm r)) g); [rewrite Hf|]; reflexivity.
Qed.

Lemma gtm_set_pc : forall x r, gtm (set_pc x r) = gtm r.
Proof. reflexivity. Qed.
Lemma gtm_close : forall r, gtm (close_ctl r) = gtm r.
Proof. reflexivity. Qed.

(** an element of an updated list: either untouched, or the image of the
    one goroutine of generation g *)
Lemma upd_cases : forall l g f r0 r',
  NoDup (map gg l) -> In r0 l -> gg r0 = g ->
  In r' (upd_gor g f l) -> (In r' l /\ gg r' <> g) \/ r' = f r0.
Proof.
  intros l g f r0 r' Hnd H0 Hg H. apply in_upd_gor in H. destruct H as [r [Hr Heq]].
  destruct (Nat.eqb (gg r) g) eqn:E.
  - right. apply Nat.eqb_eq in E. subst r'. f_equal.
    apply (gor_unique l r r0 Hnd Hr H0). congruence.
  - left. apply Nat.eqb_neq in E. subst r'. split; assumption.
Qed.

Lemma upd_keeps : forall l g f r, In r l -> gg r <> g -> In r (upd_gor g f l).
Proof.
  intros l g f r H Hn. apply in_upd_gor. exists r. split; [exact H|].
  apply Nat.eqb_neq in Hn. rewrite Hn. reflexivity.
Qed.

Lemma upd_image : forall l g f r, In r l -> gg r = g -> In (f r) (upd_gor g f l).
Proof.
  intros l g f r H Hg. apply in_upd_gor. exists r. split; [exact H|].
  apply Nat.eqb_eq in Hg. rewrite Hg. reflexivity.
Qed.

(** * Consequences of the invariant *)
Section Facts.
  Variable p : impl.
  Variable s : cstate.
  Hypothesis I : CInv p s.

  (** the goroutine of a map entry is the goroutine of its generation *)
  Lemma entry_gor : forall e r, In e (cmap s) -> In r (cgors s) -> gg r = tg e ->
    gtm r = e /\ wd (gpc r) /\ gclosed r = false.
  Proof.
    intros e r He Hr Hg. destruct (ci_mg p s I e He) as [r2 [H1 [H2 [H3 H4]]]].
    assert (r2 = r) as <-.
    { apply (gor_unique (cgors s) r2 r (ci_gens p s I) H1 Hr). unfold gg at 1. rewrite H2. congruence. }
    auto.
  Qed.

  Lemma map_gen_inj : forall e1 e2, In e1 (cmap s) -> In e2 (cmap s) -> tg e1 = tg e2 -> e1 = e2.
  Proof.
    intros e1 e2 H1 H2 Hg.
    destruct (ci_mg p s I e1 H1) as [r1 [A1 [A2 _]]].
    destruct (ci_mg p s I e2 H2) as [r2 [B1 [B2 _]]].
    assert (r1 = r2).
    { apply (gor_unique (cgors s) r1 r2 (ci_gens p s I) A1 B1). unfold gg. rewrite A2, B2. exact Hg. }
    subst r2. congruence.
  Qed.

  (** "mine" says exactly: my entry is in the map *)
  Lemma mine_true : forall r, In r (cgors s) -> mine r (cmap s) = true -> In (gtm r) (cmap s).
  Proof.
    intros r Hr Hm. unfold mine in Hm.
    destruct (find_id (tid (gtm r)) (cmap s)) as [e|] eqn:Hf; [|discriminate].
    apply Nat.eqb_eq in Hm. apply find_id_some in Hf. destruct Hf as [He _].
    destruct (entry_gor e r He Hr (eq_sym Hm)) as [H1 _]. rewrite H1. exact He.
  Qed.

  Lemma mine_of_in : forall r, In (gtm r) (cmap s) -> mine r (cmap s) = true.
  Proof.
    intros r Hin. unfold mine.
    destruct (find_id (tid (gtm r)) (cmap s)) as [e|] eqn:Hf.
    - assert (gtm r = e) as <-.
      { apply (find_id_unique (tid (gtm r)) (cmap s) e (gtm r) (ci_ids p s I) Hf Hin). reflexivity. }
      apply Nat.eqb_refl.
    - exfalso. apply (find_id_none _ _ Hf (gtm r) Hin). reflexivity.
  Qed.

  (** deleting by my id is deleting my entry, when it is mine *)
  Lemma rm_id_is_rm_gen : forall e, In e (cmap s) -> rm_id (tid e) (cmap s) = rm_gen (tg e) (cmap s).
  Proof.
    intros e He. unfold rm_id, rm_gen. apply filter_ext_in. intros e' He'.
    unfold id_is, gen_is. f_equal.
    destruct (Nat.eqb (tid e') (tid e)) eqn:E1; destruct (Nat.eqb (tg e') (tg e)) eqn:E2; try reflexivity.
    - apply Nat.eqb_eq in E1. apply Nat.eqb_neq in E2. exfalso. apply E2.
      assert (e' = e) as ->; [|reflexivity].
      apply (nodup_key_inj tm tid (cmap s) e' e (ci_ids p s I) He' He E1).
    - apply Nat.eqb_neq in E1. apply Nat.eqb_eq in E2. exfalso. apply E1.
      rewrite (map_gen_inj e' e He' He E2). reflexivity.
  Qed.

  Lemma find_gen_entry : forall e, In e (cmap s) -> find_gen (tg e) (cmap s) = Some e.
  Proof.
    intros e He. destruct (find_gen (tg e) (cmap s)) as [e'|] eqn:Hf.
    - apply find_gen_some in Hf. destruct Hf as [H1 H2]. f_equal. apply map_gen_inj; assumption.
    - exfalso. apply (find_gen_none _ _ Hf e He). reflexivity.
  Qed.
End Facts.

(** * Preservation *)

(** a goroutine moves on; map and histories unchanged *)
Lemma cinv_set_pc : forall p s g r x,
  CInv p s -> find_gor g (cgors s) = Some r ->
  (In (gtm r) (cmap s) -> wd (gpc r) -> gclosed r = false -> wd x) ->
  (x = Due \/ x = Claimed -> tdue (gtm r) <= cclock s) ->
  (wd x -> gclosed r = false -> In (gtm r) (cmap s)) ->
  x <> Cleaning -> (p = Sio -> x <> Claimed /\ x <> Emitting) ->
  CInv p (set_gors s (upd_gor g (set_pc x) (cgors s))).
Proof.
  intros p s g r x I Hf Hmg Hdue Hlive Hncl Hsio.
  apply find_gor_some in Hf. destruct Hf as [Hr Hg].
  pose proof (ci_gens p s I) as Hnd.
  constructor; simpl.
  - rewrite map_gtm_upd by apply gtm_set_pc. exact (ci_gk p s I).
  - rewrite map_gg_upd by apply gtm_set_pc. exact Hnd.
  - intros e He. destruct (ci_mg p s I e He) as [r2 [H1 [H2 [H3 H4]]]].
    destruct (Nat.eq_dec (gg r2) g) as [E|E].
    + assert (r2 = r) as -> by (apply (gor_unique (cgors s) r2 r Hnd H1 Hr); congruence).
      exists (set_pc x r). split; [apply upd_image; assumption|]. simpl.
      split; [exact H2|]. split; [|exact H4]. apply Hmg; [rewrite H2; exact He | exact H3 | exact H4].
    + exists r2. split; [apply upd_keeps; assumption | auto].
  - exact (ci_ids p s I).
  - intros r' H' Hpc. destruct (upd_cases _ g (set_pc x) r r' Hnd Hr Hg H') as [[A _]|A].
    + exact (ci_due p s I r' A Hpc).
    + subst r'. simpl in *. apply Hdue. exact Hpc.
  - intros r' H' Hpc Hcl. destruct (upd_cases _ g (set_pc x) r r' Hnd Hr Hg H') as [[A _]|A].
    + exact (ci_live p s I r' A Hpc Hcl).
    + subst r'. simpl in *. apply Hlive; assumption.
  - intros r' H'. destruct (upd_cases _ g (set_pc x) r r' Hnd Hr Hg H') as [[A _]|A].
    + exact (ci_nocl p s I r' A).
    + subst r'. simpl. exact Hncl.
  - intros Hp. destruct (ci_sio p s I Hp) as [S1 S2]. split; [exact S1|].
    intros r' H'. destruct (upd_cases _ g (set_pc x) r r' Hnd Hr Hg H') as [[A _]|A].
    + exact (S2 r' A).
    + subst r'. simpl. exact (Hsio Hp).
Qed.

(** a new timer is accepted under a free id *)
Lemma cinv_insert_free : forall p s e,
  CInv p s -> ~ In (tg e) (map tg (cknown s)) -> find_id (tid e) (cmap s) = None ->
  CInv p (c_insert s e (cmap s) (cgors s) (ccancelled s)).
Proof.
  intros p s e I Hfresh Hfree.
  assert (Hfresh' : ~ In (tg e) (map gg (cgors s))).
  { intros H. apply Hfresh. rewrite <- (ci_gk p s I). rewrite map_map. exact H. }
  constructor; unfold c_insert; simpl.
  - rewrite map_app. simpl. rewrite (ci_gk p s I). reflexivity.
  - rewrite map_app. simpl. apply nodup_snoc; [exact (ci_gens p s I) | exact Hfresh'].
  - intros e' H. apply in_app_or in H. destruct H as [H|[H|[]]].
    + destruct (ci_mg p s I e' H) as [r [H1 H2]]. exists r. split; [apply in_or_app; left; exact H1 | exact H2].
    + subst e'. exists (mkGor e Waiting false). split; [apply in_or_app; right; left; reflexivity|].
      simpl. unfold wd. auto.
  - rewrite map_app. simpl. apply nodup_snoc; [exact (ci_ids p s I)|].
    intros H. apply in_map_iff in H. destruct H as [e' [H1 H2]].
    exact (find_id_none _ _ Hfree e' H2 H1).
  - intros r H Hpc. apply in_app_or in H. destruct H as [H|[H|[]]].
    + exact (ci_due p s I r H Hpc).
    + subst r. simpl in Hpc. destruct Hpc; discriminate.
  - intros r H Hpc Hcl. apply in_or_app. apply in_app_or in H. destruct H as [H|[H|[]]].
    + left. exact (ci_live p s I r H Hpc Hcl).
    + subst r. right. left. reflexivity.
  - intros r H. apply in_app_or in H. destruct H as [H|[H|[]]].
    + exact (ci_nocl p s I r H).
    + subst r. simpl. discriminate.
  - intros Hp. split; [reflexivity|]. intros r H. apply in_app_or in H. destruct H as [H|[H|[]]].
    + exact (proj2 (ci_sio p s I Hp) r H).
    + subst r. simpl. split; discriminate.
Qed.

(** the entry under an id is deleted and its control channel closed (Rem,
    Cancel, and the first half of sio's replacing add) *)
Lemma cinv_cancel : forall p s i old canc,
  CInv p s -> find_id i (cmap s) = Some old ->
  CInv p (mkC (rm_id i (cmap s)) (upd_gor (tg old) close_ctl (cgors s)) (cclock s) (cknown s)
              (cfired s) canc (rm_id i (cmap s))).
Proof.
  intros p s i old canc I Hold.
  pose proof (find_id_some _ _ _ Hold) as [Hoin Hoid].
  pose proof (ci_gens p s I) as Hnd.
  destruct (ci_mg p s I old Hoin) as [ro [Ro1 [Ro2 [Ro3 Ro4]]]].
  assert (Hgo : gg ro = tg old) by (unfold gg; rewrite Ro2; reflexivity).
  constructor; simpl.
  - rewrite map_gtm_upd by apply gtm_close. exact (ci_gk p s I).
  - rewrite map_gg_upd by apply gtm_close. exact Hnd.
  - intros e He. apply in_rm_id in He. destruct He as [He Hne].
    destruct (ci_mg p s I e He) as [r [H1 [H2 [H3 H4]]]].
    exists r. split; [|auto]. apply upd_keeps; [exact H1|].
    intros Hg. apply Hne. assert (e = old) as ->; [|exact Hoid].
    apply (map_gen_inj p s I e old He Hoin). unfold gg in Hg. rewrite H2 in Hg. exact Hg.
  - unfold rm_id. apply nodup_map_filter. exact (ci_ids p s I).
  - intros r' H' Hpc. destruct (upd_cases _ (tg old) close_ctl ro r' Hnd Ro1 Hgo H') as [[A _]|A].
    + exact (ci_due p s I r' A Hpc).
    + subst r'. simpl in *. exact (ci_due p s I ro Ro1 Hpc).
  - intros r' H' Hpc Hcl. destruct (upd_cases _ (tg old) close_ctl ro r' Hnd Ro1 Hgo H') as [[A B]|A].
    + apply in_rm_id. split; [exact (ci_live p s I r' A Hpc Hcl)|].
      intros Hi. apply B.
      assert (gtm r' = old) as E.
      { apply (find_id_unique i (cmap s) old (gtm r') (ci_ids p s I) Hold
                 (ci_live p s I r' A Hpc Hcl) Hi). }
      unfold gg. rewrite E. reflexivity.
    + subst r'. simpl in Hcl. discriminate.
  - intros r' H'. destruct (upd_cases _ (tg old) close_ctl ro r' Hnd Ro1 Hgo H') as [[A _]|A].
    + exact (ci_nocl p s I r' A).
    + subst r'. simpl. exact (ci_nocl p s I ro Ro1).
  - intros Hp. split; [reflexivity|]. intros r' H'.
    destruct (upd_cases _ (tg old) close_ctl ro r' Hnd Ro1 Hgo H') as [[A _]|A].
    + exact (proj2 (ci_sio p s I Hp) r' A).
    + subst r'. simpl. exact (proj2 (ci_sio p s I Hp) ro Ro1).
Qed.

(** a goroutine removes its own entry and moves on (mcrew: claim; sio: the
    crew loop's claim + hand-over) *)
Lemma cinv_claim : forall p s g r x fired,
  CInv p s -> find_gor g (cgors s) = Some r -> gpc r = Due -> mine r (cmap s) = true ->
  (x = Claimed \/ x = Gone) -> (p = Sio -> x = Gone) ->
  CInv p (mkC (rm_id (tid (gtm r)) (cmap s)) (upd_gor g (set_pc x) (cgors s)) (cclock s) (cknown s)
              fired (ccancelled s)
              (match p with Sio => rm_id (tid (gtm r)) (cmap s) | Mcrew => csaved s end)).
Proof.
  intros p s g r x fired I Hf Hpc Hmine Hx Hxs.
  apply find_gor_some in Hf. destruct Hf as [Hr Hg].
  pose proof (ci_gens p s I) as Hnd.
  pose proof (mine_true p s I r Hr Hmine) as Hin.
  constructor; simpl.
  - rewrite map_gtm_upd by apply gtm_set_pc. exact (ci_gk p s I).
  - rewrite map_gg_upd by apply gtm_set_pc. exact Hnd.
  - intros e He. apply in_rm_id in He. destruct He as [He Hne].
    destruct (ci_mg p s I e He) as [r2 [H1 [H2 [H3 H4]]]].
    exists r2. split; [|auto]. apply upd_keeps; [exact H1|].
    intros E. apply Hne.
    assert (r2 = r) as -> by (apply (gor_unique (cgors s) r2 r Hnd H1 Hr); congruence).
    rewrite H2. reflexivity.
  - unfold rm_id. apply nodup_map_filter. exact (ci_ids p s I).
  - intros r' H' Hp'. destruct (upd_cases _ g (set_pc x) r r' Hnd Hr Hg H') as [[A _]|A].
    + exact (ci_due p s I r' A Hp').
    + subst r'. simpl. apply (ci_due p s I r Hr). left. exact Hpc.
  - intros r' H' Hp' Hcl. destruct (upd_cases _ g (set_pc x) r r' Hnd Hr Hg H') as [[A B]|A].
    + apply in_rm_id. split; [exact (ci_live p s I r' A Hp' Hcl)|].
      intros Hi. apply B.
      assert (gtm r' = gtm r) as E.
      { apply (nodup_key_inj tm tid (cmap s) (gtm r') (gtm r) (ci_ids p s I)
                 (ci_live p s I r' A Hp' Hcl) Hin Hi). }
      unfold gg. rewrite E. exact Hg.
    + subst r'. simpl in Hp'. destruct Hx as [-> | ->]; destruct Hp'; discriminate.
  - intros r' H'. destruct (upd_cases _ g (set_pc x) r r' Hnd Hr Hg H') as [[A _]|A].
    + exact (ci_nocl p s I r' A).
    + subst r'. simpl. destruct Hx as [-> | ->]; discriminate.
  - intros Hp. subst p. split; [reflexivity|]. intros r' H'.
    destruct (upd_cases _ g (set_pc x) r r' Hnd Hr Hg H') as [[A _]|A].
    + exact (proj2 (ci_sio Sio s I eq_refl) r' A).
    + subst r'. simpl. rewrite (Hxs eq_refl). split; discriminate.
Qed.

Lemma tm_eqb_eq : forall a b, tm_eqb a b = true <-> a = b.
Proof.
  intros [g1 i1 d1] [g2 i2 d2]. unfold tm_eqb. simpl. split.
  - intros H. apply andb_true_iff in H. destruct H as [H H3]. apply andb_true_iff in H. destruct H as [H1 H2].
    apply Nat.eqb_eq in H1. apply Nat.eqb_eq in H2. apply Z.eqb_eq in H3. subst. reflexivity.
  - intros H. inversion H; subst. rewrite !Nat.eqb_refl, Z.eqb_refl. reflexivity.
Qed.

Lemma find_id_rm_id : forall i l, find_id i (rm_id i l) = None.
Proof.
  intros i l. destruct (find_id i (rm_id i l)) as [e|] eqn:H; [|reflexivity].
  apply find_id_some in H. destruct H as [H1 H2]. apply in_rm_id in H1. destruct H1 as [_ H1]. contradiction.
Qed.

(** sio: a pending timer is replaced *)
Lemma cinv_replace : forall p s e old,
  CInv p s -> ~ In (tg e) (map tg (cknown s)) -> find_id (tid e) (cmap s) = Some old ->
  CInv p (c_insert s e (rm_id (tid e) (cmap s)) (upd_gor (tg old) close_ctl (cgors s))
                   (tg old :: ccancelled s)).
Proof.
  intros p s e old I Hfresh Hold.
  pose proof (cinv_cancel p s (tid e) old (tg old :: ccancelled s) I Hold) as I1.
  apply (cinv_insert_free p _ e I1); simpl.
  - exact Hfresh.
  - apply find_id_rm_id.
Qed.

(** sio: restart *)
Lemma cinv_boot : forall s, CInv Sio s -> CInv Sio (c_boot s).
Proof.
  intros s I. destruct (ci_sio Sio s I eq_refl) as [Hsaved Hpcs].
  set (f := fun r => if existsb (tm_eqb (gtm r)) (csaved s)
                     then mkGor (gtm r) Waiting false else set_pc Gone r).
  assert (Hgtm : forall r, gtm (f r) = gtm r).
  { intros r. unfold f. destruct (existsb (tm_eqb (gtm r)) (csaved s)); reflexivity. }
  assert (Himg : forall r', In r' (map f (cgors s)) -> exists r, In r (cgors s) /\ r' = f r).
  { intros r' H. apply in_map_iff in H. destruct H as [r [H1 H2]]. exists r. auto. }
  constructor; unfold c_boot; fold f; simpl.
  - rewrite map_map. rewrite (map_ext _ gtm Hgtm). exact (ci_gk Sio s I).
  - rewrite map_map. rewrite (map_ext (fun x => gg (f x)) gg).
    + exact (ci_gens Sio s I).
    + intros r. unfold gg. rewrite Hgtm. reflexivity.
  - intros e He. rewrite Hsaved in He. destruct (ci_mg Sio s I e He) as [r [H1 [H2 _]]].
    exists (f r). split; [apply in_map; exact H1|].
    unfold f. assert (existsb (tm_eqb (gtm r)) (csaved s) = true) as ->.
    { apply existsb_exists. exists e. split; [rewrite Hsaved; exact He | apply tm_eqb_eq; exact H2]. }
    simpl. unfold wd. auto.
  - rewrite Hsaved. exact (ci_ids Sio s I).
  - intros r' H' Hpc. destruct (Himg r' H') as [r [_ ->]]. unfold f in Hpc.
    destruct (existsb (tm_eqb (gtm r)) (csaved s)); simpl in Hpc; destruct Hpc; discriminate.
  - intros r' H' Hpc _. destruct (Himg r' H') as [r [_ ->]]. unfold f in *.
    destruct (existsb (tm_eqb (gtm r)) (csaved s)) eqn:E; simpl in *.
    + apply existsb_exists in E. destruct E as [e [E1 E2]]. apply tm_eqb_eq in E2. rewrite E2. exact E1.
    + destruct Hpc; discriminate.
  - intros r' H'. destruct (Himg r' H') as [r [_ ->]]. unfold f.
    destruct (existsb (tm_eqb (gtm r)) (csaved s)); simpl; discriminate.
  - intros _. split; [reflexivity|]. intros r' H'. destruct (Himg r' H') as [r [_ ->]]. unfold f.
    destruct (existsb (tm_eqb (gtm r)) (csaved s)); simpl; split; discriminate.
Qed.

Lemma cinv_noghost : forall p s clock fired canc,
  CInv p s -> cclock s <= clock ->
  CInv p (mkC (cmap s) (cgors s) clock (cknown s) fired canc (csaved s)).
Proof.
  intros p s clock fired canc I Hc. destruct I. constructor; simpl; auto.
  intros r Hr Hpc. specialize (ci_due0 r Hr Hpc). lia.
Qed.

Theorem cinv_step : forall p s l s', CInv p s -> cstep p s l = Some s' -> CInv p s'.
Proof.
  intros p s l s' I H.
  destruct l as [v|g|g|g|g|g|g]; [destruct v as [t|g i d ok|i ok|g|ids|]| | | | | |]; simpl in H.
  - (* tick *) inversion H; subst. unfold c_tick. apply cinv_noghost; [exact I | lia].
  - (* add *)
    destruct (memn g (map tg (cknown s))) eqn:Hm; [discriminate|]. apply memn_false in Hm.
    destruct (find_id i (cmap s)) as [old|] eqn:Hf.
    + destruct p.
      * destruct ok; [discriminate|]. inversion H; subst. exact I.
      * destruct ok; [|discriminate]. inversion H; subst.
        apply (cinv_replace Sio s (mkTm g i (cclock s + d)) old I Hm Hf).
    + destruct ok; [|discriminate]. inversion H; subst.
      apply (cinv_insert_free p s (mkTm g i (cclock s + d)) I Hm Hf).
  - (* rem *)
    unfold c_rem in H. destruct (find_id i (cmap s)) as [old|] eqn:Hf.
    + destruct ok; [|discriminate]. inversion H; subst. apply cinv_cancel; assumption.
    + destruct ok; [discriminate|]. inversion H; subst. exact I.
  - (* report *)
    unfold with_gor in H. destruct (find_gor g (cgors s)) as [r|] eqn:Hf; [|discriminate].
    destruct p.
    + destruct (gpc r) eqn:Hpc; try discriminate. inversion H; subst.
      pose proof (find_gor_some _ _ _ Hf) as [Hr Hg].
      assert (I2 : CInv Mcrew (set_gors s (upd_gor g (set_pc Emitting) (cgors s)))).
      { apply (cinv_set_pc Mcrew s g r Emitting I Hf).
        - intros _ [E|E]; rewrite E in Hpc; discriminate.
        - intros [E|E]; discriminate.
        - intros [E|E]; discriminate.
        - discriminate.
        - intros E; discriminate. }
      apply (cinv_noghost Mcrew _ (cclock s) ((g, cclock s) :: cfired s) (ccancelled s) I2). simpl. lia.
    + destruct (gpc r) eqn:Hpc; try discriminate.
      destruct (mine r (cmap s)) eqn:Hmine; [|discriminate]. inversion H; subst.
      apply (cinv_claim Sio s g r Gone ((g, cclock s) :: cfired s) I Hf Hpc Hmine); auto.
  - (* snap *)
    unfold c_snap in H. destruct (ids_eqb ids (map tid (cmap s))); [|discriminate]. inversion H; subst. exact I.
  - (* boot *)
    destruct p; [discriminate|]. inversion H; subst. apply cinv_boot. exact I.
  - (* timer.C *)
    unfold c_timerc, with_gor in H. destruct (find_gor g (cgors s)) as [r|] eqn:Hf; [|discriminate].
    destruct (gpc r) eqn:Hpc; try discriminate.
    destruct (tdue (gtm r) <=? cclock s) eqn:Hd; [|discriminate]. inversion H; subst.
    pose proof (find_gor_some _ _ _ Hf) as [Hr Hg].
    apply (cinv_set_pc p s g r Due I Hf).
    + intros _ _ _. right. reflexivity.
    + intros _. apply Z.leb_le. exact Hd.
    + intros _ Hcl. apply (ci_live p s I r Hr); [left; exact Hpc | exact Hcl].
    + discriminate.
    + intros _. split; discriminate.
  - (* ctl *)
    unfold c_ctl, with_gor in H. destruct (find_gor g (cgors s)) as [r|] eqn:Hf; [|discriminate].
    destruct (gpc r) eqn:Hpc; try discriminate.
    destruct (gclosed r) eqn:Hcl; [|discriminate]. inversion H; subst.
    apply (cinv_set_pc p s g r Gone I Hf).
    + intros _ _ E. congruence.
    + intros [E|E]; discriminate.
    + intros [E|E]; discriminate.
    + discriminate.
    + intros _. split; discriminate.
  - (* claim *)
    destruct p; [|discriminate].
    unfold with_gor in H. destruct (find_gor g (cgors s)) as [r|] eqn:Hf; [|discriminate].
    destruct (gpc r) eqn:Hpc; try discriminate.
    destruct (mine r (cmap s)) eqn:Hmine; [|discriminate]. inversion H; subst.
    apply (cinv_claim Mcrew s g r Claimed (cfired s) I Hf Hpc Hmine); auto. intros E; discriminate.
  - (* skip *)
    unfold with_gor in H. destruct (find_gor g (cgors s)) as [r|] eqn:Hf; [|discriminate].
    destruct (gpc r) eqn:Hpc; try discriminate.
    destruct (mine r (cmap s)) eqn:Hmine; [discriminate|]. inversion H; subst.
    pose proof (find_gor_some _ _ _ Hf) as [Hr Hg].
    apply (cinv_set_pc p s g r Gone I Hf).
    + intros Hin _ _. rewrite (mine_of_in p s I r Hin) in Hmine. discriminate.
    + intros [E|E]; discriminate.
    + intros [E|E]; discriminate.
    + discriminate.
    + intros _. split; discriminate.
  - (* emit returns *)
    destruct p; [|discriminate].
    unfold with_gor in H. destruct (find_gor g (cgors s)) as [r|] eqn:Hf; [|discriminate].
    destruct (gpc r) eqn:Hpc; try discriminate. inversion H; subst.
    apply (cinv_set_pc Mcrew s g r Gone I Hf).
    + intros _ [E|E]; rewrite E in Hpc; discriminate.
    + intros [E|E]; discriminate.
    + intros [E|E]; discriminate.
    + discriminate.
    + intros E; discriminate.
  - discriminate.
Qed.

Theorem cinv_exec : forall p tr s s', CInv p s -> cexec p s tr = Some s' -> CInv p s'.
Proof.
  intros p tr. induction tr as [|l r IH]; simpl; intros s s' I H.
  - inversion H; subst. exact I.
  - destruct (cstep p s l) as [s1|] eqn:Hs; [|discriminate].
    apply (IH s1 s'); [apply (cinv_step p s l s1 I Hs) | exact H].
Qed.

Theorem cinv_reachable : forall p tr s, cexec p cinit tr = Some s -> CInv p s.
Proof. intros p tr s H. apply (cinv_exec p tr cinit s (cinv_init p) H). Qed.
