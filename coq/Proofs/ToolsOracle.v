(** The boolean oracle of Corr/ToolsCorr.v says what the theorems say:
    it accepts exactly the outputs that are the graph's notions up to order,
    and it accepts the model's own output on every graph. *)
From Sheens Require Import Corr.ToolsCorr Proofs.ToolsSets Proofs.ToolsSpec Proofs.ToolsAnalysis
  Proofs.ToolsRender.
From Coq Require Import Permutation Sorted.

Section PermEqb.
  Context {A : Type} (eqb : A -> A -> bool).
  Hypothesis eqb_eq : forall x y, eqb x y = true <-> x = y.

  Lemma remove_first_perm : forall x l l',
    remove_first eqb x l = Some l' -> Permutation l (x :: l').
  Proof.
    intros x l. induction l as [|y r IH]; cbn; intros l' H; [discriminate |].
    destruct (eqb x y) eqn:E.
    - apply eqb_eq in E. inversion H; subst. apply Permutation_refl.
    - destruct (remove_first eqb x r) as [r'|]; [| discriminate]. inversion H; subst.
      eapply perm_trans; [apply perm_skip, IH; reflexivity | apply perm_swap].
  Qed.

  Lemma remove_first_in : forall x l, In x l -> exists l', remove_first eqb x l = Some l'.
  Proof.
    intros x l. induction l as [|y r IH]; cbn; intros H; [tauto |].
    destruct (eqb x y) eqn:E; [eauto |].
    destruct H as [-> | H]; [rewrite (proj2 (eqb_eq x x) eq_refl) in E; discriminate |].
    destruct (IH H) as (r' & ->). eauto.
  Qed.

  Lemma perm_eqb_sound : forall a b, perm_eqb eqb a b = true -> Permutation a b.
  Proof.
    induction a as [|x r IH]; cbn; intros b H.
    - destruct b; [constructor | discriminate].
    - destruct (remove_first eqb x b) as [b'|] eqn:E; [| discriminate].
      apply remove_first_perm in E. eapply perm_trans; [apply perm_skip, IH, H |].
      apply Permutation_sym, E.
  Qed.

  Lemma perm_eqb_complete : forall a b, Permutation a b -> perm_eqb eqb a b = true.
  Proof.
    induction a as [|x r IH]; cbn; intros b H.
    - apply Permutation_nil in H. subst. reflexivity.
    - assert (Hin : In x b) by (eapply Permutation_in; [exact H | left; reflexivity]).
      destruct (remove_first_in x b Hin) as (b' & E). rewrite E. apply IH.
      apply remove_first_perm in E. eapply Permutation_cons_inv.
      eapply perm_trans; [exact H | exact E].
  Qed.
End PermEqb.

Lemma pair_eqb_eq : forall x y, pair_eqb x y = true <-> x = y.
Proof.
  intros [a b] [c d]. unfold pair_eqb. cbn. rewrite andb_true_iff, !String.eqb_eq.
  split; [intros [-> ->]; reflexivity | intros E; inversion E; auto].
Qed.

Lemma item_eqb_eq : forall x y, item_eqb x y = true <-> x = y.
Proof.
  intros [a | a b] [c | c d]; cbn; try (split; [discriminate | intros E; discriminate]).
  - rewrite String.eqb_eq. split; [intros ->; reflexivity | intros E; inversion E; auto].
  - rewrite andb_true_iff, !String.eqb_eq.
    split; [intros [-> ->]; reflexivity | intros E; inversion E; auto].
Qed.

Lemma strs_eqb_perm : forall a b, strs_eqb a b = true <-> Permutation a b.
Proof.
  intros a b. unfold strs_eqb. split.
  - apply perm_eqb_sound, String.eqb_eq.
  - apply perm_eqb_complete, String.eqb_eq.
Qed.

(** ** what the oracle accepts *)
Theorem render_ok_sound : forall g l,
  render_ok g (GItems l) = true ->
  Permutation (item_nodes l) (g_render_nodes g) /\ Permutation (item_edges l) (g_edges g).
Proof.
  intros g l H. cbn in H. apply andb_true_iff in H. destruct H as [H1 H2]. split.
  - apply strs_eqb_perm, H1.
  - eapply perm_eqb_sound; [apply pair_eqb_eq | exact H2].
Qed.

Theorem render_ok_complete : forall g l,
  Permutation (item_nodes l) (g_render_nodes g) -> Permutation (item_edges l) (g_edges g) ->
  render_ok g (GItems l) = true.
Proof.
  intros g l H1 H2. cbn. apply andb_true_iff. split.
  - apply strs_eqb_perm, H1.
  - apply perm_eqb_complete; [apply pair_eqb_eq | exact H2].
Qed.

Lemma reports_perm : forall a s, reports a s -> NoDup s -> Permutation a s.
Proof. intros a s (Hs & Hn & _) Hd. apply NoDup_Permutation; assumption. Qed.

Lemma g_interpreters_NoDup : forall g, NoDup (g_interpreters g).
Proof.
  intros g. unfold g_interpreters. pose proof (sdedup_NoDup
    (flat_map (fun p => opt_list (n_source (node_of (snd p)))) g
     ++ flat_map (fun xb => opt_list (b_gsource (snd xb))) (all_branches g))) as H.
  fold (g_interp_used g) in H. destruct (g_interp_used g); [| exact H].
  constructor; [intros [] | constructor].
Qed.

Theorem an_ok_of_faithful : forall g a, NoDup (names g) -> analysis_faithful g a -> an_ok g (GAn a) = true.
Proof.
  intros g a Hg (H1 & H2 & H3 & H4 & H5 & H6 & H7 & H8 & H9 & H10). cbn.
  rewrite H1, H2, H3, H4, !Nat.eqb_refl. cbn.
  rewrite (proj2 (strs_eqb_perm _ _) H5).
  rewrite (proj2 (strs_eqb_perm _ _) (reports_perm _ _ H6 (g_orphans_NoDup g Hg))).
  rewrite (proj2 (strs_eqb_perm _ _) (reports_perm _ _ H7 (sdedup_NoDup _))).
  rewrite (proj2 (strs_eqb_perm _ _) (reports_perm _ _ H8 (sdedup_NoDup _))).
  rewrite (proj2 (strs_eqb_perm _ _) (reports_perm _ _ H9 (sdedup_NoDup _))).
  rewrite (proj2 (strs_eqb_perm _ _) (reports_perm _ _ H10 (g_interpreters_NoDup g))).
  reflexivity.
Qed.

(** ** the model passes the oracle on every graph *)
Definition to_go (m : outcome (option (list item))) : go_render :=
  match m with
  | Done (Some l) => GItems l
  | Done None => GGarbled
  | Panic => GPanic
  end.
Definition model_case (g : gspec) : tcase :=
  mk_tcase g (GAn (analyze g)) (to_go (model_dot g))
           (match mermaid g with Done m => GMer m | Panic => GMPanic end).

Theorem model_passes_oracle : forall g, NoDup (names g) -> c20_ok (model_case g) = true.
Proof.
  intros g Hg. unfold c20_ok, model_case. cbn [tc_spec tc_an tc_dot tc_mer].
  rewrite (an_ok_of_faithful g _ Hg (analyze_faithful g Hg)). cbn [andb].
  destruct (dot_total g) as (l & Hl). destruct (mermaid_total g) as (m & Hm).
  unfold model_dot. rewrite Hl, Hm. cbn [to_go mer_go_items].
  rewrite (renderers_agree g l m Hl Hm).
  rewrite (render_ok_complete g (dot_items l) (dot_nodes g l Hg Hl) (dot_edges g l Hg Hl)).
  reflexivity.
Qed.

Theorem model_agrees_with_itself : forall g, NoDup (names g) -> c20_agrees (model_case g) = true.
Proof.
  intros g Hg. unfold c20_agrees, model_case, model_an_agrees. cbn [tc_spec tc_an tc_dot tc_mer].
  assert (Ha : an_agrees (analyze g) (analyze g) = true).
  { unfold an_agrees. rewrite !Nat.eqb_refl. cbn.
    rewrite !(proj2 (strs_eqb_perm _ _) (Permutation_refl _)). reflexivity. }
  rewrite Ha. cbn [andb].
  destruct (dot_total g) as (l & Hl). destruct (mermaid_total g) as (m & Hm).
  unfold model_dot, model_mermaid. rewrite Hl, Hm. cbn [to_go mer_go_items].
  rewrite (renderers_agree g l m Hl Hm). cbn.
  unfold items_eqb.
  rewrite (perm_eqb_complete item_eqb item_eqb_eq _ _ (Permutation_refl (dot_items l))).
  reflexivity.
Qed.
