(** Representation facts for C09. *)
From Sheens Require Import Model.Repr.

Lemma canon_embed : forall j, canon (embed j) = j.
Proof.
  fix IH 1. intros [| b | z | s | l | kvs]; cbn; try reflexivity.
  - f_equal. induction l as [|x r IHr]; [reflexivity|]. cbn. rewrite (IH x), IHr. reflexivity.
  - f_equal. induction kvs as [|[k x] r IHr]; [reflexivity|]. cbn. rewrite (IH x), IHr. reflexivity.
Qed.

Lemma is_canon_embed : forall j, is_canon (embed j) = true.
Proof.
  fix IH 1. intros [| b | z | s | l | kvs]; cbn; try reflexivity.
  - induction l as [|x r IHr]; [reflexivity|]. cbn. rewrite (IH x). exact IHr.
  - induction kvs as [|[k x] r IHr]; [reflexivity|]. cbn. rewrite (IH x). exact IHr.
Qed.

Lemma embed_canon : forall g, is_canon g = true -> embed (canon g) = g.
Proof.
  fix IH 1. intros [| b | r z | s | l | t kvs]; cbn; try reflexivity.
  - destruct r; [reflexivity | discriminate].
  - intros H. f_equal.
    induction l as [|x r IHr]; [reflexivity|]. cbn in *.
    apply andb_true_iff in H. destruct H as [Hx Hr]. rewrite (IH x Hx), (IHr Hr). reflexivity.
  - destruct t; [|discriminate]. intros H. f_equal.
    induction kvs as [|[k x] r IHr]; [reflexivity|]. cbn in *.
    apply andb_true_iff in H. destruct H as [Hx Hr]. rewrite (IH x Hx), (IHr Hr). reflexivity.
Qed.

(** persisting a canonical value and reading it back gives the very same Go value *)
Theorem roundtrip_canonical : forall g, is_canon g = true -> roundtrip g = g.
Proof. exact embed_canon. Qed.

(** whatever is read back is canonical, stands for the same datum, and
    reading it back again changes nothing *)
Theorem roundtrip_is_canon : forall g, is_canon (roundtrip g) = true.
Proof. intros g. apply is_canon_embed. Qed.

Theorem roundtrip_same_datum : forall g, canon (roundtrip g) = canon g.
Proof. intros g. apply canon_embed. Qed.

Theorem roundtrip_idempotent : forall g, roundtrip (roundtrip g) = roundtrip g.
Proof. intros g. apply roundtrip_canonical. apply roundtrip_is_canon. Qed.

Lemma canon_export_goja : forall j, canon (export_goja j) = j.
Proof.
  fix IH 1. intros [| b | z | s | l | kvs]; cbn; try reflexivity.
  - f_equal. induction l as [|x r IHr]; [reflexivity|]. cbn. rewrite (IH x), IHr. reflexivity.
  - f_equal. induction kvs as [|[k x] r IHr]; [reflexivity|]. cbn. rewrite (IH x), IHr. reflexivity.
Qed.

(** the bindings an ECMAScript action returns are stored canonically, and
    they are the datum the script returned: for every JSON-representable
    result (integers, fractions, nested arrays and objects, nulls) *)
Theorem js_result_canonical : forall j, is_canon (js_result j) = true /\ canon (js_result j) = j.
Proof.
  intros j. unfold js_result, canonicalize. split; [apply roundtrip_is_canon|].
  rewrite roundtrip_same_datum. apply canon_export_goja.
Qed.

Theorem js_result_survives_persisting : forall j, roundtrip (js_result j) = js_result j.
Proof. intros j. apply roundtrip_canonical. apply js_result_canonical. Qed.

Theorem last_bindings_canonical : forall b,
  is_canon (last_bindings b) = true /\ roundtrip (last_bindings b) = last_bindings b.
Proof.
  intros b. split; [apply is_canon_embed|]. apply roundtrip_canonical. apply is_canon_embed.
Qed.

(** before the repairs: persisting was observable (the witnesses of D7 and D8) *)
Theorem js_result_before_D7_refuted :
  exists j, roundtrip (js_result_before_D7 j) <> js_result_before_D7 j.
Proof. exists (JObj [("x", JArr [JNum 4; JNum 8])]). vm_compute. discriminate. Qed.

Theorem last_bindings_before_D8_refuted :
  exists b, roundtrip (last_bindings_before_D8 b) <> last_bindings_before_D8 b.
Proof. exists [("k", JNum 4)]. vm_compute. discriminate. Qed.
