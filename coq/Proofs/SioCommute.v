(** The order in which the machines of a crew see one message is immaterial
    for that round (the part of C15's commutation clause that is a theorem
    of the sio crew: every machine owns its state): under any two map
    iteration orders a round that does not involve the captain presents the
    message to the same machines, leaves the same machines, cached changes
    and captain behind, and reports the same batches up to their order.

    What is *not* a theorem is independence of the order in which the
    batches are queued ([restart_two_schedules_refuted] in SioHistory.v);
    that is the commutation hypothesis of the property. *)
From Coq Require Import List String Bool Arith Lia Permutation.
From Sheens Require Import Model.SioCrew Spec.SioSpec Proofs.SioBasics Proofs.SioRouting.
Import ListNotations.
Open Scope string_scope.
Open Scope list_scope.

Section Commute.
Variable S : Type.
Variable react : S -> mid -> mstate -> json -> option mstate * list json.
Variable decode_src : json -> option S.
Variable resolves : S -> bool.

Local Notation crew := (crew S).
Local Notation present := (present S react decode_src resolves).
Local Notation run_list := (run_list S react decode_src resolves).
Local Notation wf_crew := (wf_crew S).
Local Notation can_see := (can_see S).

(** the same crew as far as lookups can tell *)
Definition crew_pw (c c' : crew) : Prop :=
  (forall k, aget k (machines S c) = aget k (machines S c'))
  /\ (forall k, aget k (cache S c) = aget k (cache S c'))
  /\ wedged S c = wedged S c' /\ previous S c = previous S c' /\ tm_dirty S c = tm_dirty S c'.

(** what a walk leaves at the machine's own key *)
Definition new_mach (c0 : crew) (msg : json) (k : mid) : option (mach S) :=
  match aget k (machines S c0) with
  | Some mc =>
      match m_src S mc with
      | Some s => match fst (react s k (m_state S mc) msg) with
                  | Some st1 => Some (mk_mach (m_src S mc) st1)
                  | None => Some mc
                  end
      | None => Some mc
      end
  | None => None
  end.
Definition new_chg (c0 : crew) (msg : json) (k : mid) : option (chg S) :=
  match aget k (machines S c0) with
  | Some mc =>
      match m_src S mc with
      | Some s => match fst (react s k (m_state S mc) msg) with
                  | Some st1 => let ch := cache_get S c0 k in
                                Some (mk_chg (c_deleted S ch) (Some st1) (c_src S ch))
                  | None => aget k (cache S c0)
                  end
      | None => aget k (cache S c0)
      end
  | None => aget k (cache S c0)
  end.

(** one recipient other than the captain: total, and local to its own key *)
Lemma present_local c0 c msg m :
  wf_crew c0 -> m <> captain_id ->
  aget m (machines S c) = aget m (machines S c0) -> aget m (cache S c) = aget m (cache S c0) ->
  exists c1 got b,
    present c msg m = Done (c1, got, b)
    /\ (forall k, aget k (machines S c1) = if String.eqb k m then new_mach c0 msg m else aget k (machines S c))
    /\ (forall k, aget k (cache S c1) = if String.eqb k m then new_chg c0 msg m else aget k (cache S c))
    /\ wedged S c1 = wedged S c /\ previous S c1 = previous S c
    /\ tm_dirty S c1 = (tm_dirty S c || (String.eqb m timers_id && tm_shape msg)).
Proof.
  intros W N Em Ec. unfold SioCrew.present.
  destruct (String.eqb m captain_id) eqn:E1; [apply String.eqb_eq in E1; contradiction|].
  destruct (String.eqb m timers_id) eqn:E2.
  - apply String.eqb_eq in E2. subst m.
    assert (Nm : aget timers_id (machines S c0) = None) by (apply W; reflexivity).
    assert (NM : new_mach c0 msg timers_id = None) by (unfold new_mach; rewrite Nm; reflexivity).
    assert (NCh : new_chg c0 msg timers_id = aget timers_id (cache S c))
      by (unfold new_chg; rewrite Nm; auto).
    assert (Ecm : aget timers_id (machines S c) = None) by congruence.
    eexists _, _, _. split; [reflexivity|]. rewrite NM, NCh.
    destruct (tm_shape msg); simpl; repeat split; auto;
      try (intros k; destruct (String.eqb k timers_id) eqn:E; auto; apply String.eqb_eq in E; subst; auto);
      try (rewrite orb_true_r; reflexivity); try (rewrite orb_false_r; reflexivity).
  - unfold new_mach, new_chg, cache_get. rewrite <- Em, <- Ec.
    destruct (aget m (machines S c)) as [mc|] eqn:Ea.
    + destruct (m_src S mc) as [s|] eqn:Es.
      * destruct (react s m (m_state S mc) msg) as [st ems] eqn:Er. simpl.
        destruct st as [st1|].
        -- eexists _, _, _. split; [reflexivity|]. simpl.
           repeat split; auto; try (rewrite orb_false_r; reflexivity).
           ++ intros k. rewrite aget_aset. rewrite Es. reflexivity.
           ++ intros k. rewrite aget_aset. unfold cache_get. reflexivity.
        -- eexists _, _, _. split; [reflexivity|].
           repeat split; auto; try (rewrite orb_false_r; reflexivity);
             intros k; destruct (String.eqb k m) eqn:E; auto; apply String.eqb_eq in E; subst; auto.
      * eexists _, _, _. split; [reflexivity|].
        repeat split; auto; try (rewrite orb_false_r; reflexivity);
          intros k; destruct (String.eqb k m) eqn:E; auto; apply String.eqb_eq in E; subst; auto.
    + eexists _, _, _. split; [reflexivity|].
      repeat split; auto; try (rewrite orb_false_r; reflexivity);
        intros k; destruct (String.eqb k m) eqn:E; auto; apply String.eqb_eq in E; subst; auto.
Qed.

(** a round without the captain, in closed form: total, and the crew it
    leaves depends on the recipients only through membership *)
Lemma run_list_final c0 msg mids : forall c,
  wf_crew c0 -> ~ In captain_id mids -> NoDup mids ->
  (forall m, In m mids -> aget m (machines S c) = aget m (machines S c0)
                          /\ aget m (cache S c) = aget m (cache S c0)) ->
  exists c1 rs bs,
    run_list c msg mids = Done (c1, rs, bs)
    /\ (forall k, aget k (machines S c1) = if smem k mids then new_mach c0 msg k else aget k (machines S c))
    /\ (forall k, aget k (cache S c1) = if smem k mids then new_chg c0 msg k else aget k (cache S c))
    /\ wedged S c1 = wedged S c /\ previous S c1 = previous S c
    /\ tm_dirty S c1 = (tm_dirty S c || (smem timers_id mids && tm_shape msg)).
Proof.
  induction mids as [|m rest IH]; intros c W NC ND A.
  - exists c, [], []. simpl. repeat split; auto. rewrite orb_false_r. reflexivity.
  - inversion ND as [|? ? NI ND']; subst.
    assert (Nm : m <> captain_id) by (intros ->; apply NC; left; reflexivity).
    destruct (A m (or_introl eq_refl)) as [Am Ac].
    destruct (present_local c0 c msg m W Nm Am Ac) as (c1 & got & b & Hp & M1 & C1 & W1 & P1 & T1).
    destruct (IH c1 W) as (c2 & rs & bs & Hr & M2 & C2 & W2 & P2 & T2); auto.
    { intros H. apply NC. right. exact H. }
    { intros k Hk. rewrite M1, C1.
      destruct (String.eqb k m) eqn:E; [apply String.eqb_eq in E; subst; contradiction|].
      apply A. right. exact Hk. }
    eexists _, _, _. split.
    { simpl. rewrite Hp. simpl. rewrite Hr. simpl. reflexivity. }
    repeat split.
    + intros k. rewrite M2, M1. simpl. destruct (String.eqb k m) eqn:E; simpl.
      * apply String.eqb_eq in E. subst. apply smem_false in NI. rewrite NI. reflexivity.
      * reflexivity.
    + intros k. rewrite C2, C1. simpl. destruct (String.eqb k m) eqn:E; simpl.
      * apply String.eqb_eq in E. subst. apply smem_false in NI. rewrite NI. reflexivity.
      * reflexivity.
    + congruence.
    + congruence.
    + rewrite T2, T1. cbn [smem]. rewrite (String.eqb_sym timers_id m).
      destruct (String.eqb m timers_id), (smem timers_id rest), (tm_shape msg), (tm_dirty S c); reflexivity.
Qed.

Lemma smem_perm k (l l' : list mid) : Permutation l l' -> smem k l = smem k l'.
Proof.
  intros P. apply eq_true_iff_eq. rewrite !smem_in. split; apply Permutation_in; auto.
  apply Permutation_sym. exact P.
Qed.

Lemma filter_perm {A} (f : A -> bool) l l' : Permutation l l' -> Permutation (filter f l) (filter f l').
Proof.
  induction 1; simpl; auto.
  - destruct (f x); auto.
  - destruct (f x), (f y); auto. apply perm_swap.
  - eapply Permutation_trans; eauto.
Qed.

(** the recipients in any other order *)
Theorem run_list_order_irrelevant c msg mids mids' c1 rs bs :
  wf_crew c -> ~ In captain_id mids -> NoDup mids -> Permutation mids mids' ->
  run_list c msg mids = Done (c1, rs, bs) ->
  exists c1' rs' bs',
    run_list c msg mids' = Done (c1', rs', bs')
    /\ crew_pw c1 c1' /\ Permutation rs rs' /\ Permutation bs bs'.
Proof.
  intros W NC ND P H.
  assert (NC' : ~ In captain_id mids').
  { intros H'. apply NC. eapply Permutation_in; [apply Permutation_sym; exact P|exact H']. }
  assert (ND' : NoDup mids') by (eapply Permutation_NoDup; eauto).
  destruct (run_list_final c msg mids c W NC ND (fun _ _ => conj eq_refl eq_refl))
    as (d1 & r1 & b1 & H1 & M1 & C1 & W1 & P1 & T1).
  rewrite H in H1. injection H1 as <- <- <-.
  destruct (run_list_final c msg mids' c W NC' ND' (fun _ _ => conj eq_refl eq_refl))
    as (c1' & rs' & bs' & H2 & M2 & C2 & W2 & P2 & T2).
  exists c1', rs', bs'. split; [exact H2|].
  destruct (run_list_static S react decode_src resolves c c msg mids _ _ _ W NC ND (fun _ _ => eq_refl) (fun _ => eq_refl) H)
    as (R1 & _ & B1).
  destruct (run_list_static S react decode_src resolves c c msg mids' _ _ _ W NC' ND' (fun _ _ => eq_refl) (fun _ => eq_refl) H2)
    as (R2 & _ & B2).
  split; [|split].
  - repeat split.
    + intros k. rewrite M1, M2, (smem_perm k _ _ P). reflexivity.
    + intros k. rewrite C1, C2, (smem_perm k _ _ P). reflexivity.
    + congruence.
    + congruence.
    + rewrite T1, T2, (smem_perm timers_id _ _ P). reflexivity.
  - rewrite R1, R2. apply filter_perm. exact P.
  - rewrite B1, B2. apply Permutation_map. apply filter_perm. rewrite R1, R2. apply filter_perm. exact P.
Qed.

(** [RunMachines] under two map iteration orders *)
Theorem round_order_irrelevant
        (ord1 ord2 : forall A : Type, list (mid * A) -> list (mid * A))
        (perm1 : forall A l, Permutation (ord1 A l) l) (perm2 : forall A l, Permutation (ord2 A l) l)
        c msg c1 rd1 :
  wf_crew c -> mixes_captain msg = false ->
  run_machines S react decode_src resolves ord1 c msg = Done (c1, rd1) ->
  exists c2 rd2,
    run_machines S react decode_src resolves ord2 c msg = Done (c2, rd2)
    /\ crew_pw c1 c2
    /\ Permutation (rd_recips S rd1) (rd_recips S rd2)
    /\ Permutation (rd_batches S rd1) (rd_batches S rd2).
Proof.
  intros W MX H. unfold SioCrew.run_machines in *.
  destruct (run_list c msg (dedup (to_machines S ord1 c msg))) as [[[d1 rs1] bs1]| |] eqn:HR;
    simpl in H; try discriminate.
  injection H as <- <-. simpl.
  assert (PT : Permutation (dedup (to_machines S ord1 c msg)) (dedup (to_machines S ord2 c msg))).
  { apply NoDup_Permutation; try apply dedup_nodup. intros x. rewrite !dedup_in.
    rewrite !to_machines_target. destruct (routing_target msg); try tauto;
      rewrite (all_machines_in S ord1 perm1), (all_machines_in S ord2 perm2); tauto. }
  destruct (in_dec string_dec captain_id (dedup (to_machines S ord1 c msg))) as [IC|NC].
  - (* the captain alone: one recipient, one order *)
    assert (E1 : dedup (to_machines S ord1 c msg) = [captain_id]).
    { rewrite dedup_in in IC. rewrite to_machines_target in *. unfold mixes_captain in MX.
      destruct (routing_target msg) as [| |s|l] eqn:ET.
      - apply (all_machines_in S ord1 perm1) in IC. exfalso. apply IC. apply W. reflexivity.
      - apply (all_machines_in S ord1 perm1) in IC. exfalso. apply IC. apply W. reflexivity.
      - destruct IC as [->|[]]. reflexivity.
      - assert (SM : smem captain_id l = true) by (apply smem_in; exact IC).
        rewrite SM in MX. simpl in MX.
        apply dedup_all_same; [intros ->; destruct IC|].
        apply mixes_false_all_captain; auto. }
    assert (E2 : dedup (to_machines S ord2 c msg) = [captain_id]).
    { rewrite E1 in PT. apply Permutation_length_1_inv in PT. exact PT. }
    rewrite E1 in HR. rewrite E2, HR. simpl.
    eexists _, _. split; [reflexivity|]. simpl.
    split; [repeat split; auto|]. split; [apply Permutation_refl|].
    eapply Permutation_trans; [apply perm1|]. apply Permutation_sym. apply perm2.
  - destruct (run_list_order_irrelevant c msg _ _ _ _ _ W NC (dedup_nodup _) PT HR)
      as (c2 & rs2 & bs2 & H2 & PW & PR & PB).
    rewrite H2. simpl. eexists _, _. split; [reflexivity|]. simpl.
    split; [exact PW|]. split; [exact PR|].
    eapply Permutation_trans; [apply perm1|].
    eapply Permutation_trans; [exact PB|]. apply Permutation_sym. apply perm2.
Qed.

End Commute.
