(** The renderers and the analysis as they were before the repairs D20, D21
    and D33 ([dot_old], [analyze_old] in Model/Tools.v) violate C20; the
    witnesses below are the ones replayed on the Go code (they are the first
    cases of the harness corpus). *)
From Sheens Require Import Spec.Graph Proofs.ToolsRender.
From Coq Require Import Permutation.

Definition br (t : string) : branch := mk_branch t false None None.

(** D20: one node with a native action *)
Definition g_native : gspec := [("start", Some (mk_node true None None))].

Lemma D20_refuted_prefix : dot_old g_native = Panic.
Proof. vm_compute. reflexivity. Qed.

Lemma D20_repaired : dot g_native = Done [DNode "start" false].
Proof. vm_compute. reflexivity. Qed.

(** D21: branches to "gone" (not a node) and then to "b": no edge at all *)
Definition g_gone : gspec :=
  [("start", Some (mk_node false None (Some [br "gone"; br "b"])));
   ("b", Some (mk_node false None None))].

Lemma D21_refuted_prefix :
  exists l, dot_old g_gone = Done l /\ item_edges (dot_items l) = [] /\
            g_edges g_gone = [("start", "gone"); ("start", "b")].
Proof. eexists. vm_compute. repeat split. Qed.

Lemma D21_repaired :
  exists l, dot g_gone = Done l /\
            item_edges (dot_items l) = [("start", "gone"); ("start", "b")] /\
            dot_placeholders l = ["gone"].
Proof. eexists. vm_compute. repeat split. Qed.

(** D33: a node written as null *)
Definition g_null : gspec := [("start", Some (mk_node false None (Some [br "idle"]))); ("idle", None)].

Lemma D33_refuted_prefix :
  analyze_old g_null = Panic /\
  exists l, dot_old g_null = Done l /\ item_nodes (dot_items l) = ["start"].
Proof. split; [vm_compute; reflexivity | eexists; vm_compute; split; reflexivity]. Qed.

(** the statements of C20 for the old renderer, and their refutation *)
Definition dot_old_total : Prop := forall g, exists l, dot_old g = Done l.
Definition dot_old_edges : Prop :=
  forall g l, NoDup (names g) -> dot_old g = Done l ->
              Permutation (item_edges (dot_items l)) (g_edges g).

Theorem dot_old_total_refuted : ~ dot_old_total.
Proof.
  intros H. destruct (H g_native) as (l & Hl). rewrite D20_refuted_prefix in Hl. discriminate.
Qed.

Theorem dot_old_edges_refuted : ~ dot_old_edges.
Proof.
  intros H. destruct D21_refuted_prefix as (l & Hl & He & Hg).
  assert (Hn : NoDup (names g_gone)).
  { cbn. constructor; [intros [E | []]; discriminate |]. constructor; [intros [] | constructor]. }
  specialize (H g_gone l Hn Hl). rewrite He, Hg in H.
  apply Permutation_nil in H. discriminate.
Qed.

(** a graph with every feature the property names: native and source
    actions, a guard, a missing target, a branch target variable, an empty
    target, a null node, a terminal node, an unreachable node, odd names *)
Definition g_demo : gspec :=
  [("a b", Some (mk_node true None
                   (Some [mk_branch "gone" true (Some "goja") (Some (JObj [("n", JStr "?<n")]));
                          br "test-1"; br "@from"; br ""])));
   ("start", Some (mk_node true (Some "ecmascript") (Some [br "a b"; br "a b"])));
   ("test-1", None);
   ("node", Some (mk_node false (Some "ecmascript") (Some [])))].

Lemma g_demo_NoDup : NoDup (names g_demo).
Proof.
  cbn. repeat constructor; cbn; intuition discriminate.
Qed.
