(** The matcher terminates on EVERY input (C07): with the literal treatment
    of bound variable names (the D6 repair, [bound_match]) no pattern,
    message or bindings - variables inside messages and inside bound values
    included - exhausts a fuel that is linear in the depths involved.

    Why: following a bound variable jumps to its value without descending
    into the message, but the value is then not a variable name, so the next
    jump is at least one level further down in the message; the recursion
    depth is at most depth(pattern) + depth(message) * (M + 1) + (M + 1),
    where [M] bounds the depth of the message and of every bound value.
    Before the repair a variable bound to its own name jumped for ever (the
    witnesses are in the match corpus of the harness). *)
From Coq Require Import Lia Permutation.
From Sheens Require Import Model.Match Proofs.SndBasics Proofs.SndSpecFacts Proofs.SndArrayFacts
     Proofs.SndMatchSound.

Section Term.
Variable ord : order_oracle.
Hypothesis ord_perm : perm_oracle ord.
Variable M : nat.
Hypothesis M_pos : 1 <= M.

Definition dval (v : json) : Prop := json_depth v <= M.
Definition dbs (bs : bindings) : Prop := forall k v, lookup k bs = Some v -> dval v.

Lemma dval_elem x l : dval (JArr l) -> In x l -> dval x.
Proof. unfold dval. intros H Hin. pose proof (depth_elem_lt x l Hin). lia. Qed.
Lemma dval_val k v kvs : dval (JObj kvs) -> In (k, v) kvs -> dval v.
Proof. unfold dval. intros H Hin. pose proof (depth_val_lt k v kvs Hin). lia. Qed.
Lemma dval_scalar v : is_scalar v = true -> dval v.
Proof. unfold dval. destruct v; cbn; intros H; try discriminate; exact M_pos. Qed.

Lemma dbs_bset k v bs : dbs bs -> dval v -> dbs (bset k v bs).
Proof.
  intros Hb Hv k' v'. rewrite lookup_bset. destruct (String.eqb k' k).
  - intros [= <-]. exact Hv.
  - apply Hb.
Qed.

(** * Results only ever bind message parts: their depth stays bounded *)
Definition keeps (rec : rec_t) : Prop :=
  forall p f bs r, dval f -> dbs bs -> rec p f bs = Ok r -> forall b, In b r -> dbs b.

Section KeepsHelpers.
Variable rec : rec_t.
Hypothesis Hk : keeps rec.

Lemma mwb_keeps bss p f r :
  dval f -> (forall b, In b bss -> dbs b) -> mwb rec bss p f = Ok r -> forall b, In b r -> dbs b.
Proof.
  intros Hf Hb Hm b Hin. destruct (mwb_inv rec bss p f r b Hm Hin) as [bs [a [H1 [H2 H3]]]].
  exact (Hk p f bs a Hf (Hb bs H1) H2 b H3).
Qed.

Lemma mapcat_keeps fkvs (Hf : dval (JObj fkvs)) :
  forall kvs bss r, (forall b, In b bss -> dbs b) -> mapcat rec bss kvs fkvs = Ok r ->
                    forall b, In b r -> dbs b.
Proof.
  induction kvs as [|[k v] kvs IH]; intros bss r Hb; cbn [mapcat].
  - intros [= <-]. exact Hb.
  - destruct (assoc k fkvs) as [fv|] eqn:Ea.
    + destruct (mwb rec bss v fv) as [acc| |] eqn:Em; try discriminate.
      destruct acc as [|a0 acc]; [intros [= <-] ? []|].
      apply IH. eapply mwb_keeps; [|exact Hb | exact Em].
      eapply dval_val; [exact Hf | eapply assoc_in; exact Ea].
    + destruct (is_optional_json v); [apply IH; exact Hb | intros [= <-] ? []].
Qed.

Lemma propvar_loop_keeps bss k v (Hb : forall b, In b bss -> dbs b) :
  forall fkvs r, (forall fk fv, In (fk, fv) fkvs -> dval fv) ->
                 propvar_loop rec bss k v fkvs = Ok r -> forall b, In b r -> dbs b.
Proof.
  induction fkvs as [|[fk fv] fkvs IH]; intros r Hg; cbn [propvar_loop]; [intros [= <-] ? []|].
  assert (Hg' : forall fk' fv', In (fk', fv') fkvs -> dval fv') by (intros; eapply Hg; right; eassumption).
  destruct (mwb rec bss (JStr k) (JStr fk)) as [ext| |] eqn:E1; try discriminate.
  destruct ext as [|e0 ext]; [apply IH; exact Hg'|].
  destruct (mwb rec (e0 :: ext) v fv) as [ext2| |] eqn:E2; try discriminate.
  destruct (propvar_loop rec bss k v fkvs) as [g| |] eqn:E3; try discriminate.
  intros [= <-] b Hin. apply in_app_iff in Hin. destruct Hin as [Hin | Hin].
  - eapply mwb_keeps; [| |exact E2 | exact Hin].
    + eapply Hg. left. reflexivity.
    + eapply mwb_keeps; [|exact Hb | exact E1]. unfold dval. cbn. exact M_pos.
  - eapply IH; [exact Hg' | reflexivity | exact Hin].
Qed.

Lemma match_obj_keeps bs kvs fkvs r :
  dval (JObj fkvs) -> dbs bs -> match_obj ord rec bs kvs fkvs = Ok r -> forall b, In b r -> dbs b.
Proof.
  intros Hf Hb. unfold match_obj.
  assert (Hbs : forall b, In b [bs] -> dbs b) by (intros b [<- | []]; exact Hb).
  destruct kvs as [|[k v] [|kv2 kvs]].
  - intros [= <-]. exact Hbs.
  - destruct (is_var k).
    + destruct allow_property_variables; [|discriminate]. unfold propvar.
      apply propvar_loop_keeps; [exact Hbs|].
      intros fk fv Hin. eapply dval_val; [exact Hf|].
      eapply Permutation_in; [apply ord_perm | exact Hin].
    + apply mapcat_keeps; assumption.
  - destruct (check_bad_property_variables && has_var_key ((k, v) :: kv2 :: kvs)); [discriminate|].
    destruct (has_var_key ((k, v) :: kv2 :: kvs)); [discriminate|].
    apply mapcat_keeps; assumption.
Qed.

Definition pair_ok (pr : pair_t) : Prop :=
  (forall b, In b (fst pr) -> dbs b) /\ (forall j fact, In (j, fact) (snd pr) -> dval fact).

Lemma arraycat_keeps x pairs np :
  (forall pr, In pr pairs -> pair_ok pr) -> arraycat ord rec pairs x = Ok np ->
  forall pr, In pr np -> pair_ok pr.
Proof.
  intros Hg Hac [acc mm2] Hpr.
  destruct (arraycat_inv ord ord_perm rec x pairs np acc mm2 Hac Hpr)
    as (bss & mm & j & fact & H1 & H2 & H3 & H4 & ->).
  destruct (Hg _ H1) as [Hg1 Hg2]. cbn [fst snd] in Hg1, Hg2. split; cbn [fst snd].
  - eapply mwb_keeps; [eapply Hg2; exact H2 | exact Hg1 | exact H3].
  - intros j' fact' H'. eapply Hg2. eapply remove_idx_in. exact H'.
Qed.

Lemma arr_loop_keeps fe :
  forall cs fxs pairs fxs' pairs',
    (forall pr, In pr pairs -> pair_ok pr) ->
    arr_loop ord rec fe cs fxs pairs = Ok (Some (fxs', pairs')) ->
    (forall pr, In pr pairs' -> pair_ok pr) /\ incl fxs' fxs.
Proof.
  induction cs as [|x cs IH]; intros fxs pairs fxs' pairs' Hg; cbn [arr_loop].
  - intros [= <- <-]. split; [exact Hg | apply incl_refl].
  - destruct (is_scalar x).
    + destruct (jmem x fxs); [|discriminate]. intros H.
      destruct (IH _ _ _ _ Hg H) as [H1 H2]. split; [exact H1|].
      intros y Hy. apply H2 in Hy. apply jremove_in in Hy. tauto.
    + destruct fe; [discriminate|].
      destruct (arraycat ord rec pairs x) as [np| |] eqn:Eac; try discriminate.
      destruct np as [|p0 np]; [discriminate|]. intros H.
      eapply IH; [|exact H]. eapply arraycat_keeps; eassumption.
Qed.

Lemma combine_pairs_ok pairs :
  (forall pr, In pr pairs -> pair_ok pr) -> forall b, In b (combine_pairs pairs) -> dbs b.
Proof.
  intros Hg b Hin. unfold combine_pairs in Hin. apply in_concat in Hin.
  destruct Hin as [l [Hl Hb]]. apply in_map_iff in Hl. destruct Hl as [pr [<- Hpr]].
  exact (proj1 (Hg pr Hpr) b Hb).
Qed.

Lemma match_arr_keeps bs xs f r :
  dval f -> dbs bs -> match_arr ord rec bs xs f = Ok r -> forall b, In b r -> dbs b.
Proof.
  intros Hf Hb. unfold match_arr.
  destruct (get_var xs None) as [[v cs]|]; [|discriminate].
  destruct f as [| | | | fa |]; try (intros [= <-] ? []).
  destruct (index_facts 0 fa) as [fxs fxa] eqn:Ei.
  destruct (index_facts_spec _ _ _ _ Ei) as [Hfxs [Hfxa _]].
  assert (Hg0 : forall pr, In pr [([bs], fxa)] -> pair_ok pr).
  { intros pr [<- | []]. split; cbn [fst snd].
    - intros b [<- | []]. exact Hb.
    - intros j fact Hj.
      assert (H : In fact (map snd fxa)) by (apply in_map_iff; exists (j, fact); auto).
      rewrite Hfxa in H. apply filter_In in H. eapply dval_elem; [exact Hf | tauto]. }
  destruct (arr_loop ord rec match fxa with [] => true | _ :: _ => false end cs fxs [([bs], fxa)])
    as [[[fxs' pairs]|]| |] eqn:El; try discriminate; [|intros [= <-] ? []].
  destruct (arr_loop_keeps _ _ _ _ _ _ Hg0 El) as [Hg1 Hsub].
  set (merged := map (fun pr : pair_t => (fst pr, snd pr ++ number_from (List.length fa) fxs')) pairs).
  assert (Hgm : forall pr, In pr merged -> pair_ok pr).
  { intros mpr Hmpr. apply in_map_iff in Hmpr. destruct Hmpr as [pr [<- Hpr]].
    destruct (Hg1 pr Hpr) as [G1 G2]. split; cbn [fst snd]; [exact G1|].
    intros j fact Hj. apply in_app_iff in Hj. destruct Hj as [Hj | Hj]; [eapply G2; exact Hj|].
    apply number_from_in in Hj. apply Hsub in Hj.
    eapply dval_elem; [exact Hf | apply Hfxs; exact Hj]. }
  destruct v as [vname|]; [|intros [= <-]; apply combine_pairs_ok; exact Hgm].
  destruct (arraycat ord rec merged (JStr vname)) as [np| |] eqn:Eac; try discriminate.
  destruct np as [|p0 np].
  - destruct (is_optional vname); [intros [= <-]; apply combine_pairs_ok; exact Hgm | intros [= <-] ? []].
  - intros [= <-]. apply combine_pairs_ok. eapply arraycat_keeps; eassumption.
Qed.
End KeepsHelpers.

Lemma inequal_keeps f bs v r :
  dbs bs -> inequal f bs v = Using r -> forall b, In b r -> dbs b.
Proof.
  intros Hb. unfold inequal. destruct (negb inequalities); [discriminate|].
  destruct (lookup v bs) as [[| | b0 | | |]|]; try discriminate.
  destruct f as [| | a | | |]; try discriminate.
  destruct (ineq_parse v) as [[op vv]|]; [|discriminate].
  destruct (sat op a b0); [|intros [= <-] ? []].
  destruct (lookup vv bs) as [[| | c | | |]|]; try discriminate.
  - destruct (Z.eqb c a); intros [= <-] b Hin; [destruct Hin as [<- | []]; exact Hb | destruct Hin].
  - intros [= <-] b [<- | []]. apply dbs_bset; [exact Hb|]. unfold dval. cbn. exact M_pos.
Qed.

Ltac fin_keeps Hm Hone := inversion Hm; subst; first [exact Hone | intros ? []].

Theorem match_keeps : forall n, keeps (match_ ord n).
Proof.
  induction n as [|n IH]; intros p f bs r Hf Hb Hm; [discriminate|].
  cbn [match_] in Hm.
  assert (Hone : forall b, In b [bs] -> dbs b) by (intros b [<- | []]; exact Hb).
  destruct p as [|x|x|s|xs|kvs].
  - destruct f; fin_keeps Hm Hone.
  - destruct f as [|y| | | |]; try (fin_keeps Hm Hone).
    destruct (Bool.eqb x y); fin_keeps Hm Hone.
  - destruct f as [| |y| | |]; try (fin_keeps Hm Hone).
    destruct (Z.eqb x y); fin_keeps Hm Hone.
  - destruct (is_var s).
    + destruct (is_anon s); [fin_keeps Hm Hone|].
      destruct (inequal f bs s) as [|r0] eqn:Ei.
      * destruct (lookup s bs) as [b0|] eqn:El.
        -- unfold bound_match in Hm. destruct b0 as [| | |t| |]; try exact (IH _ _ _ _ Hf Hb Hm).
           destruct (is_var t); [|exact (IH _ _ _ _ Hf Hb Hm)].
           destruct f as [| | |u| |]; try (fin_keeps Hm Hone).
           destruct (String.eqb t u); fin_keeps Hm Hone.
        -- inversion Hm; subst. intros b [<- | []]. apply dbs_bset; assumption.
      * inversion Hm; subst. eapply inequal_keeps; eassumption.
    + destruct f as [| | |t| |]; try (fin_keeps Hm Hone).
      destruct (String.eqb s t); fin_keeps Hm Hone.
  - eapply match_arr_keeps; eassumption.
  - destruct f as [| | | | |fkvs]; try (fin_keeps Hm Hone).
    eapply match_obj_keeps; eassumption.
Qed.

(** * Enough fuel *)
Definition is_var_json (p : json) : bool := match p with JStr s => is_var s | _ => false end.
Definition need (p : json) (d : nat) : nat :=
  json_depth p + d * S M + (if is_var_json p then S M else 0).

Lemma need_mono p d d' : d <= d' -> need p d <= need p d'.
Proof. unfold need. intros H. nia. Qed.

Definition nofuel (rec : rec_t) (n : nat) : Prop :=
  forall p f bs, dval f -> dbs bs -> need p (json_depth f) <= n -> rec p f bs <> Fuel.

Section NfHelpers.
Variable rec : rec_t.
Variable n : nat.
Hypothesis Hk : keeps rec.
Hypothesis Hnf : nofuel rec n.

Lemma mwb_nf' bss p f :
  dval f -> need p (json_depth f) <= n -> (forall b, In b bss -> dbs b) -> mwb rec bss p f <> Fuel.
Proof.
  intros Hf Hc. induction bss as [|bs bss IH]; intros Hb; cbn [mwb]; [discriminate|].
  pose proof (Hnf p f bs Hf (Hb bs (or_introl eq_refl)) Hc) as H1.
  destruct (rec p f bs); [| discriminate | contradiction H1; reflexivity].
  assert (H2 : mwb rec bss p f <> Fuel) by (apply IH; intros b H; apply Hb; right; exact H).
  destruct (mwb rec bss p f); [discriminate | discriminate | contradiction H2; reflexivity].
Qed.

Lemma mapcat_nf' fkvs (Hf : dval (JObj fkvs)) :
  forall kvs bss,
    (forall k v, In (k, v) kvs -> need v (json_depth (JObj fkvs) - 1) <= n) ->
    (forall b, In b bss -> dbs b) -> mapcat rec bss kvs fkvs <> Fuel.
Proof.
  induction kvs as [|[k v] kvs IH]; intros bss Hc Hb; cbn [mapcat]; [discriminate|].
  assert (Hc' : forall k0 v0, In (k0, v0) kvs -> need v0 (json_depth (JObj fkvs) - 1) <= n)
    by (intros; eapply Hc; right; eassumption).
  destruct (assoc k fkvs) as [fv|] eqn:Ea.
  - apply assoc_in in Ea. pose proof (depth_val_lt _ _ _ Ea) as Hd.
    assert (Hfv : dval fv) by (eapply dval_val; eassumption).
    assert (Hn : need v (json_depth fv) <= n).
    { eapply Nat.le_trans; [apply need_mono | exact (Hc k v (or_introl eq_refl))]. lia. }
    pose proof (mwb_nf' bss v fv Hfv Hn Hb) as H1.
    destruct (mwb rec bss v fv) as [acc| |] eqn:Em; [| discriminate | contradiction H1; reflexivity].
    destruct acc as [|a0 acc]; [discriminate|].
    apply IH; [exact Hc'|]. eapply mwb_keeps; eassumption.
  - destruct (is_optional_json v); [apply IH; assumption | discriminate].
Qed.

Lemma propvar_loop_nf' bss k v D :
  need (JStr k) 1 <= n -> need v (D - 1) <= n -> (forall b, In b bss -> dbs b) ->
  forall fkvs, (forall fk fv, In (fk, fv) fkvs -> dval fv /\ json_depth fv <= D - 1) ->
               propvar_loop rec bss k v fkvs <> Fuel.
Proof.
  intros Hck Hcv Hb. induction fkvs as [|[fk fv] fkvs IH]; intros Hg; cbn [propvar_loop]; [discriminate|].
  destruct (Hg fk fv (or_introl eq_refl)) as [Hgv Hdv].
  assert (IH' : propvar_loop rec bss k v fkvs <> Fuel)
    by (apply IH; intros fk' fv' H'; apply (Hg fk' fv'); right; exact H').
  assert (Hkd : dval (JStr fk)) by (unfold dval; cbn; exact M_pos).
  pose proof (mwb_nf' bss (JStr k) (JStr fk) Hkd Hck Hb) as H1.
  destruct (mwb rec bss (JStr k) (JStr fk)) as [ext| |] eqn:E1;
    [| discriminate | contradiction H1; reflexivity].
  destruct ext as [|e0 ext]; [exact IH'|].
  assert (Hn : need v (json_depth fv) <= n) by (eapply Nat.le_trans; [apply need_mono; exact Hdv | exact Hcv]).
  pose proof (mwb_nf' (e0 :: ext) v fv Hgv Hn (mwb_keeps rec Hk _ _ _ _ Hkd Hb E1)) as H2.
  destruct (mwb rec (e0 :: ext) v fv); [| discriminate | contradiction H2; reflexivity].
  destruct (propvar_loop rec bss k v fkvs); [discriminate | discriminate | contradiction IH'; reflexivity].
Qed.

Lemma need_child p c d :
  json_depth c < json_depth p -> is_var_json p = false -> 1 <= d ->
  need p d <= S n -> need c (d - 1) <= n.
Proof.
  unfold need. intros Hc Hp Hd H. rewrite Hp in H.
  destruct (is_var_json c); nia.
Qed.

Lemma match_obj_nf' bs kvs fkvs :
  dval (JObj fkvs) -> dbs bs -> need (JObj kvs) (json_depth (JObj fkvs)) <= S n ->
  match_obj ord rec bs kvs fkvs <> Fuel.
Proof.
  intros Hf Hb Hc. unfold match_obj.
  assert (Hbs : forall b, In b [bs] -> dbs b) by (intros b [<- | []]; exact Hb).
  pose proof (depth_pos (JObj fkvs)) as HD.
  assert (Hchild : forall k v, In (k, v) kvs -> need v (json_depth (JObj fkvs) - 1) <= n).
  { intros k v Hin. eapply need_child; [eapply depth_val_lt; exact Hin | reflexivity | exact HD | exact Hc]. }
  destruct kvs as [|[k v] [|kv2 kvs]]; [discriminate | |].
  - destruct (is_var k) eqn:Ek.
    + destruct allow_property_variables; [|discriminate]. unfold propvar.
      destruct fkvs as [|fkv0 fkvs0] eqn:Efk.
      { (* nothing to loop over: the oracle returns a permutation of [] *)
        pose proof (ord_perm _ (@nil (string * json))) as HP. apply Permutation_sym, Permutation_nil in HP.
        rewrite HP. discriminate. }
      rewrite <- Efk in *.
      assert (HD2 : 2 <= json_depth (JObj fkvs)).
      { rewrite Efk. destruct fkv0 as [fk0 fv0].
        pose proof (depth_val_lt fk0 fv0 (((fk0, fv0)) :: fkvs0) (or_introl eq_refl)).
        pose proof (depth_pos fv0). lia. }
      apply (propvar_loop_nf' [bs] k v (json_depth (JObj fkvs))).
      * unfold need in *. cbn [json_depth is_var_json] in *. rewrite Ek.
        pose proof (depth_val_lt k v [(k, v)] (or_introl eq_refl)) as Hv. pose proof (depth_pos v).
        cbn [json_depth] in Hv. nia.
      * apply (Hchild k v). left. reflexivity.
      * exact Hbs.
      * intros fk fv Hin.
        assert (Hin' : In (fk, fv) fkvs) by (eapply Permutation_in; [apply ord_perm | exact Hin]).
        split; [eapply dval_val; eassumption|]. pose proof (depth_val_lt _ _ _ Hin'). lia.
    + apply mapcat_nf'; assumption.
  - destruct (check_bad_property_variables && has_var_key ((k, v) :: kv2 :: kvs)); [discriminate|].
    destruct (has_var_key ((k, v) :: kv2 :: kvs)); [discriminate|].
    apply mapcat_nf'; [exact Hf | | exact Hbs].
    intros k0 v0 H0. apply (proj1 (sort_kvs_in _ _)) in H0. eapply Hchild. exact H0.
Qed.

Lemma try_each_nf' bss x mm_all D :
  need x D <= n -> (forall b, In b bss -> dbs b) ->
  forall mm, (forall j fact, In (j, fact) mm -> dval fact /\ json_depth fact <= D) ->
             try_each rec bss x mm_all mm <> Fuel.
Proof.
  intros Hc Hb. induction mm as [|[j fact] mm IH]; intros Hg; cbn [try_each]; [discriminate|].
  destruct (Hg j fact (or_introl eq_refl)) as [Hfd Hfl].
  assert (Hn : need x (json_depth fact) <= n) by (eapply Nat.le_trans; [apply need_mono; exact Hfl | exact Hc]).
  pose proof (mwb_nf' bss x fact Hfd Hn Hb) as H1.
  destruct (mwb rec bss x fact); [| discriminate | contradiction H1; reflexivity].
  assert (H2 : try_each rec bss x mm_all mm <> Fuel) by (apply IH; intros; eapply Hg; right; eassumption).
  destruct (try_each rec bss x mm_all mm); [discriminate | discriminate | contradiction H2; reflexivity].
Qed.

Definition pair_ok_d (D : nat) (pr : pair_t) : Prop :=
  (forall b, In b (fst pr) -> dbs b) /\
  (forall j fact, In (j, fact) (snd pr) -> dval fact /\ json_depth fact <= D).

Lemma pair_ok_d_ok D pr : pair_ok_d D pr -> pair_ok pr.
Proof. intros [H1 H2]. split; [exact H1 | intros j fact H; exact (proj1 (H2 j fact H))]. Qed.

Lemma arraycat_nf' x D :
  need x D <= n -> forall pairs, (forall pr, In pr pairs -> pair_ok_d D pr) ->
                                 arraycat ord rec pairs x <> Fuel.
Proof.
  intros Hc. induction pairs as [|[bss mm] pairs IH]; intros Hg; cbn [arraycat]; [discriminate|].
  destruct (Hg _ (or_introl eq_refl)) as [Hg1 Hg2]. cbn [fst snd] in Hg1, Hg2.
  assert (H1 : try_each rec bss x mm (ord _ mm) <> Fuel).
  { eapply try_each_nf'; [exact Hc | exact Hg1|]. intros j fact Hin. eapply Hg2.
    eapply Permutation_in; [apply ord_perm | exact Hin]. }
  destruct (try_each rec bss x mm (ord _ mm)); [| discriminate | contradiction H1; reflexivity].
  assert (H2 : arraycat ord rec pairs x <> Fuel) by (apply IH; intros; apply Hg; right; assumption).
  destruct (arraycat ord rec pairs x); [discriminate | discriminate | contradiction H2; reflexivity].
Qed.

Lemma arraycat_keeps_d x D pairs np :
  (forall pr, In pr pairs -> pair_ok_d D pr) -> arraycat ord rec pairs x = Ok np ->
  forall pr, In pr np -> pair_ok_d D pr.
Proof.
  intros Hg Hac [acc mm2] Hpr.
  destruct (arraycat_inv ord ord_perm rec x pairs np acc mm2 Hac Hpr)
    as (bss & mm & j & fact & H1 & H2 & H3 & H4 & ->).
  destruct (Hg _ H1) as [Hg1 Hg2]. cbn [fst snd] in Hg1, Hg2. split; cbn [fst snd].
  - eapply mwb_keeps; [exact Hk | exact (proj1 (Hg2 _ _ H2)) | exact Hg1 | exact H3].
  - intros j' fact' H'. eapply Hg2. eapply remove_idx_in. exact H'.
Qed.

Lemma arr_loop_nf' fe D :
  forall cs fxs pairs,
    (forall x, In x cs -> need x D <= n) -> (forall pr, In pr pairs -> pair_ok_d D pr) ->
    arr_loop ord rec fe cs fxs pairs <> Fuel.
Proof.
  induction cs as [|x cs IH]; intros fxs pairs Hc Hg; cbn [arr_loop]; [discriminate|].
  assert (Hc' : forall x0, In x0 cs -> need x0 D <= n) by (intros; apply Hc; right; assumption).
  destruct (is_scalar x).
  - destruct (jmem x fxs); [apply IH; assumption | discriminate].
  - destruct fe; [discriminate|].
    pose proof (arraycat_nf' x D (Hc x (or_introl eq_refl)) pairs Hg) as H1.
    destruct (arraycat ord rec pairs x) as [np| |] eqn:Eac;
      [| discriminate | contradiction H1; reflexivity].
    destruct np as [|p0 np]; [discriminate|].
    apply IH; [exact Hc'|]. eapply arraycat_keeps_d; eassumption.
Qed.

Lemma arr_loop_keeps_d fe D :
  forall cs fxs pairs fxs' pairs',
    (forall pr, In pr pairs -> pair_ok_d D pr) ->
    arr_loop ord rec fe cs fxs pairs = Ok (Some (fxs', pairs')) ->
    (forall pr, In pr pairs' -> pair_ok_d D pr) /\ incl fxs' fxs.
Proof.
  induction cs as [|x cs IH]; intros fxs pairs fxs' pairs' Hg; cbn [arr_loop].
  - intros [= <- <-]. split; [exact Hg | apply incl_refl].
  - destruct (is_scalar x).
    + destruct (jmem x fxs); [|discriminate]. intros H.
      destruct (IH _ _ _ _ Hg H) as [H1 H2]. split; [exact H1|].
      intros y Hy. apply H2 in Hy. apply jremove_in in Hy. tauto.
    + destruct fe; [discriminate|].
      destruct (arraycat ord rec pairs x) as [np| |] eqn:Eac; try discriminate.
      destruct np as [|p0 np]; [discriminate|]. intros H.
      eapply IH; [|exact H]. eapply arraycat_keeps_d; eassumption.
Qed.

Lemma match_arr_nf' bs xs f :
  dval f -> dbs bs -> need (JArr xs) (json_depth f) <= S n -> match_arr ord rec bs xs f <> Fuel.
Proof.
  intros Hf Hb Hc. unfold match_arr.
  destruct (get_var xs None) as [[v cs]|] eqn:Eg; [|discriminate].
  destruct f as [| | | | fa |]; try discriminate.
  destruct (index_facts 0 fa) as [fxs fxa] eqn:Ei.
  destruct (get_var_spec _ _ _ _ Eg) as [Hnv Hcase].
  destruct (index_facts_spec _ _ _ _ Ei) as [Hfxs [Hfxa _]].
  set (D := json_depth (JArr fa) - 1).
  pose proof (depth_pos (JArr fa)) as HD.
  assert (Helem : forall y, In y fa -> dval y /\ json_depth y <= D).
  { intros y Hy. split; [eapply dval_elem; eassumption|]. pose proof (depth_elem_lt y fa Hy). unfold D. lia. }
  assert (Hcsxs : forall x, In x cs -> In x xs).
  { destruct Hcase as [[_ ->] | [_ [s [_ [_ HP]]]]]; [auto|].
    intros x Hx. eapply Permutation_in; [apply Permutation_sym; exact HP|]. right. exact Hx. }
  assert (Hg0 : forall pr, In pr [([bs], fxa)] -> pair_ok_d D pr).
  { intros pr [<- | []]. split; cbn [fst snd].
    - intros b [<- | []]. exact Hb.
    - intros j fact Hj.
      assert (H : In fact (map snd fxa)) by (apply in_map_iff; exists (j, fact); auto).
      rewrite Hfxa in H. apply filter_In in H. apply Helem. tauto. }
  assert (Hccs : forall x, In x cs -> need x D <= n).
  { intros x Hx. unfold D. eapply need_child; [apply depth_elem_lt; apply Hcsxs; exact Hx | reflexivity | exact HD | exact Hc]. }
  pose proof (arr_loop_nf' match fxa with [] => true | _ :: _ => false end D cs fxs _ Hccs Hg0) as H1.
  destruct (arr_loop ord rec match fxa with [] => true | _ :: _ => false end cs fxs [([bs], fxa)])
    as [[[fxs' pairs]|]| |] eqn:El; [| discriminate | discriminate | contradiction H1; reflexivity].
  destruct v as [vname|]; [|discriminate].
  destruct (arr_loop_keeps_d _ _ _ _ _ _ _ Hg0 El) as [Hg1 Hsub].
  match goal with
  | |- match ?X with _ => _ end <> _ => assert (H2 : X <> Fuel)
  end.
  { apply (arraycat_nf' (JStr vname) D).
    - destruct Hcase as [[Habs _] | [_ [s [Ev [Hsv HP]]]]]; [discriminate|].
      injection Ev as ->.
      assert (Hin : In (JStr s) xs) by (eapply Permutation_in; [apply Permutation_sym; exact HP | left; reflexivity]).
      unfold D. eapply need_child; [apply depth_elem_lt; exact Hin | reflexivity | exact HD | exact Hc].
    - intros mpr Hmpr. apply in_map_iff in Hmpr. destruct Hmpr as [pr [<- Hpr]].
      destruct (Hg1 pr Hpr) as [G1 G2]. split; cbn [fst snd]; [exact G1|].
      intros j fact Hj. apply in_app_iff in Hj. destruct Hj as [Hj | Hj]; [eapply G2; exact Hj|].
      apply number_from_in in Hj. apply Hsub in Hj. apply Helem. apply Hfxs. exact Hj. }
  match goal with
  | |- match ?X with _ => _ end <> _ => destruct X as [np| |]
  end; [| discriminate | contradiction H2; reflexivity].
  destruct np; [destruct (is_optional vname)|]; discriminate.
Qed.
End NfHelpers.

Theorem match_nofuel : forall n, nofuel (match_ ord n) n.
Proof.
  induction n as [|n IH]; intros p f bs Hf Hb Hc.
  - unfold need in Hc. pose proof (depth_pos p). lia.
  - cbn [match_]. pose proof (match_keeps n) as Hkn.
    destruct p as [|x|x|s|xs|kvs].
    + destruct f; discriminate.
    + destruct f; try discriminate. destruct (Bool.eqb x b); discriminate.
    + destruct f; try discriminate. destruct (Z.eqb x z); discriminate.
    + destruct (is_var s) eqn:Ev.
      * destruct (is_anon s); [discriminate|].
        destruct (inequal f bs s); [|discriminate].
        destruct (lookup s bs) as [b|] eqn:El; [|discriminate].
        pose proof (Hb _ _ El) as Hbd. unfold dval in Hbd.
        assert (Hgo : forall q, is_var_json q = false -> json_depth q <= M -> match_ ord n q f bs <> Fuel).
        { intros q Hq Hqd. apply IH; [exact Hf | exact Hb|].
          unfold need in *. cbn [json_depth is_var_json] in Hc. rewrite Ev in Hc. rewrite Hq. lia. }
        unfold bound_match. destruct b as [| | |t| |]; try (apply Hgo; [reflexivity | exact Hbd]).
        destruct (is_var t) eqn:Et; [|apply Hgo; [cbn; exact Et | exact Hbd]].
        destruct f; try discriminate. destruct (String.eqb t s0); discriminate.
      * destruct f; try discriminate. destruct (String.eqb s s0); discriminate.
    + apply (match_arr_nf' (match_ ord n) n Hkn IH); assumption.
    + destruct f; try discriminate. apply (match_obj_nf' (match_ ord n) n Hkn IH); assumption.
Qed.
End Term.

(** * The statement used by Properties/C07.v *)
Definition depth_all (f : json) (bs : bindings) : nat := Nat.max (json_depth f) (depth_bs bs).

Definition match_fuel_for (p f : json) (bs : bindings) : nat :=
  let M := depth_all f bs in
  json_depth p + json_depth f * S M + S M.

Theorem match_terminates :
  forall ord, perm_oracle ord ->
  forall p f bs fuel, match_fuel_for p f bs <= fuel -> match_ ord fuel p f bs <> Fuel.
Proof.
  intros ord Hord p f bs fuel Hle.
  set (M := depth_all f bs).
  assert (HM : 1 <= M) by (unfold M, depth_all; pose proof (depth_pos f); lia).
  apply (match_nofuel ord Hord M HM fuel).
  - unfold dval, M, depth_all. lia.
  - intros k v Hl. apply lookup_in in Hl. pose proof (depth_bs_in k v bs Hl). unfold dval, M, depth_all. lia.
  - unfold need. unfold match_fuel_for in Hle. fold M in Hle. destruct (is_var_json p); lia.
Qed.
