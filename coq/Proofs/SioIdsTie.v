(** C14/C15/C17: the ids of sio's two service machines.

    Model/SioCrew.v's [timers_id] and [captain_id] are the values
    sio.TimersMachine and sio.CaptainMachine are declared with in the source
    of the tree under test (Gen/Names.v, written by harness/cmd/genconsts on
    every run).  The documentation addresses the two machines as "timers" and
    "captain" (sio/siostd/README.md: {"to":"captain","update":...},
    {"to":"timers","makeTimer":...}; the timers machine's state is persisted
    under the id "timers"), and the examples of Properties/C14.v and C15.v
    write those ids in their messages.  Here: the ids read from the source
    are the documented ones, and they differ (a crew has two service
    machines, [is_service] is a disjunction of two different tests).  An edit
    of either declaration in the source changes Gen/Names.v and this proof no
    longer goes through. *)
From Coq Require Import String.
From Sheens Require Import Model.SioCrew.
Open Scope string_scope.

Theorem service_ids_documented :
  timers_id = "timers" /\ captain_id = "captain" /\ timers_id <> captain_id.
Proof. repeat split; try reflexivity. discriminate. Qed.

(** what the routing model derives from them *)
Theorem is_service_documented : forall m,
  is_service m = (String.eqb m "timers" || String.eqb m "captain")%bool.
Proof. intros m. reflexivity. Qed.
