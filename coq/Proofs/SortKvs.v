(** [sort_kvs] (insertion sort on the key with [String.leb]) only depends on
    the multiset of entries when the keys are pairwise distinct. *)
From Sheens Require Import Model.Match.
From Coq Require Import List Permutation String Ascii NArith.
Import ListNotations.

(** * [String.leb] is transitive *)

Lemma ascii_compare_lt_trans : forall a b c,
  Ascii.compare a b = Lt -> Ascii.compare b c = Lt -> Ascii.compare a c = Lt.
Proof.
  unfold Ascii.compare. intros a b c H1 H2.
  rewrite N.compare_lt_iff in *. eapply N.lt_trans; eassumption.
Qed.

Lemma string_compare_lt_trans : forall a b c,
  String.compare a b = Lt -> String.compare b c = Lt -> String.compare a c = Lt.
Proof.
  induction a as [|x a IH]; intros b c H1 H2; destruct b as [|y b], c as [|z c];
    cbn in *; try discriminate; try reflexivity.
  destruct (Ascii.compare x y) eqn:Exy; try discriminate;
  destruct (Ascii.compare y z) eqn:Eyz; try discriminate.
  - apply Ascii.compare_eq_iff in Exy. apply Ascii.compare_eq_iff in Eyz. subst.
    assert (Ascii.compare z z = Eq) as ->.
    { unfold Ascii.compare. apply N.compare_refl. }
    eapply IH; eassumption.
  - apply Ascii.compare_eq_iff in Exy. subst. rewrite Eyz. reflexivity.
  - apply Ascii.compare_eq_iff in Eyz. subst. rewrite Exy. reflexivity.
  - rewrite (ascii_compare_lt_trans _ _ _ Exy Eyz). reflexivity.
Qed.

Lemma string_leb_cases : forall a b,
  String.leb a b = true <-> (String.compare a b = Lt \/ a = b).
Proof.
  intros a b. unfold String.leb. split.
  - destruct (String.compare a b) eqn:E; intros H; try discriminate.
    + right. apply String.compare_eq_iff. exact E.
    + left. reflexivity.
  - intros [H | H].
    + rewrite H. reflexivity.
    + subst. pose proof (String.compare_antisym b b) as HA.
      destruct (String.compare b b) eqn:E; try reflexivity. discriminate HA.
Qed.

Lemma string_leb_trans : forall a b c,
  String.leb a b = true -> String.leb b c = true -> String.leb a c = true.
Proof.
  intros a b c H1 H2. rewrite string_leb_cases in *.
  destruct H1 as [H1 | ->]; destruct H2 as [H2 | ->]; auto.
  left. eapply string_compare_lt_trans; eassumption.
Qed.

(** * insertion commutes *)

Lemma insert_kv_comm : forall a b l,
  fst a <> fst b ->
  insert_kv a (insert_kv b l) = insert_kv b (insert_kv a l).
Proof.
  intros a b l Hne. induction l as [|c r IH]; cbn [insert_kv].
  - destruct (String.leb (fst a) (fst b)) eqn:Eab;
    destruct (String.leb (fst b) (fst a)) eqn:Eba; try reflexivity.
    + exfalso. apply Hne. apply String.leb_antisym; assumption.
    + exfalso. destruct (String.leb_total (fst a) (fst b)); congruence.
  - destruct (String.leb (fst b) (fst c)) eqn:Ebc;
    destruct (String.leb (fst a) (fst c)) eqn:Eac; cbn [insert_kv].
    + destruct (String.leb (fst a) (fst b)) eqn:Eab;
      destruct (String.leb (fst b) (fst a)) eqn:Eba.
      * exfalso. apply Hne. apply String.leb_antisym; assumption.
      * rewrite Ebc. reflexivity.
      * rewrite Eac. reflexivity.
      * exfalso. destruct (String.leb_total (fst a) (fst b)); congruence.
    + rewrite Ebc.
      destruct (String.leb (fst a) (fst b)) eqn:Eab.
      * exfalso. rewrite (string_leb_trans _ _ _ Eab Ebc) in Eac. discriminate.
      * rewrite Eac. reflexivity.
    + rewrite Eac.
      destruct (String.leb (fst b) (fst a)) eqn:Eba.
      * exfalso. rewrite (string_leb_trans _ _ _ Eba Eac) in Ebc. discriminate.
      * rewrite Ebc. reflexivity.
    + rewrite Eac, Ebc, IH. reflexivity.
Qed.

Lemma sort_kvs_perm : forall l l',
  Permutation l l' -> NoDup (map fst l) -> sort_kvs l = sort_kvs l'.
Proof.
  intros l l' HP. induction HP as [|x l l' HP IH|x y l|l l' l'' HP1 IH1 HP2 IH2];
    intros HND; cbn [sort_kvs fold_right] in *.
  - reflexivity.
  - inversion HND; subst. unfold sort_kvs in IH. rewrite IH; [reflexivity | assumption].
  - apply insert_kv_comm. cbn [map] in HND.
    inversion HND as [|? ? Hnin _]; subst.
    intros Heq. apply Hnin. left. symmetry. exact Heq.
  - rewrite IH1 by exact HND. apply IH2.
    eapply Permutation_NoDup; [|exact HND].
    apply Permutation_map. exact HP1.
Qed.

(** sorting only looks at the keys *)
Lemma insert_kv_Forall2 : forall (R : string * json -> string * json -> Prop) a b l m,
  (forall x y, R x y -> fst x = fst y) ->
  R a b -> Forall2 R l m -> Forall2 R (insert_kv a l) (insert_kv b m).
Proof.
  intros R a b l m HR Hab HF. induction HF as [|x y l m Hxy HF IH]; cbn [insert_kv].
  - constructor; [exact Hab | constructor].
  - rewrite <- (HR _ _ Hab), <- (HR _ _ Hxy).
    destruct (String.leb (fst a) (fst x)).
    + constructor; [exact Hab|]. constructor; assumption.
    + constructor; assumption.
Qed.

Lemma sort_kvs_Forall2 : forall (R : string * json -> string * json -> Prop) l m,
  (forall x y, R x y -> fst x = fst y) ->
  Forall2 R l m -> Forall2 R (sort_kvs l) (sort_kvs m).
Proof.
  intros R l m HR HF. induction HF as [|x y l m Hxy HF IH]; cbn [sort_kvs fold_right].
  - constructor.
  - apply insert_kv_Forall2; assumption.
Qed.

Lemma insert_kv_perm : forall a l, Permutation (insert_kv a l) (a :: l).
Proof.
  intros a l. induction l as [|c r IH]; cbn [insert_kv].
  - apply Permutation_refl.
  - destruct (String.leb (fst a) (fst c)).
    + apply Permutation_refl.
    + eapply perm_trans; [apply perm_skip; exact IH | apply perm_swap].
Qed.

Lemma sort_kvs_permutation : forall l, Permutation (sort_kvs l) l.
Proof.
  induction l as [|a l IH]; cbn [sort_kvs fold_right].
  - apply Permutation_refl.
  - eapply perm_trans; [apply insert_kv_perm | apply perm_skip; exact IH].
Qed.

(** * keys *)

Lemma nodup_keys_NoDup : forall ks, nodup_keys ks = true <-> NoDup ks.
Proof.
  induction ks as [|k r IH]; cbn [nodup_keys].
  - split; [constructor | reflexivity].
  - rewrite Bool.andb_true_iff, Bool.negb_true_iff, IH. split.
    + intros [Hex HND]. constructor; [|exact HND].
      intros Hin. assert (existsb (String.eqb k) r = true) as Ht; [|congruence].
      apply existsb_exists. exists k. split; [exact Hin | apply String.eqb_refl].
    + intros HND. inversion HND as [|? ? Hnin HND']; subst. split; [|exact HND'].
      destruct (existsb (String.eqb k) r) eqn:E; [|reflexivity].
      apply existsb_exists in E. destruct E as [x [Hx Hkx]].
      apply String.eqb_eq in Hkx. subst. contradiction.
Qed.

Lemma existsb_perm : forall A (f : A -> bool) l l',
  Permutation l l' -> existsb f l = existsb f l'.
Proof.
  intros A f l l' HP. induction HP; cbn [existsb].
  - reflexivity.
  - rewrite IHHP. reflexivity.
  - destruct (f x), (f y); reflexivity.
  - congruence.
Qed.
